package main

// Normalisation pre-pass: makes the fact queries insensitive to a family of harmless refactorings.
//   (a) named local closures (`f := func(){…}` assigned once) are substituted at `go f()`, `defer f()`
//       and where `f` is passed as an argument (the shared literal is reported once by all / allShallow);
//   (b) calls of same-package helper functions / methods that are not themselves anchored are followed, as
//       a block, by a copy of the helper's body with parameters (and receiver) replaced by the arguments;
//   (c) single-assignment locals bound to a pure index / slice / selector / binary expression are
//       replaced by that expression (copy propagation);
//   (d) names: parameters / named results / receivers of the anchored functions are renamed BY POSITION to
//       the names the queries use (canonParams), the fields of utils.channelWithContext BY TYPE
//       (canonFields), and the closure proxy's argument list BY ROLE (canonProxyArgs);
//   (e) shapes: local guard closures `failed(err)` (inlineGuards), immediately-invoked literals used as a
//       critical section (flattenIIFE), `for { if C { break }; … }` (loopConds) and
//       `len(strings.TrimSpace(E)) > 0` (trimLen) are rewritten to the plain form; a map walked through a
//       snapshot of its keys (`ks := …; for k := range M { ks = append(ks, k) }; for _, k := range ks { v := M[k]; … }`)
//       becomes the plain `for k, v := range M { … }` (fuseKeyLoops); a local closure without results that is
//       called as a plain statement `f(x)` is replaced by its body, parameters substituted (inlineLocalCalls).
// Every rewrite is behaviour-preserving on the analysed program, so a query that sees the rewritten tree
// sees the same behaviour. The pass only adds or substitutes syntax for the extractor's eyes; it never
// touches the repository.
//
// Names the queries still match LITERALLY (a harmless rename of one of these flips facts to false, which is
// the safe direction):
//   - locals of LinkMessage: `setErr`, `fatalErr`, `fatalErrLock`, `remoteID`, `wg`, `err`; of its request
//     handler: `req` (a local of the request loop), `res`, `function`, `errorType`, and the payload names
//     `b` / `v` that stPayloadOpaque looks for;
//   - locals of LinkStream: `decodeDone`, `decodeErr`, `requests`, `responses`, `msg`;
//   - locals of makeRPC's literal: `b`, `err`, `errorType`;
//   - locals of the registry walk: `functionField`, `functionType`, `prefix`, `contextType`;
//   - locals of convertValue (`dstSlice`, `elem`, `i`), of CallClosure (`closure`, `ok`), of the closure proxy
//     (`rcpRv`), the parameter `args` / local `functionType` of createClosure's wrapper;
//   - parameters of the anchored functions that are not in canonParamNames (Publish / Receive / Free / Close,
//     CallClosure, registerClosure's `fn`, findMethodByFunctionCallPathRecursively's `root`);
//   - all struct FIELD names other than channelWithContext's (`lock`, `channels`, `closed`, `closures`,
//     `closuresLock`, `remotes`, `remotesLock`, `hooks`, `local`, `wrappee`, `wrapper`, `Call`, `Value`, `Err`, …),
//     package-level names (`errorType`, `contextType`, `ErrClosed`, …) and function / method names.
// Already found by role in the queries themselves (not literal): callID, cmd, the res channel, closureID /
// freeClosure in makeRPC, resVar / errVar in the response loop, the path parameter and `parts` of the lookup.

import (
	"fmt"
	"go/ast"
	"go/parser"
	"go/token"
	"os"
	"strings"
)

var anchored = map[string]bool{
	"Publish": true, "Receive": true, "Free": true, "Close": true, "CallClosure": true, "registerClosure": true, "createClosure": true,
	"makeRPC": true, "implementRemoteStructRecursively": true, "findLocalFunctionToCallRecursively": true,
	"findMethodByFunctionCallPathRecursively": true, "convertValue": true, "LinkMessage": true, "LinkStream": true, "ForRemotes": true,
	"Call": true, "NewRegistry": true, "NewBroadcaster": true, "GetRemoteID": true, "Marshal": true, "Unmarshal": true,
}

func (s *src) normalize() {
	s.expanded = map[ast.Stmt]bool{}
	s.inlinedCalls = map[*ast.CallExpr]bool{}
	s.helpers = map[string]*ast.FuncDecl{}
	helpers := s.helpers
	for _, f := range s.files {
		for _, d := range f.Decls {
			if fd, ok := d.(*ast.FuncDecl); ok && fd.Body != nil && !anchored[fd.Name.Name] && !ast.IsExported(fd.Name.Name) {
				helpers[fd.Name.Name] = fd
			}
		}
	}
	// Names first: these steps follow the parser's identifier resolution (ast.Ident.Obj), which the copies
	// made by the later steps (print + re-parse) no longer carry.
	safely(s.canonFields)
	for _, f := range s.files {
		for _, d := range f.Decls {
			if fd, ok := d.(*ast.FuncDecl); ok && fd.Body != nil && anchored[fd.Name.Name] {
				safely(func() { s.canonParams(fd) })
			}
		}
	}
	safely(s.canonProxyArgs)
	for _, f := range s.files {
		for _, d := range f.Decls {
			fd, ok := d.(*ast.FuncDecl)
			if !ok || fd.Body == nil || !anchored[fd.Name.Name] {
				continue
			}
			for pass := 0; pass < 2; pass++ {
				safely(func() { s.flattenIIFE(fd.Body) })
				safely(func() { s.loopConds(fd.Body) })
				safely(func() { s.trimLen(fd.Body) })
				safely(func() { s.inlineGuards(fd.Body) })
				safely(func() { s.fuseKeyLoops(fd.Body) })
				safely(func() { s.inlineLocalCalls(fd) })
				s.inlineClosures(fd.Body)
				s.inlineHelpers(fd.Body, helpers)
				s.copyPropagate(fd.Body)
			}
		}
	}
}

// safely runs one normalisation step; a step that trips over syntax it did not expect is abandoned (the
// tree keeps whatever it had rewritten so far) instead of taking the extractor down.
func safely(step func()) {
	defer func() {
		if e := recover(); e != nil && os.Getenv("EXTRACT_DEBUG") != "" {
			fmt.Fprintln(os.Stderr, "extract: normalisation step abandoned:", e)
		}
	}()
	step()
}

// cloneExpr re-parses the printed form: a fresh copy with positions inside the original node's span is not
// needed, but queries compare positions (`before`), so copied nodes get the position of the use site.
func (s *src) cloneFuncLit(fl *ast.FuncLit, at token.Pos) *ast.FuncLit {
	e, err := parser.ParseExpr(s.strRaw(fl))
	if err != nil {
		return nil
	}
	c, ok := e.(*ast.FuncLit)
	if !ok {
		return nil
	}
	shift(c, at)
	return c
}

func (s *src) strRaw(n ast.Node) string {
	// like str but without whitespace normalisation
	var b strings.Builder
	printerFprint(&b, s.fset, n)
	return b.String()
}

// shift sets every position in the subtree to `at` + its offset order (monotone), so that source order
// relations between the copied statements and with the surrounding code stay meaningful.
func shift(n ast.Node, at token.Pos) {
	// all nodes of the copy are given the same position `at`; order inside the copy is not needed by the
	// queries that cross the boundary, and queries inside a copy use node identity / containment via Pos/End,
	// which we keep consistent by assigning a tiny unique increasing offset.
	off := token.Pos(0)
	ast.Inspect(n, func(m ast.Node) bool {
		if m == nil {
			return false
		}
		off++
		setPos(m, at)
		return true
	})
}

func (s *src) inlineClosures(body *ast.BlockStmt) {
	// name -> literal, for `name := func…` assigned exactly once in this body (any depth)
	lits := map[string]*ast.FuncLit{}
	count := map[string]int{}
	ast.Inspect(body, func(n ast.Node) bool {
		if a, ok := n.(*ast.AssignStmt); ok && len(a.Lhs) == 1 && len(a.Rhs) == 1 {
			if id, ok := a.Lhs[0].(*ast.Ident); ok {
				count[id.Name]++
				if fl, ok := a.Rhs[0].(*ast.FuncLit); ok && a.Tok == token.DEFINE {
					lits[id.Name] = fl
				}
			}
		}
		return true
	})
	for name := range lits {
		if count[name] != 1 || name == "setErr" {
			delete(lits, name)
		}
	}
	if len(lits) == 0 {
		return
	}
	ast.Inspect(body, func(n ast.Node) bool {
		switch v := n.(type) {
		case *ast.GoStmt:
			if id, ok := v.Call.Fun.(*ast.Ident); ok && len(v.Call.Args) == 0 {
				if fl, ok := lits[id.Name]; ok {
					v.Call.Fun = fl
				}
			}
		case *ast.DeferStmt:
			if id, ok := v.Call.Fun.(*ast.Ident); ok && len(v.Call.Args) == 0 {
				if fl, ok := lits[id.Name]; ok {
					v.Call.Fun = fl
				}
			}
		case *ast.ReturnStmt:
			// `f := func…; …; return f` / `return id, f, nil`: the queries look for the literal among the results
			for i, r := range v.Results {
				if id, ok := r.(*ast.Ident); ok {
					if fl, ok := lits[id.Name]; ok {
						v.Results[i] = fl
					}
				}
			}
		case *ast.CallExpr:
			// only where a query looks INTO the argument literals: the adapters LinkStream hands to LinkMessage
			if s.calleeIs(v, "LinkMessage") {
				for i, a := range v.Args {
					if id, ok := a.(*ast.Ident); ok {
						if fl, ok := lits[id.Name]; ok {
							v.Args[i] = fl
						}
					}
				}
			}
		}
		return true
	})
	// The definition stays where it is: the literal is now referenced twice (definition and use), and only
	// the definition's position contains it, which is what the position-based queries (`enclosing`,
	// `heldFor`) go by. The collectors `all` / `allShallow` return a node reached twice only once.
}

// inlineHelpers appends, after every statement that calls a helper, a block holding the helper's body with
// its parameters (and receiver) renamed to the argument expressions when those are simple.
func (s *src) inlineHelpers(body *ast.BlockStmt, helpers map[string]*ast.FuncDecl) {
	var rewrite func(list []ast.Stmt) []ast.Stmt
	expand := func(st ast.Stmt) []ast.Stmt {
		var extra []ast.Stmt
		var calls []*ast.CallExpr
		if s.expanded[st] { // second pass: the copy is already there
			return nil
		}
		s.expanded[st] = true
		switch v := st.(type) {
		case *ast.ExprStmt:
			if c, ok := v.X.(*ast.CallExpr); ok {
				calls = append(calls, c)
			}
		case *ast.AssignStmt:
			for _, r := range v.Rhs {
				if c, ok := r.(*ast.CallExpr); ok {
					calls = append(calls, c)
				}
			}
		case *ast.ReturnStmt:
			for _, r := range v.Results {
				if c, ok := r.(*ast.CallExpr); ok {
					calls = append(calls, c)
				}
			}
		}
		for _, c := range calls {
			name, recv := "", ast.Expr(nil)
			switch f := c.Fun.(type) {
			case *ast.Ident:
				name = f.Name
			case *ast.SelectorExpr:
				name, recv = f.Sel.Name, f.X
			case *ast.IndexExpr:
				if id, ok := f.X.(*ast.Ident); ok {
					name = id.Name
				}
			}
			h, ok := helpers[name]
			if !ok || h.Body == nil {
				continue
			}
			if (recv == nil) != (h.Recv == nil) {
				continue
			}
			blk := s.cloneBlock(h.Body, st.Pos())
			if blk == nil {
				continue
			}
			ren := map[string]string{}
			pi := 0
			for _, p := range h.Type.Params.List {
				for _, n := range p.Names {
					if pi < len(c.Args) {
						ren[n.Name] = s.str(c.Args[pi])
					}
					pi++
				}
			}
			if recv != nil && len(h.Recv.List) == 1 && len(h.Recv.List[0].Names) == 1 {
				ren[h.Recv.List[0].Names[0].Name] = s.str(recv)
			}
			renameIdents(blk, ren)
			extra = append(extra, blk)
			s.inlinedCalls[c] = true
		}
		return extra
	}
	rewrite = func(list []ast.Stmt) []ast.Stmt {
		var out []ast.Stmt
		for _, st := range list {
			out = append(out, st)
			if _, isBlk := st.(*ast.BlockStmt); !isBlk {
				out = append(out, expand(st)...)
			}
		}
		return out
	}
	ast.Inspect(body, func(n ast.Node) bool {
		switch v := n.(type) {
		case *ast.BlockStmt:
			if !v.Lbrace.IsValid() || v.Lbrace != token.Pos(1) { // not one of our inserted copies
				v.List = rewrite(v.List)
			}
		case *ast.CaseClause:
			v.Body = rewrite(v.Body)
		case *ast.CommClause:
			v.Body = rewrite(v.Body)
		}
		return true
	})
}

func (s *src) cloneBlock(b *ast.BlockStmt, at token.Pos) *ast.BlockStmt {
	e, err := parser.ParseExpr("func()" + s.strRaw(b))
	if err != nil {
		return nil
	}
	fl, ok := e.(*ast.FuncLit)
	if !ok {
		return nil
	}
	shift(fl.Body, at)
	fl.Body.Lbrace = token.Pos(1) // marks an inserted copy (never expanded again)
	return fl.Body
}

func renameIdents(root ast.Node, ren map[string]string) {
	ast.Inspect(root, func(n ast.Node) bool {
		switch v := n.(type) {
		case *ast.SelectorExpr:
			renameIdents(v.X, ren)
			return false // never rename the selected field / method name
		case *ast.KeyValueExpr:
			renameIdents(v.Value, ren)
			return false
		case *ast.Ident:
			if r, ok := ren[v.Name]; ok {
				v.Name = r
			}
		}
		return true
	})
}

// copyPropagate replaces uses of `x := <pure expr>` (assigned once, never address-taken) by the expression.
func (s *src) copyPropagate(body *ast.BlockStmt) {
	defs := map[string]ast.Expr{}
	count := map[string]int{}
	ast.Inspect(body, func(n ast.Node) bool {
		switch v := n.(type) {
		case *ast.AssignStmt:
			for i, l := range v.Lhs {
				if id, ok := l.(*ast.Ident); ok {
					count[id.Name]++
					if v.Tok == token.DEFINE && len(v.Lhs) == len(v.Rhs) && pureExpr(v.Rhs[i]) {
						defs[id.Name] = v.Rhs[i]
					}
				}
			}
		case *ast.ValueSpec:
			// `var x = expr` / `var ( x = e1; y = e2 )`
			for i, n := range v.Names {
				count[n.Name]++
				if i < len(v.Values) && len(v.Names) == len(v.Values) && pureExpr(v.Values[i]) {
					defs[n.Name] = v.Values[i]
				}
			}
		case *ast.IncDecStmt:
			if id, ok := v.X.(*ast.Ident); ok {
				count[id.Name] += 2
			}
		case *ast.UnaryExpr:
			if id, ok := v.X.(*ast.Ident); ok && v.Op == token.AND {
				count[id.Name] += 2
			}
		case *ast.RangeStmt:
			for _, e := range []ast.Expr{v.Key, v.Value} {
				if id, ok := e.(*ast.Ident); ok {
					count[id.Name] += 2
				}
			}
		}
		return true
	})
	for n := range defs {
		if count[n] != 1 {
			delete(defs, n)
		}
	}
	if len(defs) == 0 {
		return
	}
	subst := func(e ast.Expr) ast.Expr {
		if id, ok := e.(*ast.Ident); ok {
			if d, ok := defs[id.Name]; ok {
				return d
			}
		}
		return e
	}
	ast.Inspect(body, func(n ast.Node) bool {
		switch v := n.(type) {
		case *ast.CallExpr:
			for i := range v.Args {
				v.Args[i] = subst(v.Args[i])
			}
		case *ast.RangeStmt:
			v.X = subst(v.X)
		case *ast.BinaryExpr:
			v.X, v.Y = subst(v.X), subst(v.Y)
		case *ast.IndexExpr:
			v.Index = subst(v.Index)
		case *ast.KeyValueExpr:
			v.Value = subst(v.Value)
		case *ast.ReturnStmt:
			for i := range v.Results {
				v.Results[i] = subst(v.Results[i])
			}
		case *ast.AssignStmt:
			for i := range v.Rhs {
				if v.Tok != token.DEFINE || !isDefOf(v, defs) {
					v.Rhs[i] = subst(v.Rhs[i])
				}
			}
		}
		return true
	})
}

func isDefOf(a *ast.AssignStmt, defs map[string]ast.Expr) bool {
	for _, l := range a.Lhs {
		if id, ok := l.(*ast.Ident); ok {
			if _, ok := defs[id.Name]; ok {
				return true
			}
		}
	}
	return false
}

func pureExpr(e ast.Expr) bool {
	switch v := e.(type) {
	case *ast.Ident, *ast.BasicLit:
		return false // plain aliases/literals are left alone (cheap to match anyway; avoids chains)
	case *ast.SliceExpr:
		return pureOperand(v.X) && (v.Low == nil || pureOperand(v.Low)) && (v.High == nil || pureOperand(v.High))
	case *ast.IndexExpr:
		return pureOperand(v.X) && pureOperand(v.Index)
	case *ast.BinaryExpr:
		return pureOperand(v.X) && pureOperand(v.Y)
	}
	return false
}

func pureOperand(e ast.Expr) bool {
	switch v := e.(type) {
	case *ast.Ident, *ast.BasicLit:
		return true
	case *ast.SelectorExpr:
		return pureOperand(v.X)
	case *ast.BinaryExpr:
		return pureOperand(v.X) && pureOperand(v.Y)
	case *ast.CallExpr:
		if id, ok := v.Fun.(*ast.Ident); ok && id.Name == "len" && len(v.Args) == 1 {
			return pureOperand(v.Args[0])
		}
	case *ast.ParenExpr:
		return pureOperand(v.X)
	}
	return false
}

// ---------------------------------------------------------------------------------------------------
// Shared helpers of the steps below

// walkVarIdents calls fn for every identifier under root that stands in a variable position: not the
// selected name of `x.f`, not a struct-literal key (the parser resolves those against the local scope, so
// `T{ctx: ctx}` would otherwise look like two uses of the variable), not a struct field / interface method
// declaration, not a label.
func walkVarIdents(root ast.Node, fn func(*ast.Ident)) {
	if root == nil || isNilNode(root) {
		return
	}
	ast.Inspect(root, func(n ast.Node) bool {
		switch v := n.(type) {
		case *ast.SelectorExpr:
			walkVarIdents(v.X, fn)
			return false
		case *ast.CompositeLit:
			if v.Type != nil {
				walkVarIdents(v.Type, fn)
			}
			_, isMap := v.Type.(*ast.MapType)
			_, isArr := v.Type.(*ast.ArrayType)
			for _, e := range v.Elts {
				if kv, ok := e.(*ast.KeyValueExpr); ok {
					if _, isID := kv.Key.(*ast.Ident); !isID || isMap || isArr {
						walkVarIdents(kv.Key, fn)
					}
					walkVarIdents(kv.Value, fn)
				} else {
					walkVarIdents(e, fn)
				}
			}
			return false
		case *ast.StructType:
			if v.Fields != nil {
				for _, f := range v.Fields.List {
					walkVarIdents(f.Type, fn)
				}
			}
			return false
		case *ast.InterfaceType:
			return false
		case *ast.BranchStmt:
			return false
		case *ast.LabeledStmt:
			walkVarIdents(v.Stmt, fn)
			return false
		case *ast.Ident:
			fn(v)
		}
		return true
	})
}

// rewriteStmtLists applies f to every statement list under root (blocks, case and comm clauses), outermost
// first; statements f puts into a list are visited in turn.
func rewriteStmtLists(root ast.Node, f func([]ast.Stmt) []ast.Stmt) {
	if root == nil || isNilNode(root) {
		return
	}
	ast.Inspect(root, func(n ast.Node) bool {
		switch v := n.(type) {
		case *ast.BlockStmt:
			v.List = f(v.List)
		case *ast.CaseClause:
			v.Body = f(v.Body)
		case *ast.CommClause:
			v.Body = f(v.Body)
		}
		return true
	})
}

// renameDecl renames the variable declared by decl, and every use of it under scope, to `to`. Uses are
// found through the parser's resolution (Ident.Obj), so an inner declaration of the same name is left
// alone; without an Obj (never the case for what go/parser hands us) unresolved identifiers of that name
// are taken. Nothing happens — and false is returned — when `to` already names something else in scope.
func renameDecl(scope ast.Node, decl *ast.Ident, to string) bool {
	if decl == nil || scope == nil || isNilNode(scope) || decl.Name == to || decl.Name == "_" || to == "" {
		return false
	}
	from, obj := decl.Name, decl.Obj
	var uses []*ast.Ident
	clash := false
	walkVarIdents(scope, func(id *ast.Ident) {
		switch {
		case id == decl, obj != nil && id.Obj == obj, obj == nil && id.Obj == nil && id.Name == from:
			uses = append(uses, id)
		case id.Name == to:
			clash = true
		}
	})
	if clash {
		return false
	}
	for _, id := range uses {
		id.Name = to
	}
	decl.Name = to
	return true
}

func fieldIdents(fl *ast.FieldList) []*ast.Ident {
	var out []*ast.Ident
	if fl == nil {
		return out
	}
	for _, f := range fl.List {
		if f == nil {
			continue
		}
		if len(f.Names) == 0 {
			out = append(out, nil) // unnamed: keeps the positions of the others right
		}
		out = append(out, f.Names...)
	}
	return out
}

func unparen(e ast.Expr) ast.Expr {
	for {
		p, ok := e.(*ast.ParenExpr)
		if !ok {
			return e
		}
		e = p.X
	}
}

// ---------------------------------------------------------------------------------------------------
// (d) names

// Parameter / result names the queries use, by position (the names of /repo's current source), keyed by
// "<receiver type>.<method>" or "<function>". A function whose parameter COUNT differs is left alone.
var canonParamNames = map[string][]string{
	"Registry.makeRPC":                            {"linkCtx", "name", "functionType", "setErr", "responseResolver", "writeRequest", "marshal", "unmarshal"},
	"Registry.implementRemoteStructRecursively":   {"ctx", "namePrefix", "remote", "setErr", "responseResolver", "writeRequest", "marshal", "unmarshal"},
	"Registry.findLocalFunctionToCallRecursively": {"ctx", "req", "setErr", "responseResolver", "writeRequest", "marshal", "unmarshal", "remoteID"},
	"Registry.LinkMessage":                        {"ctx", "writeRequest", "writeResponse", "readRequest", "readResponse", "marshal", "unmarshal", "hooks"},
	"Registry.LinkStream":                         {"ctx", "encode", "decode", "marshal", "unmarshal", "hooks"},
	"convertValue":                                {"srcVal", "dstType"},
}
var canonResultNames = map[string][]string{
	"Registry.findLocalFunctionToCallRecursively": {"function", "args", "err"},
}

// Receiver names the queries use (`r.remotesLock`, `m.closuresLock`, `b.lock` in the access table).
var canonRecvNames = map[string]string{"Registry": "r", "closureManager": "m", "Broadcaster": "b"}

// canonParams renames, in one anchored function: its receiver (by receiver type), a *closureManager
// parameter (registerClosure's `m`), the parameters and named results of the functions listed above
// (by position), and the parameter / named result of every function literal handed to reflect.MakeFunc
// (`args`, `results`).
func (s *src) canonParams(fd *ast.FuncDecl) {
	if fd == nil || fd.Body == nil || fd.Type == nil {
		return
	}
	recv := ""
	if fd.Recv != nil && len(fd.Recv.List) == 1 && fd.Recv.List[0] != nil {
		recv = recvBase(fd.Recv.List[0].Type)
		if to, ok := canonRecvNames[recv]; ok && len(fd.Recv.List[0].Names) == 1 {
			renameDecl(fd, fd.Recv.List[0].Names[0], to)
		}
	}
	if fd.Type.Params != nil {
		for _, p := range fd.Type.Params.List {
			if p != nil && recvBase(p.Type) == "closureManager" && len(p.Names) == 1 {
				renameDecl(fd, p.Names[0], canonRecvNames["closureManager"])
			}
		}
	}
	key := fd.Name.Name
	if fd.Recv != nil {
		key = recv + "." + key
	}
	byPos := func(fl *ast.FieldList, want []string) {
		ids := fieldIdents(fl)
		if want == nil || len(ids) != len(want) {
			return
		}
		for i, id := range ids {
			renameDecl(fd, id, want[i])
		}
	}
	byPos(fd.Type.Params, canonParamNames[key])
	byPos(fd.Type.Results, canonResultNames[key])
	for _, c := range s.callsTo(fd.Body, "MakeFunc") {
		if len(c.Args) != 2 {
			continue
		}
		fl, ok := c.Args[1].(*ast.FuncLit)
		if !ok || fl.Type == nil {
			continue
		}
		if ids := fieldIdents(fl.Type.Params); len(ids) == 1 {
			renameDecl(fl, ids[0], "args")
		}
		if ids := fieldIdents(fl.Type.Results); len(ids) == 1 {
			renameDecl(fl, ids[0], "results")
		}
	}
}

// canonProxyArgs names the closure proxy's argument list `rpcArgs` by its role: in
// findLocalFunctionToCallRecursively, the variable X that is handed over as the last element of
// `utils.Call(rpc, []reflect.Value{ctx, closureID, reflect.ValueOf(X)})` and is grown by `X = append(X, …)`.
// Where X is declared is NOT part of the role: pxArgsFreshPerInvocation still has to find the declaration
// (with a fresh `[]interface{}{}`) inside the per-invocation literal.
func (s *src) canonProxyArgs() {
	fd := s.funcDecl("Registry", "findLocalFunctionToCallRecursively")
	if fd == nil || fd.Body == nil {
		return
	}
	for _, c := range all(fd.Body, func(c *ast.CallExpr) bool { return s.str(c.Fun) == "utils.Call" && len(c.Args) == 2 }) {
		cl, ok := c.Args[1].(*ast.CompositeLit)
		if !ok || len(cl.Elts) != 3 {
			continue
		}
		vc, ok := cl.Elts[2].(*ast.CallExpr)
		if !ok || s.str(vc.Fun) != "reflect.ValueOf" || len(vc.Args) != 1 {
			continue
		}
		x, ok := vc.Args[0].(*ast.Ident)
		if !ok || x.Obj == nil {
			continue
		}
		grown := false
		var decl *ast.Ident
		walkVarIdents(fd, func(id *ast.Ident) {
			if id.Obj == x.Obj && id.Pos() == x.Obj.Pos() {
				decl = id
			}
		})
		for _, a := range all[*ast.AssignStmt](fd.Body, nil) {
			if a.Tok != token.ASSIGN || len(a.Lhs) != 1 || len(a.Rhs) != 1 {
				continue
			}
			l, ok := a.Lhs[0].(*ast.Ident)
			ap, ok2 := a.Rhs[0].(*ast.CallExpr)
			if !ok || !ok2 || l.Obj != x.Obj || s.str(ap.Fun) != "append" || len(ap.Args) < 2 {
				continue
			}
			if f, ok := ap.Args[0].(*ast.Ident); ok && f.Obj == x.Obj {
				grown = true
			}
		}
		if grown && decl != nil {
			renameDecl(fd, decl, "rpcArgs")
		}
	}
}

// canonFields renames the fields of utils.channelWithContext by their TYPE to the names the broadcaster
// queries use: context.Context → ctx, a cancel function → cancel, `chan struct{}` → done, any other channel
// → channel. Without type information the uses cannot be told from other selectors, so inside
// broadcaster.go (only) every selector `x.<old>` and every key of a `channelWithContext{…}` literal is
// renamed. Nothing is renamed when the types do not identify the fields uniquely, or when an old name is
// also a field of Broadcaster (whose selectors would be caught by mistake).
func (s *src) canonFields() {
	const typ = "channelWithContext"
	file := s.files["broadcaster.go"]
	if file == nil {
		return
	}
	var st *ast.StructType
	for _, d := range file.Decls {
		if gd, ok := d.(*ast.GenDecl); ok {
			for _, sp := range gd.Specs {
				if ts, ok := sp.(*ast.TypeSpec); ok && ts.Name != nil && ts.Name.Name == typ {
					st, _ = ts.Type.(*ast.StructType)
				}
			}
		}
	}
	if st == nil || st.Fields == nil {
		return
	}
	role := func(t ast.Expr) string {
		switch v := t.(type) {
		case *ast.FuncType:
			return "cancel"
		case *ast.ChanType:
			if s.str(v.Value) == "struct{}" {
				return "done"
			}
			return "channel"
		}
		switch s.str(t) {
		case "context.Context":
			return "ctx"
		case "context.CancelCauseFunc", "context.CancelFunc":
			return "cancel"
		}
		return ""
	}
	byRole := map[string][]*ast.Ident{}
	var fields []*ast.Ident
	for _, f := range st.Fields.List {
		if f == nil {
			continue
		}
		for _, n := range f.Names {
			fields = append(fields, n)
			if r := role(f.Type); r != "" {
				byRole[r] = append(byRole[r], n)
			}
		}
	}
	ren := map[string]string{}
	for r, ids := range byRole {
		if len(ids) == 1 && ids[0].Name != r {
			ren[ids[0].Name] = r
		}
	}
	if len(ren) == 0 {
		return
	}
	// the renamed struct must still have distinct field names …
	seen := map[string]bool{}
	for _, n := range fields {
		nm := n.Name
		if to, ok := ren[nm]; ok {
			nm = to
		}
		if seen[nm] {
			return
		}
		seen[nm] = true
	}
	// … and no old name may also be a field of Broadcaster
	if bs := s.structDecl("Broadcaster"); bs != nil && bs.Fields != nil {
		for _, f := range bs.Fields.List {
			for _, n := range f.Names {
				if _, ok := ren[n.Name]; ok {
					return
				}
			}
		}
	}
	for _, n := range fields {
		if to, ok := ren[n.Name]; ok {
			n.Name = to
		}
	}
	ast.Inspect(file, func(n ast.Node) bool {
		switch v := n.(type) {
		case *ast.SelectorExpr:
			if v.Sel != nil {
				if to, ok := ren[v.Sel.Name]; ok {
					v.Sel.Name = to
				}
			}
		case *ast.CompositeLit:
			if v.Type != nil && strings.HasPrefix(s.str(v.Type), typ) {
				for _, e := range v.Elts {
					if kv, ok := e.(*ast.KeyValueExpr); ok {
						if id, ok := kv.Key.(*ast.Ident); ok {
							if to, ok := ren[id.Name]; ok {
								id.Name = to
							}
						}
					}
				}
			}
		}
		return true
	})
}

// ---------------------------------------------------------------------------------------------------
// (e) shapes

// flattenIIFE replaces a statement `func() { x.Lock(); defer x.Unlock(); A; B }()` — an immediately invoked
// literal without parameters, results or `return`, i.e. a scoped critical section — by its body in place:
// `x.Lock(); A; B; x.Unlock()`, deferred calls last and in reverse order. Only when that is the same
// program: the deferred calls are top-level statements of the literal and take no computed arguments, and
// nothing in the literal recovers. A body that declares names is kept in a block of its own.
func (s *src) flattenIIFE(body *ast.BlockStmt) {
	flat := func(st ast.Stmt) ([]ast.Stmt, bool) {
		es, ok := st.(*ast.ExprStmt)
		if !ok {
			return nil, false
		}
		c, ok := es.X.(*ast.CallExpr)
		if !ok || len(c.Args) != 0 {
			return nil, false
		}
		fl, ok := unparen(c.Fun).(*ast.FuncLit)
		if !ok || fl.Body == nil || fl.Type == nil {
			return nil, false
		}
		if (fl.Type.Params != nil && len(fl.Type.Params.List) > 0) || (fl.Type.Results != nil && len(fl.Type.Results.List) > 0) {
			return nil, false
		}
		if len(allShallow[*ast.ReturnStmt](fl, nil)) > 0 || len(s.callsTo(fl, "recover")) > 0 {
			return nil, false
		}
		var plain, deferred []ast.Stmt
		declares := false
		for _, b := range fl.Body.List {
			switch v := b.(type) {
			case *ast.DeferStmt:
				if v.Call == nil {
					return nil, false
				}
				for _, a := range v.Call.Args { // arguments are evaluated at the defer, not at the end
					switch unparen(a).(type) {
					case *ast.Ident, *ast.BasicLit:
					default:
						return nil, false
					}
				}
				call := &ast.ExprStmt{X: v.Call}
				shift(call, fl.Body.Rbrace) // it now runs where the literal ended
				deferred = append([]ast.Stmt{call}, deferred...)
			case *ast.DeclStmt, *ast.LabeledStmt:
				declares = true
				plain = append(plain, b)
			case *ast.AssignStmt:
				declares = declares || v.Tok == token.DEFINE
				plain = append(plain, b)
			default:
				plain = append(plain, b)
			}
		}
		if len(allShallow[*ast.DeferStmt](fl, nil)) != len(deferred) { // a defer below the top level
			return nil, false
		}
		out := append(plain, deferred...)
		if declares {
			return []ast.Stmt{&ast.BlockStmt{Lbrace: fl.Body.Lbrace, List: out, Rbrace: fl.Body.Rbrace}}, true
		}
		return out, true
	}
	rewriteStmtLists(body, func(list []ast.Stmt) []ast.Stmt {
		var out []ast.Stmt
		for _, st := range list {
			if repl, ok := flat(st); ok {
				out = append(out, repl...)
			} else {
				out = append(out, st)
			}
		}
		return out
	})
}

// negate returns the simplified negation of a condition: `a != b` ⇄ `a == b`, `!x` → `x`, else `!(c)`.
func negate(c ast.Expr) ast.Expr {
	c = unparen(c)
	switch v := c.(type) {
	case *ast.BinaryExpr:
		switch v.Op {
		case token.EQL:
			v.Op = token.NEQ
			return v
		case token.NEQ:
			v.Op = token.EQL
			return v
		}
		return &ast.UnaryExpr{OpPos: c.Pos(), Op: token.NOT, X: &ast.ParenExpr{Lparen: c.Pos(), X: c, Rparen: c.End()}}
	case *ast.UnaryExpr:
		if v.Op == token.NOT {
			return unparen(v.X)
		}
	}
	return &ast.UnaryExpr{OpPos: c.Pos(), Op: token.NOT, X: c}
}

// loopConds turns `for { if C { break }; BODY }` into `for !C { BODY }` (a `continue` in BODY re-tests C
// either way).
func (s *src) loopConds(body *ast.BlockStmt) {
	ast.Inspect(body, func(n ast.Node) bool {
		l, ok := n.(*ast.ForStmt)
		if !ok || l.Init != nil || l.Cond != nil || l.Post != nil || l.Body == nil || len(l.Body.List) == 0 {
			return true
		}
		i, ok := l.Body.List[0].(*ast.IfStmt)
		if !ok || i.Init != nil || i.Else != nil || i.Cond == nil || i.Body == nil || len(i.Body.List) != 1 {
			return true
		}
		br, ok := i.Body.List[0].(*ast.BranchStmt)
		if !ok || br.Tok != token.BREAK || br.Label != nil {
			return true
		}
		l.Cond = negate(i.Cond)
		l.Body.List = l.Body.List[1:]
		return true
	})
}

// trimLen rewrites the emptiness test of a trimmed string to the comparison with "":
// `len(strings.TrimSpace(E)) > 0` (or `!= 0`, `>= 1`) → `strings.TrimSpace(E) != ""`, `== 0` (or `< 1`) → `== ""`.
// Only for strings.TrimSpace, whose result is known to be a string without type information.
func (s *src) trimLen(body *ast.BlockStmt) {
	ast.Inspect(body, func(n ast.Node) bool {
		b, ok := n.(*ast.BinaryExpr)
		if !ok {
			return true
		}
		lc, ok := unparen(b.X).(*ast.CallExpr)
		if !ok || len(lc.Args) != 1 {
			return true
		}
		if id, ok := lc.Fun.(*ast.Ident); !ok || id.Name != "len" {
			return true
		}
		tc, ok := unparen(lc.Args[0]).(*ast.CallExpr)
		if !ok || s.str(tc.Fun) != "strings.TrimSpace" {
			return true
		}
		lit, ok := unparen(b.Y).(*ast.BasicLit)
		if !ok || lit.Kind != token.INT {
			return true
		}
		var op token.Token
		switch {
		case lit.Value == "0" && (b.Op == token.GTR || b.Op == token.NEQ), lit.Value == "1" && b.Op == token.GEQ:
			op = token.NEQ
		case lit.Value == "0" && b.Op == token.EQL, lit.Value == "1" && b.Op == token.LSS:
			op = token.EQL
		default:
			return true
		}
		b.X, b.Op, b.Y = tc, op, &ast.BasicLit{ValuePos: lit.Pos(), Kind: token.STRING, Value: `""`}
		return true
	})
}

// inlineGuards removes local guard helpers of the shape
//
//	failed := func(p T) bool { if COND { S…; return true }; return false }
//
// (one parameter, a bool result, exactly these two statements and returns, assigned once) by rewriting
// every `if failed(ARG) { BODY }` to `if COND { S…; BODY }` with p replaced by ARG — or, when ARG is not a
// plain name, to `if p := ARG; COND { S…; BODY }` provided the `if` has no init statement and BODY / else do
// not mention p. The definition is dropped once nothing refers to it any more.
func (s *src) inlineGuards(body *ast.BlockStmt) {
	type guard struct {
		def   *ast.AssignStmt
		param string
		cond  ast.Expr
		stmts *ast.BlockStmt // the guard's if-body without its final `return true`
	}
	guards := map[string]*guard{}
	count := map[string]int{}
	isBoolRet := func(st ast.Stmt, val string) bool {
		r, ok := st.(*ast.ReturnStmt)
		if !ok || len(r.Results) != 1 {
			return false
		}
		id, ok := r.Results[0].(*ast.Ident)
		return ok && id.Name == val
	}
	ast.Inspect(body, func(n ast.Node) bool {
		a, ok := n.(*ast.AssignStmt)
		if !ok || len(a.Lhs) != 1 || len(a.Rhs) != 1 {
			return true
		}
		id, ok := a.Lhs[0].(*ast.Ident)
		if !ok {
			return true
		}
		count[id.Name]++
		fl, ok := a.Rhs[0].(*ast.FuncLit)
		if !ok || a.Tok != token.DEFINE || fl.Type == nil || fl.Body == nil || len(fl.Body.List) != 2 {
			return true
		}
		ps, rs := fieldIdents(fl.Type.Params), fl.Type.Results
		if len(ps) != 1 || ps[0] == nil || rs == nil || len(rs.List) != 1 || len(rs.List[0].Names) != 0 || s.str(rs.List[0].Type) != "bool" {
			return true
		}
		if _, variadic := fl.Type.Params.List[0].Type.(*ast.Ellipsis); variadic {
			return true
		}
		i, ok := fl.Body.List[0].(*ast.IfStmt)
		if !ok || i.Init != nil || i.Else != nil || i.Body == nil || len(i.Body.List) == 0 {
			return true
		}
		last := len(i.Body.List) - 1
		if !isBoolRet(i.Body.List[last], "true") || !isBoolRet(fl.Body.List[1], "false") || len(all[*ast.ReturnStmt](fl.Body, nil)) != 2 {
			return true
		}
		guards[id.Name] = &guard{a, ps[0].Name, i.Cond, &ast.BlockStmt{Lbrace: i.Body.Lbrace, List: i.Body.List[:last], Rbrace: i.Body.Rbrace}}
		return true
	})
	for name := range guards {
		if count[name] != 1 {
			delete(guards, name)
		}
	}
	if len(guards) == 0 {
		return
	}
	mentions := func(root ast.Node, name string) bool {
		found := false
		walkVarIdents(root, func(id *ast.Ident) { found = found || id.Name == name })
		return found
	}
	ast.Inspect(body, func(n ast.Node) bool {
		i, ok := n.(*ast.IfStmt)
		if !ok || i.Body == nil {
			return true
		}
		c, ok := unparen(i.Cond).(*ast.CallExpr)
		if !ok || len(c.Args) != 1 || c.Ellipsis.IsValid() {
			return true
		}
		id, ok := c.Fun.(*ast.Ident)
		if !ok {
			return true
		}
		g := guards[id.Name]
		if g == nil || contains(g.def, i) {
			return true
		}
		arg := unparen(c.Args[0])
		var init ast.Stmt
		ren := map[string]string{}
		if a, ok := arg.(*ast.Ident); ok {
			if a.Name != g.param {
				ren[g.param] = a.Name
			}
		} else {
			if i.Init != nil || mentions(i.Body, g.param) || (i.Else != nil && mentions(i.Else, g.param)) {
				return true
			}
			init = &ast.AssignStmt{Lhs: []ast.Expr{&ast.Ident{NamePos: c.Pos(), Name: g.param}}, TokPos: c.Pos(), Tok: token.DEFINE, Rhs: []ast.Expr{arg}}
		}
		cond, err := parser.ParseExpr(s.strRaw(g.cond))
		stmts := s.cloneBlock(g.stmts, i.Body.Lbrace)
		if err != nil || stmts == nil {
			return true
		}
		shift(cond, c.Pos())
		renameIdents(cond, ren)
		renameIdents(stmts, ren)
		if init != nil {
			i.Init = init
		}
		i.Cond = cond
		i.Body.List = append(stmts.List, i.Body.List...)
		return true
	})
	for name, g := range guards {
		uses := 0
		walkVarIdents(body, func(id *ast.Ident) {
			if id.Name == name {
				uses++
			}
		})
		if uses != 1 { // 1 = the definition's own left-hand side
			continue
		}
		def := g.def
		rewriteStmtLists(body, func(list []ast.Stmt) []ast.Stmt {
			out := list[:0:0]
			for _, st := range list {
				if st != ast.Stmt(def) {
					out = append(out, st)
				}
			}
			return out
		})
	}
}

// fuseKeyLoops rewrites a walk over a snapshot of a map's keys,
//
//	ks := make([]K, 0, len(M))            (or `make([]K, 0)`, `[]K{}`, `var ks []K`)
//	for k := range M { ks = append(ks, k) }
//	for _, k2 := range ks { v := M[k2]; REST }
//
// to the walk over the map itself, `for k2, v := range M { REST }`. The three statements must follow each
// other directly in one statement list (so they run under the same locks, and nothing can change M in between),
// `ks` must not be mentioned anywhere else in the function, M is a plain name / field path, and REST mentions
// neither M nor ks (it cannot add or delete entries) — then both forms visit every entry of M exactly once, in an
// unspecified order, with the same `v`. Anything else (a sliced or filtered key list, a look-up that is not the
// loop's first statement, statements in between) is left as written.
func (s *src) fuseKeyLoops(body *ast.BlockStmt) {
	if body == nil {
		return
	}
	mentions := func(root ast.Node, name string) int {
		n := 0
		walkVarIdents(root, func(id *ast.Ident) {
			if id.Name == name {
				n++
			}
		})
		return n
	}
	// the declaration of an empty key slice -> its name
	emptySlice := func(st ast.Stmt) string {
		switch v := st.(type) {
		case *ast.AssignStmt:
			if v.Tok != token.DEFINE || len(v.Lhs) != 1 || len(v.Rhs) != 1 {
				return ""
			}
			id, ok := v.Lhs[0].(*ast.Ident)
			if !ok {
				return ""
			}
			switch r := v.Rhs[0].(type) {
			case *ast.CompositeLit:
				if at, ok := r.Type.(*ast.ArrayType); ok && at.Len == nil && len(r.Elts) == 0 {
					return id.Name
				}
			case *ast.CallExpr:
				if fn, ok := r.Fun.(*ast.Ident); !ok || fn.Name != "make" || len(r.Args) < 2 || len(r.Args) > 3 || s.str(r.Args[1]) != "0" {
					return ""
				}
				if at, ok := r.Args[0].(*ast.ArrayType); !ok || at.Len != nil {
					return ""
				}
				if len(r.Args) == 3 && !pureOperand(r.Args[2]) { // the capacity: `len(M)` or a constant
					return ""
				}
				return id.Name
			}
		case *ast.DeclStmt:
			gd, ok := v.Decl.(*ast.GenDecl)
			if !ok || gd.Tok != token.VAR || len(gd.Specs) != 1 {
				return ""
			}
			vs, ok := gd.Specs[0].(*ast.ValueSpec)
			if !ok || len(vs.Names) != 1 || len(vs.Values) != 0 {
				return ""
			}
			if at, ok := vs.Type.(*ast.ArrayType); ok && at.Len == nil {
				return vs.Names[0].Name
			}
		}
		return ""
	}
	fuse := func(s1, s2, s3 ast.Stmt) bool {
		ks := emptySlice(s1)
		collect, ok2 := s2.(*ast.RangeStmt)
		walk, ok3 := s3.(*ast.RangeStmt)
		if ks == "" || ks == "_" || !ok2 || !ok3 || collect.Body == nil || walk.Body == nil {
			return false
		}
		// for k := range M { ks = append(ks, k) }
		k, ok := collect.Key.(*ast.Ident)
		if !ok || k.Name == "_" || collect.Value != nil || collect.Tok != token.DEFINE || !pureOperand(collect.X) || len(collect.Body.List) != 1 {
			return false
		}
		if _, isCall := unparen(collect.X).(*ast.CallExpr); isCall {
			return false
		}
		m := s.str(collect.X)
		if ap, ok := collect.Body.List[0].(*ast.AssignStmt); !ok || ap.Tok != token.ASSIGN || s.str(ap) != ks+" = append("+ks+", "+k.Name+")" {
			return false
		}
		// for _, k2 := range ks { v := M[k2]; REST }
		if walk.Tok != token.DEFINE || s.str(walk.X) != ks || len(walk.Body.List) == 0 {
			return false
		}
		if key, ok := walk.Key.(*ast.Ident); walk.Key != nil && (!ok || key.Name != "_") {
			return false
		}
		k2, ok := walk.Value.(*ast.Ident)
		if !ok || k2.Name == "_" {
			return false
		}
		look, ok := walk.Body.List[0].(*ast.AssignStmt)
		if !ok || look.Tok != token.DEFINE || len(look.Lhs) != 1 || len(look.Rhs) != 1 {
			return false
		}
		v, ok := look.Lhs[0].(*ast.Ident)
		ix, ok2 := look.Rhs[0].(*ast.IndexExpr)
		if !ok || !ok2 || v.Name == "_" || v.Name == k2.Name || s.str(ix.X) != m || s.str(ix.Index) != k2.Name {
			return false
		}
		rest := &ast.BlockStmt{Lbrace: walk.Body.Lbrace, List: walk.Body.List[1:], Rbrace: walk.Body.Rbrace}
		if mentions(body, ks) != 4 || mentions(rest, ks) != 0 {
			return false
		}
		touchesMap := false
		ast.Inspect(rest, func(n ast.Node) bool {
			if e, ok := n.(ast.Expr); ok && s.str(e) == m {
				touchesMap = true
			}
			return !touchesMap
		})
		if touchesMap {
			return false
		}
		// the map expression of the look-up lies inside the second loop: positions (and with them the locks held
		// there) are those of the loop that does the work
		key := &ast.Ident{NamePos: k2.NamePos, Name: "_"}
		if mentions(rest, k2.Name) > 0 {
			key = k2
		}
		walk.Key, walk.Value, walk.X = key, v, ix.X
		walk.Body.List = rest.List
		return true
	}
	rewriteStmtLists(body, func(list []ast.Stmt) []ast.Stmt {
		for i := 0; i+2 < len(list); i++ {
			if fuse(list[i], list[i+1], list[i+2]) {
				list = append(list[:i:i], list[i+2:]...)
			}
		}
		return list
	})
}

// inlineLocalCalls replaces plain call statements `f(ARGS)` of a local closure
//
//	f := func(p1 T1, …) { BODY }      (no results; assigned once; BODY has no return / defer / recover and does
//	                                   not mention f; parameters named, not variadic, never assigned in BODY)
//
// by BODY with the parameters replaced by the arguments, so that the queries see the statements where they
// run. An argument that is not a plain name or literal is only substituted when the parameter is used exactly
// once, as the whole right-hand side (or first call argument) of BODY's FIRST statement — it is then still
// evaluated first and once. Names cannot be captured: the call is left alone when a free name of BODY, or f
// itself, is declared more than once in the function (it could be shadowed at the call), or when BODY declares
// a name an argument mentions. BODY's statements are spliced in place (inside a block of their own when BODY
// declares names), statement k at position call+k, so order relations with and among them hold; statements
// nested inside one of them share its position, like the helper copies. `setErr` is never inlined (the
// queries follow its calls by name). The definition is dropped once nothing refers to it.
func (s *src) inlineLocalCalls(fd *ast.FuncDecl) {
	if fd == nil || fd.Body == nil {
		return
	}
	body := fd.Body
	// how often each name is declared anywhere in the function (parameters, results, :=, var, range, literals' parameters)
	declared := map[string]int{}
	declFields := func(fl *ast.FieldList) {
		for _, id := range fieldIdents(fl) {
			if id != nil {
				declared[id.Name]++
			}
		}
	}
	if fd.Type != nil {
		declFields(fd.Type.Params)
		declFields(fd.Type.Results)
	}
	declFields(fd.Recv)
	assigned := map[string]int{}
	ast.Inspect(body, func(n ast.Node) bool {
		switch v := n.(type) {
		case *ast.AssignStmt:
			for _, l := range v.Lhs {
				if id, ok := l.(*ast.Ident); ok {
					assigned[id.Name]++
					if v.Tok == token.DEFINE {
						declared[id.Name]++
					}
				}
			}
		case *ast.ValueSpec:
			for _, id := range v.Names {
				declared[id.Name]++
			}
		case *ast.RangeStmt:
			if v.Tok == token.DEFINE {
				for _, e := range []ast.Expr{v.Key, v.Value} {
					if id, ok := e.(*ast.Ident); ok {
						declared[id.Name]++
					}
				}
			}
		case *ast.FuncLit:
			if v.Type != nil {
				declFields(v.Type.Params)
				declFields(v.Type.Results)
			}
		case *ast.LabeledStmt:
			if v.Label != nil {
				declared[v.Label.Name]++
			}
		}
		return true
	})
	type closure struct {
		def    *ast.AssignStmt
		lit    *ast.FuncLit
		params []string
		uses   map[string]int // parameter -> number of uses in the body
		locals map[string]bool
	}
	closures := map[string]*closure{}
	for _, a := range all[*ast.AssignStmt](body, nil) {
		if a.Tok != token.DEFINE || len(a.Lhs) != 1 || len(a.Rhs) != 1 {
			continue
		}
		id, ok := a.Lhs[0].(*ast.Ident)
		fl, ok2 := a.Rhs[0].(*ast.FuncLit)
		if !ok || !ok2 || id.Name == "setErr" || id.Name == "_" || assigned[id.Name] != 1 || declared[id.Name] != 1 {
			continue
		}
		if fl.Type == nil || fl.Body == nil || len(fl.Body.List) == 0 || (fl.Type.Results != nil && len(fl.Type.Results.List) > 0) {
			continue
		}
		c := &closure{def: a, lit: fl, uses: map[string]int{}, locals: map[string]bool{}}
		okParams := true
		if fl.Type.Params != nil {
			for _, f := range fl.Type.Params.List {
				if _, variadic := f.Type.(*ast.Ellipsis); variadic || len(f.Names) == 0 {
					okParams = false
					break
				}
				for _, n := range f.Names {
					okParams = okParams && n.Name != "_"
					c.params = append(c.params, n.Name)
				}
			}
		}
		if !okParams {
			continue
		}
		if len(allShallow[*ast.ReturnStmt](fl, nil))+len(all[*ast.DeferStmt](fl.Body, nil)) > 0 || len(s.callsTo(fl.Body, "recover")) > 0 {
			continue
		}
		isParam := map[string]bool{}
		for _, p := range c.params {
			isParam[p] = true
		}
		// names the body declares itself; parameters must not be assigned (that would write the caller's variable)
		bad := false
		ast.Inspect(fl.Body, func(n ast.Node) bool {
			switch v := n.(type) {
			case *ast.AssignStmt:
				for _, l := range v.Lhs {
					if id, ok := l.(*ast.Ident); ok {
						if v.Tok == token.DEFINE {
							c.locals[id.Name] = true
						}
						bad = bad || isParam[id.Name]
					}
				}
			case *ast.ValueSpec:
				for _, id := range v.Names {
					c.locals[id.Name] = true
					bad = bad || isParam[id.Name]
				}
			case *ast.RangeStmt:
				for _, e := range []ast.Expr{v.Key, v.Value} {
					if id, ok := e.(*ast.Ident); ok {
						c.locals[id.Name] = true
						bad = bad || isParam[id.Name]
					}
				}
			case *ast.IncDecStmt:
				if id, ok := v.X.(*ast.Ident); ok {
					bad = bad || isParam[id.Name]
				}
			case *ast.UnaryExpr:
				if id, ok := v.X.(*ast.Ident); ok && v.Op == token.AND {
					bad = bad || isParam[id.Name]
				}
			case *ast.FuncLit:
				if v.Type != nil {
					for _, id := range append(fieldIdents(v.Type.Params), fieldIdents(v.Type.Results)...) {
						if id != nil {
							c.locals[id.Name] = true
							bad = bad || isParam[id.Name]
						}
					}
				}
			}
			return true
		})
		// free names: declared at most once in the whole function, so they mean the same thing at every call
		walkVarIdents(fl.Body, func(x *ast.Ident) {
			switch {
			case x.Name == id.Name:
				bad = true // recursive
			case isParam[x.Name]:
				c.uses[x.Name]++
			case c.locals[x.Name]:
				if declared[x.Name] > 1 { // also declared outside: which one a use means depends on where it stands
					bad = true
				}
			case declared[x.Name] > 1:
				bad = true
			}
		})
		if !bad {
			closures[id.Name] = c
		}
	}
	if len(closures) == 0 {
		return
	}
	trivial := func(e ast.Expr) bool {
		switch e.(type) {
		case *ast.Ident, *ast.BasicLit:
			return true
		}
		return false
	}
	// the parameter is the whole right-hand side / first call argument of the body's first statement
	usedFirst := func(c *closure, p string) bool {
		switch v := c.lit.Body.List[0].(type) {
		case *ast.AssignStmt:
			if len(v.Rhs) == 1 && len(v.Lhs) == 1 {
				if _, plain := v.Lhs[0].(*ast.Ident); plain {
					id, ok := v.Rhs[0].(*ast.Ident)
					return ok && id.Name == p
				}
			}
		case *ast.ExprStmt:
			if call, ok := v.X.(*ast.CallExpr); ok && len(call.Args) > 0 && pureOperand(call.Fun) {
				id, ok := call.Args[0].(*ast.Ident)
				return ok && id.Name == p
			}
		}
		return false
	}
	inlined := map[string]int{} // closure -> calls replaced by this run
	expand := func(st ast.Stmt) ([]ast.Stmt, bool) {
		es, ok := st.(*ast.ExprStmt)
		if !ok {
			return nil, false
		}
		call, ok := es.X.(*ast.CallExpr)
		if !ok || call.Ellipsis.IsValid() {
			return nil, false
		}
		fn, ok := call.Fun.(*ast.Ident)
		if !ok {
			return nil, false
		}
		c := closures[fn.Name]
		if c == nil || len(call.Args) != len(c.params) || contains(c.def, st) || !before(c.def, st) {
			return nil, false
		}
		if int(st.End()-st.Pos()) < len(c.lit.Body.List) { // no room for one position per statement
			return nil, false
		}
		ren := map[string]string{}
		for i, p := range c.params {
			arg := unparen(call.Args[i])
			capture := false
			walkVarIdents(arg, func(id *ast.Ident) { capture = capture || c.locals[id.Name] })
			if capture {
				return nil, false
			}
			switch {
			case trivial(arg):
			case c.uses[p] == 1 && usedFirst(c, p):
			case c.uses[p] == 0 && pureOperand(arg):
				if _, isCall := arg.(*ast.CallExpr); isCall {
					return nil, false
				}
			default:
				return nil, false
			}
			text := s.str(arg)
			switch arg.(type) {
			case *ast.Ident, *ast.BasicLit, *ast.CallExpr, *ast.SelectorExpr, *ast.IndexExpr, *ast.CompositeLit, *ast.TypeAssertExpr:
			default:
				text = "(" + text + ")"
			}
			if text != p {
				ren[p] = text
			}
		}
		blk := s.cloneBlock(c.lit.Body, st.Pos())
		if blk == nil {
			return nil, false
		}
		if len(ren) > 0 {
			renameIdents(blk, ren)
			if blk = s.cloneBlock(blk, st.Pos()); blk == nil { // print + parse: the substituted texts become expressions
				return nil, false
			}
		}
		declares := false
		for k, b := range blk.List {
			shift(b, st.Pos()+token.Pos(k))
			switch v := b.(type) {
			case *ast.DeclStmt, *ast.LabeledStmt:
				declares = true
			case *ast.AssignStmt:
				declares = declares || v.Tok == token.DEFINE
			}
		}
		inlined[fn.Name]++
		if declares {
			return []ast.Stmt{&ast.BlockStmt{Lbrace: st.Pos(), List: blk.List, Rbrace: st.End() - 1}}, true
		}
		return blk.List, true
	}
	rewriteStmtLists(body, func(list []ast.Stmt) []ast.Stmt {
		var out []ast.Stmt
		for _, st := range list {
			if repl, ok := expand(st); ok {
				out = append(out, repl...)
			} else {
				out = append(out, st)
			}
		}
		return out
	})
	for name, c := range closures {
		uses := 0
		walkVarIdents(body, func(id *ast.Ident) {
			if id.Name == name {
				uses++
			}
		})
		// 1 = the definition's own left-hand side. (A closure none of whose calls was replaced here is not this
		// step's to drop: inlineClosures may have put its literal behind a `go` / `defer` and counts on the definition.)
		if uses != 1 || inlined[name] == 0 {
			continue
		}
		def := c.def
		rewriteStmtLists(body, func(list []ast.Stmt) []ast.Stmt {
			out := list[:0:0]
			for _, st := range list {
				if st != ast.Stmt(def) {
					out = append(out, st)
				}
			}
			return out
		})
	}
}

// fullyInlined reports whether helper h (an unexported, non-anchored function or method) is seen by the
// queries ONLY through the copies inlineHelpers made: every mention of its name in the loaded files is the
// callee of a call that has such a copy behind it, or sits in another helper that is itself fully inlined.
// The access table then skips h's own declaration — its accesses are already listed where they happen,
// under the caller's locks — instead of listing them a second time with no lock held.
func (s *src) fullyInlined(h *ast.FuncDecl) bool {
	return s.fullyInlinedRec(h, map[*ast.FuncDecl]bool{})
}

func (s *src) fullyInlinedRec(h *ast.FuncDecl, busy map[*ast.FuncDecl]bool) bool {
	if h == nil || h.Name == nil || s.helpers[h.Name.Name] != h || busy[h] {
		return false
	}
	busy[h] = true
	defer delete(busy, h)
	name := h.Name.Name
	mentions, covered := 0, 0
	seen := map[ast.Node]bool{}
	for _, f := range s.files {
		for _, d := range f.Decls {
			fd, _ := d.(*ast.FuncDecl)
			viaHelper := fd != nil && fd != h && s.helpers[fd.Name.Name] == fd && s.fullyInlinedRec(fd, busy)
			ast.Inspect(d, func(n ast.Node) bool {
				if n == nil || seen[n] {
					return n != nil && !seen[n]
				}
				seen[n] = true
				switch v := n.(type) {
				case *ast.Ident:
					if v.Name == name && v != h.Name {
						mentions++
					}
				case *ast.CallExpr:
					if s.calleeIs(v, name) && (s.inlinedCalls[v] || viaHelper) {
						covered++
					}
				}
				return true
			})
		}
	}
	return mentions > 0 && mentions == covered
}
