package main

// Normalisation pre-pass: makes the fact queries insensitive to a family of harmless refactorings.
//   (a) named local closures (`f := func(){…}` assigned once) are substituted at `go f()`, `defer f()`
//       and where `f` is passed as an argument;
//   (b) calls of same-package helper functions / methods that are not themselves anchored are followed, as
//       a block, by a copy of the helper's body with parameters (and receiver) replaced by the arguments;
//   (c) single-assignment locals bound to a pure index / slice / selector / binary expression are
//       replaced by that expression (copy propagation).
// The pass only adds or substitutes syntax for the extractor's eyes; it never touches the repository.

import (
	"go/ast"
	"go/parser"
	"go/token"
	"strings"
)

var anchored = map[string]bool{
	"Publish": true, "Receive": true, "Free": true, "Close": true, "CallClosure": true, "registerClosure": true, "createClosure": true,
	"makeRPC": true, "implementRemoteStructRecursively": true, "findLocalFunctionToCallRecursively": true,
	"findMethodByFunctionCallPathRecursively": true, "convertValue": true, "LinkMessage": true, "LinkStream": true, "ForRemotes": true,
	"Call": true, "NewRegistry": true, "NewBroadcaster": true, "GetRemoteID": true, "Marshal": true, "Unmarshal": true,
}

func (s *src) normalize() {
	helpers := map[string]*ast.FuncDecl{}
	for _, f := range s.files {
		for _, d := range f.Decls {
			if fd, ok := d.(*ast.FuncDecl); ok && fd.Body != nil && !anchored[fd.Name.Name] && !ast.IsExported(fd.Name.Name) {
				helpers[fd.Name.Name] = fd
			}
		}
	}
	for _, f := range s.files {
		for _, d := range f.Decls {
			fd, ok := d.(*ast.FuncDecl)
			if !ok || fd.Body == nil || !anchored[fd.Name.Name] {
				continue
			}
			for pass := 0; pass < 2; pass++ {
				s.inlineClosures(fd.Body)
				s.inlineHelpers(fd.Body, helpers)
				s.copyPropagate(fd.Body)
			}
		}
	}
}

// cloneExpr re-parses the printed form: a fresh copy with positions inside the original node's span is not
// needed, but queries compare positions (`before`), so copied nodes get the position of the use site.
func (s *src) cloneFuncLit(fl *ast.FuncLit, at token.Pos) *ast.FuncLit {
	e, err := parser.ParseExpr(s.strRaw(fl))
	if err != nil {
		return nil
	}
	c, ok := e.(*ast.FuncLit)
	if !ok {
		return nil
	}
	shift(c, at)
	return c
}

func (s *src) strRaw(n ast.Node) string {
	// like str but without whitespace normalisation
	var b strings.Builder
	printerFprint(&b, s.fset, n)
	return b.String()
}

// shift sets every position in the subtree to `at` + its offset order (monotone), so that source order
// relations between the copied statements and with the surrounding code stay meaningful.
func shift(n ast.Node, at token.Pos) {
	// all nodes of the copy are given the same position `at`; order inside the copy is not needed by the
	// queries that cross the boundary, and queries inside a copy use node identity / containment via Pos/End,
	// which we keep consistent by assigning a tiny unique increasing offset.
	off := token.Pos(0)
	ast.Inspect(n, func(m ast.Node) bool {
		if m == nil {
			return false
		}
		off++
		setPos(m, at)
		return true
	})
}

func (s *src) inlineClosures(body *ast.BlockStmt) {
	// name -> literal, for `name := func…` assigned exactly once in this body (any depth)
	lits := map[string]*ast.FuncLit{}
	count := map[string]int{}
	ast.Inspect(body, func(n ast.Node) bool {
		if a, ok := n.(*ast.AssignStmt); ok && len(a.Lhs) == 1 && len(a.Rhs) == 1 {
			if id, ok := a.Lhs[0].(*ast.Ident); ok {
				count[id.Name]++
				if fl, ok := a.Rhs[0].(*ast.FuncLit); ok && a.Tok == token.DEFINE {
					lits[id.Name] = fl
				}
			}
		}
		return true
	})
	for name := range lits {
		if count[name] != 1 || name == "setErr" {
			delete(lits, name)
		}
	}
	if len(lits) == 0 {
		return
	}
	ast.Inspect(body, func(n ast.Node) bool {
		switch v := n.(type) {
		case *ast.GoStmt:
			if id, ok := v.Call.Fun.(*ast.Ident); ok && len(v.Call.Args) == 0 {
				if fl, ok := lits[id.Name]; ok {
					v.Call.Fun = fl
				}
			}
		case *ast.DeferStmt:
			if id, ok := v.Call.Fun.(*ast.Ident); ok && len(v.Call.Args) == 0 {
				if fl, ok := lits[id.Name]; ok {
					v.Call.Fun = fl
				}
			}
		case *ast.CallExpr:
			// only where a query looks INTO the argument literals: the adapters LinkStream hands to LinkMessage
			if s.calleeIs(v, "LinkMessage") {
				for i, a := range v.Args {
					if id, ok := a.(*ast.Ident); ok {
						if fl, ok := lits[id.Name]; ok {
							v.Args[i] = fl
						}
					}
				}
			}
		}
		return true
	})
}

// inlineHelpers appends, after every statement that calls a helper, a block holding the helper's body with
// its parameters (and receiver) renamed to the argument expressions when those are simple.
func (s *src) inlineHelpers(body *ast.BlockStmt, helpers map[string]*ast.FuncDecl) {
	var rewrite func(list []ast.Stmt) []ast.Stmt
	expand := func(st ast.Stmt) []ast.Stmt {
		var extra []ast.Stmt
		var calls []*ast.CallExpr
		switch v := st.(type) {
		case *ast.ExprStmt:
			if c, ok := v.X.(*ast.CallExpr); ok {
				calls = append(calls, c)
			}
		case *ast.AssignStmt:
			for _, r := range v.Rhs {
				if c, ok := r.(*ast.CallExpr); ok {
					calls = append(calls, c)
				}
			}
		case *ast.ReturnStmt:
			for _, r := range v.Results {
				if c, ok := r.(*ast.CallExpr); ok {
					calls = append(calls, c)
				}
			}
		}
		for _, c := range calls {
			name, recv := "", ast.Expr(nil)
			switch f := c.Fun.(type) {
			case *ast.Ident:
				name = f.Name
			case *ast.SelectorExpr:
				name, recv = f.Sel.Name, f.X
			case *ast.IndexExpr:
				if id, ok := f.X.(*ast.Ident); ok {
					name = id.Name
				}
			}
			h, ok := helpers[name]
			if !ok || h.Body == nil {
				continue
			}
			if (recv == nil) != (h.Recv == nil) {
				continue
			}
			blk := s.cloneBlock(h.Body, st.Pos())
			if blk == nil {
				continue
			}
			ren := map[string]string{}
			pi := 0
			for _, p := range h.Type.Params.List {
				for _, n := range p.Names {
					if pi < len(c.Args) {
						ren[n.Name] = s.str(c.Args[pi])
					}
					pi++
				}
			}
			if recv != nil && len(h.Recv.List) == 1 && len(h.Recv.List[0].Names) == 1 {
				ren[h.Recv.List[0].Names[0].Name] = s.str(recv)
			}
			renameIdents(blk, ren)
			extra = append(extra, blk)
		}
		return extra
	}
	rewrite = func(list []ast.Stmt) []ast.Stmt {
		var out []ast.Stmt
		for _, st := range list {
			out = append(out, st)
			if _, isBlk := st.(*ast.BlockStmt); !isBlk {
				out = append(out, expand(st)...)
			}
		}
		return out
	}
	ast.Inspect(body, func(n ast.Node) bool {
		switch v := n.(type) {
		case *ast.BlockStmt:
			if !v.Lbrace.IsValid() || v.Lbrace != token.Pos(1) { // not one of our inserted copies
				v.List = rewrite(v.List)
			}
		case *ast.CaseClause:
			v.Body = rewrite(v.Body)
		case *ast.CommClause:
			v.Body = rewrite(v.Body)
		}
		return true
	})
}

func (s *src) cloneBlock(b *ast.BlockStmt, at token.Pos) *ast.BlockStmt {
	e, err := parser.ParseExpr("func()" + s.strRaw(b))
	if err != nil {
		return nil
	}
	fl, ok := e.(*ast.FuncLit)
	if !ok {
		return nil
	}
	shift(fl.Body, at)
	fl.Body.Lbrace = token.Pos(1) // marks an inserted copy (never expanded again)
	return fl.Body
}

func renameIdents(root ast.Node, ren map[string]string) {
	ast.Inspect(root, func(n ast.Node) bool {
		switch v := n.(type) {
		case *ast.SelectorExpr:
			renameIdents(v.X, ren)
			return false // never rename the selected field / method name
		case *ast.KeyValueExpr:
			renameIdents(v.Value, ren)
			return false
		case *ast.Ident:
			if r, ok := ren[v.Name]; ok {
				v.Name = r
			}
		}
		return true
	})
}

// copyPropagate replaces uses of `x := <pure expr>` (assigned once, never address-taken) by the expression.
func (s *src) copyPropagate(body *ast.BlockStmt) {
	defs := map[string]ast.Expr{}
	count := map[string]int{}
	ast.Inspect(body, func(n ast.Node) bool {
		switch v := n.(type) {
		case *ast.AssignStmt:
			for i, l := range v.Lhs {
				if id, ok := l.(*ast.Ident); ok {
					count[id.Name]++
					if v.Tok == token.DEFINE && len(v.Lhs) == len(v.Rhs) && pureExpr(v.Rhs[i]) {
						defs[id.Name] = v.Rhs[i]
					}
				}
			}
		case *ast.ValueSpec:
			// `var x = expr` / `var ( x = e1; y = e2 )`
			for i, n := range v.Names {
				count[n.Name]++
				if i < len(v.Values) && len(v.Names) == len(v.Values) && pureExpr(v.Values[i]) {
					defs[n.Name] = v.Values[i]
				}
			}
		case *ast.IncDecStmt:
			if id, ok := v.X.(*ast.Ident); ok {
				count[id.Name] += 2
			}
		case *ast.UnaryExpr:
			if id, ok := v.X.(*ast.Ident); ok && v.Op == token.AND {
				count[id.Name] += 2
			}
		case *ast.RangeStmt:
			for _, e := range []ast.Expr{v.Key, v.Value} {
				if id, ok := e.(*ast.Ident); ok {
					count[id.Name] += 2
				}
			}
		}
		return true
	})
	for n := range defs {
		if count[n] != 1 {
			delete(defs, n)
		}
	}
	if len(defs) == 0 {
		return
	}
	subst := func(e ast.Expr) ast.Expr {
		if id, ok := e.(*ast.Ident); ok {
			if d, ok := defs[id.Name]; ok {
				return d
			}
		}
		return e
	}
	ast.Inspect(body, func(n ast.Node) bool {
		switch v := n.(type) {
		case *ast.CallExpr:
			for i := range v.Args {
				v.Args[i] = subst(v.Args[i])
			}
		case *ast.RangeStmt:
			v.X = subst(v.X)
		case *ast.BinaryExpr:
			v.X, v.Y = subst(v.X), subst(v.Y)
		case *ast.IndexExpr:
			v.Index = subst(v.Index)
		case *ast.KeyValueExpr:
			v.Value = subst(v.Value)
		case *ast.ReturnStmt:
			for i := range v.Results {
				v.Results[i] = subst(v.Results[i])
			}
		case *ast.AssignStmt:
			for i := range v.Rhs {
				if v.Tok != token.DEFINE || !isDefOf(v, defs) {
					v.Rhs[i] = subst(v.Rhs[i])
				}
			}
		}
		return true
	})
}

func isDefOf(a *ast.AssignStmt, defs map[string]ast.Expr) bool {
	for _, l := range a.Lhs {
		if id, ok := l.(*ast.Ident); ok {
			if _, ok := defs[id.Name]; ok {
				return true
			}
		}
	}
	return false
}

func pureExpr(e ast.Expr) bool {
	switch v := e.(type) {
	case *ast.Ident, *ast.BasicLit:
		return false // plain aliases/literals are left alone (cheap to match anyway; avoids chains)
	case *ast.SliceExpr:
		return pureOperand(v.X) && (v.Low == nil || pureOperand(v.Low)) && (v.High == nil || pureOperand(v.High))
	case *ast.IndexExpr:
		return pureOperand(v.X) && pureOperand(v.Index)
	case *ast.BinaryExpr:
		return pureOperand(v.X) && pureOperand(v.Y)
	}
	return false
}

func pureOperand(e ast.Expr) bool {
	switch v := e.(type) {
	case *ast.Ident, *ast.BasicLit:
		return true
	case *ast.SelectorExpr:
		return pureOperand(v.X)
	case *ast.BinaryExpr:
		return pureOperand(v.X) && pureOperand(v.Y)
	case *ast.CallExpr:
		if id, ok := v.Fun.(*ast.Ident); ok && id.Name == "len" && len(v.Args) == 1 {
			return pureOperand(v.Args[0])
		}
	case *ast.ParenExpr:
		return pureOperand(v.X)
	}
	return false
}
