package main

import (
	"go/ast"
	"go/printer"
	"go/token"
	"io"
	"reflect"
)

func printerFprint(w io.Writer, fset *token.FileSet, n ast.Node) { printer.Fprint(w, fset, n) }

// setPos sets every token.Pos field of a node to p (used for copied subtrees).
func setPos(n ast.Node, p token.Pos) {
	v := reflect.ValueOf(n)
	if v.Kind() != reflect.Ptr || v.IsNil() {
		return
	}
	e := v.Elem()
	if e.Kind() != reflect.Struct {
		return
	}
	for i := 0; i < e.NumField(); i++ {
		f := e.Field(i)
		if f.Type() == reflect.TypeOf(token.Pos(0)) && f.CanSet() {
			if f.Int() != 0 || e.Type().Field(i).Name == "NamePos" || e.Type().Field(i).Name == "ValuePos" {
				f.SetInt(int64(p))
			}
		}
	}
}
