package main

import (
	"go/ast"
	"go/token"
	"strings"
)

// makeRPCLit returns the function literal passed to reflect.MakeFunc inside makeRPC.
func makeRPCLit(s *src) *ast.FuncLit {
	fd := s.funcDecl("Registry", "makeRPC")
	if fd == nil {
		return nil
	}
	for _, c := range s.callsTo(fd.Body, "MakeFunc") {
		if len(c.Args) == 2 {
			if fl, ok := c.Args[1].(*ast.FuncLit); ok {
				return fl
			}
		}
	}
	return nil
}

func capOfMake(s *src, m *ast.CallExpr) int {
	if m == nil {
		return 99
	}
	if len(m.Args) == 1 {
		return 0
	}
	switch s.str(m.Args[1]) {
	case "0":
		return 0
	case "1":
		return 1
	}
	return 2 // "some larger buffer"
}

func stubFacts(s *src, f *facts) {
	fl := makeRPCLit(s)
	var body *ast.BlockStmt
	if fl != nil {
		body = fl.Body
	}
	top := func(n ast.Node) bool { // n sits in a top-level statement of the literal (not inside go/defer literals)
		if body == nil {
			return false
		}
		for _, st := range body.List {
			if contains(st, n) {
				_, isGo := st.(*ast.GoStmt)
				_, isDefer := st.(*ast.DeferStmt)
				return !isGo && !isDefer
			}
		}
		return false
	}
	// callID := uuid.NewString()
	var callID string
	var idStmt ast.Node
	if body != nil {
		for _, st := range body.List {
			if a, ok := st.(*ast.AssignStmt); ok && len(a.Lhs) == 1 && len(a.Rhs) == 1 {
				r := s.str(a.Rhs[0])
				if r == "uuid.NewString()" || r == "uuid.New().String()" {
					callID = s.str(a.Lhs[0])
					idStmt = st
				}
			}
		}
	}
	// … and that is the ONLY thing the id ever is: no second assignment to it, no assignment to a `.Call` member
	// (an id inherited from the context of the call being handled, a counter, a cache, …)
	if callID != "" {
		for _, a := range all[*ast.AssignStmt](body, nil) {
			for _, l := range a.Lhs {
				if ls := s.str(l); (ls == callID && ast.Node(a) != idStmt) || strings.HasSuffix(ls, ".Call") {
					callID = ""
				}
			}
		}
	}
	f.b("stubCallIdFresh", callID != "", s.pos(idStmt))
	// request literal
	reqLit := first(allShallow(body, func(c *ast.CompositeLit) bool { return strings.HasPrefix(s.str(c.Type), "utils.Request[") }))
	f.b("stubRequestCallIsCallId", callID != "" && s.str(litField(reqLit, "Call")) == callID, s.pos(reqLit))
	f.b("stubRequestFunctionIsName", s.str(litField(reqLit, "Function")) == "name", s.pos(reqLit))
	f.b("stubRequestArgsInitEmpty", s.str(litField(reqLit, "Args")) == "[]T{}", s.pos(reqLit))
	// the request variable
	cmd := ""
	if reqLit != nil {
		if a := enclosing[*ast.AssignStmt](body, reqLit); a != nil && len(a.Lhs) == 1 {
			cmd = s.str(a.Lhs[0])
		}
	}
	// range over args
	rng := first(allShallow(body, func(r *ast.RangeStmt) bool { return s.str(r.X) == "args" }))
	idx, elem := "", ""
	if rng != nil {
		idx, elem = s.str(rng.Key), s.str(rng.Value)
	}
	appends := all(body, func(a *ast.AssignStmt) bool {
		return len(a.Lhs) == 1 && s.str(a.Lhs[0]) == cmd+".Args" && strings.HasPrefix(s.str(a.Rhs[0]), "append("+cmd+".Args, ")
	})
	funcIf := first(all(rng, func(i *ast.IfStmt) bool { return s.str(i.Cond) == elem+".Kind() == reflect.Func" }))
	inOrder := rng != nil && funcIf != nil && len(appends) == 2
	if inOrder {
		els, _ := funcIf.Else.(*ast.BlockStmt)
		if funcIf.Else == nil {
			// dedented spelling: `if <func> { …; continue }` directly in the loop body, the former else being the
			// statements behind it. Only when the branch really ends the iteration (an unlabelled `continue` as its
			// last own statement); the rest of the loop body then plays the part of the else block.
			els = tailAfterContinue(rng.Body, funcIf)
		}
		inOrder = contains(funcIf.Body, appends[0]) && els != nil && contains(els, appends[1])
		// each appended value is the marshal result of this iteration
		for _, a := range appends {
			c := a.Rhs[0].(*ast.CallExpr)
			inOrder = inOrder && len(c.Args) == 2 && s.str(c.Args[1]) == "b"
		}
		if els != nil {
			ms := s.callsToShallow(els, "marshal")
			inOrder = inOrder && len(ms) == 1 && s.str(ms[0].Args[0]) == elem+".Interface()"
		}
	}
	f.b("stubArgsAppendInOrder", inOrder, s.pos(rng))
	skip := first(all(rng, func(i *ast.IfStmt) bool {
		if s.str(i.Cond) != idx+" == 0" {
			return false
		}
		n := len(i.Body.List)
		if n == 0 {
			return false
		}
		br, ok := i.Body.List[n-1].(*ast.BranchStmt)
		return ok && br.Tok.String() == "continue" && len(s.callsTo(i.Body, "marshal")) == 0
	}))
	f.b("stubCtxSkipped", skip != nil && (funcIf == nil || before(skip, funcIf)), s.pos(skip))
	// closures
	var reg *ast.CallExpr
	freeName, idName := "", ""
	if funcIf != nil {
		reg = first(s.callsTo(funcIf.Body, "registerClosure"))
		if reg != nil {
			if a := enclosing[*ast.AssignStmt](funcIf.Body, reg); a != nil && len(a.Lhs) == 3 {
				idName, freeName = s.str(a.Lhs[0]), s.str(a.Lhs[1])
			}
		}
	}
	regOK := reg != nil && idName != ""
	if regOK {
		ms := s.callsToShallow(funcIf.Body, "marshal")
		regOK = len(ms) == 1 && s.str(ms[0].Args[0]) == idName
	}
	f.b("stubFuncArgsRegistered", regOK, s.pos(reg))
	deferred := false
	if funcIf != nil && freeName != "" {
		for _, d := range all[*ast.DeferStmt](funcIf.Body, nil) {
			if s.str(d.Call) == freeName+"()" && before(reg, d) {
				// nothing that can panic may sit between registration and the defer
				deferred = true
				for _, c := range s.callsTo(funcIf.Body, "marshal") {
					if before(c, d) {
						deferred = false
					}
				}
			}
		}
	}
	f.b("stubClosureFreeDeferred", deferred, s.pos(reg))
	// Receive / waiter / write
	recv := first(all(body, func(c *ast.CallExpr) bool { return s.calleeIs(c, "Receive") && top(c) }))
	ctxVar := ""
	if rng != nil {
		for _, a := range all[*ast.AssignStmt](rng, nil) {
			if len(a.Lhs) == 1 && len(a.Rhs) == 1 && s.str(a.Rhs[0]) == "v" && contains(skip, a) {
				ctxVar = s.str(a.Lhs[0])
			}
		}
	}
	f.b("stubReceiveKeyIsCallId", recv != nil && len(recv.Args) == 2 && s.str(recv.Args[0]) == callID, s.pos(recv))
	f.b("stubReceiveCtxIsCallCtx", recv != nil && len(recv.Args) == 2 && ctxVar != "" && s.str(recv.Args[1]) == ctxVar, s.pos(recv))
	write := first(all(body, func(c *ast.CallExpr) bool { return s.str(c.Fun) == "writeRequest" && top(c) }))
	f.b("stubRecvBeforeWrite", before(recv, write), s.pos(write))
	var waiter *ast.GoStmt
	if body != nil {
		for _, st := range body.List {
			if g, ok := st.(*ast.GoStmt); ok {
				waiter = g
			}
		}
	}
	f.b("stubWaiterSpawnedBeforeWrite", before(waiter, write), s.pos(waiter))
	var wl *ast.FuncLit
	if waiter != nil {
		wl, _ = waiter.Call.Fun.(*ast.FuncLit)
	}
	frees := false
	if wl != nil {
		for _, d := range all[*ast.DeferStmt](wl.Body, nil) {
			if s.calleeIs(d.Call, "Free") && len(d.Call.Args) >= 1 && s.str(d.Call.Args[0]) == callID {
				frees = true
			}
		}
	}
	f.b("stubWaiterFreesOnExit", frees, s.pos(waiter))
	maps := false
	if wl != nil {
		for _, i := range all[*ast.IfStmt](wl.Body, nil) {
			if s.str(i.Cond) == "err != nil" {
				for _, cl := range all[*ast.CompositeLit](i.Body, nil) {
					if strings.HasPrefix(s.str(cl.Type), "callResponse[") && len(cl.Elts) == 3 && s.str(cl.Elts[1]) == "err" && s.str(cl.Elts[2]) == "true" {
						maps = true
					}
				}
			}
		}
	}
	f.b("stubWaiterMapsErrToCancelled", maps, s.pos(waiter))
	// res channel
	resName := ""
	var resMake *ast.CallExpr
	if wl != nil {
		if snd := first(all[*ast.SendStmt](wl.Body, nil)); snd != nil {
			resName = s.str(snd.Chan)
		}
	}
	if body != nil && resName != "" {
		for _, st := range body.List {
			if a, ok := st.(*ast.AssignStmt); ok && len(a.Lhs) == 1 && s.str(a.Lhs[0]) == resName {
				if c, ok := a.Rhs[0].(*ast.CallExpr); ok && s.str(c.Fun) == "make" {
					resMake = c
				}
			}
		}
	}
	f.n("stubResChanCap", capOfMake(s, resMake), s.pos(resMake))
	sel := first(allShallow(body, func(x *ast.SelectStmt) bool { return top(x) }))
	selRes, selLink := false, false
	var resCase *ast.CommClause
	for _, cc := range selectCases(sel) {
		if resName != "" && s.commRecvFrom(cc, func(x string) bool { return x == resName }) {
			selRes = true
			resCase = cc
		}
		if s.commRecvFrom(cc, func(x string) bool { return x == "linkCtx.Done()" }) && len(all[*ast.CallExpr](cc, func(c *ast.CallExpr) bool { return s.str(c.Fun) == "panic" })) > 0 {
			selLink = true
		}
	}
	f.b("stubSelectsRes", selRes && before(write, sel), s.pos(sel))
	f.b("stubSelectsLinkCtx", selLink, s.pos(sel))
	// recover frame
	var rec *ast.DeferStmt
	if body != nil && len(body.List) > 0 {
		rec, _ = body.List[0].(*ast.DeferStmt)
	}
	hasRecover := rec != nil && len(s.callsTo(rec, "recover")) > 0
	f.b("stubRecovers", hasRecover, s.pos(rec))
	f.b("stubRecoverCallsSetErr", hasRecover && len(s.callsTo(rec, "setErr")) > 0, s.pos(rec))
	arity := false
	if rec != nil {
		for _, i := range all[*ast.IfStmt](rec, nil) {
			if s.str(i.Cond) == "len(results) != functionType.NumOut()" && strings.Contains(s.str(i.Body), "NumOut() == 1") && strings.Contains(s.str(i.Body), "NumOut() == 2") {
				arity = true
			}
		}
	}
	f.b("stubFixesArity", arity, s.pos(rec))
	// decoding of the response
	raw := ""
	if resCase != nil {
		if a, ok := resCase.Comm.(*ast.AssignStmt); ok {
			raw = s.str(a.Lhs[0])
		}
	}
	errSets := all(resCase, func(i *ast.IfStmt) bool {
		return s.str(i.Cond) == raw+".err != nil" && strings.Contains(s.str(i.Body), ".Elem().Set(reflect.ValueOf("+raw+".err))")
	})
	f.b("stubErrResultFromResponse", len(errSets) == 2, s.pos(resCase))
	skipDec := all(resCase, func(i *ast.IfStmt) bool {
		return s.str(i.Cond) == "!"+raw+".cancelled" && len(s.callsTo(i.Body, "unmarshal")) == 1
	})
	f.b("stubTwoOutSkipsDecodeWhenCancelled", len(skipDec) == 1, s.pos(first(skipDec)))
	oneOut := false
	for _, i := range errSets {
		if e, ok := i.Else.(*ast.IfStmt); ok && strings.Contains(s.str(e.Cond), "Implements(errorType)") && strings.HasPrefix(s.str(e.Cond), "!") && len(s.callsTo(e.Body, "unmarshal")) == 1 {
			oneOut = true
		}
	}
	f.b("stubOneOutDecodesValueOnlyIfNotError", oneOut, s.pos(resCase))
}

// tailAfterContinue: for `for … { …; if C { …; continue }; TAIL… }` — ifs one of the loop body's own statements,
// without else, ending in an unlabelled `continue` — the statements TAIL as a block (they run exactly when C is
// false, like an else block would); nil otherwise.
func tailAfterContinue(loopBody *ast.BlockStmt, ifs *ast.IfStmt) *ast.BlockStmt {
	if loopBody == nil || ifs == nil || ifs.Else != nil || ifs.Body == nil || len(ifs.Body.List) == 0 {
		return nil
	}
	br, ok := ifs.Body.List[len(ifs.Body.List)-1].(*ast.BranchStmt)
	if !ok || br.Tok != token.CONTINUE || br.Label != nil {
		return nil
	}
	for k, st := range loopBody.List {
		if st == ast.Stmt(ifs) {
			tail := loopBody.List[k+1:]
			if len(tail) == 0 {
				return nil
			}
			return &ast.BlockStmt{Lbrace: tail[0].Pos(), List: tail, Rbrace: tail[len(tail)-1].End()}
		}
	}
	return nil
}
