package main

// Small AST query toolkit. Syntax only (go/parser): no type checking, no imports to
// resolve, nothing to fetch. The extractor prints what the source says; it decides
// nothing about properties.

import (
	"bytes"
	"fmt"
	"go/ast"
	"go/parser"
	"go/printer"
	"go/token"
	"os"
	"path/filepath"
	"reflect"
	"strings"
)

type src struct {
	fset  *token.FileSet
	files map[string]*ast.File // base name -> file

	// bookkeeping of the normalisation pre-pass (normalize.go)
	helpers      map[string]*ast.FuncDecl // unexported, non-anchored functions / methods that may be inlined
	expanded     map[ast.Stmt]bool        // statements whose helper calls already have a copy behind them
	inlinedCalls map[*ast.CallExpr]bool   // helper calls that have a copy of the helper's body behind them
}

func load(dirs ...string) (*src, error) { return loadWith(true, dirs...) }

// loadRaw parses without the normalisation pre-pass (for queries about a function body as written).
func loadRaw(dirs ...string) (*src, error) { return loadWith(false, dirs...) }

func loadWith(norm bool, dirs ...string) (*src, error) {
	s := &src{fset: token.NewFileSet(), files: map[string]*ast.File{}}
	for _, d := range dirs {
		ents, err := os.ReadDir(d)
		if err != nil {
			return nil, err
		}
		for _, e := range ents {
			n := e.Name()
			if !strings.HasSuffix(n, ".go") || strings.HasSuffix(n, "_test.go") || strings.HasPrefix(n, "verif_") {
				continue
			}
			f, err := parser.ParseFile(s.fset, filepath.Join(d, n), nil, parser.ParseComments)
			if err != nil {
				return nil, err
			}
			stripHooks(f)
			s.files[n] = f
		}
	}
	if norm {
		s.normalize()
	}
	return s, nil
}

func (s *src) str(n ast.Node) string {
	if n == nil || isNilNode(n) {
		return ""
	}
	var b bytes.Buffer
	printer.Fprint(&b, s.fset, n)
	t := strings.Join(strings.Fields(b.String()), " ")
	// chained calls broken over lines print as "x. F(). G": rejoin
	for strings.Contains(t, ". ") && !strings.Contains(t, "\"") {
		t = strings.ReplaceAll(t, ". ", ".")
	}
	return t
}

func isNilNode(n ast.Node) bool {
	if n == nil {
		return true
	}
	v := reflect.ValueOf(n)
	return v.Kind() == reflect.Ptr && v.IsNil()
}

func (s *src) pos(n ast.Node) string {
	if n == nil || isNilNode(n) {
		return "?"
	}
	p := s.fset.Position(n.Pos())
	return fmt.Sprintf("%s:%d", filepath.Base(p.Filename), p.Line)
}

// funcDecl finds a function or method. recv "" = plain function; otherwise the receiver's
// base type name (pointer and type parameters stripped).
func (s *src) funcDecl(recv, name string) *ast.FuncDecl {
	for _, f := range s.files {
		for _, d := range f.Decls {
			fd, ok := d.(*ast.FuncDecl)
			if !ok || fd.Name.Name != name {
				continue
			}
			if recv == "" && fd.Recv == nil {
				return fd
			}
			if recv != "" && fd.Recv != nil && len(fd.Recv.List) == 1 && recvBase(fd.Recv.List[0].Type) == recv {
				return fd
			}
		}
	}
	return nil
}

func recvBase(e ast.Expr) string {
	switch v := e.(type) {
	case *ast.StarExpr:
		return recvBase(v.X)
	case *ast.IndexExpr:
		return recvBase(v.X)
	case *ast.IndexListExpr:
		return recvBase(v.X)
	case *ast.Ident:
		return v.Name
	}
	return ""
}

// methodsOf lists the method names declared on a receiver base type.
func (s *src) methodsOf(recv string) []string {
	var out []string
	for _, f := range s.files {
		for _, d := range f.Decls {
			fd, ok := d.(*ast.FuncDecl)
			if ok && fd.Recv != nil && len(fd.Recv.List) == 1 && recvBase(fd.Recv.List[0].Type) == recv {
				out = append(out, fd.Name.Name)
			}
		}
	}
	return out
}

func (s *src) structDecl(name string) *ast.StructType {
	for _, f := range s.files {
		for _, d := range f.Decls {
			gd, ok := d.(*ast.GenDecl)
			if !ok {
				continue
			}
			for _, sp := range gd.Specs {
				ts, ok := sp.(*ast.TypeSpec)
				if ok && ts.Name.Name == name {
					if st, ok := ts.Type.(*ast.StructType); ok {
						return st
					}
				}
			}
		}
	}
	return nil
}

// all collects nodes of type T under root satisfying pred, in source order. A node that is reachable twice
// (the normalisation pre-pass references a named closure's literal from its definition AND from its use)
// is reported once, at its first occurrence.
func all[T ast.Node](root ast.Node, pred func(T) bool) []T {
	var out []T
	if root == nil || isNilNode(root) {
		return out
	}
	seen := map[ast.Node]bool{}
	ast.Inspect(root, func(n ast.Node) bool {
		if v, ok := n.(T); ok && !seen[n] && (pred == nil || pred(v)) {
			seen[n] = true
			out = append(out, v)
		}
		return true
	})
	return out
}

// allShallow is like all but does not descend into function literals other than root.
func allShallow[T ast.Node](root ast.Node, pred func(T) bool) []T {
	var out []T
	if root == nil || isNilNode(root) {
		return out
	}
	seen := map[ast.Node]bool{}
	ast.Inspect(root, func(n ast.Node) bool {
		if fl, ok := n.(*ast.FuncLit); ok && ast.Node(fl) != root {
			return false
		}
		if v, ok := n.(T); ok && !seen[n] && (pred == nil || pred(v)) {
			seen[n] = true
			out = append(out, v)
		}
		return true
	})
	return out
}

func first[T ast.Node](xs []T) (z T) {
	if len(xs) > 0 {
		return xs[0]
	}
	return z
}

// callsTo returns calls whose callee text equals name or ends in "."+name.
func (s *src) callsTo(root ast.Node, name string) []*ast.CallExpr {
	return all(root, func(c *ast.CallExpr) bool { return s.calleeIs(c, name) })
}

func (s *src) callsToShallow(root ast.Node, name string) []*ast.CallExpr {
	return allShallow(root, func(c *ast.CallExpr) bool { return s.calleeIs(c, name) })
}

func (s *src) calleeIs(c *ast.CallExpr, name string) bool {
	f := s.str(c.Fun)
	return f == name || strings.HasSuffix(f, "."+name)
}

func contains(root, n ast.Node) bool {
	if root == nil || n == nil || isNilNode(root) || isNilNode(n) {
		return false
	}
	return root.Pos() <= n.Pos() && n.End() <= root.End()
}

func before(a, b ast.Node) bool {
	if a == nil || b == nil || isNilNode(a) || isNilNode(b) {
		return false
	}
	return a.Pos() < b.Pos()
}

// heldAt computes, for a function body, the set of statements during which the mutex
// whose lock/unlock calls match lockText (e.g. "b.lock", "m.closuresLock", "fatalErrLock.L")
// is lexically held. Straight-line abstract interpretation: `X.Lock()` acquires,
// `X.Unlock()` releases, `defer X.Unlock()` keeps it to the end; a branch that ends in a
// return does not flow out. Function literals are not entered.
type lockInfo struct {
	held map[ast.Stmt]bool
}

func (s *src) heldAt(body *ast.BlockStmt, lockText string) *lockInfo {
	li := &lockInfo{held: map[ast.Stmt]bool{}}
	if body == nil {
		return li
	}
	var walk func(list []ast.Stmt, held bool) (bool, bool) // returns (held after, terminated)
	walk = func(list []ast.Stmt, held bool) (bool, bool) {
		for _, st := range list {
			li.held[st] = held
			switch v := st.(type) {
			case *ast.ExprStmt:
				if c, ok := v.X.(*ast.CallExpr); ok {
					f := s.str(c.Fun)
					if f == lockText+".Lock" {
						held = true
						li.held[st] = false
					} else if f == lockText+".Unlock" {
						held = false
					}
				}
			case *ast.ReturnStmt:
				return held, true
			case *ast.BranchStmt:
				return held, true
			case *ast.IfStmt:
				h1, t1 := walk(v.Body.List, held)
				h2, t2 := held, false
				if v.Else != nil {
					switch e := v.Else.(type) {
					case *ast.BlockStmt:
						h2, t2 = walk(e.List, held)
					case *ast.IfStmt:
						h2, t2 = walk([]ast.Stmt{e}, held)
					}
				}
				switch {
				case t1 && t2:
					return held, true
				case t1:
					held = h2
				case t2:
					held = h1
				default:
					held = h1 && h2
				}
			case *ast.ForStmt:
				walk(v.Body.List, held)
			case *ast.RangeStmt:
				walk(v.Body.List, held)
			case *ast.BlockStmt:
				held, _ = walk(v.List, held)
			case *ast.SelectStmt:
				for _, cc := range v.Body.List {
					walk(cc.(*ast.CommClause).Body, held)
				}
			case *ast.SwitchStmt:
				for _, cc := range v.Body.List {
					walk(cc.(*ast.CaseClause).Body, held)
				}
			}
		}
		return held, false
	}
	walk(body.List, false)
	return li
}

// heldFor reports whether the lock is held at the innermost statement containing n.
func (li *lockInfo) heldFor(n ast.Node) bool {
	var best ast.Stmt
	for st := range li.held {
		if contains(st, n) {
			if best == nil || (st.Pos() >= best.Pos() && st.End() <= best.End()) {
				best = st
			}
		}
	}
	if best == nil {
		return false
	}
	return li.held[best]
}

// selectCases returns the comm clauses of a select statement.
func selectCases(sel *ast.SelectStmt) []*ast.CommClause {
	var out []*ast.CommClause
	if sel == nil {
		return out
	}
	for _, c := range sel.Body.List {
		out = append(out, c.(*ast.CommClause))
	}
	return out
}

// commRecvFrom reports whether the clause receives from a channel expression whose text
// satisfies pred.
func (s *src) commRecvFrom(cc *ast.CommClause, pred func(string) bool) bool {
	if cc.Comm == nil {
		return false
	}
	var x ast.Expr
	switch v := cc.Comm.(type) {
	case *ast.ExprStmt:
		x = v.X
	case *ast.AssignStmt:
		if len(v.Rhs) == 1 {
			x = v.Rhs[0]
		}
	}
	if u, ok := x.(*ast.UnaryExpr); ok && u.Op == token.ARROW {
		return pred(s.str(u.X))
	}
	return false
}

func (s *src) commSendOn(cc *ast.CommClause, pred func(string) bool) bool {
	if cc.Comm == nil {
		return false
	}
	if v, ok := cc.Comm.(*ast.SendStmt); ok {
		return pred(s.str(v.Chan))
	}
	return false
}

func hasSuffix(sfx string) func(string) bool {
	return func(x string) bool { return strings.HasSuffix(x, sfx) }
}

// enclosing returns the innermost node of type T under root that contains n.
func enclosing[T ast.Node](root, n ast.Node) (z T) {
	var best T
	found := false
	ast.Inspect(root, func(m ast.Node) bool {
		if m == nil {
			return false
		}
		if !contains(m, n) {
			return false
		}
		if v, ok := m.(T); ok && ast.Node(v) != n {
			best = v
			found = true
		}
		return true
	})
	if found {
		return best
	}
	return z
}

// goDepth counts the go statements (under root) that enclose n.
func goDepth(root, n ast.Node) int {
	d := 0
	ast.Inspect(root, func(m ast.Node) bool {
		if m == nil || !contains(m, n) {
			return false
		}
		if _, ok := m.(*ast.GoStmt); ok {
			d++
		}
		return true
	})
	return d
}

func litField(cl *ast.CompositeLit, name string) ast.Expr {
	if cl == nil {
		return nil
	}
	for _, e := range cl.Elts {
		if kv, ok := e.(*ast.KeyValueExpr); ok {
			if id, ok := kv.Key.(*ast.Ident); ok && id.Name == name {
				return kv.Value
			}
		}
	}
	return nil
}

// stripHooks removes the verification hook calls (verifTrace / verifYield statements) from the
// syntax tree, so that the facts are the same with and without them.
func stripHooks(f *ast.File) {
	isHook := func(st ast.Stmt) bool {
		es, ok := st.(*ast.ExprStmt)
		if !ok {
			return false
		}
		c, ok := es.X.(*ast.CallExpr)
		if !ok {
			return false
		}
		id, ok := c.Fun.(*ast.Ident)
		return ok && (id.Name == "verifTrace" || id.Name == "verifYield")
	}
	filter := func(list []ast.Stmt) []ast.Stmt {
		out := list[:0]
		for _, st := range list {
			if !isHook(st) {
				out = append(out, st)
			}
		}
		return out
	}
	ast.Inspect(f, func(n ast.Node) bool {
		switch v := n.(type) {
		case *ast.BlockStmt:
			v.List = filter(v.List)
		case *ast.CaseClause:
			v.Body = filter(v.Body)
		case *ast.CommClause:
			v.Body = filter(v.Body)
		}
		return true
	})
}
