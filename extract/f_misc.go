package main

import (
	"go/ast"
	"go/token"
	"strings"
)

// miscFacts: facts added after round 4 of the seeded changes.
func miscFacts(s *src, f *facts) {
	// ---- createClosure's wrapper: whether the closure failed is decided by IsNil() on its last result (a
	// nil pointer of a concrete error type is "no error"), and only then is it turned into an `error`
	cc := s.funcDecl("", "createClosure")
	viaIsNil := false
	if cc != nil {
		asserts := all(cc.Body, func(t *ast.TypeAssertExpr) bool { return t.Type != nil && s.str(t.Type) == "error" })
		viaIsNil = len(asserts) > 0
		for _, t := range asserts {
			guarded := false
			for _, i := range all[*ast.IfStmt](cc.Body, nil) {
				if contains(i.Body, t) && strings.Contains(s.str(i.Cond), ".IsNil()") && strings.Contains(s.str(i.Cond), "!") {
					guarded = true
				}
			}
			viaIsNil = viaIsNil && guarded
		}
	}
	f.b("clNilErrorViaIsNil", viaIsNil, s.pos(cc))

	// ---- utils/messages.go: the four Marshal / Unmarshal methods hand the struct itself to the codec and do
	// nothing else (no field is touched after decoding or before encoding)
	plain := true
	n := 0
	for _, recv := range []string{"Request", "Response"} {
		for _, m := range []string{"Marshal", "Unmarshal"} {
			fd := s.funcDecl(recv, m)
			if fd == nil || fd.Body == nil || len(fd.Body.List) != 1 {
				plain = false
				continue
			}
			r, ok := fd.Body.List[0].(*ast.ReturnStmt)
			if !ok || len(r.Results) != 1 {
				plain = false
				continue
			}
			c, ok := r.Results[0].(*ast.CallExpr)
			rn := ""
			if fd.Recv != nil && len(fd.Recv.List) == 1 && len(fd.Recv.List[0].Names) == 1 {
				rn = fd.Recv.List[0].Names[0].Name
			}
			want := map[string]int{"Marshal": 1, "Unmarshal": 2}[m]
			if !ok || len(c.Args) != want || s.str(c.Args[want-1]) != rn {
				plain = false
				continue
			}
			if id, ok := c.Fun.(*ast.Ident); !ok || len(fd.Type.Params.List) == 0 || id.Name != fd.Type.Params.List[len(fd.Type.Params.List)-1].Names[0].Name {
				plain = false
				continue
			}
			n++
		}
	}
	f.b("msgCodecPlain", plain && n == 4, "utils/messages.go")

	// ---- Link's tail: what it returns is the fatal slot, read under the slot's lock, and nothing else
	lm := linkMessage(s)
	tail := false
	if lm != nil && len(lm.Body.List) > 0 {
		if r, ok := lm.Body.List[len(lm.Body.List)-1].(*ast.ReturnStmt); ok && len(r.Results) == 1 {
			if id, ok := r.Results[0].(*ast.Ident); ok {
				tail = true
				seen := 0
				for _, st := range lm.Body.List {
					ast.Inspect(st, func(n ast.Node) bool {
						if _, isLit := n.(*ast.FuncLit); isLit {
							return false // closures have their own `err`s
						}
						if a, ok := n.(*ast.AssignStmt); ok {
							for k, l := range a.Lhs {
								if li, ok := l.(*ast.Ident); ok && li.Name == id.Name && (a.Tok == token.ASSIGN || a.Tok == token.DEFINE) {
									seen++
									if len(a.Rhs) != len(a.Lhs) || s.str(a.Rhs[k]) != "fatalErr" {
										tail = false
									}
								}
							}
						}
						return true
					})
				}
				tail = tail && seen > 0
			}
		}
	}
	f.b("linkReturnsOnlyFatalSlot", tail, s.pos(lm))

	// ---- utils.Call: one reflect call under a deferred recover, nothing that can wait, no package-level state
	ucd := s.funcDecl("", "Call")
	ucPlain := ucd != nil
	if ucd != nil {
		ast.Inspect(ucd.Body, func(n ast.Node) bool {
			switch v := n.(type) {
			case *ast.SendStmt, *ast.SelectStmt, *ast.GoStmt:
				ucPlain = false
			case *ast.UnaryExpr:
				if v.Op == token.ARROW {
					ucPlain = false
				}
			case *ast.CallExpr:
				if sel, ok := v.Fun.(*ast.SelectorExpr); ok {
					switch sel.Sel.Name {
					case "Lock", "RLock", "Wait", "Acquire", "Do":
						ucPlain = false
					}
				}
			}
			return true
		})
	}
	f.b("ucNoWaiting", ucPlain, s.pos(ucd))
	// package-level variables that are not error values or reflect.Type constants: mutable global state
	var globals []string
	for _, file := range s.files {
		for _, d := range file.Decls {
			gd, ok := d.(*ast.GenDecl)
			if !ok || gd.Tok != token.VAR {
				continue
			}
			for _, sp := range gd.Specs {
				vs := sp.(*ast.ValueSpec)
				for i, nm := range vs.Names {
					init := ""
					if i < len(vs.Values) {
						init = s.str(vs.Values[i])
					}
					if strings.HasPrefix(init, "errors.New(") || strings.HasPrefix(init, "reflect.TypeOf(") || nm.Name == "_" {
						continue
					}
					globals = append(globals, nm.Name)
				}
			}
		}
	}
	if globals == nil {
		globals = []string{}
	}
	f.add("stateGlobals", globals, "package-level vars of rpc and utils other than error values / reflect.Type constants")
}
