package main

import (
	"fmt"
	"regexp"
	"sort"
	"go/ast"
	"go/token"
	"strings"
)

var isNilOnResult = regexp.MustCompile(`!out\[[^\]]+\]\.IsNil\(\)`)

// miscFacts: facts added after round 4 of the seeded changes.
func miscFacts(s *src, f *facts) {
	// ---- createClosure's wrapper: whether the closure failed is decided by IsNil() on its last result (a
	// nil pointer of a concrete error type is "no error"), and only then is it turned into an `error`
	cc := s.funcDecl("", "createClosure")
	viaIsNil := false
	if cc != nil {
		asserts := all(cc.Body, func(t *ast.TypeAssertExpr) bool { return t.Type != nil && s.str(t.Type) == "error" })
		viaIsNil = len(asserts) > 0
		for _, t := range asserts {
			guarded := false
			for _, i := range all[*ast.IfStmt](cc.Body, nil) {
				// (IsNil on the function's RESULT VALUE itself — `out[i]`, of the declared, nilable result type — not on what
				// an interface holds: `Elem().IsNil()` panics for an error value of a struct / integer / string kind)
				if contains(i.Body, t) && isNilOnResult.MatchString(s.str(i.Cond)) && !strings.Contains(s.str(i.Cond), "Elem()") {
					guarded = true
				}
			}
			viaIsNil = viaIsNil && guarded
		}
	}
	f.b("clNilErrorViaIsNil", viaIsNil, s.pos(cc))

	// ---- utils/messages.go: the four Marshal / Unmarshal methods hand the struct itself to the codec and do
	// nothing else (no field is touched after decoding or before encoding)
	plain := true
	n := 0
	for _, recv := range []string{"Request", "Response"} {
		for _, m := range []string{"Marshal", "Unmarshal"} {
			fd := s.funcDecl(recv, m)
			if fd == nil || fd.Body == nil || len(fd.Body.List) < 1 || len(fd.Body.List) > 2 {
				plain = false
				continue
			}
			var callX ast.Expr
			if len(fd.Body.List) == 1 {
				if r, ok := fd.Body.List[0].(*ast.ReturnStmt); ok && len(r.Results) == 1 {
					callX = r.Results[0]
				}
			} else {
				// the same through named results: `<results> = f(…)` followed by a bare `return`
				a, okA := fd.Body.List[0].(*ast.AssignStmt)
				r, okR := fd.Body.List[1].(*ast.ReturnStmt)
				if okA && okR && len(r.Results) == 0 && len(a.Rhs) == 1 && a.Tok == token.ASSIGN && fd.Type.Results != nil {
					names := fieldIdents(fd.Type.Results)
					same := len(names) == len(a.Lhs) && len(names) > 0
					for k := range a.Lhs {
						if !same || names[k] == nil || s.str(a.Lhs[k]) != names[k].Name {
							same = false
						}
					}
					if same {
						callX = a.Rhs[0]
					}
				}
			}
			if callX == nil {
				plain = false
				continue
			}
			c, ok := callX.(*ast.CallExpr)
			rn := ""
			if fd.Recv != nil && len(fd.Recv.List) == 1 && len(fd.Recv.List[0].Names) == 1 {
				rn = fd.Recv.List[0].Names[0].Name
			}
			want := map[string]int{"Marshal": 1, "Unmarshal": 2}[m]
			if !ok || len(c.Args) != want || s.str(c.Args[want-1]) != rn {
				plain = false
				continue
			}
			if id, ok := c.Fun.(*ast.Ident); !ok || len(fd.Type.Params.List) == 0 || id.Name != fd.Type.Params.List[len(fd.Type.Params.List)-1].Names[0].Name {
				plain = false
				continue
			}
			n++
		}
	}
	f.b("msgCodecPlain", plain && n == 4, "utils/messages.go")

	// ---- Link's tail: what it returns is the fatal slot, read under the slot's lock, and nothing else
	lm := linkMessage(s)
	tail := false
	if lm != nil && len(lm.Body.List) > 0 {
		if r, ok := lm.Body.List[len(lm.Body.List)-1].(*ast.ReturnStmt); ok && len(r.Results) == 1 {
			if id, ok := r.Results[0].(*ast.Ident); ok {
				tail = true
				seen := 0
				for _, st := range lm.Body.List {
					ast.Inspect(st, func(n ast.Node) bool {
						if _, isLit := n.(*ast.FuncLit); isLit {
							return false // closures have their own `err`s
						}
						if a, ok := n.(*ast.AssignStmt); ok {
							for k, l := range a.Lhs {
								if li, ok := l.(*ast.Ident); ok && li.Name == id.Name && (a.Tok == token.ASSIGN || a.Tok == token.DEFINE) {
									seen++
									if len(a.Rhs) != len(a.Lhs) || s.str(a.Rhs[k]) != "fatalErr" {
										tail = false
									}
								}
							}
						}
						return true
					})
				}
				tail = tail && seen > 0
			}
		}
	}
	f.b("linkReturnsOnlyFatalSlot", tail, s.pos(lm))

	// ---- utils.Call: one reflect call under a deferred recover, nothing that can wait, no package-level state
	ucd := s.funcDecl("", "Call")
	ucPlain := ucd != nil
	if ucd != nil {
		ast.Inspect(ucd.Body, func(n ast.Node) bool {
			switch v := n.(type) {
			case *ast.SendStmt, *ast.SelectStmt, *ast.GoStmt:
				ucPlain = false
			case *ast.UnaryExpr:
				if v.Op == token.ARROW {
					ucPlain = false
				}
			case *ast.CallExpr:
				if sel, ok := v.Fun.(*ast.SelectorExpr); ok {
					switch sel.Sel.Name {
					case "Lock", "RLock", "Wait", "Acquire", "Do":
						ucPlain = false
					}
				}
			}
			return true
		})
	}
	f.b("ucNoWaiting", ucPlain, s.pos(ucd))
	// package-level variables that are not error values or reflect.Type constants: mutable global state
	var globals []string
	for _, file := range s.files {
		for _, d := range file.Decls {
			gd, ok := d.(*ast.GenDecl)
			if !ok || gd.Tok != token.VAR {
				continue
			}
			for _, sp := range gd.Specs {
				vs := sp.(*ast.ValueSpec)
				for i, nm := range vs.Names {
					init := ""
					if i < len(vs.Values) {
						init = s.str(vs.Values[i])
					}
					if strings.HasPrefix(init, "errors.New(") || strings.HasPrefix(init, "reflect.TypeOf(") || nm.Name == "_" {
						continue
					}
					globals = append(globals, nm.Name)
				}
			}
		}
	}
	if globals == nil {
		globals = []string{}
	}
	f.add("stateGlobals", globals, "package-level vars of rpc and utils other than error values / reflect.Type constants")
}

// lockFacts: every function body (declarations and literals, each on its own) releases what it locks on every
// path: after `x.Lock()` each way out of the body passes exactly one `x.Unlock()` (or the Lock is followed by
// `defer x.Unlock()`), branches that rejoin agree on what is held, and loops leave it unchanged.
func lockFacts(s *src, f *facts) {
	var bad []string
	type held map[string]bool
	clone := func(h held) held {
		c := held{}
		for k, v := range h {
			if v {
				c[k] = true
			}
		}
		return c
	}
	same := func(a, b held) bool {
		for k, v := range a {
			if v && !b[k] {
				return false
			}
		}
		for k, v := range b {
			if v && !a[k] {
				return false
			}
		}
		return true
	}
	lockOp := func(st ast.Stmt) (string, string) { // (mutex, "Lock"/"Unlock"/"deferUnlock")
		var call *ast.CallExpr
		kind := ""
		switch v := st.(type) {
		case *ast.ExprStmt:
			call, _ = v.X.(*ast.CallExpr)
		case *ast.DeferStmt:
			call = v.Call
			kind = "defer"
		}
		if call == nil {
			return "", ""
		}
		sel, ok := call.Fun.(*ast.SelectorExpr)
		if !ok {
			return "", ""
		}
		switch sel.Sel.Name {
		case "Lock", "RLock":
			if kind == "" {
				return s.str(sel.X), "Lock"
			}
		case "Unlock", "RUnlock":
			return s.str(sel.X), kind + "Unlock"
		}
		return "", ""
	}
	var where string
	fail := func(msg string) {
		bad = append(bad, where+": "+msg)
	}
	// walk returns the held set after the statements and whether control certainly left (return / panic / break-less)
	var walk func(list []ast.Stmt, h held, deferred held) (held, bool)
	walk = func(list []ast.Stmt, h held, deferred held) (held, bool) {
		for _, st := range list {
			if mu, op := lockOp(st); op != "" {
				switch op {
				case "Lock":
					if h[mu] {
						fail("locks " + mu + " twice")
					}
					h[mu] = true
				case "Unlock":
					if !h[mu] {
						fail("unlocks " + mu + " which is not held on this path")
					}
					delete(h, mu)
				case "deferUnlock":
					deferred[mu] = true
				}
				continue
			}
			switch v := st.(type) {
			case *ast.ReturnStmt:
				for mu := range h {
					if !deferred[mu] {
						fail("returns while holding " + mu)
					}
				}
				return h, true
			case *ast.ExprStmt:
				if c, ok := v.X.(*ast.CallExpr); ok && s.str(c.Fun) == "panic" {
					return h, true
				}
			case *ast.BlockStmt:
				var left bool
				h, left = walk(v.List, h, deferred)
				if left {
					return h, true
				}
			case *ast.IfStmt:
				h1, l1 := walk(v.Body.List, clone(h), deferred)
				h2, l2 := clone(h), false
				switch e := v.Else.(type) {
				case *ast.BlockStmt:
					h2, l2 = walk(e.List, clone(h), deferred)
				case *ast.IfStmt:
					h2, l2 = walk([]ast.Stmt{e}, clone(h), deferred)
				}
				switch {
				case l1 && l2:
					return h, true
				case l1:
					h = h2
				case l2:
					h = h1
				default:
					if !same(h1, h2) {
						fail("the branches of `if " + s.str(v.Cond) + "` disagree on the locks held")
					}
					h = h1
				}
			case *ast.ForStmt:
				hb, _ := walk(v.Body.List, clone(h), deferred)
				if !same(hb, h) {
					fail("a loop body changes the locks held")
				}
			case *ast.RangeStmt:
				hb, _ := walk(v.Body.List, clone(h), deferred)
				if !same(hb, h) {
					fail("a loop body changes the locks held")
				}
			case *ast.SwitchStmt, *ast.TypeSwitchStmt, *ast.SelectStmt:
				var clauses []ast.Stmt
				switch sw := v.(type) {
				case *ast.SwitchStmt:
					clauses = sw.Body.List
				case *ast.TypeSwitchStmt:
					clauses = sw.Body.List
				case *ast.SelectStmt:
					clauses = sw.Body.List
				}
				var outs []held
				for _, cl := range clauses {
					var body []ast.Stmt
					switch c := cl.(type) {
					case *ast.CaseClause:
						body = c.Body
					case *ast.CommClause:
						body = c.Body
					}
					ho, left := walk(body, clone(h), deferred)
					if !left {
						outs = append(outs, ho)
					}
				}
				for _, o := range outs {
					if !same(o, outs[0]) {
						fail("the arms of a switch/select disagree on the locks held")
						break
					}
				}
				if len(outs) > 0 {
					h = outs[0]
				}
			}
		}
		return h, false
	}
	check := func(name string, body *ast.BlockStmt) {
		if body == nil {
			return
		}
		where = name
		deferred := held{}
		h, left := walk(body.List, held{}, deferred)
		if !left {
			for mu := range h {
				if !deferred[mu] {
					fail("ends while holding " + mu)
				}
			}
		}
	}
	n := 0
	for _, file := range s.files {
		for _, d := range file.Decls {
			fd, ok := d.(*ast.FuncDecl)
			if !ok || fd.Body == nil {
				continue
			}
			check(fd.Name.Name, fd.Body)
			n++
			k := 0
			ast.Inspect(fd.Body, func(x ast.Node) bool {
				if fl, ok := x.(*ast.FuncLit); ok {
					k++
					check(fd.Name.Name+".lit", fl.Body)
				}
				return true
			})
		}
	}
	ev := "all function bodies"
	if len(bad) > 0 {
		ev = strings.Join(bad, "; ")
	}
	f.b("locksBalanced", len(bad) == 0 && n > 0, ev)
}

// errBranchFacts: every error branch is handled and terminal.  For each `if <x> != nil { … }` whose <x> is an
// error variable (`err`, `e` from recover is excluded) in the library's functions, and each `if !ok { … }` after a
// type assertion to context.Context: the body reports the error — `setErr(…)`, `panic(…)`, or `return` of a
// non-nil error expression — and its last statement leaves (return / panic / continue / break).
func errBranchFacts(s *src, f *facts) {
	var bad []string
	n := 0
	for name, file := range s.files {
		ast.Inspect(file, func(x ast.Node) bool {
			i, ok := x.(*ast.IfStmt)
			if !ok {
				return true
			}
			c := s.str(i.Cond)
			if c == "!ok" {
				// only the guards of a type assertion to context.Context ("first argument must be a context")
				isCtxGuard := false
				ast.Inspect(file, func(y ast.Node) bool {
					if blk, ok := y.(*ast.BlockStmt); ok {
						for k, st := range blk.List {
							if st == ast.Stmt(i) && k > 0 && strings.Contains(s.str(blk.List[k-1]), ".(context.Context)") {
								isCtxGuard = true
							}
						}
					}
					return !isCtxGuard
				})
				if !isCtxGuard {
					return true
				}
			} else if c != "err != nil" {
				return true
			}
			n++
			// the report must be one of the body's OWN statements (not nested under a further condition)
			reports, uses := false, false
			for _, st := range i.Body.List {
				switch v := st.(type) {
				case *ast.ExprStmt:
					if c, ok := v.X.(*ast.CallExpr); ok {
						if fn := s.str(c.Fun); fn == "setErr" || fn == "panic" {
							reports = true
						}
						for _, a := range c.Args { // the error is handed on (`responseResolver.Close(err)`)
							if s.str(a) == "err" {
								reports = true
							}
						}
					}
				case *ast.ReturnStmt:
					for _, r := range v.Results {
						t := s.str(r)
						if t == "err" || strings.HasPrefix(t, "Err") || strings.Contains(t, "errors.") || strings.Contains(t, "err)") {
							reports = true
						}
					}
				case *ast.AssignStmt:
					// the error is stored for somebody else to report (`decodeErr = err`, a cancelled callResponse), or
					// deliberately replaced (`function, err = …fallback…, nil`)
					for _, r := range v.Rhs {
						if strings.Contains(s.str(r), "err") {
							uses = true
						}
					}
					for _, l := range v.Lhs {
						if s.str(l) == "err" {
							uses = true
						}
					}
				}
			}
			leaves := false
			if k := len(i.Body.List); k > 0 {
				switch l := i.Body.List[k-1].(type) {
				case *ast.ReturnStmt:
					leaves = true
				case *ast.BranchStmt:
					leaves = l.Tok == token.CONTINUE || l.Tok == token.BREAK
				case *ast.ExprStmt:
					if c, ok := l.X.(*ast.CallExpr); ok && (s.str(c.Fun) == "panic" || s.str(c.Fun) == "setErr") {
						leaves = true // (a trailing setErr: the setup goroutine reports and goes on to register the link)
					}
				}
			}
			if uses {
				reports, leaves = true, true
			}
			// `if err != nil { … } else { … }` with an else: the else is the success path; still require the report
			if !reports || !leaves {
				bad = append(bad, name+":"+s.pos(i))
			}
			return true
		})
	}
	ev := "all"
	if len(bad) > 0 {
		sort.Strings(bad)
		ev = strings.Join(bad, "; ")
	}
	f.b("errBranchesHandled", len(bad) == 0 && n > 0, ev)
}

// recoverFacts: the three deferred recover blocks of registry.go (stub, closure proxy, handler goroutine) have
// the canonical shape — the panic value becomes `err` if it is an error, else ErrPanickedWithNonErrorValue, then
// an unconditional setErr(err) — and the two that belong to reflect.MakeFunc bodies repair the result list for
// both arities ([err] / [zero, err], in that order) so that reflect never sees a wrong result count.
func recoverFacts(s *src, f *facts) {
	norm := func(n ast.Node) string { return strings.Join(strings.Fields(s.str(n)), " ") }
	blocks, fixups := 0, 0
	ok := true
	var why []string
	for _, file := range s.files {
		ast.Inspect(file, func(x ast.Node) bool {
			i, isIf := x.(*ast.IfStmt)
			if !isIf || i.Init == nil || norm(i.Init) != "e := recover()" || norm(i.Cond) != "e != nil" {
				return true
			}
			if len(s.callsTo(i.Body, "setErr")) == 0 {
				return true // utils.Call's recover and the lookup's: other facts
			}
			blocks++
			var stmts []string
			var own []ast.Stmt
			for _, st := range i.Body.List {
				if blk, isBlk := st.(*ast.BlockStmt); isBlk && blk.Lbrace == token.Pos(1) {
					continue // the pre-pass's copy of a helper body behind a helper call: the call itself is judged below
				}
				own = append(own, st)
				stmts = append(stmts, norm(st))
			}
			got := strings.Join(stmts, " ;; ")
			a := "var ok bool ;; err, ok = e.(error) ;; if !ok { err = utils.ErrPanickedWithNonErrorValue } ;; setErr(err)"
			b := "err, ok := e.(error) ;; if !ok { err = utils.ErrPanickedWithNonErrorValue } ;; setErr(err)"
			// third form: the conversion lives in a package-level helper, `err = H(e)` / `err := H(e)` then the same
			// unconditional `setErr(err)`; H's body must BE the canonical conversion (panicConversionHelper)
			viaHelper := false
			if len(own) == 2 && stmts[1] == "setErr(err)" {
				if as, isAs := own[0].(*ast.AssignStmt); isAs && len(as.Lhs) == 1 && len(as.Rhs) == 1 && norm(as.Lhs[0]) == "err" &&
					(as.Tok == token.ASSIGN || as.Tok == token.DEFINE) {
					if c, isCall := as.Rhs[0].(*ast.CallExpr); isCall && len(c.Args) == 1 && norm(c.Args[0]) == "e" && !c.Ellipsis.IsValid() {
						// (a local variable of that name would shadow the package-level function)
						if id, isID := c.Fun.(*ast.Ident); isID && (id.Obj == nil || id.Obj.Kind == ast.Fun) {
							viaHelper = panicConversionHelper(s, funcDeclInPkg(s, file.Name.Name, id.Name))
						}
					}
				}
			}
			if got != a && got != b && !viaHelper {
				ok = false
				why = append(why, "recover block at "+s.pos(i)+": "+got)
			}
			return true
		})
		ast.Inspect(file, func(x ast.Node) bool {
			i, isIf := x.(*ast.IfStmt)
			if !isIf || norm(i.Cond) != "len(results) != functionType.NumOut()" {
				return true
			}
			fixups++
			got := norm(i.Body)
			want := "{ errReturnValue := reflect.ValueOf(err) if functionType.NumOut() == 1 { results = []reflect.Value{errReturnValue} } else if functionType.NumOut() == 2 { valueReturnValue := reflect.Zero(functionType.Out(0)) results = []reflect.Value{valueReturnValue, errReturnValue} } }"
			if got != want {
				ok = false
				why = append(why, "result fix-up at "+s.pos(i)+": "+got)
			}
			return true
		})
	}
	ev := "3 recover blocks, 2 result fix-ups"
	if len(why) > 0 {
		ev = strings.Join(why, " | ")
	}
	f.b("recoverBlocksCanonical", ok && blocks >= 3 && fixups >= 2, ev)
}

// funcDeclInPkg finds the package-level function (no receiver) `name` declared in package `pkg`.
func funcDeclInPkg(s *src, pkg, name string) *ast.FuncDecl {
	for _, file := range s.files {
		if file == nil || file.Name == nil || file.Name.Name != pkg {
			continue
		}
		for _, d := range file.Decls {
			if fd, ok := d.(*ast.FuncDecl); ok && fd.Recv == nil && fd.Name != nil && fd.Name.Name == name && fd.Body != nil {
				return fd
			}
		}
	}
	return nil
}

// panicConversionHelper: fd is `func H(p any) error` (one parameter, one unnamed result of type error, no type
// parameters) whose body is exactly the canonical conversion of a recovered value, in one of its spellings
// (v, k, p are whatever the helper calls them; E is utils.ErrPanickedWithNonErrorValue):
//
//	v, k := p.(error); if !k { v = E }; return v
//	v, k := p.(error); if !k { return E }; return v
//	v, k := p.(error); if k { return v }; return E
//	if v, k := p.(error); k { return v }; return E
//
// Anything else — a dropped branch, another sentinel, an extra statement — is not accepted.
func panicConversionHelper(s *src, fd *ast.FuncDecl) bool {
	if fd == nil || fd.Body == nil || fd.Type == nil || fd.Recv != nil || fd.Type.TypeParams != nil {
		return false
	}
	ps, rs := fieldIdents(fd.Type.Params), fd.Type.Results
	if len(ps) != 1 || ps[0] == nil || rs == nil || len(rs.List) != 1 || len(rs.List[0].Names) != 0 || s.str(rs.List[0].Type) != "error" {
		return false
	}
	if t := s.str(fd.Type.Params.List[0].Type); t != "any" && t != "interface{}" {
		return false
	}
	sentinel := "utils.ErrPanickedWithNonErrorValue"
	if strings.Contains(s.str(fd.Body), " ErrPanickedWithNonErrorValue") || strings.Contains(s.str(fd.Body), "\tErrPanickedWithNonErrorValue") || strings.Contains(s.str(fd.Body), "= ErrPanickedWithNonErrorValue") {
		sentinel = "ErrPanickedWithNonErrorValue" // the helper lives in package utils itself
	}
	p := ps[0].Name
	// `v, k := p.(error)` -> (v, k)
	assertion := func(st ast.Stmt) (string, string, bool) {
		a, ok := st.(*ast.AssignStmt)
		if !ok || a.Tok != token.DEFINE || len(a.Lhs) != 2 || len(a.Rhs) != 1 || s.str(a.Rhs[0]) != p+".(error)" {
			return "", "", false
		}
		v, k := s.str(a.Lhs[0]), s.str(a.Lhs[1])
		return v, k, v != "_" && k != "_" && v != k && v != p && k != p
	}
	// `if COND { ONLY }` without init / else -> ONLY
	ifOnly := func(st ast.Stmt, cond string) ast.Stmt {
		i, ok := st.(*ast.IfStmt)
		if !ok || i.Init != nil || i.Else != nil || i.Body == nil || len(i.Body.List) != 1 || s.str(i.Cond) != cond {
			return nil
		}
		return i.Body.List[0]
	}
	is := func(st ast.Stmt, text string) bool { return st != nil && !isNilNode(st) && s.str(st) == text }
	l := fd.Body.List
	switch len(l) {
	case 3:
		v, k, ok := assertion(l[0])
		if !ok {
			return false
		}
		if is(l[2], "return "+v) {
			return is(ifOnly(l[1], "!"+k), v+" = "+sentinel) || is(ifOnly(l[1], "!"+k), "return "+sentinel)
		}
		return is(l[2], "return "+sentinel) && is(ifOnly(l[1], k), "return "+v)
	case 2:
		i, ok := l[0].(*ast.IfStmt)
		if !ok || i.Init == nil || i.Else != nil || i.Body == nil || len(i.Body.List) != 1 {
			return false
		}
		v, k, ok := assertion(i.Init)
		return ok && s.str(i.Cond) == k && is(i.Body.List[0], "return "+v) && is(l[1], "return "+sentinel)
	}
	return false
}

// panicFacts — the library turns failures of the link into panics (recovered into setErr by the caller's deferred
// handler). `panicSitesCanonical`: every `panic(…)` in the library is (a) one of the OWN statements of an
// `if e != nil { … }` / `if e := …; e != nil { … }` body handing on that very variable `e` (a plain identifier), or
// of a failed check handing on an `Err…` sentinel, or (b) the body of a select case on a `….Done()` channel, handing
// on that context's `Err()`.  Anything else (a panic on a RESULT, on a flag, on a per-call outcome) would turn an
// ordinary outcome into the end of the link.
func panicFacts(s *src, f *facts) {
	var bad []string
	n := 0
	for name, file := range s.files {
		var stack []ast.Node
		ast.Inspect(file, func(x ast.Node) bool {
			if x == nil {
				stack = stack[:len(stack)-1]
				return true
			}
			stack = append(stack, x)
			c, ok := x.(*ast.CallExpr)
			if !ok || s.str(c.Fun) != "panic" || len(c.Args) != 1 {
				return true
			}
			n++
			arg := s.str(c.Args[0])
			okSite := false
			// nearest enclosing block's owner
			for k := len(stack) - 2; k >= 0 && !okSite; k-- {
				switch v := stack[k].(type) {
				case *ast.ExprStmt, *ast.BlockStmt:
					continue
				case *ast.IfStmt:
					cond := s.str(v.Cond)
					if k+1 < len(stack) && stack[k+1] == ast.Node(v.Body) {
						// `if <ident> != nil { panic(<ident>) }` — the tested error variable itself (whatever its name) — or
						// a sentinel after a failed assertion / check
						if be, isBin := v.Cond.(*ast.BinaryExpr); isBin && be.Op == token.NEQ && s.str(be.Y) == "nil" {
							if id, isId := be.X.(*ast.Ident); isId && arg == id.Name {
								okSite = true
							}
						}
						if (cond == "!ok" || strings.HasSuffix(cond, "!= nil")) && strings.HasPrefix(arg, "Err") {
							okSite = true
						}
					}
					k = -1
				case *ast.CommClause:
					if v.Comm != nil && strings.HasSuffix(s.str(v.Comm), ".Done()") && strings.HasSuffix(arg, ".Err()") &&
						strings.TrimSuffix(strings.TrimPrefix(s.str(v.Comm), "<-"), ".Done()") == strings.TrimSuffix(arg, ".Err()") {
						okSite = true
					}
					k = -1
				default:
					k = -1
				}
			}
			if !okSite {
				bad = append(bad, name+":"+s.pos(c))
			}
			return true
		})
	}
	ev := fmt.Sprintf("all %d", n)
	if len(bad) > 0 {
		sort.Strings(bad)
		ev = strings.Join(bad, ",")
	}
	f.b("panicSitesCanonical", len(bad) == 0 && n > 0, ev)
}

// wrapperFacts (raw AST) — LinkMessage wraps the four transport functions in local closures that first look at the
// link's context.  `ioWrappersNonBlocking`: such a wrapper (a local `name := func…` whose body looks at a `….Done()`
// channel) never waits for anything but the transport call it wraps: every select in it has a `default`, it sends on
// no channel, takes no lock, waits on nothing; and its last statement returns.  (A window / semaphore / queue in a
// wrapper couples otherwise independent calls.)
func wrapperFacts(s *src, f *facts) {
	lm := linkMessage(s)
	ok, n := true, 0
	where := ""
	if lm == nil {
		f.b("ioWrappersNonBlocking", false, "")
		return
	}
	for _, a := range all[*ast.AssignStmt](lm.Body, nil) {
		if len(a.Lhs) != 1 || len(a.Rhs) != 1 {
			continue
		}
		fl, isLit := a.Rhs[0].(*ast.FuncLit)
		if !isLit || !strings.HasSuffix(s.strRaw(a.Lhs[0]), "Ctx") {
			continue
		}
		n++
		good := true
		for _, sel := range all[*ast.SelectStmt](fl.Body, nil) {
			hasDefault := false
			for _, cl := range sel.Body.List {
				cc := cl.(*ast.CommClause)
				if cc.Comm == nil {
					hasDefault = true
				} else if _, send := cc.Comm.(*ast.SendStmt); send {
					good = false
				}
			}
			good = good && hasDefault
		}
		if len(all[*ast.SendStmt](fl.Body, nil)) > 0 || len(all[*ast.GoStmt](fl.Body, nil)) > 0 {
			good = false
		}
		for _, c := range all[*ast.CallExpr](fl.Body, nil) {
			fn := s.strRaw(c.Fun)
			if strings.HasSuffix(fn, ".Lock") || strings.HasSuffix(fn, ".RLock") || strings.HasSuffix(fn, ".Wait") || strings.HasSuffix(fn, ".Acquire") {
				good = false
			}
		}
		// receives outside a select case block
		for _, u := range all[*ast.UnaryExpr](fl.Body, nil) {
			if u.Op.String() == "<-" {
				inCase := false
				for _, cc := range all[*ast.CommClause](fl.Body, nil) {
					if cc.Comm != nil && contains(cc.Comm, u) {
						inCase = true
					}
				}
				if !inCase {
					good = false
				}
			}
		}
		if !good {
			ok = false
			where = s.pos(a)
		}
	}
	if where == "" {
		where = fmt.Sprintf("%d wrappers", n)
	}
	f.b("ioWrappersNonBlocking", ok, where)
}

// crossFacts — guarantees of one file that properties anchored in OTHER files silently rely on (round 6 of the
// seeded changes: each property attacked through a file outside its anchors).
//   ucResultsUntouched  utils.Call hands back exactly what the function returned: the only assignment to its result
//                       list is `out = fn.Call(in)`; no element is replaced, nothing loops over it.  (A "normalisation"
//                       there changes every handler's and every closure's results: errors, nil collections …)
//   clFreeNeverWaits    the release function returned by registerClosure only locks, deletes and unlocks: it has no
//                       wait, channel operation or select — it runs deferred on EVERY exit path of a call, so anything
//                       it waits for (e.g. a closure body still running) delays the return of a cancelled or failed call.
func crossFacts(s *src, f *facts) {
	uc := s.funcDecl("", "Call")
	untouched := false
	if uc != nil && uc.Body != nil {
		n, bad := 0, false
		ast.Inspect(uc.Body, func(x ast.Node) bool {
			switch v := x.(type) {
			case *ast.FuncLit:
				return false // the deferred recover block is judged by recoverBlocksCanonical / ucNonErrorPanicMapped
			case *ast.AssignStmt:
				for _, l := range v.Lhs {
					t := s.str(l)
					if t == "out" {
						n++
						if len(v.Rhs) != 1 || !strings.HasSuffix(s.str(v.Rhs[0]), ".Call(in)") {
							bad = true
						}
					}
					if strings.HasPrefix(t, "out[") {
						bad = true
					}
				}
			case *ast.RangeStmt, *ast.ForStmt:
				bad = true
			case *ast.ReturnStmt:
				for _, r := range v.Results {
					if t := s.str(r); t != "out" && t != "err" && !strings.HasSuffix(t, ".Call(in)") && t != "nil" {
						bad = true
					}
				}
			}
			return true
		})
		untouched = !bad && n <= 1
		// (`return fn.Call(in), nil` without the named result is fine too)
	}
	f.b("ucResultsUntouched", untouched, s.pos(uc))

	rc := s.funcDecl("", "registerClosure")
	if rc == nil {
		rc = s.funcDecl("closureManager", "registerClosure")
	}
	neverWaits := false
	if rc != nil {
		var free *ast.FuncLit
		for _, l := range all[*ast.FuncLit](rc.Body, nil) {
			if len(s.callsTo(l, "delete")) > 0 {
				free = l
			}
		}
		if free != nil {
			neverWaits = len(all[*ast.SelectStmt](free.Body, nil)) == 0 && len(all[*ast.SendStmt](free.Body, nil)) == 0 && len(all[*ast.GoStmt](free.Body, nil)) == 0
			for _, u := range all[*ast.UnaryExpr](free.Body, nil) {
				if u.Op == token.ARROW {
					neverWaits = false
				}
			}
			for _, c := range all[*ast.CallExpr](free.Body, nil) {
				fn := s.str(c.Fun)
				if strings.HasSuffix(fn, ".Wait") || strings.HasSuffix(fn, ".Acquire") || strings.HasSuffix(fn, ".Do") || strings.HasSuffix(fn, "Sleep") {
					neverWaits = false
				}
			}
		}
	}
	f.b("clFreeNeverWaits", neverWaits, s.pos(rc))

	// clStoresCreatedClosure: what registerClosure puts into the table IS createClosure's wrapper — not a further
	// wrapper around it (a per-closure mutex "so that invocations do not race" serialises invocations: a stalled
	// one blocks the others, a re-entrant one deadlocks; a WaitGroup counts them; a cache shares them)
	stores := false
	if rc != nil {
		created := ""
		for _, a := range all[*ast.AssignStmt](rc.Body, nil) {
			if len(a.Rhs) == 1 && len(a.Lhs) >= 1 && len(s.callsTo(a.Rhs[0], "createClosure")) == 1 {
				if c, ok := a.Rhs[0].(*ast.CallExpr); ok && s.str(c.Fun) == "createClosure" {
					created = s.str(a.Lhs[0])
				}
			}
		}
		n := 0
		for _, a := range all[*ast.AssignStmt](rc.Body, nil) {
			if len(a.Lhs) == 1 && len(a.Rhs) == 1 && strings.HasSuffix(strings.SplitN(s.str(a.Lhs[0]), "[", 2)[0], ".closures") && strings.Contains(s.str(a.Lhs[0]), "[") {
				n++
				stores = created != "" && s.str(a.Rhs[0]) == created
			}
		}
		stores = stores && n == 1
	}
	f.b("clStoresCreatedClosure", stores, s.pos(rc))

	// clConvertsEveryArg: the wrapper converts EVERY argument with convertValue — the call is one of the conversion
	// loop's own statements and nothing `continue`s past it (a fast path for "already the right type" looks at
	// `reflect.ValueOf(arg).Type()`, which panics for the untyped nil a `null` argument decodes to)
	every := false
	if cc := s.funcDecl("", "createClosure"); cc != nil {
		for _, l := range all[*ast.RangeStmt](cc.Body, nil) {
			if s.str(l.X) != "args" {
				continue
			}
			// every top-level statement of the loop is part of convert–check–store: a declaration, the one assignment from
			// convertValue (possibly as the init of the check), `if err != nil { return … }`, the store into in[i]
			converts, okShape := 0, true
			isConvert := func(a *ast.AssignStmt) bool {
				if a == nil || len(a.Rhs) != 1 {
					return false
				}
				c, ok := a.Rhs[0].(*ast.CallExpr)
				return ok && s.str(c.Fun) == "convertValue"
			}
			for _, st := range l.Body.List {
				switch v := st.(type) {
				case *ast.DeclStmt:
				case *ast.AssignStmt:
					if isConvert(v) {
						converts++
					} else if !(len(v.Lhs) == 1 && strings.HasPrefix(s.str(v.Lhs[0]), "in[")) {
						okShape = false
					}
				case *ast.IfStmt:
					if init, ok := v.Init.(*ast.AssignStmt); ok && isConvert(init) {
						converts++
					} else if v.Init != nil {
						okShape = false
					}
					if !strings.HasSuffix(s.str(v.Cond), "!= nil") || v.Else != nil || len(v.Body.List) != 1 {
						okShape = false
					} else if _, isRet := v.Body.List[0].(*ast.ReturnStmt); !isRet {
						okShape = false
					}
				default:
					okShape = false
				}
			}
			skips := false
			for _, b := range all[*ast.BranchStmt](l.Body, nil) {
				if b.Tok == token.CONTINUE || b.Tok == token.BREAK {
					skips = true
				}
			}
			asserts := len(all[*ast.TypeAssertExpr](l.Body, nil)) + len(all[*ast.TypeSwitchStmt](l.Body, nil))
			every = converts == 1 && okShape && !skips && asserts == 0
		}
	}
	f.b("clConvertsEveryArg", every, "")

}

// round9Facts:
//   rwJudgesFieldSignatureOnly  the walk over a remote definition judges a function field by ITS OWN signature only and
//        descends into struct-KINDED fields only: no `.In(k)` with k ≠ 0, no pointer handling (reflect.Ptr / Pointer /
//        reflect.New), no call into the closure validation (C18: "every function-typed field … takes a context first and
//        returns either an error or a value and an error; … non-function fields are ignored").
//   hooksNeverWritten           the library only READS the hook structs the application hands it: no assignment to a field
//        of a RegistryHooks / LinkHooks value anywhere (one LinkHooks value may be shared by concurrently established links).
func round9Facts(s *src, f *facts) {
	w := s.funcDecl("Registry", "implementRemoteStructRecursively")
	own := w != nil
	if w != nil {
		for _, c := range all[*ast.CallExpr](w.Body, nil) {
			fn := s.str(c.Fun)
			if strings.HasSuffix(fn, ".In") && (len(c.Args) != 1 || s.str(c.Args[0]) != "0") {
				own = false
			}
			if fn == "reflect.New" || fn == "reflect.PointerTo" || fn == "reflect.PtrTo" || strings.HasPrefix(fn, "validate") || fn == "createClosure" || fn == "registerClosure" {
				own = false
			}
		}
		txt := s.str(w.Body)
		if strings.Contains(txt, "reflect.Ptr") || strings.Contains(txt, "reflect.Pointer") {
			own = false
		}
	}
	f.b("rwJudgesFieldSignatureOnly", own, s.pos(w))

	written := ""
	for name, file := range s.files {
		for _, a := range all[*ast.AssignStmt](file, nil) {
			for _, l := range a.Lhs {
				if se, ok := l.(*ast.SelectorExpr); ok && (se.Sel.Name == "OnClientConnect" || se.Sel.Name == "OnClientDisconnect") {
					written = name + ":" + s.pos(a)
				}
			}
		}
	}
	f.b("hooksNeverWritten", written == "", written)

	// the responder (the goroutine that runs the handler through utils.Call and writes the response): every `return`
	// in it directly follows a `setErr(…)` — there is no way out of the responder that neither answers the request nor
	// ends the link (whatever the handler returned: an error that wraps context.Canceled is a message like any other)
	reports, nret := false, 0
	if lm := s.funcDecl("Registry", "LinkMessage"); lm != nil {
		for _, c := range all[*ast.CallExpr](lm.Body, nil) {
			if s.str(c.Fun) != "utils.Call" {
				continue
			}
			fl := enclosing[*ast.FuncLit](lm.Body, c)
			if fl == nil {
				continue
			}
			reports = true
			check := func(list []ast.Stmt) {
				for i, st := range list {
					if _, ok := st.(*ast.ReturnStmt); !ok {
						continue
					}
					nret++
					okPrev := false
					if i > 0 {
						if es, ok := list[i-1].(*ast.ExprStmt); ok {
							if ce, ok := es.X.(*ast.CallExpr); ok && s.calleeIs(ce, "setErr") {
								okPrev = true
							}
						}
					}
					if !okPrev {
						reports = false
					}
				}
			}
			for _, b := range allShallow[*ast.BlockStmt](fl, nil) {
				check(b.List)
			}
			for _, cc := range allShallow[*ast.CaseClause](fl, nil) {
				check(cc.Body)
			}
			for _, cc := range allShallow[*ast.CommClause](fl, nil) {
				check(cc.Body)
			}
			break
		}
	}
	f.b("respEveryReturnReports", reports && nret >= 5, fmt.Sprint(nret, " returns"))
}
