package main

import (
	"regexp"
	"fmt"
	"go/ast"
	"go/token"
	"sort"
	"strings"
)

// accessFacts enumerates the shared variables panrpc itself owns and every access to them,
// with the mutexes lexically held and the channel-close edge ordering the access, if any.
//
// Shared variables considered:
//   (1) every field of Broadcaster, closureManager and Registry that is reached through the
//       method receiver (or the *closureManager parameter),
//   (2) every local of LinkMessage / LinkStream that is assigned (`=`, `++`, op=) inside a
//       function literal, i.e. after it may have been captured by another goroutine.
// stateFacts: the field TYPES of the structs that hold panrpc's state, in declaration order.  The models'
// state spaces are built from exactly these; a new field (a cache, a counter, a semaphore, a second lock) is
// state the models do not have.
func stateFacts(s *src, f *facts) {
	// type aliases (`type X = …`) are spelled out, so that introducing one for a long type changes nothing
	aliases := map[string]string{}
	for _, file := range s.files {
		for _, d := range file.Decls {
			if gd, ok := d.(*ast.GenDecl); ok {
				for _, sp := range gd.Specs {
					if ts, ok := sp.(*ast.TypeSpec); ok && ts.Assign.IsValid() {
						aliases[ts.Name.Name] = strings.Join(strings.Fields(s.str(ts.Type)), " ")
					}
				}
			}
		}
	}
	expand := func(t string) string {
		for i := 0; i < 3; i++ {
			for name, def := range aliases {
				t = regexp.MustCompile(`\b`+regexp.QuoteMeta(name)+`\b`).ReplaceAllString(t, def)
			}
		}
		return t
	}
	for _, st := range []struct{ fact, name string }{
		{"stateRegistry", "Registry"}, {"stateClosureManager", "closureManager"},
		{"stateBroadcaster", "Broadcaster"}, {"stateChannel", "channelWithContext"}, {"stateWrappedChild", "wrappedChild"},
	} {
		var tys []string
		if d := s.structDecl(st.name); d != nil && d.Fields != nil {
			for _, fl := range d.Fields.List {
				n := len(fl.Names)
				if n == 0 {
					n = 1
				}
				for i := 0; i < n; i++ {
					tys = append(tys, expand(strings.Join(strings.Fields(s.str(fl.Type)), " ")))
				}
			}
		}
		f.add(st.fact, tys, "field types of "+st.name)
	}
}

func accessFacts(s *src, f *facts) {
	type acc struct {
		v, site   string
		write     bool
		locks     []string
		order     string
		pos       string
	}
	var out []acc
	lockTexts := []string{"b.lock", "m.closuresLock", "r.remotesLock", "fatalErrLock.L"}
	isLockField := map[string]bool{"lock": true, "closuresLock": true, "remotesLock": true}

	// classify an occurrence node as write or read, given the function body it is in
	isWrite := func(body ast.Node, n ast.Expr) bool {
		w := false
		ast.Inspect(body, func(m ast.Node) bool {
			switch v := m.(type) {
			case *ast.AssignStmt:
				for _, l := range v.Lhs {
					if l == n {
						w = true
					}
					if ix, ok := l.(*ast.IndexExpr); ok && ix.X == n {
						w = true
					}
				}
			case *ast.IncDecStmt:
				if v.X == n {
					w = true
				}
			case *ast.CallExpr:
				if s.str(v.Fun) == "delete" && len(v.Args) > 0 && v.Args[0] == n {
					w = true
				}
			case *ast.UnaryExpr:
				if v.Op == token.AND && v.X == n {
					w = true // address taken: treat as write
				}
			}
			return true
		})
		return w
	}
	// innermost function body (literal or declaration) containing n
	innerBody := func(fd *ast.FuncDecl, n ast.Node) (*ast.BlockStmt, string) {
		if fl := enclosing[*ast.FuncLit](fd.Body, n); fl != nil {
			// name the literal by its role, not by its line or ordinal: the variable it is bound to, or the
			// go / defer statement it belongs to, plus the start of its first statement
			role := "lit"
			if a := enclosing[*ast.AssignStmt](fd.Body, fl); a != nil && len(a.Rhs) == 1 && a.Rhs[0] == ast.Expr(fl) {
				role = s.str(a.Lhs[0])
			} else if g := enclosing[*ast.GoStmt](fd.Body, fl); g != nil && g.Call.Fun == ast.Expr(fl) {
				role = "go"
			} else if d := enclosing[*ast.DeferStmt](fd.Body, fl); d != nil && d.Call.Fun == ast.Expr(fl) {
				role = "defer"
			}
			firstStmt := ""
			if len(fl.Body.List) > 0 {
				firstStmt = s.str(fl.Body.List[0])
				if len(firstStmt) > 24 {
					firstStmt = firstStmt[:24]
				}
			}
			return fl.Body, fmt.Sprintf("%s.%s{%s}", fd.Name.Name, role, strings.ReplaceAll(firstStmt, "\"", "'"))
		}
		return fd.Body, fd.Name.Name
	}
	locksAt := func(body *ast.BlockStmt, n ast.Node) []string {
		var ls []string
		for _, lt := range lockTexts {
			if s.heldAt(body, lt).heldFor(n) {
				ls = append(ls, lt)
			}
		}
		return ls
	}

	// (1) struct fields through receivers
	type target struct{ recvType, recvName string }
	structFields := func(name string) map[string]bool {
		m := map[string]bool{}
		if st := s.structDecl(name); st != nil {
			for _, fl := range st.Fields.List {
				for _, n := range fl.Names {
					m[n.Name] = true
				}
			}
		}
		return m
	}
	for _, file := range s.files {
		for _, d := range file.Decls {
			fd, ok := d.(*ast.FuncDecl)
			if !ok || fd.Body == nil {
				continue
			}
			if s.fullyInlined(fd) {
				// a helper whose body has been copied to every place it is called from: its accesses are
				// listed there (with the locks the caller holds), not a second time here
				continue
			}
			var ts []target
			if fd.Recv != nil && len(fd.Recv.List) == 1 && len(fd.Recv.List[0].Names) == 1 {
				ts = append(ts, target{recvBase(fd.Recv.List[0].Type), fd.Recv.List[0].Names[0].Name})
			}
			for _, p := range fd.Type.Params.List {
				if recvBase(p.Type) == "closureManager" && len(p.Names) == 1 {
					ts = append(ts, target{"closureManager", p.Names[0].Name})
				}
			}
			for _, t := range ts {
				if t.recvType != "Broadcaster" && t.recvType != "closureManager" && t.recvType != "Registry" {
					continue
				}
				fields := structFields(t.recvType)
				for _, se := range all[*ast.SelectorExpr](fd.Body, nil) {
					id, ok := se.X.(*ast.Ident)
					if !ok || id.Name != t.recvName || !fields[se.Sel.Name] || isLockField[se.Sel.Name] {
						continue
					}
					body, site := innerBody(fd, se)
					out = append(out, acc{t.recvType + "." + se.Sel.Name, site, isWrite(body, se), locksAt(body, se), "", s.pos(se)})
				}
			}
		}
	}
	// constructors write fields before the value is shared
	// (composite literals in NewBroadcaster / NewRegistry: no selector access, nothing to add)

	// (2) captured-and-written locals of LinkMessage / LinkStream
	for _, name := range []string{"LinkMessage", "LinkStream"} {
		fd := s.funcDecl("Registry", name)
		if fd == nil {
			continue
		}
		locals := map[string]bool{}
		for _, st := range fd.Body.List {
			switch v := st.(type) {
			case *ast.DeclStmt:
				if gd, ok := v.Decl.(*ast.GenDecl); ok {
					for _, sp := range gd.Specs {
						if vs, ok := sp.(*ast.ValueSpec); ok {
							for _, n := range vs.Names {
								locals[n.Name] = true
							}
						}
					}
				}
			case *ast.AssignStmt:
				if v.Tok == token.DEFINE {
					for _, l := range v.Lhs {
						if id, ok := l.(*ast.Ident); ok {
							locals[id.Name] = true
						}
					}
				}
			}
		}
		written := map[string]bool{}
		for _, fl := range all[*ast.FuncLit](fd.Body, nil) {
			ast.Inspect(fl.Body, func(m ast.Node) bool {
				switch v := m.(type) {
				case *ast.AssignStmt:
					if v.Tok != token.DEFINE {
						for _, l := range v.Lhs {
							if id, ok := l.(*ast.Ident); ok && locals[id.Name] {
								written[id.Name] = true
							}
						}
					}
				case *ast.IncDecStmt:
					if id, ok := v.X.(*ast.Ident); ok && locals[id.Name] {
						written[id.Name] = true
					}
				}
				return true
			})
		}
		// err/ctx-like names shadowed inside literals by := are not the outer local; only keep
		// names that are never re-declared inside a literal
		for _, fl := range all[*ast.FuncLit](fd.Body, nil) {
			ast.Inspect(fl.Body, func(m ast.Node) bool {
				if a, ok := m.(*ast.AssignStmt); ok && a.Tok == token.DEFINE {
					for _, l := range a.Lhs {
						if id, ok := l.(*ast.Ident); ok && written[id.Name] {
							delete(written, id.Name)
						}
					}
				}
				return true
			})
		}
		for v := range written {
			for _, id := range all(fd.Body, func(i *ast.Ident) bool { return i.Name == v }) {
				// skip the declaration itself
				if id.Obj != nil && id.Obj.Pos() == id.Pos() {
					continue
				}
				body, site := innerBody(fd, id)
				w := isWrite(body, id)
				order := ""
				if w {
					// followed in the same block by close(X)?
					if blk := enclosing[*ast.BlockStmt](fd.Body, id); blk != nil {
						for _, c := range all(blk, func(c *ast.CallExpr) bool { return s.str(c.Fun) == "close" }) {
							if before(id, c) {
								order = "close:" + s.str(c.Args[0])
							}
						}
					}
				} else if cc := enclosing[*ast.CommClause](fd.Body, id); cc != nil && cc.Comm != nil {
					if es, ok := cc.Comm.(*ast.ExprStmt); ok {
						if u, ok := es.X.(*ast.UnaryExpr); ok && u.Op == token.ARROW {
							order = "close:" + s.str(u.X)
						}
					}
				}
				out = append(out, acc{name + "." + v, site, w, locksAt(body, id), order, s.pos(id)})
			}
		}
	}
	// mutexes must be shared by every user: pointer field, or value field of a struct that is only used through pointers
	shared := true
	why := ""
	ptrRecvOnly := func(typ string) bool {
		ok := true
		for _, file := range s.files {
			for _, d := range file.Decls {
				fd, isF := d.(*ast.FuncDecl)
				if !isF || fd.Recv == nil || len(fd.Recv.List) != 1 || recvBase(fd.Recv.List[0].Type) != typ {
					continue
				}
				if _, isPtr := fd.Recv.List[0].Type.(*ast.StarExpr); !isPtr {
					ok = false
				}
			}
		}
		return ok
	}
	for _, tn := range []string{"Broadcaster", "closureManager", "Registry"} {
		st := s.structDecl(tn)
		if st == nil {
			continue
		}
		for _, fl := range st.Fields.List {
			t := s.str(fl.Type)
			if !strings.Contains(t, "sync.Mutex") && !strings.Contains(t, "sync.RWMutex") {
				continue
			}
			if strings.HasPrefix(t, "*") {
				continue
			}
			// value mutex: fine only if no method copies the struct
			if !ptrRecvOnly(tn) {
				shared = false
				why = tn + " has a value mutex and value-receiver methods"
			}
		}
	}
	// closureManager is stored by pointer in wrappedChild
	if wc := s.structDecl("wrappedChild"); wc != nil {
		for _, fl := range wc.Fields.List {
			for _, n := range fl.Names {
				if n.Name == "wrapper" && !strings.HasPrefix(s.str(fl.Type), "*") {
					shared = false
					why = "wrappedChild.wrapper is held by value"
				}
			}
		}
	}
	f.b("locksShared", shared, why)
	sort.Slice(out, func(i, j int) bool {
		if out[i].v != out[j].v {
			return out[i].v < out[j].v
		}
		if out[i].site != out[j].site {
			return out[i].site < out[j].site
		}
		if out[i].write != out[j].write {
			return !out[i].write
		}
		return out[i].pos < out[j].pos
	})
	var items, ev []string
	for _, a := range out {
		q := []string{}
		for _, l := range a.locks {
			q = append(q, fmt.Sprintf("%q", l))
		}
		items = append(items, fmt.Sprintf("{ var := %q, site := %q, write := %v, locks := [%s], order := %q }",
			a.v, a.site, a.write, strings.Join(q, ", "), a.order))
		ev = append(ev, a.pos)
	}
	f.add("accesses", leanRaw("[\n    "+strings.Join(items, ",\n    ")+"]"), fmt.Sprintf("%d accesses", len(out)))
}
