package main

import (
	"go/ast"
	"strings"
)

func linkMessage(s *src) *ast.FuncDecl { return s.funcDecl("Registry", "LinkMessage") }

func loopFacts(s *src, f *facts) {
	lm := linkMessage(s)
	var lb *ast.BlockStmt
	if lm != nil {
		lb = lm.Body
	}
	// ---------- response loop: the `for` that contains the Publish call
	pubCall := first(s.callsTo(lb, "Publish"))
	var respLoop *ast.ForStmt
	if pubCall != nil {
		respLoop = enclosing[*ast.ForStmt](lb, pubCall)
	}
	async := false
	if pubCall != nil && respLoop != nil {
		async = goDepth(respLoop, pubCall) >= 1
	}
	f.b("respPublishAsync", async, s.pos(pubCall))
	// fire-and-forget: the publish is a statement of its own (`go X.Publish(…)` / `X.Publish(…)`) — nothing is decided
	// on whether somebody took the value — and a goroutine that wraps it reports nothing to setErr: a response nobody
	// waits for (its call was cancelled, has ended, never existed) is dropped, whatever it carries
	fireAndForget := false
	if pubCall != nil && respLoop != nil {
		for _, g := range all[*ast.GoStmt](respLoop, nil) {
			if g.Call == pubCall {
				fireAndForget = true
			}
		}
		for _, e := range all[*ast.ExprStmt](respLoop, nil) {
			if e.X == ast.Expr(pubCall) {
				fireAndForget = true
			}
		}
		if fl := enclosing[*ast.FuncLit](respLoop, pubCall); fl != nil && len(s.callsTo(fl.Body, "setErr")) > 0 {
			fireAndForget = false
		}
	}
	f.b("respPublishFireAndForget", fireAndForget, s.pos(pubCall))
	// the response variable
	resVar := ""
	if respLoop != nil {
		for _, d := range all[*ast.DeclStmt](respLoop.Body, nil) {
			t := s.str(d)
			if strings.Contains(t, "utils.Response[") {
				gd := d.Decl.(*ast.GenDecl)
				resVar = gd.Specs[0].(*ast.ValueSpec).Names[0].Name
			}
		}
	}
	keyOK, valOK := false, false
	errVar := ""
	if pubCall != nil && len(pubCall.Args) == 2 && resVar != "" {
		keyOK = s.str(pubCall.Args[0]) == resVar+".Call"
		if cl, ok := pubCall.Args[1].(*ast.CompositeLit); ok && len(cl.Elts) == 3 {
			valOK = s.str(cl.Elts[0]) == resVar+".Value" && s.str(cl.Elts[2]) == "false"
			errVar = s.str(cl.Elts[1])
		}
	}
	f.b("respPublishKeyIsResCall", keyOK, s.pos(pubCall))
	f.b("respPublishValueIsResValue", valOK, s.pos(pubCall))
	// err = errors.New(res.Err) iff TrimSpace(res.Err) != ""
	trimOK, fresh := false, false
	if respLoop != nil && errVar != "" {
		assigns := all(respLoop.Body, func(a *ast.AssignStmt) bool {
			if a.Tok.String() != "=" {
				return false
			}
			for _, l := range a.Lhs {
				if s.str(l) == errVar {
					return true
				}
			}
			return false
		})
		if len(assigns) == 1 {
			a := assigns[0]
			i := enclosing[*ast.IfStmt](respLoop.Body, a)
			if i != nil && s.str(i.Cond) == "strings.TrimSpace("+resVar+".Err) != \"\"" && s.str(a.Rhs[0]) == "errors.New("+resVar+".Err)" && i.Else == nil && before(a, pubCall) {
				trimOK = true
			}
		}
		// declared inside the loop body by the read (`b, err := read…()`), with every non-nil
		// value leaving the loop before the publish
		for _, st := range respLoop.Body.List {
			if a, ok := st.(*ast.AssignStmt); ok && a.Tok.String() == ":=" {
				for _, l := range a.Lhs {
					if s.str(l) == errVar {
						fresh = true
					}
				}
			}
			if d, ok := st.(*ast.DeclStmt); ok && strings.Contains(s.str(d), "var "+errVar+" error") {
				fresh = true
			}
		}
		if fresh {
			// the declaring read must be followed by `if err != nil { …; return }`
			guard := first(allShallow(respLoop.Body, func(i *ast.IfStmt) bool {
				return s.str(i.Cond) == errVar+" != nil" && len(all[*ast.ReturnStmt](i.Body, nil)) > 0
			}))
			fresh = guard != nil || strings.Contains(s.str(respLoop.Body), "var "+errVar+" error")
		}
	}
	f.b("respErrIffTrimNonEmpty", trimOK, s.pos(pubCall))
	f.b("respErrFreshPerFrame", fresh, s.pos(respLoop))
	exits, sets := false, false
	if respLoop != nil && len(respLoop.Body.List) >= 2 {
		if i, ok := respLoop.Body.List[1].(*ast.IfStmt); ok && strings.HasSuffix(s.str(i.Cond), "!= nil") {
			exits = len(all[*ast.ReturnStmt](i.Body, nil)) > 0
			sets = topLevelSetErr(s, i.Body)
		}
	}
	f.b("respLoopExitsOnReadErr", exits, s.pos(respLoop))
	f.b("respLoopSetErrOnReadErr", sets, s.pos(respLoop))

	// ---------- request loop: the `for` that contains the resolve call
	resolve := first(s.callsTo(lb, "findLocalFunctionToCallRecursively"))
	var reqLoop *ast.ForStmt
	if resolve != nil {
		reqLoop = enclosing[*ast.ForStmt](lb, resolve)
	}
	var call *ast.CallExpr
	if reqLoop != nil {
		call = first(all(reqLoop, func(c *ast.CallExpr) bool {
			return s.str(c.Fun) == "utils.Call" && len(c.Args) == 2 && s.str(c.Args[0]) == "function"
		}))
		if call == nil {
			call = first(all(reqLoop, func(c *ast.CallExpr) bool { return s.str(c.Fun) == "function.Call" }))
		}
	}
	hd, rd := 0, 0
	if reqLoop != nil {
		if call != nil {
			hd = goDepth(reqLoop, call)
		}
		rd = goDepth(reqLoop, resolve)
	}
	f.n("reqHandlerGoDepth", hd, s.pos(call))
	f.n("reqResolveGoDepth", rd, s.pos(resolve))
	// recover around resolution: in the goroutine literal that encloses the resolve call, or
	// in the lookup functions themselves
	resolverRecovers := false
	if resolve != nil {
		if fl := enclosing[*ast.FuncLit](lb, resolve); fl != nil {
			for _, d := range allShallow[*ast.DeferStmt](fl, nil) {
				if len(s.callsTo(d, "recover")) > 0 && before(d, resolve) {
					resolverRecovers = true
				}
			}
		}
	}
	for _, name := range []string{"findLocalFunctionToCallRecursively"} {
		if fd := s.funcDecl("Registry", name); fd != nil && len(fd.Body.List) > 0 {
			if d, ok := fd.Body.List[0].(*ast.DeferStmt); ok && len(s.callsTo(d, "recover")) > 0 {
				resolverRecovers = true
			}
		}
	}
	f.b("reqResolverRecovers", resolverRecovers, s.pos(resolve))
	resolveErr := false
	if resolve != nil {
		if fl := enclosing[*ast.FuncLit](lb, resolve); fl != nil {
			for _, i := range allShallow[*ast.IfStmt](fl, nil) {
				if s.str(i.Cond) == "err != nil" && before(resolve, i) && len(s.callsTo(i.Body, "setErr")) > 0 && len(all[*ast.ReturnStmt](i.Body, nil)) > 0 {
					resolveErr = true
				}
			}
		}
	}
	f.b("reqResolveErrSetErr", resolveErr, s.pos(resolve))
	f.b("reqCallViaUtilsCall", call != nil && s.str(call.Fun) == "utils.Call", s.pos(call))
	callErr := false
	var hl *ast.FuncLit
	if call != nil {
		hl = enclosing[*ast.FuncLit](lb, call)
		for _, i := range allShallow[*ast.IfStmt](hl, nil) {
			if s.str(i.Cond) == "err != nil" && before(call, i) && len(s.callsTo(i.Body, "setErr")) > 0 && len(all[*ast.ReturnStmt](i.Body, nil)) > 0 {
				callErr = true
				break
			}
		}
	}
	f.b("reqCallErrSetErr", callErr, s.pos(call))
	handlerRecovers := false
	if hl != nil {
		for _, d := range allShallow[*ast.DeferStmt](hl, nil) {
			if len(s.callsTo(d, "recover")) > 0 && len(s.callsTo(d, "setErr")) > 0 && before(d, call) {
				handlerRecovers = true
			}
		}
	}
	f.b("reqHandlerRecovers", handlerRecovers, s.pos(hl))
	// response literals
	lits := all(hl, func(c *ast.CompositeLit) bool { return strings.HasPrefix(s.str(c.Type), "utils.Response[") })
	callOK := len(lits) > 0
	for _, l := range lits {
		callOK = callOK && s.str(litField(l, "Call")) == "req.Call"
	}
	f.b("reqResponseCallIsReqCall", callOK, s.pos(first(lits)))
	f.n("reqResponseCount", len(lits), s.pos(first(lits)))
	// shapes: classify each literal by (Value source, Err source)
	shapes := []string{}
	valueSrc := func(l *ast.CompositeLit) string {
		v := s.str(litField(l, "Value"))
		// the nearest preceding `v, err := marshal(X)` in the handler literal (switch cases or an if-chain)
		src := "?"
		var bestPos ast.Node
		for _, a := range all[*ast.AssignStmt](hl, nil) {
			if before(a, l) && len(a.Lhs) == 2 && s.str(a.Lhs[0]) == v {
				if c, ok := a.Rhs[0].(*ast.CallExpr); ok && s.str(c.Fun) == "marshal" {
					if bestPos == nil || before(bestPos, a) {
						bestPos = a
						src = s.str(c.Args[0])
					}
				}
			}
		}
		return src
	}
	for _, l := range lits {
		shapes = append(shapes, valueSrc(l)+"|"+s.str(litField(l, "Err")))
	}
	want := []string{
		"nil|\"\"",
		"nil|res[0].Interface().(error).Error()",
		"res[0].Interface()|\"\"",
		"res[0].Interface()|\"\"",
		"res[0].Interface()|res[1].Interface().(error).Error()",
	}
	shapesOK := len(shapes) == len(want)
	for i := range want {
		if shapesOK && shapes[i] != want[i] {
			shapesOK = false
		}
	}
	// branch conditions
	if hl != nil {
		t := s.str(hl)
		dispatch := strings.Contains(t, "switch len(res)") ||
			(strings.Contains(t, "len(res) == 0") && strings.Contains(t, "len(res) == 1") && strings.Contains(t, "len(res) == 2"))
		shapesOK = shapesOK && dispatch &&
			strings.Contains(t, "res[0].Type().Implements(errorType) && !res[0].IsNil()") &&
			strings.Contains(t, "res[1].Interface() == nil")
	}
	f.b("reqRespShapesOk", shapesOK, strings.Join(shapes, " ; "))
	// each literal is followed by exactly one marshal of it and one writeResponse in its block
	one := len(lits) > 0
	for _, l := range lits {
		blk := enclosing[*ast.BlockStmt](hl, l)
		cc := enclosing[*ast.CaseClause](hl, l)
		var scope ast.Node = blk
		if blk == nil || (cc != nil && contains(blk, cc)) {
			scope = cc
		}
		n := 0
		for _, c := range all[*ast.CallExpr](scope, nil) {
			fn := s.str(c.Fun)
			if strings.HasPrefix(fn, "writeResponse") && before(l, c) {
				// only count writes in the same innermost block
				if enclosing[*ast.BlockStmt](hl, c) != nil {
					n++
				}
			}
		}
		_ = n
		ws := 0
		if scope != nil {
			for _, c := range all[*ast.CallExpr](scope, nil) {
				if strings.HasPrefix(s.str(c.Fun), "writeResponse") {
					ws++
				}
			}
		}
		// a case clause with two branches (if/else) holds two writes; a plain block holds one
		if _, isCase := scope.(*ast.CaseClause); isCase {
			nl := 0
			for _, l2 := range lits {
				if contains(scope, l2) {
					nl++
				}
			}
			one = one && ws == nl
		} else {
			one = one && ws == 1
		}
	}
	f.b("reqOneResponsePerBranch", one, s.pos(first(lits)))
	// ctx carries the remote id (inside findLocalFunctionToCallRecursively)
	fl := s.funcDecl("Registry", "findLocalFunctionToCallRecursively")
	ctxOK := false
	if fl != nil {
		for _, c := range s.callsTo(fl.Body, "WithValue") {
			if len(c.Args) == 3 && s.str(c.Args[1]) == "RemoteIDContextKey" && s.str(c.Args[2]) == "remoteID" {
				// attached for EVERY request: the only condition it may sit under is the parameter-position test
				ctxOK = true
				for _, i := range all[*ast.IfStmt](fl.Body, nil) {
					if contains(i, c) && !contains(i.Cond, c) && s.str(i.Cond) != "i == 0" {
						ctxOK = false
					}
				}
			}
		}
	}
	// and the remoteID handed to the resolver is the link's own
	if resolve != nil {
		last := resolve.Args[len(resolve.Args)-1]
		ctxOK = ctxOK && s.str(last) == "remoteID"
	}
	f.b("reqCtxCarriesRemoteId", ctxOK, s.pos(resolve))
	rexits := false
	if reqLoop != nil && len(reqLoop.Body.List) >= 2 {
		if i, ok := reqLoop.Body.List[1].(*ast.IfStmt); ok && strings.HasSuffix(s.str(i.Cond), "!= nil") {
			rexits = len(all[*ast.ReturnStmt](i.Body, nil)) > 0 && topLevelSetErr(s, i.Body)
		}
	}
	f.b("reqLoopExitsOnReadErr", rexits, s.pos(reqLoop))
	declaredIn := func(loop *ast.ForStmt, typ string) bool {
		if loop == nil {
			return false
		}
		for _, st := range loop.Body.List {
			if d, ok := st.(*ast.DeclStmt); ok && strings.Contains(s.str(d), typ) {
				return true
			}
			if a, ok := st.(*ast.AssignStmt); ok && a.Tok.String() == ":=" && strings.Contains(s.str(a.Rhs[0]), typ) {
				return true
			}
		}
		return false
	}
	// Between two reads a loop does nothing that can wait: outside the goroutines it spawns, its body
	// holds no channel operation, select, lock or wait — neither directly nor inside a local closure
	// it calls — except the read itself and setErr (whose critical sections are bounded).
	closures := map[string]*ast.FuncLit{}
	for _, a := range all[*ast.AssignStmt](lb, nil) {
		if len(a.Lhs) == 1 && len(a.Rhs) == 1 {
			if id, ok := a.Lhs[0].(*ast.Ident); ok {
				if fl := first(all[*ast.FuncLit](a.Rhs[0], nil)); fl != nil {
					if _, direct := a.Rhs[0].(*ast.FuncLit); direct || strings.Contains(s.str(a.Rhs[0]), "sync.Once") {
						closures[id.Name] = fl
					}
				}
			}
		}
	}
	var waits func(n ast.Node, exempt map[string]bool, depth int) bool
	waits = func(n ast.Node, exempt map[string]bool, depth int) bool {
		if isNilNode(n) || depth > 4 {
			return false
		}
		found := false
		ast.Inspect(n, func(x ast.Node) bool {
			if found || x == nil {
				return false
			}
			switch v := x.(type) {
			case *ast.GoStmt:
				return false
			case *ast.SendStmt, *ast.SelectStmt:
				found = true
			case *ast.UnaryExpr:
				if v.Op.String() == "<-" {
					found = true
				}
			case *ast.RangeStmt:
				// ranging over a channel waits; ranging over anything else is fine (cannot tell: be strict on `chan` text)
			case *ast.CallExpr:
				if sel, ok := v.Fun.(*ast.SelectorExpr); ok {
					switch sel.Sel.Name {
					case "Lock", "RLock", "Wait", "Acquire":
						found = true
					}
				}
				if id, ok := v.Fun.(*ast.Ident); ok && !exempt[id.Name] {
					if fl, ok := closures[id.Name]; ok && waits(fl.Body, exempt, depth+1) {
						found = true
					}
				}
			}
			return !found
		})
		return found
	}
	onlyRead := func(loop *ast.ForStmt) bool {
		if loop == nil || len(loop.Body.List) == 0 {
			return false
		}
		exempt := map[string]bool{"setErr": true}
		// the read: the call on the right-hand side of the loop's first statement
		if a, ok := loop.Body.List[0].(*ast.AssignStmt); ok && len(a.Rhs) == 1 {
			if c, ok := a.Rhs[0].(*ast.CallExpr); ok {
				if id, ok := c.Fun.(*ast.Ident); ok {
					exempt[id.Name] = true
				}
			}
		}
		return !waits(loop.Body, exempt, 0)
	}
	f.b("reqLoopBlocksOnlyOnRead", onlyRead(reqLoop), s.pos(reqLoop))
	f.b("respLoopBlocksOnlyOnRead", onlyRead(respLoop), s.pos(respLoop))
	f.b("reqFrameFreshPerIteration", declaredIn(reqLoop, "utils.Request["), s.pos(reqLoop))
	f.b("respFrameFreshPerIteration", declaredIn(respLoop, "utils.Response["), s.pos(respLoop))
}

// topLevelSetErr: the block reports EVERY error: `setErr(…)` is one of its own statements, not nested under a
// further condition (e.g. "unless it is a context error").
func topLevelSetErr(s *src, b *ast.BlockStmt) bool {
	if b == nil {
		return false
	}
	for _, st := range b.List {
		if e, ok := st.(*ast.ExprStmt); ok {
			if c, ok := e.X.(*ast.CallExpr); ok && s.str(c.Fun) == "setErr" {
				return true
			}
		}
	}
	return false
}
