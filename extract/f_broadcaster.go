package main

import (
	"go/ast"
	"strings"
)

func broadcasterFacts(s *src, f *facts) {
	pub := s.funcDecl("Broadcaster", "Publish")
	rcv := s.funcDecl("Broadcaster", "Receive")
	fre := s.funcDecl("Broadcaster", "Free")
	cls := s.funcDecl("Broadcaster", "Close")
	body := func(fd *ast.FuncDecl) *ast.BlockStmt {
		if fd == nil {
			return nil
		}
		return fd.Body
	}
	recvName := func(fd *ast.FuncDecl) string {
		if fd == nil || fd.Recv == nil || len(fd.Recv.List[0].Names) == 0 {
			return "b"
		}
		return fd.Recv.List[0].Names[0].Name
	}

	// one critical section per operation: exactly one Lock() call, and every Unlock() either ends the
	// function (followed by return / end of body) or is the single release before the blocking part
	oneSection := func(fd *ast.FuncDecl) bool {
		if fd == nil {
			return false
		}
		b := recvName(fd)
		locks := all(fd.Body, func(c *ast.CallExpr) bool { return s.str(c.Fun) == b+".lock.Lock" })
		rlocks := all(fd.Body, func(c *ast.CallExpr) bool { return strings.HasSuffix(s.str(c.Fun), ".RLock") || strings.HasSuffix(s.str(c.Fun), ".TryLock") })
		return len(locks) == 1 && len(rlocks) == 0
	}
	f.b("bcReceiveOneSection", oneSection(rcv), s.pos(rcv))
	f.b("bcFreeOneSection", oneSection(fre), s.pos(fre))
	f.b("bcCloseOneSection", oneSection(cls), s.pos(cls))
	f.b("bcPublishOneLookupSection", oneSection(pub), s.pos(pub))
	// ---- Publish
	{
		b := recvName(pub)
		li := s.heldAt(body(pub), b+".lock")
		lookups := all(body(pub), func(ix *ast.IndexExpr) bool { return s.str(ix.X) == b+".channels" })
		under := len(lookups) > 0
		for _, l := range lookups {
			under = under && li.heldFor(l)
		}
		f.b("bcPublishLooksUpUnderLock", under, s.pos(first(lookups)))
		closedChecks := all(body(pub), func(i *ast.IfStmt) bool {
			return s.str(i.Cond) == b+".closed" && len(all(i.Body, func(*ast.ReturnStmt) bool { return true })) > 0 && li.heldFor(i)
		})
		f.b("bcPublishChecksClosed", len(closedChecks) > 0, s.pos(first(closedChecks)))
		sel := first(all[*ast.SelectStmt](body(pub), nil))
		f.b("bcPublishSelectOutsideLock", sel != nil && !li.heldFor(sel), s.pos(sel))
		send, ectx := false, false
		for _, cc := range selectCases(sel) {
			if s.commSendOn(cc, hasSuffix(".channel")) {
				send = true
			}
			if s.commRecvFrom(cc, hasSuffix(".ctx.Done()")) {
				ectx = true
			}
		}
		f.b("bcPublishSelectsSend", send, s.pos(sel))
		f.b("bcPublishSelectsEntryCtx", ectx, s.pos(sel))
	}
	// ---- Receive
	{
		b := recvName(rcv)
		li := s.heldAt(body(rcv), b+".lock")
		refuse := all(body(rcv), func(i *ast.IfStmt) bool {
			if s.str(i.Cond) != b+".closed" || !li.heldFor(i) {
				return false
			}
			rets := all[*ast.ReturnStmt](i.Body, nil)
			return len(rets) > 0 && strings.Contains(s.str(rets[0]), "ErrClosed")
		})
		f.b("bcReceiveRefusesWhenClosed", len(refuse) > 0, s.pos(first(refuse)))
		// every `return nil, <err>` of Receive itself (not of the returned function) sits in the closed check
		onlyClosed := len(refuse) > 0
		for _, r := range allShallow[*ast.ReturnStmt](body(rcv), nil) {
			if len(r.Results) == 2 && s.str(r.Results[1]) != "nil" {
				in := false
				for _, i := range refuse {
					in = in || contains(i, r)
				}
				onlyClosed = onlyClosed && in
			}
		}
		f.b("bcReceiveErrorsOnlyClosed", onlyClosed, s.pos(rcv))
		// the `if !ok { … }` creation block
		create := first(allShallow(body(rcv), func(i *ast.IfStmt) bool { return s.str(i.Cond) == "!ok" }))
		var ctxParam string
		if rcv != nil && len(rcv.Type.Params.List) >= 2 && len(rcv.Type.Params.List[1].Names) > 0 {
			ctxParam = rcv.Type.Params.List[1].Names[0].Name
		}
		child := false
		if create != nil {
			for _, c := range all[*ast.CallExpr](create.Body, nil) {
				fn := s.str(c.Fun)
				if (fn == "context.WithCancelCause" || fn == "context.WithCancel") && len(c.Args) == 1 && s.str(c.Args[0]) == ctxParam {
					child = true
				}
			}
		}
		f.b("bcReceiveChildCtx", child, s.pos(create))
		makes := s.callsTo(body(rcv), "make")
		stores := all(body(rcv), func(a *ast.AssignStmt) bool {
			return len(a.Lhs) == 1 && strings.HasPrefix(s.str(a.Lhs[0]), b+".channels[")
		})
		reuse := create != nil && len(stores) > 0
		for _, m := range makes {
			if strings.HasPrefix(s.str(m.Args[0]), "chan T") {
				reuse = reuse && contains(create, m)
			}
		}
		for _, st := range stores {
			reuse = reuse && contains(create, st) && li.heldFor(st)
		}
		f.b("bcReceiveReusesEntry", reuse, s.pos(create))
		// capacity of the value channel
		capN := -1
		for _, m := range makes {
			if s.str(m.Args[0]) == "chan T" {
				if len(m.Args) == 1 {
					capN = 0
				} else if s.str(m.Args[1]) == "0" {
					capN = 0
				} else if s.str(m.Args[1]) == "1" {
					capN = 1
				} else {
					capN = 99
				}
			}
		}
		if capN < 0 {
			capN = 99
		}
		// the returned function's select
		var fl *ast.FuncLit
		for _, r := range allShallow[*ast.ReturnStmt](body(rcv), nil) {
			for _, x := range r.Results {
				if l, ok := x.(*ast.FuncLit); ok {
					fl = l
				}
			}
		}
		var sel *ast.SelectStmt
		if fl != nil {
			sel = first(all[*ast.SelectStmt](fl.Body, nil))
		}
		selChan, selCtx, selDone, okChk := false, false, false, false
		for _, cc := range selectCases(sel) {
			if s.commRecvFrom(cc, hasSuffix(".channel")) {
				selChan = true
				if as, ok := cc.Comm.(*ast.AssignStmt); ok && len(as.Lhs) == 2 {
					okName := s.str(as.Lhs[1])
					for _, i := range all[*ast.IfStmt](cc, nil) {
						if s.str(i.Cond) == "!"+okName && strings.Contains(s.str(i.Body), "ErrClosed") {
							okChk = true
						}
					}
				}
			}
			if s.commRecvFrom(cc, func(x string) bool { return x == ctxParam+".Done()" }) {
				selCtx = strings.Contains(s.str(cc), ctxParam+".Err()")
			}
			if s.commRecvFrom(cc, hasSuffix(".done")) && strings.Contains(s.str(cc), "ErrClosed") {
				// a freed / closed entry yields ErrClosed and nothing else (not, say, the cause handed to Close: the error of an
				// in-flight call would then depend on the transport's and serializer's error texts)
				selDone = true
				for _, r := range all[*ast.ReturnStmt](cc, nil) {
					if len(r.Results) != 2 || s.str(r.Results[1]) != "ErrClosed" {
						selDone = false
					}
				}
			}
		}
		f.b("bcRecvSelectsChan", selChan, s.pos(sel))
		f.b("bcRecvSelectsCallerCtx", selCtx, s.pos(sel))
		f.b("bcRecvSelectsDone", selDone, s.pos(sel))
		f.b("bcRecvChecksChanClosed", okChk, s.pos(sel))
		defer func() { f.n("bcChanCap", capN, s.pos(first(makes))) }()
	}
	// ---- Free
	{
		b := recvName(fre)
		li := s.heldAt(body(fre), b+".lock")
		cancels := s.callsTo(body(fre), "cancel")
		closes := all(body(fre), func(c *ast.CallExpr) bool { return s.str(c.Fun) == "close" && strings.HasSuffix(s.str(c.Args[0]), ".channel") })
		dones := all(body(fre), func(c *ast.CallExpr) bool { return s.str(c.Fun) == "close" && strings.HasSuffix(s.str(c.Args[0]), ".done") })
		dels := all(body(fre), func(c *ast.CallExpr) bool { return s.str(c.Fun) == "delete" && s.str(c.Args[0]) == b+".channels" })
		under := true
		for _, c := range append(append(append(cancels, closes...), dones...), dels...) {
			under = under && li.heldFor(c)
		}
		// "Free cancels / closes": for EVERY entry it finds — the only guard allowed around the effect is the look-up's `ok`
		f.b("bcFreeCancels", len(unguarded(s, body(fre), cancels)) > 0, s.pos(first(cancels)))
		f.b("bcFreeClosesChan", len(unguarded(s, body(fre), closes)) > 0, s.pos(first(closes)))
		f.b("bcFreeClosesDone", len(unguarded(s, body(fre), dones)) > 0, s.pos(first(dones)))
		f.b("bcFreeDeletes", len(dels) > 0, s.pos(first(dels)))
		f.b("bcFreeUnderLock", under && len(dels) > 0, s.pos(fre))
	}
	// ---- Close
	{
		b := recvName(cls)
		li := s.heldAt(body(cls), b+".lock")
		rng := first(all(body(cls), func(r *ast.RangeStmt) bool { return s.str(r.X) == b+".channels" }))
		cancels := s.callsTo(rng, "cancel")
		closes := all(rng, func(c *ast.CallExpr) bool { return s.str(c.Fun) == "close" && strings.HasSuffix(s.str(c.Args[0]), ".channel") })
		dones := all(rng, func(c *ast.CallExpr) bool { return s.str(c.Fun) == "close" && strings.HasSuffix(s.str(c.Args[0]), ".done") })
		clears := all(body(cls), func(a *ast.AssignStmt) bool {
			return len(a.Lhs) == 1 && s.str(a.Lhs[0]) == b+".channels" && strings.HasPrefix(s.str(a.Rhs[0]), "map[") && strings.HasSuffix(s.str(a.Rhs[0]), "{}")
		})
		sets := all(body(cls), func(a *ast.AssignStmt) bool {
			return len(a.Lhs) == 1 && s.str(a.Lhs[0]) == b+".closed" && s.str(a.Rhs[0]) == "true"
		})
		under := rng != nil && li.heldFor(rng)
		for _, a := range append(clears, sets...) {
			under = under && li.heldFor(a)
		}
		f.b("bcCloseCancelsAll", len(unguarded(s, rng, cancels)) > 0, s.pos(first(cancels)))
		f.b("bcCloseClosesChans", len(closes) > 0, s.pos(first(closes)))
		f.b("bcCloseClosesDone", len(dones) > 0, s.pos(first(dones)))
		f.b("bcCloseClearsTable", len(clears) > 0, s.pos(first(clears)))
		f.b("bcCloseSetsClosed", len(sets) > 0, s.pos(first(sets)))
		f.b("bcCloseUnderLock", under, s.pos(cls))
	}
}

// unguarded keeps the calls that sit under no condition other than a map look-up's `ok`.
func unguarded(s *src, root ast.Node, calls []*ast.CallExpr) []*ast.CallExpr {
	var out []*ast.CallExpr
	if isNilNode(root) {
		return out
	}
	for _, c := range calls {
		ok := true
		for _, i := range all[*ast.IfStmt](root, nil) {
			if contains(i, c) && !contains(i.Cond, c) && s.str(i.Cond) != "ok" {
				ok = false
			}
		}
		for _, sw := range all[*ast.SwitchStmt](root, nil) {
			if contains(sw, c) {
				ok = false
			}
		}
		if ok {
			out = append(out, c)
		}
	}
	return out
}
