package main

import (
	"go/ast"
	"sort"
	"strings"
)

func lookupFacts(s *src, f *facts) {
	fd := s.funcDecl("", "findMethodByFunctionCallPathRecursively")
	var body *ast.BlockStmt
	pathParam := "functionCallPath"
	if fd != nil {
		body = fd.Body
		if ps := fd.Type.Params.List; len(ps) == 2 && len(ps[1].Names) == 1 {
			pathParam = ps[1].Names[0].Name
		}
	}
	split := first(all(body, func(c *ast.CallExpr) bool {
		return s.str(c.Fun) == "strings.Split" && len(c.Args) == 2 && s.str(c.Args[0]) == pathParam && s.str(c.Args[1]) == `"."`
	}))
	parts := ""
	if split != nil {
		if a := enclosing[*ast.AssignStmt](body, split); a != nil {
			parts = s.str(a.Lhs[0])
		}
	}
	f.b("lkSplitOnDot", split != nil && parts != "", s.pos(split))
	empty := first(allShallow(body, func(i *ast.IfStmt) bool {
		return s.str(i.Cond) == "len("+parts+") == 1 && "+parts+"[0] == \"\"" && strings.Contains(s.str(i.Body), "ErrInvalidFunctionCallPath")
	}))
	f.b("lkEmptyPathRejected", empty != nil, s.pos(empty))
	rng := first(allShallow(body, func(r *ast.RangeStmt) bool { return s.str(r.X) == parts+"[:len("+parts+")-1]" }))
	f.b("lkWalksAllButLast", rng != nil, s.pos(rng))
	cur := "field"
	deref := first(all(rng, func(i *ast.IfStmt) bool {
		return strings.HasSuffix(s.str(i.Cond), ".Kind() == reflect.Ptr") && strings.Contains(s.str(i.Body), ".Elem()")
	}))
	if deref != nil {
		cur = strings.TrimSuffix(s.str(deref.Cond), ".Kind() == reflect.Ptr")
	}
	// "once": an if, not a for
	derefLoops := all(rng, func(l *ast.ForStmt) bool { return strings.Contains(s.str(l.Cond), "reflect.Ptr") })
	f.b("lkDerefPtrOnce", deref != nil && len(derefLoops) == 0, s.pos(deref))
	nonStruct := first(all(rng, func(i *ast.IfStmt) bool {
		return s.str(i.Cond) == cur+".Kind() != reflect.Struct" && len(all[*ast.ReturnStmt](i.Body, nil)) > 0
	}))
	f.b("lkRejectsNonStruct", nonStruct != nil && before(deref, nonStruct), s.pos(nonStruct))
	fbn := first(all(rng, func(c *ast.CallExpr) bool { return s.str(c.Fun) == cur+".FieldByName" }))
	name := ""
	if rng != nil {
		name = s.str(rng.Value)
	}
	f.b("lkFieldByName", fbn != nil && len(fbn.Args) == 1 && s.str(fbn.Args[0]) == name && before(nonStruct, fbn), s.pos(fbn))
	invalid := first(all(rng, func(i *ast.IfStmt) bool {
		return s.str(i.Cond) == "!"+cur+".IsValid()" && len(all[*ast.ReturnStmt](i.Body, nil)) > 0
	}))
	f.b("lkRejectsInvalidField", invalid != nil && before(fbn, invalid), s.pos(invalid))
	unexp := first(all(rng, func(i *ast.IfStmt) bool {
		c := s.str(i.Cond)
		return (c == "!"+cur+".CanInterface()" || strings.Contains(c, "IsExported()") || strings.Contains(c, "PkgPath")) && len(all[*ast.ReturnStmt](i.Body, nil)) > 0 && before(fbn, i)
	}))
	f.b("lkRejectsUnexportedField", unexp != nil, s.pos(unexp))
	mbn := first(allShallow(body, func(c *ast.CallExpr) bool {
		return s.str(c.Fun) == cur+".MethodByName" && len(c.Args) == 1 && s.str(c.Args[0]) == parts+"[len("+parts+")-1]"
	}))
	// the method is looked up on the value the walk ended on: nothing between the walk and the lookup replaces it
	// (e.g. by its address, which would expose the pointer method set of a sub-object nested by value)
	untouched := true
	if body != nil && rng != nil && mbn != nil {
		after := false
		for _, st := range body.List {
			if ast.Node(st) == ast.Node(rng) {
				after = true
				continue
			}
			if !after {
				continue
			}
			if contains(st, mbn) {
				break
			}
			for _, a := range all[*ast.AssignStmt](st, nil) {
				for _, l := range a.Lhs {
					if s.str(l) == cur {
						untouched = false
					}
				}
			}
		}
		for _, c := range all[*ast.CallExpr](body, nil) {
			if strings.HasSuffix(s.str(c.Fun), ".Addr") {
				untouched = false
			}
		}
	}
	f.b("lkMethodByNameOnLast", mbn != nil && before(rng, mbn) && untouched, s.pos(mbn))
	nonFunc := first(allShallow(body, func(i *ast.IfStmt) bool {
		return strings.HasSuffix(s.str(i.Cond), ".Kind() != reflect.Func") && before(mbn, i) && len(all[*ast.ReturnStmt](i.Body, nil)) > 0
	}))
	f.b("lkRejectsNonFunc", nonFunc != nil, s.pos(nonFunc))
	// panics cannot leave the lookup: a deferred recover that turns them into an error result
	rec := false
	if body != nil && fd.Type.Results != nil {
		for _, d := range allShallow[*ast.DeferStmt](body, nil) {
			if len(s.callsTo(d, "recover")) > 0 && before(d, split) {
				rec = true
			}
		}
	}
	f.b("lkRecoversPanics", rec, s.pos(fd))

	// ----- fallback and arg count (findLocalFunctionToCallRecursively)
	fl := s.funcDecl("Registry", "findLocalFunctionToCallRecursively")
	var lb *ast.BlockStmt
	if fl != nil {
		lb = fl.Body
	}
	primary := first(s.callsTo(lb, "findMethodByFunctionCallPathRecursively"))
	primOK := primary != nil && len(primary.Args) == 2 && s.str(primary.Args[0]) == "r.local.wrappee" && s.str(primary.Args[1]) == "req.Function"
	fbIf := first(allShallow(lb, func(i *ast.IfStmt) bool { return s.str(i.Cond) == "err != nil" && before(primary, i) }))
	fb := all(fbIf, func(c *ast.CallExpr) bool { return strings.HasSuffix(s.str(c.Fun), ".MethodByName") })
	fbOK := primOK && len(fb) == 1 && strings.Contains(s.str(fb[0].Fun), "ValueOf(r.local.wrapper)") && s.str(fb[0].Args[0]) == "req.Function"
	// no other source of `function`
	others := all(lb, func(c *ast.CallExpr) bool {
		n := s.str(c.Fun)
		return (strings.HasSuffix(n, ".MethodByName") || strings.HasSuffix(n, ".Method") || strings.HasSuffix(n, ".FieldByName")) && !contains(fbIf, c)
	})
	f.b("lkFallbackIsClosureManager", fbOK && len(others) == 0, s.pos(first(fb)))
	fbNonFunc := first(all(fbIf, func(i *ast.IfStmt) bool {
		return s.str(i.Cond) == "function.Kind() != reflect.Func" && len(all[*ast.ReturnStmt](i.Body, nil)) > 0
	}))
	f.b("lkFallbackRejectsNonFunc", fbNonFunc != nil, s.pos(fbNonFunc))
	// the walk runs on EVERY request, from the object held now: the primary lookup is an unconditional
	// top-level statement of the resolver, and nothing but it and the fallback ever assigns `function`
	perReq := primOK
	if primary != nil && lb != nil {
		top := false
		for _, st := range lb.List {
			if a, ok := st.(*ast.AssignStmt); ok && len(a.Rhs) == 1 && a.Rhs[0] == ast.Expr(primary) {
				top = true
			}
		}
		perReq = perReq && top
		for _, a := range all[*ast.AssignStmt](lb, nil) {
			for _, l := range a.Lhs {
				if s.str(l) == "function" && !(len(a.Rhs) == 1 && a.Rhs[0] == ast.Expr(primary)) && !contains(fbIf, a) {
					perReq = false
				}
			}
		}
	}
	f.b("lkResolvesPerRequest", perReq, s.pos(primary))
	ms := []string{}
	for _, m := range s.methodsOf("closureManager") {
		if ast.IsExported(m) {
			ms = append(ms, m)
		}
	}
	sort.Strings(ms)
	f.add("lkClosureManagerMethods", ms, "exported methods declared on closureManager")
	cnt := first(allShallow(lb, func(i *ast.IfStmt) bool {
		return s.str(i.Cond) == "function.Type().NumIn() != len(req.Args)+1" && strings.Contains(s.str(i.Body), "ErrInvalidArgsCount") && len(all[*ast.ReturnStmt](i.Body, nil)) > 0
	}))
	f.b("lkArgCountChecked", cnt != nil, s.pos(cnt))
	firstDecode := first(s.callsTo(lb, "unmarshal"))
	firstMake := first(s.callsTo(lb, "MakeFunc"))
	// …and before anything indexes the parameter list (`function.Type().In(i)` panics when there is no i-th one)
	firstIn := first(all(lb, func(c *ast.CallExpr) bool {
		sel, ok := c.Fun.(*ast.SelectorExpr)
		return ok && sel.Sel.Name == "In" && strings.HasSuffix(s.str(sel.X), ".Type()")
	}))
	f.b("lkArgCountBeforeDecode", cnt != nil && before(cnt, firstDecode) && before(cnt, firstMake) && before(fbIf, cnt) && (firstIn == nil || before(cnt, firstIn)), s.pos(cnt))
}

func walkFacts(s *src, f *facts) {
	fd := s.funcDecl("Registry", "implementRemoteStructRecursively")
	var body *ast.BlockStmt
	if fd != nil {
		body = fd.Body
	}
	loop := first(allShallow[*ast.ForStmt](body, nil))
	rec := first(all(loop, func(i *ast.IfStmt) bool { return s.str(i.Cond) == "functionType.Kind() == reflect.Struct" }))
	recCall := first(s.callsTo(rec, "implementRemoteStructRecursively"))
	recOK := rec != nil && recCall != nil && len(rec.Body.List) > 0
	if recOK {
		_, isCont := rec.Body.List[len(rec.Body.List)-1].(*ast.BranchStmt)
		recOK = isCont
	}
	f.b("rwRecursesOnStructKind", recOK, s.pos(rec))
	skip := first(all(loop, func(i *ast.IfStmt) bool {
		return s.str(i.Cond) == "functionType.Kind() != reflect.Func" && strings.Contains(s.str(i.Body), "continue")
	}))
	f.b("rwSkipsNonFunc", skip != nil && before(rec, skip), s.pos(skip))
	// validation checks in source order
	checks := []string{}
	ev := []string{}
	var lastCheck ast.Node
	if loop != nil {
		for _, st := range loop.Body.List {
			i, ok := st.(*ast.IfStmt)
			if !ok || !before(skip, i) {
				continue
			}
			c, b := s.str(i.Cond), s.str(i.Body)
			k := ""
			switch {
			case c == "functionType.NumOut() <= 0 || functionType.NumOut() > 2" && strings.Contains(b, "return ErrInvalidReturn"):
				k = ".numOutRange"
			case c == "!functionType.Out(functionType.NumOut() - 1).Implements(errorType)" && strings.Contains(b, "return ErrInvalidReturn"):
				k = ".lastOutIsError"
			case c == "functionType.NumIn() < 1" && strings.Contains(b, "return ErrInvalidArgs"):
				k = ".numInAtLeastOne"
			case c == "!functionType.In(0).Implements(contextType)" && strings.Contains(b, "return ErrInvalidArgs"):
				k = ".firstInIsCtx"
			}
			if k != "" {
				checks = append(checks, k)
				ev = append(ev, s.pos(i))
				lastCheck = i
			}
		}
	}
	f.add("rwChecks", leanRaw("["+strings.Join(checks, ", ")+"]"), strings.Join(ev, " "))
	join := "namePrefix+prefix+functionField.Name"
	norm := func(x string) string { return strings.ReplaceAll(x, " ", "") }
	prefixOK := false
	if body != nil {
		// the separator depends only on the namePrefix parameter: inside the loop or hoisted above it
		t := norm(s.str(body))
		prefixOK = strings.Contains(t, `prefix:=""ifnamePrefix!=""{prefix="."}`)
	}
	nameOK := recCall != nil && len(recCall.Args) >= 2 && norm(s.str(recCall.Args[1])) == join
	set := first(all(loop, func(c *ast.CallExpr) bool { return strings.HasSuffix(s.str(c.Fun), ".Set") && len(s.callsTo(c, "makeRPC")) > 0 }))
	mk := first(s.callsTo(set, "makeRPC"))
	stubName := mk != nil && len(mk.Args) >= 2 && norm(s.str(mk.Args[1])) == join
	f.b("rwNameJoinsWithDot", prefixOK && nameOK, s.pos(recCall))
	// (the stub is installed for EVERY field that passed the checks: the Set is one of the loop body's own
	// statements, or sits directly under the settable-guard's positive branch)
	setOwn := false
	if set != nil && loop != nil {
		var lbody *ast.BlockStmt
		switch l := ast.Node(loop).(type) {
		case *ast.ForStmt:
			lbody = l.Body
		case *ast.RangeStmt:
			lbody = l.Body
		}
		setOwn = directStmt(lbody, set)
		if !setOwn && lbody != nil {
			for _, st := range lbody.List {
				if i, ok := st.(*ast.IfStmt); ok && strings.Contains(s.str(i.Cond), "CanSet()") && !strings.HasPrefix(s.str(i.Cond), "!") && directStmt(i.Body, set) {
					setOwn = true
				}
			}
		}
	}
	f.b("rwSetsStub", set != nil && setOwn && before(lastCheck, set) && strings.Contains(s.str(set.Fun), "FieldByName(functionField.Name)"), s.pos(set))
	f.b("rwStubNameIsPath", stubName && prefixOK, s.pos(mk))
	guard := false
	if loop != nil {
		for _, i := range all[*ast.IfStmt](loop, nil) {
			c := s.str(i.Cond)
			if (strings.Contains(c, "CanSet()") || strings.Contains(c, "IsExported()") || strings.Contains(c, "PkgPath")) && before(i, set) {
				guard = true
			}
		}
	}
	f.b("rwGuardsUnsettable", guard, s.pos(set))
	lm := linkMessage(s)
	werr := false
	if lm != nil {
		if c := first(s.callsTo(lm.Body, "implementRemoteStructRecursively")); c != nil {
			if i := enclosing[*ast.IfStmt](lm.Body, c); i != nil && len(s.callsTo(i.Body, "setErr")) > 0 {
				werr = true
			}
		}
	}
	f.b("rwErrSetErr", werr, s.pos(lm))
}

func convertFacts(s *src, f *facts) {
	fd := s.funcDecl("", "convertValue")
	var body *ast.BlockStmt
	if fd != nil {
		body = fd.Body
	}
	unwrap := first(allShallow(body, func(l *ast.ForStmt) bool {
		return s.str(l.Cond) == "srcVal.Kind() == reflect.Interface" && strings.Contains(s.str(l.Body), "srcVal = srcVal.Elem()")
	}))
	f.b("cvUnwrapsInterfaces", unwrap != nil, s.pos(unwrap))
	conv := first(allShallow(body, func(i *ast.IfStmt) bool {
		if s.str(i.Cond) != "srcVal.Type().ConvertibleTo(dstType)" || !strings.Contains(s.str(i.Body), "srcVal.Convert(dstType)") {
			return false
		}
		// a convertible value is never refused: every return of the branch carries a nil error
		for _, r := range all[*ast.ReturnStmt](i.Body, nil) {
			if len(r.Results) != 2 || s.str(r.Results[1]) != "nil" {
				return false
			}
		}
		return true
	}))
	inv := first(allShallow(body, func(i *ast.IfStmt) bool {
		return s.str(i.Cond) == "!srcVal.IsValid()" && strings.Contains(s.str(i.Body), "reflect.Zero(dstType)") && before(i, conv) && before(unwrap, i)
	}))
	f.b("cvHandlesInvalid", inv != nil, s.pos(inv))
	f.b("cvUsesConvertibleTo", conv != nil, s.pos(conv))
	sl := first(allShallow(body, func(i *ast.IfStmt) bool {
		return s.str(i.Cond) == "srcVal.Kind() == reflect.Slice && dstType.Kind() == reflect.Slice" &&
			strings.Contains(s.str(i.Body), "convertValue(srcVal.Index(i), dstType.Elem())") && strings.Contains(s.str(i.Body), "dstSlice.Index(i).Set(elem)")
	}))
	f.b("cvSliceElementwise", sl != nil, s.pos(sl))
	lastRet := false
	if body != nil && len(body.List) > 0 {
		lastRet = strings.Contains(s.str(body.List[len(body.List)-1]), "ErrReturnValueTooComplex")
	}
	f.b("cvFallbackError", lastRet, s.pos(fd))

	// ---- the closure proxy inside findLocalFunctionToCallRecursively
	{
		fl := s.funcDecl("Registry", "findLocalFunctionToCallRecursively")
		var proxy *ast.FuncLit
		if fl != nil {
			for _, c := range s.callsTo(fl.Body, "MakeFunc") {
				if len(c.Args) == 2 {
					if l, ok := c.Args[1].(*ast.FuncLit); ok {
						proxy = l
					}
				}
			}
		}
		valid := false
		convs := s.callsTo(proxy, "convertValue")
		if len(convs) == 1 {
			if i := enclosing[*ast.IfStmt](proxy, convs[0]); i != nil && strings.HasSuffix(s.str(i.Init), ":= rcpRv[0].Elem()") {
				name := strings.TrimSpace(strings.SplitN(s.str(i.Init), ":=", 2)[0])
				valid = s.str(i.Cond) == name+".IsValid()"
			}
		}
		f.b("pxResultChecksValid", valid, s.pos(proxy))
		fresh := false
		if proxy != nil {
			// `rpcArgs = []interface{}{}` (a fresh list) declared inside the per-invocation literal
			ast.Inspect(proxy.Body, func(n ast.Node) bool {
				if vs, ok := n.(*ast.ValueSpec); ok {
					for i, nm := range vs.Names {
						if nm.Name == "rpcArgs" && i < len(vs.Values) && s.str(vs.Values[i]) == "[]interface{}{}" {
							fresh = true
						}
					}
				}
				if a, ok := n.(*ast.AssignStmt); ok && len(a.Lhs) == 1 && s.str(a.Lhs[0]) == "rpcArgs" && a.Tok.String() == ":=" && s.str(a.Rhs[0]) == "[]interface{}{}" {
					fresh = true
				}
				return true
			})
		}
		f.b("pxArgsFreshPerInvocation", fresh, s.pos(proxy))
		// the context handed to the underlying CallClosure RPC is the one THIS invocation was given (its first
		// argument), held in a variable of the proxy's own — not the link's
		ctxOwn := false
		if proxy != nil {
			declared, assigned := false, false
			ast.Inspect(proxy.Body, func(n ast.Node) bool {
				if vs, ok := n.(*ast.ValueSpec); ok {
					for _, nm := range vs.Names {
						if nm.Name == "ctx" {
							declared = true
						}
					}
				}
				if a, ok := n.(*ast.AssignStmt); ok && len(a.Lhs) == 1 && s.str(a.Lhs[0]) == "ctx" && len(a.Rhs) == 1 {
					// `ctx = v` with `v, ok := arg.Interface().(context.Context)`, or the assertion directly
					rhs := s.str(a.Rhs[0])
					if strings.Contains(rhs, ".(context.Context)") {
						assigned = true
						if a.Tok.String() == ":=" {
							declared = true
						}
					} else if id, ok := a.Rhs[0].(*ast.Ident); ok {
						for _, b := range all[*ast.AssignStmt](proxy.Body, nil) {
							if len(b.Lhs) >= 1 && s.str(b.Lhs[0]) == id.Name && len(b.Rhs) == 1 && strings.Contains(s.str(b.Rhs[0]), ".(context.Context)") {
								assigned = true
							}
						}
					}
				}
				return true
			})
			used := false
			for _, c := range s.callsTo(proxy, "Call") {
				if strings.Contains(s.str(c), "reflect.ValueOf(ctx)") {
					used = true
				}
			}
			ctxOwn = declared && assigned && used
		}
		f.b("pxCtxIsInvocationCtx", ctxOwn, s.pos(proxy))
		// the closure id an invocation asks for is decoded from ITS argument position into a variable of the
		// per-invocation literal (one proxy per function-typed parameter, none of them shares it), and the
		// CallClosure stub is built there too (per link: it captures this link's writer and resolver)
		idOwn, stubOwn := false, false
		if proxy != nil {
			ast.Inspect(proxy.Body, func(n ast.Node) bool {
				if a, ok := n.(*ast.AssignStmt); ok && a.Tok.String() == ":=" && len(a.Lhs) == 1 {
					if s.str(a.Lhs[0]) == "closureID" {
						idOwn = true
					}
					if c, ok := a.Rhs[0].(*ast.CallExpr); ok && strings.HasSuffix(s.str(c.Fun), ".makeRPC") && len(c.Args) > 1 && s.str(c.Args[1]) == "\"CallClosure\"" {
						stubOwn = true
					}
				}
				if vs, ok := n.(*ast.ValueSpec); ok {
					for _, nm := range vs.Names {
						if nm.Name == "closureID" {
							idOwn = true
						}
					}
				}
				return true
			})
			dec := false
			for _, c := range s.callsTo(proxy, "unmarshal") {
				if len(c.Args) == 2 && strings.HasPrefix(s.str(c.Args[0]), "req.Args[") && s.str(c.Args[1]) == "&closureID" {
					dec = true
				}
			}
			idOwn = idOwn && dec
		}
		f.b("pxClosureIdPerInvocation", idOwn && stubOwn, s.pos(proxy))
		// the proxy's first statement is a deferred function that recovers EVERY panic of the invocation (a bad
		// closure id, a failing stub) and reports it to the link with an unconditional setErr
		rec := false
		if proxy != nil && len(proxy.Body.List) > 0 {
			if d, ok := proxy.Body.List[0].(*ast.DeferStmt); ok {
				if dl, ok := d.Call.Fun.(*ast.FuncLit); ok {
					for _, i := range allShallow[*ast.IfStmt](dl, nil) {
						if strings.Contains(s.str(i.Init), "recover()") && s.str(i.Cond) == "e != nil" && directStmt(dl.Body, i) {
							for _, st := range i.Body.List {
								if e, ok := st.(*ast.ExprStmt); ok {
									if c, ok := e.X.(*ast.CallExpr); ok && s.str(c.Fun) == "setErr" {
										rec = true
									}
								}
							}
						}
					}
				}
			}
		}
		f.b("pxRecoverReports", rec, s.pos(proxy))
	}
	cc := s.funcDecl("", "createClosure")
	var wrapper *ast.FuncLit
	if cc != nil {
		for _, r := range allShallow[*ast.ReturnStmt](cc.Body, nil) {
			if len(r.Results) == 2 {
				if l, ok := r.Results[0].(*ast.FuncLit); ok {
					wrapper = l
				}
			}
		}
	}
	cnt := first(all(wrapper, func(i *ast.IfStmt) bool {
		return s.str(i.Cond) == "len(args) != functionType.NumIn()" && strings.Contains(s.str(i.Body), "ErrInvalidArgsCount")
	}))
	f.b("clArgCountChecked", cnt != nil, s.pos(cnt))
	uc := first(all(wrapper, func(c *ast.CallExpr) bool { return s.str(c.Fun) == "utils.Call" }))
	f.b("clCallViaUtilsCall", uc != nil && len(s.callsTo(wrapper, "Call")) == 1, s.pos(uc))

	call := s.funcDecl("closureManager", "CallClosure")
	lookupOK, missing := false, false
	if call != nil {
		li := s.heldAt(call.Body, "m.closuresLock")
		ix := all(call.Body, func(x *ast.IndexExpr) bool { return s.str(x.X) == "m.closures" })
		lookupOK = len(ix) > 0
		for _, x := range ix {
			lookupOK = lookupOK && li.heldFor(x)
		}
		for _, i := range all[*ast.IfStmt](call.Body, nil) {
			if s.str(i.Cond) == "!ok" && strings.Contains(s.str(i.Body), "return nil, ErrClosureDoesNotExist") {
				missing = true
			}
		}
	}
	f.b("clLookupUnderLock", lookupOK, s.pos(call))
	invokeOutside, plainMutex := false, false
	if call != nil {
		li := s.heldAt(call.Body, "m.closuresLock")
		inv := first(all(call.Body, func(c *ast.CallExpr) bool { return s.str(c.Fun) == "closure" }))
		deferred := len(all(call.Body, func(d *ast.DeferStmt) bool { return strings.Contains(s.str(d.Call), "closuresLock") })) > 0
		other := len(all(call.Body, func(c *ast.CallExpr) bool {
			n := s.str(c.Fun)
			return strings.Contains(n, "closuresLock") && !strings.HasSuffix(n, ".Lock") && !strings.HasSuffix(n, ".Unlock")
		})) > 0
		invokeOutside = inv != nil && !li.heldFor(inv) && !deferred && !other
	}
	if st := s.structDecl("closureManager"); st != nil {
		for _, fl := range st.Fields.List {
			for _, n := range fl.Names {
				if n.Name == "closuresLock" && s.str(fl.Type) == "sync.Mutex" {
					plainMutex = true
				}
			}
		}
	}
	f.b("clInvokeOutsideLock", invokeOutside, s.pos(call))
	f.b("clLockIsMutex", plainMutex, s.pos(call))
	sites := 0
	for name, file := range s.files {
		if name != "registry.go" && name != "manager.go" {
			continue
		}
		seenSel := map[ast.Node]bool{} // (a literal substituted at its use by the normaliser is reachable twice)
		ast.Inspect(file, func(n ast.Node) bool {
			if se, ok := n.(*ast.SelectorExpr); ok && se.Sel.Name == "closures" && !seenSel[n] {
				seenSel[n] = true
				sites++
			}
			return true
		})
	}
	f.n("clTableSites", sites, "selector expressions `.closures` in registry.go / manager.go")
	f.b("clMissingIsError", missing, s.pos(call))
	reg := s.funcDecl("", "registerClosure")
	delOK, insOK, idFresh := false, false, false
	if reg != nil {
		li := s.heldAt(reg.Body, "m.closuresLock")
		for _, a := range allShallow[*ast.AssignStmt](reg.Body, nil) {
			if len(a.Lhs) == 1 && strings.HasPrefix(s.str(a.Lhs[0]), "m.closures[") {
				insOK = li.heldFor(a)
			}
			if len(a.Rhs) == 1 && (s.str(a.Rhs[0]) == "uuid.New().String()" || s.str(a.Rhs[0]) == "uuid.NewString()") {
				idFresh = true
			}
		}
		for _, r := range allShallow[*ast.ReturnStmt](reg.Body, nil) {
			if len(r.Results) == 3 {
				if l, ok := r.Results[1].(*ast.FuncLit); ok {
					li2 := s.heldAt(l.Body, "m.closuresLock")
					for _, c := range s.callsTo(l.Body, "delete") {
						if s.str(c.Args[0]) == "m.closures" && li2.heldFor(c) {
							delOK = true
						}
					}
				}
			}
		}
	}
	f.b("clDeleteUnderLock", delOK, s.pos(reg))
	f.b("clInsertUnderLock", insOK, s.pos(reg))
	f.b("clIdFresh", idFresh, s.pos(reg))

	ucd := s.funcDecl("", "Call")
	rec, mapped := false, false
	if ucd != nil && len(ucd.Body.List) > 0 {
		if d, ok := ucd.Body.List[0].(*ast.DeferStmt); ok && len(s.callsTo(d, "recover")) > 0 {
			rec = true
			// the recovered variable is whatever is initialised from recover() (`if e := recover(); …` / `e := recover()`),
			// the error result the LAST result, of type error, by whatever name
			recovered, errRes := "", ""
			for _, a := range all[*ast.AssignStmt](d, nil) {
				if len(a.Lhs) == 1 && len(a.Rhs) == 1 && s.str(a.Rhs[0]) == "recover()" && recovered == "" {
					recovered = s.str(a.Lhs[0])
				}
			}
			if ucd.Type != nil && ucd.Type.Results != nil {
				if rs := ucd.Type.Results.List; len(rs) > 0 && rs[len(rs)-1] != nil && s.str(rs[len(rs)-1].Type) == "error" {
					if ns := rs[len(rs)-1].Names; len(ns) > 0 {
						errRes = ns[len(ns)-1].Name
					}
				}
			}
			// (as before: the deferred function mentions the sentinel and asserts the recovered value to `error`; now
			// also: the assertion's result and the sentinel are both assigned to the error result)
			asserted, sentinel := false, false
			if recovered != "" && recovered != "_" && errRes != "" && errRes != "_" {
				for _, a := range all[*ast.AssignStmt](d, nil) {
					if len(a.Lhs) == 0 || len(a.Rhs) != 1 || s.str(a.Lhs[0]) != errRes {
						continue
					}
					switch s.str(a.Rhs[0]) {
					case recovered + ".(error)":
						asserted = true
					case "ErrPanickedWithNonErrorValue":
						sentinel = len(a.Lhs) == 1
					}
					// the same conversion in a helper whose body IS the canonical conversion: `err = H(e)`
					if c, ok := a.Rhs[0].(*ast.CallExpr); ok && len(a.Lhs) == 1 && len(c.Args) == 1 && s.str(c.Args[0]) == recovered {
						if id, ok := c.Fun.(*ast.Ident); ok && panicConversionHelper(s, funcDeclInPkg(s, "utils", id.Name)) {
							asserted, sentinel = true, true
						}
					}
				}
			}
			mapped = asserted && sentinel
		}
	}
	f.b("ucRecovers", rec, s.pos(ucd))
	f.b("ucNonErrorPanicMapped", mapped, s.pos(ucd))
}
