package main

import (
	"go/ast"
	"strings"
)

func fatalFacts(s *src, f *facts) {
	lm := linkMessage(s)
	var lb *ast.BlockStmt
	if lm != nil {
		lb = lm.Body
	}
	// setErr := func(err error) { … }
	var se *ast.FuncLit
	if lb != nil {
		for _, st := range lb.List {
			if a, ok := st.(*ast.AssignStmt); ok && len(a.Lhs) == 1 && s.str(a.Lhs[0]) == "setErr" {
				se, _ = a.Rhs[0].(*ast.FuncLit)
			}
		}
	}
	var sb *ast.BlockStmt
	if se != nil {
		sb = se.Body
	}
	closes := s.callsTo(sb, "Close")
	store := first(all(sb, func(a *ast.AssignStmt) bool { return len(a.Lhs) == 1 && s.str(a.Lhs[0]) == "fatalErr" }))
	order := ".noClose"
	if len(closes) > 0 && store != nil {
		allBefore, allAfter := true, true
		for _, c := range closes {
			if before(c, store) {
				allAfter = false
			} else {
				allBefore = false
			}
		}
		switch {
		case allBefore:
			order = ".closeThenStore"
		case allAfter:
			order = ".storeThenClose"
		default:
			order = ".closeThenStore"
		}
	}
	f.add("seOrder", leanRaw(order), s.pos(store))
	firstOnly := false
	if store != nil {
		if i := enclosing[*ast.IfStmt](sb, store); i != nil && s.str(i.Cond) == "fatalErr == nil" {
			firstOnly = true
		}
	}
	f.b("seFirstOnly", firstOnly, s.pos(store))
	bc := first(s.callsTo(sb, "Broadcast"))
	f.b("seBroadcasts", bc != nil, s.pos(bc))
	li := s.heldAt(sb, "fatalErrLock.L")
	f.b("seStoreUnderLock", store != nil && li.heldFor(store) && bc != nil && li.heldFor(bc), s.pos(store))
	// setErr waits for nobody: the only lock it takes is its own condition variable's (a bounded critical
	// section that runs no foreign code), and it has no channel operation, select or wait
	own := sb != nil
	if sb != nil {
		ast.Inspect(sb, func(n ast.Node) bool {
			switch v := n.(type) {
			case *ast.SendStmt, *ast.SelectStmt, *ast.GoStmt:
				if _, isGo := v.(*ast.GoStmt); !isGo {
					own = false
				}
			case *ast.UnaryExpr:
				if v.Op.String() == "<-" {
					own = false
				}
			case *ast.CallExpr:
				if sel, ok := v.Fun.(*ast.SelectorExpr); ok {
					switch sel.Sel.Name {
					case "Lock", "RLock":
						if s.str(sel.X) != "fatalErrLock.L" {
							own = false
						}
					case "Wait", "Acquire":
						own = false
					}
				}
			}
			return true
		})
	}
	f.b("seOnlyOwnLock", own, s.pos(se))
	// every path through setErr closes the pending-call table (the two branches differ only in the cause)
	var alwaysCloses func(list []ast.Stmt) bool
	alwaysCloses = func(list []ast.Stmt) bool {
		for _, st := range list {
			switch v := st.(type) {
			case *ast.ExprStmt:
				if c, ok := v.X.(*ast.CallExpr); ok && strings.HasSuffix(s.str(c.Fun), ".Close") {
					return true
				}
			case *ast.ReturnStmt:
				return false
			case *ast.IfStmt:
				t := alwaysCloses(v.Body.List)
				e := false
				if eb, ok := v.Else.(*ast.BlockStmt); ok {
					e = alwaysCloses(eb.List)
				}
				if t && e {
					return true
				}
				if !t && len(v.Body.List) > 0 {
					if _, ret := v.Body.List[len(v.Body.List)-1].(*ast.ReturnStmt); ret {
						return false
					}
				}
				// (a branch that does not close but jumps — `if … { break }` in a switch clause — leaves the list too)
				if !t && len(allShallow[*ast.BranchStmt](v.Body, nil)) > 0 {
					return false
				}
				if v.Else != nil && !e && len(allShallow[*ast.BranchStmt](v.Else, nil))+len(allShallow[*ast.ReturnStmt](v.Else, nil)) > 0 {
					return false
				}
			case *ast.BranchStmt:
				// break / fallthrough / goto: this list is left (or continued elsewhere) before it has closed
				return false
			case *ast.SwitchStmt:
				// `switch err { case nil: …Close(…) default: …Close(…) }` (tagged or tagless): one clause always runs
				// when there is a default, so the switch closes if EVERY clause does (a clause that ends in
				// `fallthrough` or breaks out early does not count: see BranchStmt above)
				if v.Body == nil {
					continue
				}
				hasDefault, every := false, len(v.Body.List) > 0
				for _, cl := range v.Body.List {
					cc, ok := cl.(*ast.CaseClause)
					if !ok {
						every = false
						continue
					}
					hasDefault = hasDefault || cc.List == nil
					every = every && alwaysCloses(cc.Body)
				}
				if hasDefault && every {
					return true
				}
			}
		}
		return false
	}
	f.b("seClosesOnEveryPath", sb != nil && alwaysCloses(sb.List), s.pos(se))
	// Link tail
	waits := false
	if lb != nil {
		li := s.heldAt(lb, "fatalErrLock.L")
		w := first(allShallow(lb, func(c *ast.CallExpr) bool { return s.str(c.Fun) == "fatalErrLock.Wait" }))
		if w != nil && li.heldFor(w) {
			guardIf := enclosing[*ast.IfStmt](lb, w)
			guardFor := enclosing[*ast.ForStmt](lb, w)
			okGuard := (guardIf != nil && (s.str(guardIf.Cond) == "err == nil" || s.str(guardIf.Cond) == "fatalErr == nil")) ||
				(guardFor != nil && (s.str(guardFor.Cond) == "err == nil" || s.str(guardFor.Cond) == "fatalErr == nil"))
			reread := false
			for _, a := range allShallow[*ast.AssignStmt](lb, nil) {
				if before(w, a) && len(a.Rhs) == 1 && s.str(a.Rhs[0]) == "fatalErr" {
					reread = true
				}
			}
			last := lb.List[len(lb.List)-1]
			r, isRet := last.(*ast.ReturnStmt)
			waits = okGuard && (reread || guardFor != nil) && isRet && len(r.Results) == 1
		}
	}
	f.b("linkWaitsOnCond", waits, s.pos(lm))
	watcher := false
	if lb != nil {
		for _, st := range lb.List {
			if g, ok := st.(*ast.GoStmt); ok {
				t := s.str(g)
				if strings.Contains(t, "<-ctx.Done()") && strings.Contains(t, "setErr(ctx.Err())") && len(all[*ast.ForStmt](g, nil)) == 0 {
					watcher = true
				}
			}
		}
	}
	f.b("watcherCallsSetErr", watcher, s.pos(lm))
}

func registryFacts(s *src, f *facts) {
	lm := linkMessage(s)
	var lb *ast.BlockStmt
	if lm != nil {
		lb = lm.Body
	}
	topAssign := func(rhsPrefix string) ast.Node {
		if lb == nil {
			return nil
		}
		for _, st := range lb.List {
			if a, ok := st.(*ast.AssignStmt); ok && strings.HasPrefix(s.str(a.Rhs[0]), rhsPrefix) {
				return a
			}
		}
		return nil
	}
	nb := topAssign("utils.NewBroadcaster[")
	f.b("rgPerLinkBroadcaster", nb != nil, s.pos(nb))
	slot := false
	if lb != nil {
		for _, st := range lb.List {
			if d, ok := st.(*ast.DeclStmt); ok && s.str(d) == "var fatalErr error" {
				slot = true
			}
		}
	}
	f.b("rgPerLinkFatalSlot", slot && topAssign("sync.NewCond(") != nil, s.pos(lm))
	rv := topAssign("reflect.New(reflect.ValueOf(r.remote).Type()).Elem()")
	f.b("rgPerLinkRemoteValue", rv != nil, s.pos(rv))
	// the setup goroutine: the go literal containing wg.Wait()
	var setup *ast.FuncLit
	if lb != nil {
		for _, st := range lb.List {
			if g, ok := st.(*ast.GoStmt); ok {
				if l, ok := g.Call.Fun.(*ast.FuncLit); ok && len(s.callsToShallow(l, "Wait")) > 0 {
					setup = l
				}
			}
		}
	}
	var sb *ast.BlockStmt
	if setup != nil {
		sb = setup.Body
	}
	idAssign := first(allShallow(sb, func(a *ast.AssignStmt) bool {
		return len(a.Lhs) == 1 && s.str(a.Lhs[0]) == "remoteID" && (s.str(a.Rhs[0]) == "uuid.NewString()" || s.str(a.Rhs[0]) == "uuid.New().String()")
	}))
	// …and that is the ONLY source of the identifier: one of the goroutine's own statements, no other assignment to it
	// (an id taken from the link context when it carries one is not fresh: a link opened from inside a handler of
	// another link would take over that link's identifier)
	idOnly := idAssign != nil && sb != nil
	if idOnly {
		direct := false
		for _, st := range sb.List {
			if ast.Node(st) == ast.Node(idAssign) {
				direct = true
			}
		}
		n := 0
		for _, a := range all[*ast.AssignStmt](sb, nil) {
			for _, l := range a.Lhs {
				if s.str(l) == "remoteID" {
					n++
				}
			}
		}
		idOnly = direct && n == 1
	}
	f.b("rgPerLinkRemoteId", idOnly, s.pos(idAssign))
	li := s.heldAt(sb, "r.remotesLock")
	ins := first(allShallow(sb, func(a *ast.AssignStmt) bool { return len(a.Lhs) == 1 && s.str(a.Lhs[0]) == "r.remotes[remoteID]" }))
	hookCall := func(root ast.Node, recv, name string) *ast.CallExpr {
		return first(all(root, func(c *ast.CallExpr) bool {
			if s.str(c.Fun) != recv+"."+name || len(c.Args) != 1 || s.str(c.Args[0]) != "remoteID" {
				return false
			}
			i := enclosing[*ast.IfStmt](root, c)
			if i == nil || s.str(i.Cond) != recv+"."+name+" != nil" {
				return false
			}
			// a plain, synchronous call: one of the guard's own statements — not `go hook(id)` / `defer hook(id)`, which
			// would run outside the critical section that changes the enumeration
			for _, st := range i.Body.List {
				if es, ok := st.(*ast.ExprStmt); ok && es.X == ast.Expr(c) {
					return true
				}
			}
			return false
		}))
	}
	rc := hookCall(sb, "r.hooks", "OnClientConnect")
	lc := hookCall(sb, "hooks", "OnClientConnect")
	inRegion := func(n ast.Node) bool { return n != nil && !isNilNode(n) && li.heldFor(n) }
	// only shallow (not in the deferred literal)
	rcShallow := rc != nil && enclosing[*ast.FuncLit](sb, rc) == nil
	lcShallow := lc != nil && enclosing[*ast.FuncLit](sb, lc) == nil
	f.b("rgRegistryConnectHook", rcShallow && inRegion(rc), s.pos(rc))
	f.b("rgLinkConnectHook", lcShallow && inRegion(lc), s.pos(lc))
	atomic := ins != nil && inRegion(ins) && rcShallow && inRegion(rc)
	if atomic {
		// same region: no Unlock between insert and hook
		for _, c := range allShallow(sb, func(c *ast.CallExpr) bool { return s.str(c.Fun) == "r.remotesLock.Unlock" }) {
			if before(ins, c) && before(c, rc) {
				atomic = false
			}
			if lcShallow && before(ins, c) && before(c, lc) {
				atomic = false
			}
		}
	}
	f.b("rgRegisterAtomic", atomic && directStmt(sb, ins), s.pos(ins))
	// the deferred unregister
	var unreg *ast.FuncLit
	var unregDefer *ast.DeferStmt
	for _, d := range allShallow[*ast.DeferStmt](sb, nil) {
		if l, ok := d.Call.Fun.(*ast.FuncLit); ok && len(s.callsTo(l, "delete")) > 0 {
			unreg = l
			unregDefer = d
		}
	}
	var ub *ast.BlockStmt
	if unreg != nil {
		ub = unreg.Body
	}
	li2 := s.heldAt(ub, "r.remotesLock")
	del := first(all(ub, func(c *ast.CallExpr) bool { return s.str(c.Fun) == "delete" && s.str(c.Args[0]) == "r.remotes" && s.str(c.Args[1]) == "remoteID" }))
	rd := hookCall(ub, "r.hooks", "OnClientDisconnect")
	ld := hookCall(ub, "hooks", "OnClientDisconnect")
	f.b("rgRegistryDisconnectHook", rd != nil && li2.heldFor(rd), s.pos(rd))
	f.b("rgLinkDisconnectHook", ld != nil && li2.heldFor(ld), s.pos(ld))
	// (the removal is one of the deferred function's OWN statements and the defer one of the goroutine's: neither
	// sits under a further condition)
	f.b("rgUnregisterAtomic", del != nil && li2.heldFor(del) && rd != nil && li2.heldFor(rd) && directStmt(ub, del) && directStmt(sb, unregDefer), s.pos(del))
	wait := first(s.callsToShallow(sb, "Wait"))
	lastIsWait := false
	if sb != nil && len(sb.List) > 0 {
		lastIsWait = contains(sb.List[len(sb.List)-1], wait)
	}
	// nothing can leave the goroutine between the registration and the deferral of its removal (an early `return`
	// there would leave the link enumerated for ever and its disconnect hooks unfired)
	noExit := true
	if sb != nil && ins != nil && unregDefer != nil {
		ast.Inspect(sb, func(x ast.Node) bool {
			switch v := x.(type) {
			case *ast.FuncLit:
				return false
			case *ast.ReturnStmt:
				if v.Pos() > ins.Pos() && v.Pos() < unregDefer.Pos() {
					noExit = false
				}
			case *ast.CallExpr:
				if fn := s.str(v.Fun); (fn == "panic" || fn == "runtime.Goexit") && v.Pos() > ins.Pos() && v.Pos() < unregDefer.Pos() {
					noExit = false
				}
			}
			return true
		})
	}
	f.b("rgUnregisterDeferredAfterWait", unregDefer != nil && wait != nil && lastIsWait && directStmt(sb, wait) && before(ins, unregDefer) && noExit, s.pos(unregDefer))
	// both loops are started after registration, each with wg.Add(1) / defer wg.Done()
	loops := 0
	afterReg := true
	if sb != nil {
		for _, st := range sb.List {
			if g, ok := st.(*ast.GoStmt); ok {
				if l, ok := g.Call.Fun.(*ast.FuncLit); ok && len(all[*ast.ForStmt](l, nil)) > 0 && strings.Contains(s.str(l), "defer wg.Done()") {
					loops++
					afterReg = afterReg && before(ins, g) && (rc == nil || before(rc, g))
				}
			}
		}
	}
	adds := len(s.callsToShallow(sb, "Add"))
	f.b("rgRegisterBeforeLoops", loops == 2 && afterReg, s.pos(setup))
	f.b("rgWaitsForBothLoops", loops == 2 && adds == 2 && wait != nil, s.pos(wait))
	fr := s.funcDecl("Registry", "ForRemotes")
	under := false
	if fr != nil {
		t := s.str(fr.Body)
		under = strings.Contains(t, "r.remotesLock.Lock() defer r.remotesLock.Unlock()") && len(all(fr.Body, func(r *ast.RangeStmt) bool { return s.str(r.X) == "r.remotes" })) == 1
	}
	f.b("rgForRemotesUnderLock", under, s.pos(fr))
}

func streamFacts(s *src, f *facts) {
	ls := s.funcDecl("Registry", "LinkStream")
	var lb *ast.BlockStmt
	if ls != nil {
		lb = ls.Body
	}
	var dec *ast.FuncLit
	if lb != nil {
		for _, st := range lb.List {
			if g, ok := st.(*ast.GoStmt); ok {
				if l, ok := g.Call.Fun.(*ast.FuncLit); ok && len(s.callsTo(l, "decode")) > 0 {
					dec = l
				}
			}
		}
	}
	sends := all[*ast.SendStmt](dec, nil)
	reqSend, resSend := false, false
	guarded := len(sends) > 0
	for _, sn := range sends {
		v := s.str(sn.Value)
		i := enclosing[*ast.IfStmt](dec, sn)
		if v == "*msg.Request" && s.str(sn.Chan) == "requests" && i != nil && s.str(i.Cond) == "msg.Request != nil" {
			reqSend = true
		}
		if v == "*msg.Response" && s.str(sn.Chan) == "responses" && i != nil && s.str(i.Cond) == "msg.Response != nil" {
			resSend = true
		}
		// guarded: the send is a select case next to a ctx.Done() case that leaves the goroutine
		cc := enclosing[*ast.CommClause](dec, sn)
		g := false
		if cc != nil && cc.Comm == ast.Stmt(sn) {
			sel := enclosing[*ast.SelectStmt](dec, cc)
			for _, c2 := range selectCases(sel) {
				if s.commRecvFrom(c2, func(x string) bool { return x == "ctx.Done()" }) && len(all[*ast.ReturnStmt](c2, nil)) > 0 {
					g = true
				}
			}
		}
		guarded = guarded && g
	}
	f.b("stDecoderHandsRequests", reqSend, s.pos(dec))
	f.b("stDecoderHandsResponses", resSend, s.pos(dec))
	f.b("stHandoffGuarded", guarded, s.pos(first(sends)))
	// decodeErr assigned before close(decodeDone), then the goroutine leaves the loop
	errBefore, exits := false, false
	if dec != nil {
		for _, i := range all[*ast.IfStmt](dec, nil) {
			if strings.Contains(s.str(i.Init), "decode(&msg)") || strings.Contains(s.str(i.Cond), "err != nil") {
				as := first(all(i.Body, func(a *ast.AssignStmt) bool { return s.str(a.Lhs[0]) == "decodeErr" }))
				cl := first(all(i.Body, func(c *ast.CallExpr) bool { return s.str(c.Fun) == "close" && s.str(c.Args[0]) == "decodeDone" }))
				if as != nil && cl != nil && before(as, cl) {
					errBefore = true
					n := len(i.Body.List)
					switch l := i.Body.List[n-1].(type) {
					case *ast.BranchStmt:
						exits = l.Tok.String() == "break"
					case *ast.ReturnStmt:
						exits = true
					}
				}
			}
		}
	}
	f.b("stDecodeErrBeforeClose", errBefore, s.pos(dec))
	// every ctx.Done() arm of a hand-off select: decodeErr assigned, decodeDone closed, then return
	abortOK := len(sends) > 0
	for _, sn := range sends {
		cc := enclosing[*ast.CommClause](dec, sn)
		ok := false
		if cc != nil {
			sel := enclosing[*ast.SelectStmt](dec, cc)
			for _, c2 := range selectCases(sel) {
				if s.commRecvFrom(c2, func(x string) bool { return x == "ctx.Done()" }) {
					as := first(all(c2, func(a *ast.AssignStmt) bool { return s.str(a.Lhs[0]) == "decodeErr" }))
					cl := first(all(c2, func(c *ast.CallExpr) bool { return s.str(c.Fun) == "close" && s.str(c.Args[0]) == "decodeDone" }))
					ok = as != nil && cl != nil && before(as, cl) && len(all[*ast.ReturnStmt](c2, nil)) > 0
				}
			}
		}
		abortOK = abortOK && ok
	}
	f.b("stAbortClosesDone", abortOK, s.pos(dec))
	// decodeDone is closed exactly once on every way out of the decoder goroutine (a second close
	// panics in a goroutine nobody recovers): either one deferred close and no other, or one close
	// in front of each exit and none elsewhere; and nobody else closes it
	isClose := func(c *ast.CallExpr) bool { return s.str(c.Fun) == "close" && len(c.Args) == 1 && s.str(c.Args[0]) == "decodeDone" }
	once := false
	if dec != nil {
		deferred, explicit := 0, 0
		for _, d := range all[*ast.DeferStmt](dec, nil) {
			deferred += len(all(d, isClose))
		}
		closes := all(dec, isClose)
		explicit = len(closes) - deferred
		exits := 0
		for _, r := range all[*ast.ReturnStmt](dec, nil) {
			if enclosing[*ast.DeferStmt](dec, r) == nil {
				exits++
			}
		}
		for _, b := range all(dec, func(b *ast.BranchStmt) bool { return b.Tok.String() == "break" }) {
			// a break directly inside a select/switch arm leaves only that statement
			if enclosing[*ast.CommClause](dec, b) == nil && enclosing[*ast.CaseClause](dec, b) == nil {
				exits++
			}
		}
		switch {
		case deferred == 1 && explicit == 0:
			once = true
		case deferred == 0 && explicit > 0 && explicit == exits:
			once = true
			for _, c := range closes {
				// the statement list that holds the close ends by leaving, and holds no second close
				var list []ast.Stmt
				if cc := enclosing[*ast.CommClause](dec, c); cc != nil && (enclosing[*ast.BlockStmt](cc, c) == nil) {
					list = cc.Body
				} else if b := enclosing[*ast.BlockStmt](dec, c); b != nil {
					list = b.List
				}
				n, leaves := 0, false
				for _, st := range list {
					n += len(all(st, isClose))
				}
				if len(list) > 0 {
					switch l := list[len(list)-1].(type) {
					case *ast.ReturnStmt:
						leaves = true
					case *ast.BranchStmt:
						leaves = l.Tok.String() == "break"
					}
				}
				once = once && n == 1 && leaves
			}
		}
		if lb != nil {
			once = once && len(all(lb, isClose)) == len(closes)
		}
	}
	f.b("stDoneClosedOncePerExit", once, s.pos(dec))
	// the envelope is declared inside the decode loop: no member of one frame survives into the next (a frame
	// that omits a member must not redeliver the previous one; a payload slice is never decoded over)
	msgFresh := false
	if dec != nil {
		for _, l := range all[*ast.ForStmt](dec, nil) {
			if len(s.callsTo(l, "decode")) == 0 {
				continue
			}
			for _, st := range l.Body.List {
				if d, ok := st.(*ast.DeclStmt); ok && strings.Contains(s.str(d), "Message[") {
					msgFresh = true
				}
				if a, ok := st.(*ast.AssignStmt); ok && a.Tok.String() == ":=" && len(a.Rhs) == 1 && strings.Contains(s.str(a.Rhs[0]), "Message[") {
					msgFresh = true
				}
			}
		}
	}
	f.b("stMsgFreshPerIteration", msgFresh, s.pos(dec))
	f.b("stDecoderExitsOnErr", exits, s.pos(dec))
	// LinkMessage(ctx, writeReq, writeRes, readReq, readRes, …)
	call := first(s.callsTo(lb, "LinkMessage"))
	readers, encReq, encRes := false, false, false
	if call != nil && len(call.Args) >= 5 {
		lit := func(i int) *ast.FuncLit { l, _ := call.Args[i].(*ast.FuncLit); return l }
		chk := func(l *ast.FuncLit, ch string) bool {
			sel := first(all[*ast.SelectStmt](l, nil))
			d, c := false, false
			for _, cc := range selectCases(sel) {
				if s.commRecvFrom(cc, func(x string) bool { return x == "decodeDone" }) && strings.Contains(s.str(cc), "decodeErr") {
					d = true
				}
				if s.commRecvFrom(cc, func(x string) bool { return x == ch }) {
					c = true
				}
			}
			return d && c
		}
		readers = chk(lit(3), "requests") && chk(lit(4), "responses")
		enc := func(l *ast.FuncLit, field string) bool {
			cl := first(all(l, func(c *ast.CompositeLit) bool { return strings.HasPrefix(s.str(c.Type), "Message[") }))
			return cl != nil && len(cl.Elts) == 1 && s.str(litField(cl, field)) == "&b" && len(s.callsTo(l, "encode")) == 1
		}
		encReq = enc(lit(1), "Request")
		encRes = enc(lit(2), "Response")
	}
	f.b("stReadersSelectDone", readers, s.pos(call))
	f.b("stEncodeRequestOnly", encReq, s.pos(call))
	f.b("stEncodeResponseOnly", encRes, s.pos(call))
	// payload opacity: in registry.go no operation is applied to a value of type T other than
	// passing it on. Syntactic approximation: no len()/index/range/conversion on the names that
	// hold payloads (b, v, req.Args[i] only as unmarshal input, res.Value / rawReturnValue.value likewise).
	opaque := true
	ev := ""
	for name, file := range s.files {
		if name != "registry.go" {
			continue
		}
		ast.Inspect(file, func(n ast.Node) bool {
			switch v := n.(type) {
			case *ast.CallExpr:
				fn := s.str(v.Fun)
				if fn == "len" || fn == "string" || fn == "[]byte" || fn == "cap" {
					a := s.str(v.Args[0])
					if a == "b" || a == "v" || strings.HasSuffix(a, ".value") || strings.HasSuffix(a, ".Value") || strings.HasPrefix(a, "req.Args[") {
						opaque = false
						ev = s.pos(v)
					}
				}
			case *ast.IndexExpr:
				a := s.str(v.X)
				if a == "b" || strings.HasSuffix(a, ".value") || strings.HasSuffix(a, ".Value") {
					opaque = false
					ev = s.pos(v)
				}
			case *ast.TypeAssertExpr:
				a := s.str(v.X)
				if a == "b" || a == "any(b)" || strings.HasSuffix(a, ".value") || strings.HasSuffix(a, ".Value") {
					opaque = false
					ev = s.pos(v)
				}
			}
			return true
		})
	}
	f.b("stPayloadOpaque", opaque, ev)
	// capacity of the hand-off channels
	capN := 0
	found := 0
	if lb != nil {
		ast.Inspect(lb, func(n ast.Node) bool {
			vs, ok := n.(*ast.ValueSpec)
			if !ok {
				return true
			}
			for i, nm := range vs.Names {
				if (nm.Name == "requests" || nm.Name == "responses") && i < len(vs.Values) {
					if c, ok := vs.Values[i].(*ast.CallExpr); ok && s.str(c.Fun) == "make" {
						found++
						if k := capOfMake(s, c); k > capN {
							capN = k
						}
					}
				}
			}
			return true
		})
	}
	if found != 2 {
		capN = 99
	}
	f.n("stHandoffChanCap", capN, s.pos(ls))
}

func tagOf(s *src, st *ast.StructType, field string) string {
	if st == nil {
		return ""
	}
	for _, fl := range st.Fields.List {
		for _, n := range fl.Names {
			if n.Name == field && fl.Tag != nil {
				t := strings.Trim(fl.Tag.Value, "`")
				const p = `json:"`
				if i := strings.Index(t, p); i >= 0 {
					rest := t[i+len(p):]
					if j := strings.Index(rest, `"`); j >= 0 {
						return rest[:j]
					}
				}
			}
		}
	}
	return ""
}

func wireFacts(s *src, f *facts) {
	rq, rs, ms := s.structDecl("Request"), s.structDecl("Response"), s.structDecl("Message")
	f.s("tagReqCall", tagOf(s, rq, "Call"), s.pos(rq))
	f.s("tagReqFunction", tagOf(s, rq, "Function"), s.pos(rq))
	f.s("tagReqArgs", tagOf(s, rq, "Args"), s.pos(rq))
	f.s("tagResCall", tagOf(s, rs, "Call"), s.pos(rs))
	f.s("tagResValue", tagOf(s, rs, "Value"), s.pos(rs))
	f.s("tagResErr", tagOf(s, rs, "Err"), s.pos(rs))
	f.s("tagMsgRequest", tagOf(s, ms, "Request"), s.pos(ms))
	f.s("tagMsgResponse", tagOf(s, ms, "Response"), s.pos(ms))
}

// directStmt: n is (part of) one of the block's own statements — not nested in an if / for / switch / block.
func directStmt(b *ast.BlockStmt, n ast.Node) bool {
	if b == nil || isNilNode(n) {
		return false
	}
	for _, st := range b.List {
		if ast.Node(st) == n {
			return true
		}
		switch st.(type) {
		case *ast.IfStmt, *ast.ForStmt, *ast.RangeStmt, *ast.SwitchStmt, *ast.TypeSwitchStmt, *ast.SelectStmt, *ast.BlockStmt:
			continue
		}
		if contains(st, n) {
			return true
		}
	}
	return false
}
