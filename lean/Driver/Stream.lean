/-
  Driver/Stream.lean — line protocol for M4 (Model/Stream.lean), skeleton `Skeleton.current`.

  Lines (the leading word `st` is stripped by Driver/Main.lean before it calls `streamHandle`;
  `streamQuery` takes the words after `st` as well):

    st reset <input>…        new link; the decoder is going to see these results, in order
                               err            decode error
                               req:<n>        Message{Request: n}
                               res:<n>        Message{Response: n}
                               both:<n>:<m>   Message{Request: n, Response: m}
                               empty          Message{}
                             → `ok`
    st <action>              decRead | decFinish | handReq | handRes |
                             decAbort (leave the hand-off silently: `St.Act.decAbort false`) |
                             decAbortClose (decodeErr = ctx.Err(); close(decodeDone); leave:
                                            `St.Act.decAbort true`) |
                               — the model allows only the one of the two that the source has
                                 (`Skeleton.current.stAbortClosesDone`); the other is `rejected`
                             readDoneReq | readDoneRes | exitReq | exitRes | ctxCancel
                             → `ok`, or `rejected <line>` if the model does not allow the step
    st state                 → `gotReq=[1, 2] gotRes=[] dec=handReq(3,-) reqEnd=- resEnd=err@4`
    st fullstate             → the same + ` ctx=<b> done=<b> req=<waiting|exited> res=<…> left=<n> lost=[…]/[…] crashed=<b>`
                               dec:     reading | handReq(p,next|-) | handRes(p) | failing(k) | done
                               reqEnd:  -  (adapter has not returned an error) | nil | err@<decode call> | ctx
    st run <input>… -- <action>…   stateless: reset, run all, → the state line, or
                                   `rejected <index> <action>`
-/
import Panrpc.Generated.Current
import Panrpc.Model.Stream

open Panrpc

namespace Driver

def stInput (w : String) : Option (Option St.Envelope) :=
  match w.splitOn ":" with
  | ["err"] => some none
  | ["empty"] => some (some { req := none, res := none })
  | ["req", n] => n.toNat?.map fun n => some { req := some n, res := none }
  | ["res", n] => n.toNat?.map fun n => some { req := none, res := some n }
  | ["both", n, m] => do
    let n ← n.toNat?
    let m ← m.toNat?
    pure (some { req := some n, res := some m })
  | _ => none

def stAct : String → Option St.Act
  | "decRead" => some .decRead
  | "decFinish" => some .decFinish
  | "handReq" => some .handReq
  | "handRes" => some .handRes
  | "decAbort" => some (.decAbort false)
  | "decAbortClose" => some (.decAbort true)
  | "readDoneReq" => some .readDoneReq
  | "readDoneRes" => some .readDoneRes
  | "exitReq" => some .exitReq
  | "exitRes" => some .exitRes
  | "ctxCancel" => some .ctxCancel
  | _ => none

def stDec : St.Dec → String
  | .reading => "reading"
  | .handReq p (some q) => s!"handReq({p},{q})"
  | .handReq p none => s!"handReq({p},-)"
  | .handRes q => s!"handRes({q})"
  | .failing k => s!"failing({k})"
  | .done => "done"

def stEnd : Option (Option St.StErr) → String
  | none => "-"
  | some none => "nil"
  | some (some (.decode k)) => s!"err@{k}"
  | some (some .ctx) => "ctx"

def stRd : St.Rd → String
  | .waiting => "waiting"
  | .exited => "exited"

def stSummary (s : St.State) : String :=
  s!"gotReq={s.gotReq} gotRes={s.gotRes} dec={stDec s.dec} reqEnd={stEnd s.reqEnd} resEnd={stEnd s.resEnd}"

def stFull (s : St.State) : String :=
  stSummary s ++
  s!" ctx={s.linkCtxDone} done={s.decodeDone} req={stRd s.reqRd} res={stRd s.resRd} left={s.inp.length}" ++
  s!" lost={s.lostReq}/{s.lostRes} crashed={s.crashed}"

/-- One `st …` line.  Result: new state, "a step was rejected", answer. -/
def streamHandle (s : St.State) (ws : List String) : St.State × Bool × String :=
  let line := " ".intercalate ("st" :: ws)
  match ws with
  | "reset" :: ins =>
    match ins.mapM stInput with
    | some l => (St.init l, false, "ok")
    | none => (s, false, s!"bad-op {line}")
  | ["state"] => (s, false, stSummary s)
  | ["fullstate"] => (s, false, stFull s)
  | [a] =>
    match stAct a with
    | some act =>
      match St.step Skeleton.current s act with
      | some s' => (s', false, "ok")
      | none => (s, true, s!"rejected {line}")
    | none => (s, false, s!"bad-op {line}")
  | _ => (s, false, s!"bad-op {line}")

def stRunActs (s : St.State) (i : Nat) : List String → String
  | [] => stSummary s
  | a :: rest =>
    match stAct a with
    | none => s!"bad-op {a}"
    | some act =>
      match St.step Skeleton.current s act with
      | some s' => stRunActs s' (i + 1) rest
      | none => s!"rejected {i} {a}"

/-- stateless query: `run <input>… -- <action>…` -/
def streamQuery (ws : List String) : String :=
  match ws with
  | "run" :: rest =>
    let ins := rest.takeWhile (· ≠ "--")
    let acts := (rest.dropWhile (· ≠ "--")).drop 1
    match ins.mapM stInput with
    | some l => stRunActs (St.init l) 0 acts
    | none => "bad-op " ++ " ".intercalate ("st" :: ws)
  | _ => "bad-op " ++ " ".intercalate ("st" :: ws)

end Driver
