/-
  Driver/Lookup.lean — line-protocol queries against the lookup model (P0/P1).

  The driver keeps the current type table and root (`LkState`); three commands:

      lk table <sexp…>            set the type table            → `ok table <number of types>`
      lk root <sexp…>             set the exposed root value    → `ok root`
      lk resolve <nargs> <hex>    resolve request {Function: <hex-decoded path>, Args: nargs values}
                                  under `Skeleton.current`      → one of
                                      runs <inst> <methodhex>
                                      nilrecv <methodhex>        (method value bound to a nil pointer is Called)
                                      closure
                                      rejected <why…>
                                      crash <why…>
      lk lookup <hex>             result of findMethodByFunctionCallPathRecursively only →
                                      func <recv|nil> <methodhex> <numIn> <ro 0|1> <unexpIface 0|1> | zero | err <why…> | panic <why…>
  anything else → `bad-op …`.   An empty path is sent as `-`.

  S-expression encoding (tokens are `(`, `)` and atoms; whitespace separates atoms; parentheses
  need no surrounding space; the s-expression may be spread over any number of words of the line):

      table  ::= ( decl* )                              position in the list = type index
      decl   ::= ( s ( field* ) ( method* ) )           struct: fields in declaration order; method set of T
               | ( p ELEM ( method* ) )                 pointer to type ELEM; method set of *T
               | ( i ( method* ) )                      interface: ALL its methods
               | ( o ISFUNC ( method* ) )               any other kind
      field  ::= ( NAME EXPORTED EMBEDDED TY )
      method ::= ( NAME EXPORTED NUMIN )                NUMIN excludes the receiver
      root   ::= nil | val
      val    ::= ( s TY INST ( val* ) )                 struct value, fields in declaration order
               | ( p TY nil ) | ( p TY val )            pointer
               | ( i TY nil ) | ( i TY val )            interface-typed slot holding a dynamic value
               | ( o TY INST )
      NAME = lowercase hex of the UTF-8 bytes (`-` for the empty name); EXPORTED/EMBEDDED/ISFUNC = 0|1;
      ELEM/TY/INST/NUMIN = decimal.

  Worked example.  Go:
      type Sub struct{}                 func (Sub) Get(ctx) error        func (*Sub) Set(ctx, int) error
      type Root struct{ S Sub; P *Sub } func (*Root) Ping(ctx) error
      NewRegistry(&Root{P: nil}, …)
  types: 0 = Root, 1 = *Root, 2 = Sub, 3 = *Sub       ("S"=53 "P"=50 "Ping"=50696e67 "Get"=476574 "Set"=536574)
      lk table ((s ((53 1 0 2) (50 1 0 3)) ()) (p 0 ((50696e67 1 1))) (s () ((476574 1 1))) (p 2 ((476574 1 1) (536574 1 2))))
      lk root (p 1 (s 0 1 ((s 2 2 ()) (p 3 nil))))
      lk resolve 0 532e476574        ("S.Get")   → runs 2 476574
      lk resolve 0 50696e67          ("Ping")    → runs 1 50696e67
      lk resolve 1 502e536574        ("P.Set")   → nilrecv 536574
      lk resolve 0 532e536574        ("S.Set")   → rejected cannot call non function: no such method
-/
import Panrpc.Generated.Current
import Panrpc.Model.Lookup

namespace Driver.Lk
open Panrpc Panrpc.Lk

/-! ### hex -/

def hexVal (c : Char) : Option Nat :=
  if '0' ≤ c ∧ c ≤ '9' then some (c.toNat - '0'.toNat)
  else if 'a' ≤ c ∧ c ≤ 'f' then some (c.toNat - 'a'.toNat + 10)
  else if 'A' ≤ c ∧ c ≤ 'F' then some (c.toNat - 'A'.toNat + 10)
  else none

def hexBytes : List Char → Option (List UInt8)
  | [] => some []
  | [_] => none
  | a :: b :: rest => do
    let x ← hexVal a
    let y ← hexVal b
    let r ← hexBytes rest
    pure (UInt8.ofNat (16 * x + y) :: r)

def hexDecode (s : String) : Option String :=
  if s = "-" then some "" else
  match hexBytes s.toList with
  | some bs => String.fromUTF8? (ByteArray.mk bs.toArray)
  | none => none

def hexDigit (n : Nat) : Char :=
  if n < 10 then Char.ofNat ('0'.toNat + n) else Char.ofNat ('a'.toNat + (n - 10))

def hexEncode (s : String) : String :=
  if s = "" then "-" else
  String.ofList (s.toUTF8.toList.flatMap fun b => [hexDigit (b.toNat / 16), hexDigit (b.toNat % 16)])

/-! ### s-expressions -/

inductive Sexp where
  | atom (s : String)
  | list (xs : List Sexp)
  deriving Repr, Inhabited

def tokenize (cs : List Char) : List String :=
  let flush (cur : List Char) (acc : List String) : List String :=
    if cur.isEmpty then acc else String.ofList cur.reverse :: acc
  let (cur, acc) := cs.foldl (fun (st : List Char × List String) c =>
    let (cur, acc) := st
    if c = '(' then ([], "(" :: flush cur acc)
    else if c = ')' then ([], ")" :: flush cur acc)
    else if c.isWhitespace then ([], flush cur acc)
    else (c :: cur, acc)) ([], [])
  (flush cur acc).reverse

/-- stack parser: the result is the single top-level s-expression -/
def parseSexp (toks : List String) : Option Sexp :=
  let step (st : Option (List (List Sexp))) (t : String) : Option (List (List Sexp)) :=
    match st with
    | none => none
    | some stack =>
      if t = "(" then some ([] :: stack)
      else if t = ")" then
        match stack with
        | top :: below :: rest => some ((Sexp.list top.reverse :: below) :: rest)
        | _ => none
      else
        match stack with
        | top :: rest => some ((Sexp.atom t :: top) :: rest)
        | [] => none
  match toks.foldl step (some [[]]) with
  | some [[x]] => some x
  | _ => none

def atomNat : Sexp → Option Nat
  | .atom s => s.toNat?
  | _ => none

def atomBool : Sexp → Option Bool
  | .atom "0" => some false
  | .atom "1" => some true
  | _ => none

def atomName : Sexp → Option String
  | .atom s => hexDecode s
  | _ => none

def toMethod : Sexp → Option MethodDecl
  | .list [n, e, k] => do pure { name := ← atomName n, exported := ← atomBool e, numIn := ← atomNat k }
  | _ => none

def toField : Sexp → Option FieldDecl
  | .list [n, e, m, t] => do
    pure { name := ← atomName n, exported := ← atomBool e, embedded := ← atomBool m, ty := ← atomNat t }
  | _ => none

def toDecl : Sexp → Option TypeDecl
  | .list [.atom "s", .list fs, .list ms] => do pure (.struct (← fs.mapM toField) (← ms.mapM toMethod))
  | .list [.atom "p", e, .list ms] => do pure (.ptr (← atomNat e) (← ms.mapM toMethod))
  | .list [.atom "i", .list ms] => do pure (.iface (← ms.mapM toMethod))
  | .list [.atom "o", f, .list ms] => do pure (.other (← atomBool f) (← ms.mapM toMethod))
  | _ => none

def toTable : Sexp → Option TypeTable
  | .list ds => ds.mapM toDecl
  | _ => none

mutual
def toVal : Sexp → Option Val
  | .list [.atom "s", t, i, .list vs] => do pure (.struct (← atomNat t) (← atomNat i) (← toVals vs))
  | .list [.atom "p", t, .atom "nil"] => do pure (.ptr (← atomNat t) none)
  | .list [.atom "p", t, v] => do pure (.ptr (← atomNat t) (some (← toVal v)))
  | .list [.atom "i", t, .atom "nil"] => do pure (.iface (← atomNat t) none)
  | .list [.atom "i", t, v] => do pure (.iface (← atomNat t) (some (← toVal v)))
  | .list [.atom "o", t, i] => do pure (.other (← atomNat t) (← atomNat i))
  | _ => none
def toVals : List Sexp → Option (List Val)
  | [] => some []
  | x :: xs => do pure ((← toVal x) :: (← toVals xs))
end

def toRoot : Sexp → Option (Option Val)
  | .atom "nil" => some none
  | s => (toVal s).map some

/-! ### the query interface -/

structure LkState where
  tt   : TypeTable := []
  root : Option Val := none

def showResolution : Resolution → String
  | .runs i m => s!"runs {i} {hexEncode m}"
  | .runsNil m => s!"nilrecv {hexEncode m}"
  | .closureEntry => "closure"
  | .rejected w => s!"rejected {w}"
  | .crash w => s!"crash {w}"

def showLkRes : LkRes → String
  | .func m =>
    let r := match m.recv with | some i => toString i | none => "nil"
    s!"func {r} {hexEncode m.name} {m.numIn} {if m.ro then 1 else 0} {if m.unexpIface then 1 else 0}"
  | .zero => "zero"
  | .err w => s!"err {w}"
  | .panic w => s!"panic {w}"

def sexpOfWords (ws : List String) : Option Sexp :=
  parseSexp (tokenize (" ".intercalate ws).toList)

/-- One driver line (the words after `lk`). -/
def lookupStep (st : LkState) (ws : List String) : LkState × String :=
  match ws with
  | "table" :: rest =>
    match (sexpOfWords rest).bind toTable with
    | some tt => ({ st with tt := tt }, s!"ok table {tt.length}")
    | none => (st, "bad-op lk table: cannot parse")
  | "root" :: rest =>
    match (sexpOfWords rest).bind toRoot with
    | some r => ({ st with root := r }, "ok root")
    | none => (st, "bad-op lk root: cannot parse")
  | ["resolve", n, p] =>
    match n.toNat?, hexDecode p with
    | some n, some p => (st, showResolution (resolve Skeleton.current st.tt st.root p n))
    | _, _ => (st, "bad-op lk resolve: bad arguments")
  | ["lookup", p] =>
    match hexDecode p with
    | some p => (st, showLkRes (lookup Skeleton.current st.tt st.root p))
    | none => (st, "bad-op lk lookup: bad arguments")
  | _ => (st, "bad-op lk " ++ " ".intercalate ws)

/-- Stateless form: answers a single line against the empty table and a nil root. -/
def lookupQuery (ws : List String) : String :=
  match ws with
  | "lk" :: rest => (lookupStep {} rest).2
  | _ => (lookupStep {} ws).2

end Driver.Lk
