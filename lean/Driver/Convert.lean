/-
  Driver/Convert.lean — query interface for P4 (Model/Convert.lean), skeleton = `Skeleton.current`.

  Protocol (words after `cv`; a leading `cv` is also accepted), one answer line each:

    cv convert <gval> <ty>        → `ok <gval>` | `err` | `panic`          (convertValue)
    cv result  <ty> <gval>        → `ok <gval>` | `err` | `panic`          (proxy result half, IsValid guard on)
    cv wrapper <tys> <gvals>      → `ran <gvals>` | `err:argscount` | `err:arg` | `err:call` | `panic`
    anything else / unparsable    → `bad-op …`

  One-word encodings (no blanks):

    <ty>    b bool | i int* | u uint* | f float* | s string | a interface{} | o other | [<ty> slice of <ty>
            e.g. `[[i` = [][]int
    <tys>   `-` (none) or <ty>,<ty>,…      — the parameter types AFTER the leading context.Context
    <gval>  nil            the zero reflect.Value (reflect.ValueOf(nil), Elem() of a nil interface)
            b:true b:false
            i:<int>        any signed integer kind, decimal, `-` allowed
            u:<nat>        any unsigned integer kind
            f:<int>        a float holding that integral value
            s:<hex>        string, lowercase hex of its UTF-8 bytes (`s:` = "")
            o              any other kind (map, struct, pointer …)
            I(<gval>)      an interface-kinded Value holding <gval> (`I(nil)` = nil interface)
            [<gval>,…]     slice with a concrete element type (`[]` = empty or nil)
            {<gval>,…}     []interface{}; elements are what Index(i) returns, i.e. `I(…)`
    <gvals> `-` (none) or <gval>,<gval>,…  — the decoded list CallClosure received (no context)

  Answers render values with the same grammar (`reflect.Zero` of a type: `b:false`, `i:0`, `u:0`,
  `f:0`, `s:`, `[]` / `{}`, `I(nil)`, `o`).  An integer → string conversion (Go: rune text) is
  rendered `o`.
-/
import Panrpc.Generated.Current
import Panrpc.Model.Convert

namespace Driver.Cv
open Panrpc Panrpc.Cv

def hexDigit (n : Nat) : Char := "0123456789abcdef".toList.getD n '0'

def hexEncode (s : String) : String :=
  String.ofList (s.toUTF8.toList.flatMap fun b => [hexDigit (b.toNat / 16), hexDigit (b.toNat % 16)])

def hexVal (c : Char) : Option Nat :=
  if '0' ≤ c ∧ c ≤ '9' then some (c.toNat - '0'.toNat)
  else if 'a' ≤ c ∧ c ≤ 'f' then some (c.toNat - 'a'.toNat + 10)
  else none

def unhex : List Char → Option (List UInt8)
  | [] => some []
  | [_] => none
  | a :: b :: r => do
    let x ← hexVal a
    let y ← hexVal b
    let rest ← unhex r
    pure (UInt8.ofNat (x * 16 + y) :: rest)

def hexDecode (cs : List Char) : Option String := do
  let bs ← unhex cs
  String.fromUTF8? (ByteArray.mk bs.toArray)

def isHexCh (c : Char) : Bool := (hexVal c).isSome
def isNumCh (c : Char) : Bool := c.isDigit || c == '-'

def parseTy : Nat → List Char → Option Ty
  | 0, _ => none
  | n + 1, '[' :: r => (parseTy n r).map .slice
  | _, ['b'] => some .bool
  | _, ['i'] => some .int
  | _, ['u'] => some .uint
  | _, ['f'] => some .float
  | _, ['s'] => some .string
  | _, ['a'] => some .anyIface
  | _, ['o'] => some .other
  | _, _ => none

def parseTyWord (w : String) : Option Ty := parseTy (w.length + 1) w.toList

def parseTys (w : String) : Option (List Ty) :=
  if w == "-" then some [] else (w.splitOn ",").mapM parseTyWord

mutual
def parseG : Nat → List Char → Option (GVal × List Char)
  | 0, _ => none
  | n + 1, cs =>
    match cs with
    | 'n' :: 'i' :: 'l' :: r => some (.invalid, r)
    | 'b' :: ':' :: 't' :: 'r' :: 'u' :: 'e' :: r => some (.bool true, r)
    | 'b' :: ':' :: 'f' :: 'a' :: 'l' :: 's' :: 'e' :: r => some (.bool false, r)
    | 'i' :: ':' :: r => (String.ofList (r.takeWhile isNumCh)).toInt?.map fun i => (.int i, r.dropWhile isNumCh)
    | 'u' :: ':' :: r => (String.ofList (r.takeWhile isNumCh)).toNat?.map fun k => (.uint k, r.dropWhile isNumCh)
    | 'f' :: ':' :: r => (String.ofList (r.takeWhile isNumCh)).toInt?.map fun i => (.float i, r.dropWhile isNumCh)
    | 's' :: ':' :: r => (hexDecode (r.takeWhile isHexCh)).map fun s => (.string s, r.dropWhile isHexCh)
    | 'o' :: r => some (.other, r)
    | 'I' :: '(' :: r =>
      match parseG n r with
      | some (g, ')' :: r') => some (.iface g, r')
      | _ => none
    | '[' :: r => (parseSeq n ']' r).map fun (xs, r') => (.slice false xs, r')
    | '{' :: r => (parseSeq n '}' r).map fun (xs, r') => (.slice true xs, r')
    | _ => none
/-- the elements after an opening bracket, up to and including `close` -/
def parseSeq : Nat → Char → List Char → Option (List GVal × List Char)
  | 0, _, _ => none
  | n + 1, close, cs =>
    match cs with
    | [] => none
    | c :: r =>
      if c == close then some ([], r)
      else
        match parseG n cs with
        | some (g, c' :: r') =>
          if c' == close then some ([g], r')
          else if c' == ',' then (parseSeq n close r').map fun (xs, r'') => (g :: xs, r'')
          else none
        | _ => none
end

def parseGWord (w : String) : Option GVal :=
  match parseG (w.length + 1) w.toList with
  | some (g, []) => some g
  | _ => none

def parseGs (w : String) : Option (List GVal) :=
  if w == "-" then some []
  else
    match parseSeq (w.length + 2) ';' (w.toList ++ [';']) with
    | some (gs, []) => some gs
    | _ => none

mutual
def render : GVal → String
  | .invalid => "nil"
  | .bool b => if b then "b:true" else "b:false"
  | .int i => s!"i:{i}"
  | .uint n => s!"u:{n}"
  | .float x => s!"f:{x}"
  | .string s => "s:" ++ hexEncode s
  | .slice false xs => "[" ++ renderSeq xs ++ "]"
  | .slice true xs => "{" ++ renderSeq xs ++ "}"
  | .iface g => "I(" ++ render g ++ ")"
  | .other => "o"
def renderSeq : List GVal → String
  | [] => ""
  | [x] => render x
  | x :: y :: r => render x ++ "," ++ renderSeq (y :: r)
end

def renderGs (gs : List GVal) : String := if gs.isEmpty then "-" else renderSeq gs

def renderOutcome : Outcome → String
  | .ok v => "ok " ++ render v
  | .err => "err"
  | .panic => "panic"

def renderWrapper : WrapperOutcome → String
  | .ran vs => "ran " ++ renderGs vs
  | .errResult .argsCount => "err:argscount"
  | .errResult .arg => "err:arg"
  | .errResult .call => "err:call"
  | .panicOut => "panic"

def convertQueryWith (sk : Skeleton) (ws : List String) : String :=
  let ws' := match ws with | "cv" :: r => r | r => r
  let bad := "bad-op cv " ++ " ".intercalate ws'
  match ws' with
  | ["convert", g, t] =>
    match parseGWord g, parseTyWord t with
    | some g, some t => renderOutcome (convertValue sk g t)
    | _, _ => bad
  | ["result", t, g] =>
    match parseTyWord t, parseGWord g with
    | some t, some g => renderOutcome (proxyResult sk true t g)
    | _, _ => bad
  | ["wrapper", ts, gs] =>
    match parseTys ts, parseGs gs with
    | some ts, some gs => renderWrapper (wrapper sk ts gs)
    | _, _ => bad
  | _ => bad

def convertQuery (ws : List String) : String := convertQueryWith Skeleton.current ws

end Driver.Cv
