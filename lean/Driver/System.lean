/-
  Driver/System.lean — replay interface for M3 (Model/System.lean), the message-correlation
  core of one healthy link.  Executes the very `Sys.step` the C01/C02 theorems are about,
  under `Skeleton.current`.

  Protocol (words after the leading `sys`; endpoints are `A` | `B`, everything else decimal):
    reset                               → ok reset
    state                               → state A{…} B{…} inv=[…] deliv=[…]         (canonical summary)
    callStart e fn args                 → ok | rejected …
    callWrite e t | callRegister e t | callReturn e t
    reqDeliver e i | resDeliver e i     (i = position of the frame in the buffer)
    handlerEnter e h | handlerStall e h | handlerResume e h | handlerNestedDone e h | respond e h
    handlerCallPeer e h fn args | handlerReturn e h value err
    publish e p t | publishDrop e p
  Conveniences for traces that know call ids rather than positions / thread indices:
    reqDeliverCall e id                 deliver the request frame carrying call id `id`
    resDeliverCall e id                 deliver the response frame carrying call id `id`
    publishAuto e p                     publish to the waiter of the frame's call if it is pending, else drop
    handlerOf e id                      → handler h | none     (thread spawned at e for request `id`)
    callOf e id                         → call t | none        (call thread of e with that id)
    pubOf e id                          → pub p | none         (pending publisher of e carrying call id `id`)
    enabled <action …>                  → yes | no             (does not change the state)
    stuck                               → yes | no             (`Sys.stuck`: nothing but a new call can happen)
  Every state-changing command answers `ok` or `rejected <words>`; unknown words answer `bad-op <words>`.
-/
import Panrpc.Generated.Current
import Panrpc.Model.System

open Panrpc

namespace Driver.SysQ

open Panrpc.Sys

def parseE : String → Option E
  | "A" | "a" | "0" => some .A
  | "B" | "b" | "1" => some .B
  | _ => none

def showE : E → String
  | .A => "A"
  | .B => "B"

def nats (ws : List String) : Option (List Nat) := ws.mapM String.toNat?

/-- parse one model action -/
def parseAct (ws : List String) : Option Act :=
  match ws with
  | name :: e :: rest =>
    match parseE e, nats rest with
    | some e, some ns =>
      match name, ns with
      | "callStart", [fn, args] => some (.callStart e fn args)
      | "callWrite", [t] => some (.callWrite e t)
      | "callRegister", [t] => some (.callRegister e t)
      | "callReturn", [t] => some (.callReturn e t)
      | "reqDeliver", [i] => some (.reqDeliver e i)
      | "resDeliver", [i] => some (.resDeliver e i)
      | "handlerEnter", [h] => some (.handlerEnter e h)
      | "handlerStall", [h] => some (.handlerStall e h)
      | "handlerResume", [h] => some (.handlerResume e h)
      | "handlerNestedDone", [h] => some (.handlerNestedDone e h)
      | "respond", [h] => some (.respond e h)
      | "handlerCallPeer", [h, fn, args] => some (.handlerCallPeer e h fn args)
      | "handlerReturn", [h, v, err] => some (.handlerReturn e h v err)
      | "publish", [p, t] => some (.publish e p t)
      | "publishDrop", [p] => some (.publishDrop e p)
      | _, _ => none
    | _, _ => none
  | _ => none

def findIdx {α : Type} (p : α → Bool) : List α → Nat → Option Nat
  | [], _ => none
  | x :: xs, i => if p x then some i else findIdx p xs (i + 1)

def callOf (s : State) (e : E) (id : Nat) : Option Nat :=
  (List.range (s.nextCall e)).find? fun t => (s.calls e t).pc != .absent && (s.calls e t).id == id

def handlerOf (s : State) (e : E) (id : Nat) : Option Nat :=
  if s.served e id then some (s.servedBy e id) else none

def pubOf (s : State) (e : E) (id : Nat) : Option Nat :=
  (List.range (s.nextPub e)).find? fun p =>
    match s.pubs e p with
    | .pending f => f.call == id
    | _ => false

/-- convenience commands are translated into model actions against the current state -/
def resolve (s : State) (ws : List String) : Option Act :=
  match ws with
  | ["reqDeliverCall", e, id] =>
    match parseE e, id.toNat? with
    | some e, some id => (findIdx (fun f => f.call == id) (s.reqs e) 0).map (Act.reqDeliver e)
    | _, _ => none
  | ["resDeliverCall", e, id] =>
    match parseE e, id.toNat? with
    | some e, some id => (findIdx (fun f => f.call == id) (s.ress e) 0).map (Act.resDeliver e)
    | _, _ => none
  | ["publishAuto", e, p] =>
    match parseE e, p.toNat? with
    | some e, some p =>
      match s.pubs e p with
      | .pending f =>
        let key := pubKey Skeleton.current f
        if s.pending e key then
          match (List.range (s.nextCall e)).find? fun t =>
              (s.calls e t).id == key && (s.calls e t).pc.waiting && (s.calls e t).result.isNone with
          | some t => some (.publish e p t)
          | none => none
        else some (.publishDrop e p)
      | _ => none
    | _, _ => none
  | _ => parseAct ws

def showPair : Option (Nat × Nat) → String
  | none => "-"
  | some (v, e) => s!"({v},{e})"

def showCPc : CPc → String
  | .absent => "absent" | .started => "started" | .registered => "registered"
  | .writtenUnreg => "writtenUnreg" | .written => "written" | .returned => "returned"

def showHPc : HPc → String
  | .absent => "absent" | .resolving => "resolving" | .running => "running" | .stalled => "stalled"
  | .waitingNested t => s!"waitingNested{t}" | .returned => "returned" | .finished => "finished"

def showBusy : Option Nat → String
  | none => "-"
  | some x => toString x

def summaryAt (s : State) (e : E) : String :=
  let calls := (List.range (s.nextCall e)).map fun t =>
    let c := s.calls e t
    s!"{t}:{showCPc c.pc}#{c.id}/{c.fn}/{c.args}{showPair c.result}"
  let pend := (List.range (s.nextCall e)).filter fun k => s.pending e k
  let reqs := (s.reqs e).map fun f => s!"({f.call},{f.fn},{f.args})"
  let ress := (s.ress e).map fun f => s!"({f.call},{f.value},{f.err})"
  let hs := (List.range (s.nextHandler e)).map fun h =>
    let hd := s.handlers e h
    s!"{h}:{showHPc hd.pc}#{hd.req.call}{showPair hd.ret}"
  let ps := (List.range (s.nextPub e)).map fun p =>
    match s.pubs e p with
    | .absent => s!"{p}:absent"
    | .pending f => s!"{p}:pending#{f.call}"
    | .done f d => s!"{p}:done#{f.call}{if d then "+" else "-"}"
  s!"{showE e}\{calls={calls} pending={pend} reqs={reqs} ress={ress} handlers={hs} pubs={ps} busy={showBusy (s.reqLoopBusy e)}/{showBusy (s.resLoopBusy e)}}"

def summary (s : State) : String :=
  let inv := s.invocations.map fun r => s!"{showE r.ep}#{r.call}/{r.fn}/{r.args}{showPair r.ret}"
  let del := s.deliveries.map fun d => s!"{showE d.ep}#{d.frameCall}>{d.waiterId}({d.value},{d.err})"
  s!"state {summaryAt s .A} {summaryAt s .B} inv={inv} deliv={del}"

def showOpt (tag : String) : Option Nat → String
  | some n => s!"{tag} {n}"
  | none => "none"

/-- one driver line (without the leading `sys`): new state and answer -/
def sysHandle (s : State) (ws : List String) : State × String :=
  let line := " ".intercalate ws
  match ws with
  | ["reset"] => (Sys.init, "ok reset")
  | ["state"] => (s, summary s)
  | ["stuck"] => (s, if stuck Skeleton.current s then "yes" else "no")
  | ["handlerOf", e, id] =>
    match parseE e, id.toNat? with
    | some e, some id => (s, showOpt "handler" (handlerOf s e id))
    | _, _ => (s, s!"bad-op {line}")
  | ["callOf", e, id] =>
    match parseE e, id.toNat? with
    | some e, some id => (s, showOpt "call" (callOf s e id))
    | _, _ => (s, s!"bad-op {line}")
  | ["pubOf", e, id] =>
    match parseE e, id.toNat? with
    | some e, some id => (s, showOpt "pub" (pubOf s e id))
    | _, _ => (s, s!"bad-op {line}")
  | "enabled" :: rest =>
    match resolve s rest with
    | some a => (s, if (step Skeleton.current s a).isSome then "yes" else "no")
    | none => (s, "no")
  | _ =>
    match resolve s ws with
    | some a =>
      match step Skeleton.current s a with
      | some s' => (s', "ok")
      | none => (s, s!"rejected {line}")
    | none =>
      match ws with
      | name :: _ =>
        if name ∈ ["reqDeliverCall", "resDeliverCall", "publishAuto"] then (s, s!"rejected {line}")
        else (s, s!"bad-op {line}")
      | [] => (s, "")

/-- replay a whole trace (for tests) -/
def replay (lines : List (List String)) : List String :=
  (lines.foldl (fun (acc : State × List String) ws =>
    let r := sysHandle acc.1 ws
    (r.1, acc.2 ++ [r.2])) (Sys.init, [])).2

end Driver.SysQ
