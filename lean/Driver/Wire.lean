/-
  Driver/Wire.lean — query interface to P3 (Model/Wire.lean) for the differential checks of
  C09 / C10 / C17.  `wireQuery ws` gets the words of a driver line *after* the leading `wire` and
  answers in one line.  The functions executed are the definitions the theorems are about, under
  `Skeleton.current`.

  Conventions
    <hex>    lowercase hex of the UTF-8 bytes of a string; the empty string is written `-`.
    payloads the codec is symbolic (V = P = String, enc = id): the i-th argument of the call (0 = the
             context) has the payload `i`, rendered `#i`; a closure argument with id X has the payload
             of the *string* X, rendered `#s:<hex X>`; the returned value is `#v`; marshal(nil) is `#nil`.
    trees    null            → null
             string s        → s:<hex s>
             array           → [e1,e2,…]            ([] when empty)
             object          → {key=val,key=val,…}  members in struct order, keys verbatim
             payload p       → #p

  Queries (→ answers)
    isspace <codepoint, decimal>           → true | false                  (Go's unicode.IsSpace)
    trim <hex>                             → <hex of strings.TrimSpace(s)>
    errfield <hex>                         → nil | err <hex>              (what the response loop makes of res.Err)
    request <callIdHex> <nameHex> <n> <kind_0> … <kind_n-1>
        kinds: c = context, v = value, f:<closureIdHex> = func         (n = number of kinds, context included)
                                           → <tree> | panic <reason>
    response <callHex> <shape> [<msg>]
        shape: none0 | oneErr | oneVal | two ;  msg: absent or `nil` = nil error, else <hex> of the message
                                           → <tree>
    envelope request <…as request…>        → <tree>                        (LinkStream's Message)
    envelope response <…as response…>      → <tree>
    caller <numOut> <outIsErr 0|1> <shape> [<msg>]
                                           → noresults | erronly nil | erronly <hex> | valonly #v
                                             | valerr #v nil | valerr #v <hex> | panic <reason> | undecodable
        (the result of the caller's stub for the response frame built from <shape>, prev err = nil, not cancelled)
    anything else                          → bad-op wire …

  Worked examples
    wire isspace 133                       → true
    wire isspace 8203                      → false
    wire trim 200961206220200a             → 612062                        (" \ta b \n" → "a b")
    wire errfield -                        → nil
    wire errfield 20c2a0                   → nil                           (" " + U+00A0)
    wire errfield 20626f6f6d20             → err 20626f6f6d20               (" boom ": nothing trimmed)
    wire request 6964 5376632e50696e67 3 c v v
                                           → {call=s:6964,function=s:5376632e50696e67,args=[#1,#2]}
    wire request 6964 46 1 c               → {call=s:6964,function=s:46,args=[]}
    wire request 6964 46 3 c f:636c37 v    → {call=s:6964,function=s:46,args=[#s:636c37,#2]}
    wire request 6964 46 1 v               → panic ErrInvalidArgs
    wire response 6964 none0               → {call=s:6964,value=#nil,err=s:-}
    wire response 6964 oneErr 626f6f6d     → {call=s:6964,value=#nil,err=s:626f6f6d}
    wire response 6964 oneErr              → {call=s:6964,value=#nil,err=s:-}
    wire response 6964 oneErr -            → {call=s:6964,value=#nil,err=s:-}      (F7: errors.New(""))
    wire response 6964 oneVal              → {call=s:6964,value=#v,err=s:-}
    wire response 6964 two 626f6f6d        → {call=s:6964,value=#v,err=s:626f6f6d}
    wire envelope response 6964 oneVal     → {request=null,response={call=s:6964,value=#v,err=s:-}}
    wire envelope request 6964 46 1 c      → {request={call=s:6964,function=s:46,args=[]},response=null}
    wire caller 2 1 two 626f6f6d           → valerr #v 626f6f6d
    wire caller 1 1 oneErr 2020            → erronly nil

  How the Go harness produces the same text from a captured frame: decode it with encoding/json (or
  cbor) into map[string]json.RawMessage; print the members in the order call,function,args resp.
  call,value,err (request,response for an envelope); strings as s:<hex>; for args[i] print `#k` if the
  raw element equals marshal(k-th argument of the call) and `#s:<hex>` if it is a string (closure id);
  `#v` if value equals marshal(returned value), `#nil` if it equals marshal(nil).
-/
import Panrpc.Generated.Current
import Panrpc.Model.Wire

namespace Driver.WireQ
open Panrpc Panrpc.Wire

def hexDigit (n : Nat) : Char :=
  if n < 10 then Char.ofNat (48 + n) else Char.ofNat (87 + n)

def hexVal (c : Char) : Option Nat :=
  if '0' ≤ c ∧ c ≤ '9' then some (c.toNat - 48)
  else if 'a' ≤ c ∧ c ≤ 'f' then some (c.toNat - 87)
  else none

def toHex (s : String) : String :=
  if s.isEmpty then "-" else
  String.ofList (s.toUTF8.toList.flatMap fun b => [hexDigit (b.toNat / 16), hexDigit (b.toNat % 16)])

def hexBytes : List Char → Option (List UInt8)
  | [] => some []
  | [_] => none
  | a :: b :: r => do
    let x ← hexVal a
    let y ← hexVal b
    let t ← hexBytes r
    pure (UInt8.ofNat (x * 16 + y) :: t)

def ofHex (w : String) : Option String :=
  if w = "-" then some "" else do
    let bs ← hexBytes w.toList
    String.fromUTF8? (ByteArray.mk bs.toArray)

/-- the symbolic serializer of the driver -/
def symCodec : Codec String String where
  enc := id
  encNil := "nil"
  dec := fun p _ => some p
  ofStr := fun s => "s:" ++ toHex s
  strTy := 0
  ctxVal := "ctx"

partial def render : Tree String → String
  | .null => "null"
  | .str s => "s:" ++ toHex s
  | .arr xs => "[" ++ ",".intercalate (xs.map render) ++ "]"
  | .obj kvs => "{" ++ ",".intercalate (kvs.map fun kv => kv.1 ++ "=" ++ render kv.2) ++ "}"
  | .raw p => "#" ++ p

def parseKinds : Nat → List String → Option (List (Arg String))
  | _, [] => some []
  | i, w :: r => do
    let a ← (if w = "c" then some Arg.ctx
      else if w = "v" then some (Arg.val (toString i) 0)
      else if w.startsWith "f:" then (ofHex (w.drop 2).toString).map Arg.func
      else none : Option (Arg String))
    let t ← parseKinds (i + 1) r
    pure (a :: t)

def parseRet : List String → Option (Ret String)
  | ["none0"] => some .none0
  | ["oneVal"] => some (.oneVal "v")
  | ["oneErr"] => some (.oneErr none)
  | ["oneErr", "nil"] => some (.oneErr none)
  | ["oneErr", m] => (ofHex m).map fun s => .oneErr (some s)
  | ["two"] => some (.two "v" none)
  | ["two", "nil"] => some (.two "v" none)
  | ["two", m] => (ofHex m).map fun s => .two "v" (some s)
  | _ => none

def underscore (s : String) : String := s.map fun c => if c = ' ' then '_' else c

def buildRequest (ws : List String) : Option (Built String) :=
  match ws with
  | c :: f :: n :: kinds => do
    let c ← ofHex c
    let f ← ofHex f
    let n ← n.toNat?
    if n ≠ kinds.length then none
    let args ← parseKinds 0 kinds
    pure (stubBuild Skeleton.current symCodec c f args)
  | _ => none

def buildResponse (ws : List String) : Option (Tree String) :=
  match ws with
  | c :: shape => do
    let c ← ofHex c
    let r ← parseRet shape
    pure (mkResponse Skeleton.current symCodec c r)
  | _ => none

def showErr : Option String → String
  | none => "nil"
  | some m => toHex m

def showResult : Option (CallResult String) → String
  | none => "undecodable"
  | some .noResults => "noresults"
  | some (.errOnly e) => "erronly " ++ showErr e
  | some (.valOnly v) => "valonly #" ++ v
  | some (.valErr (some v) e) => "valerr #" ++ v ++ " " ++ showErr e
  | some (.valErr none e) => "valerr zero " ++ showErr e
  | some (.panic why) => "panic " ++ underscore why

def wireQuery (ws : List String) : String :=
  let bad := "bad-op wire " ++ " ".intercalate ws
  match ws with
  | ["isspace", n] =>
    match n.toNat? with
    | some n => if n < 0x110000 then toString (isGoSpaceNat n) else bad
    | none => bad
  | ["trim", h] =>
    match ofHex h with
    | some s => toHex (String.ofList (trimSpace s.toList))
    | none => bad
  | ["errfield", h] =>
    match ofHex h with
    | some s =>
      match respErr Skeleton.current none s with
      | none => "nil"
      | some m => "err " ++ toHex m
    | none => bad
  | "request" :: rest =>
    match buildRequest rest with
    | some (.frame t) => render t
    | some (.panic why) => "panic " ++ underscore why
    | none => bad
  | "response" :: rest =>
    match buildResponse rest with
    | some t => render t
    | none => bad
  | "envelope" :: "request" :: rest =>
    match buildRequest rest with
    | some (.frame t) => render (mkEnvelope Skeleton.current true t)
    | some (.panic why) => "panic " ++ underscore why
    | none => bad
  | "envelope" :: "response" :: rest =>
    match buildResponse rest with
    | some t => render (mkEnvelope Skeleton.current false t)
    | none => bad
  | "caller" :: numOut :: outIsErr :: shape =>
    match numOut.toNat?, outIsErr.toNat?, parseRet shape with
    | some n, some o, some r =>
      showResult (callerResult Skeleton.current symCodec none n (o != 0) 0
        (mkResponse Skeleton.current symCodec "" r))
    | _, _, _ => bad
  | _ => bad

end Driver.WireQ
