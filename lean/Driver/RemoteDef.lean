/-
  Driver/RemoteDef.lean — query interface of the remote-definition walk (P2, C18).

  Line protocol (the words after the leading `rw`):

      rw walk <shape>      →   ok                                  (no stub installed)
                               ok <path>=<fnhex>,<path>=<fnhex>…   (stubs in walk order)
                               err invalidReturn | err invalidArgs
                               panic
                               bad-shape <reason>                  (the word is not a shape)

  `<path>` is the stub's field path: the lowercase hex of each segment's UTF-8 bytes, segments
  joined by `.` (e.g. `496e6e6572.476574` for Inner → Get); `<fnhex>` is the hex of the
  `Request.Function` string the stub sends (e.g. `496e6e65722e476574` = "Inner.Get").

  `<shape>` — one word, the fields of the remote struct type `R` in `reflect.Type.Field(i)`
  order, wrapped in braces:

      shape  := '{' field* '}'
      field  := 'F' exp name ':' numIn ('c'|'n') numOut ('e'|'n')      Type.Kind() == Func
              | 'S' exp name '{' field* '}'                            Type.Kind() == Struct (by value)
              | 'O' exp name                                           any other kind (incl. *struct)
      exp    := '+' | '-'
      name   := lowercase hex of the UTF-8 bytes of StructField.Name (may be empty)
      numIn, numOut := decimal (at least one digit)

    F:  numIn = Type.NumIn(); 'c' iff numIn ≥ 1 and Type.In(0).Implements(context.Context);
        numOut = Type.NumOut(); 'e' iff numOut ≥ 1 and Type.Out(numOut-1).Implements(error);
        exp = '+' iff StructField.IsExported().
    S:  exp = '+' iff StructField.IsExported() || StructField.Anonymous
        (values reached through an unexported NON-embedded struct field are read-only; through an
        unexported embedded one they are not — reflect's flagStickyRO vs flagEmbedRO).
    O:  exp = '+' iff StructField.IsExported() (ignored by the walk).

  Worked example:

      type R struct {
          Ok     func(ctx context.Context) error
          n      int
          Inner  struct {
              Get func(ctx context.Context, k string) (int, error)
              P   *T
          }
          helper func(ctx context.Context) error
      }

      {F+4f6b:1c1eO-6eS+496e6e6572{F+476574:2c2eO+50}F-68656c706572:1c1e}

      current tree without the guard →  panic
      without the `helper` field     →  ok 4f6b=4f6b,496e6e6572.476574=496e6e65722e476574

  Sibling names must be distinct (Go allows repeats only for the blank `_`; then
  `FieldByName` resolves to the first one, which the model does not describe): such a shape
  is answered with `bad-shape duplicate-sibling-name`.
-/
import Panrpc.Generated.Current
import Panrpc.Model.RemoteDef

open Panrpc

namespace Driver.RwQ

/-! ### hex -/

def hexDigit (n : Nat) : Char := if n < 10 then Char.ofNat (48 + n) else Char.ofNat (87 + n)

def hexVal (c : Char) : Option Nat :=
  if '0' ≤ c ∧ c ≤ '9' then some (c.toNat - 48)
  else if 'a' ≤ c ∧ c ≤ 'f' then some (c.toNat - 87)
  else none

def isHexChar (c : Char) : Bool := (hexVal c).isSome

def hexEncode (s : String) : String :=
  String.ofList (s.toUTF8.toList.flatMap fun b => [hexDigit (b.toNat / 16), hexDigit (b.toNat % 16)])

def hexBytes : List Char → Option (List UInt8)
  | [] => some []
  | [_] => none
  | a :: b :: rest => do
    let x ← hexVal a
    let y ← hexVal b
    let r ← hexBytes rest
    pure (UInt8.ofNat (16 * x + y) :: r)

def hexDecode (cs : List Char) : Option String := do
  let bs ← hexBytes cs
  String.fromUTF8? (ByteArray.mk bs.toArray)

/-! ### shape parser (recursive descent with fuel = length of the input) -/

def digitsVal (ds : List Char) : Nat := ds.foldl (fun n c => 10 * n + (c.toNat - 48)) 0

/-- Parses `field*` up to (not including) a closing brace or the end of the input. -/
def rwFields : Nat → List Char → Option (List Rw.Field × List Char)
  | 0, _ => none
  | fuel + 1, cs =>
    match cs with
    | [] => some ([], [])
    | '}' :: _ => some ([], cs)
    | kind :: e :: rest => do
      let exported ← (if e = '+' then some true else if e = '-' then some false else none)
      let nameHex := rest.takeWhile isHexChar
      let rest := rest.dropWhile isHexChar
      let name ← hexDecode nameHex
      match kind with
      | 'O' =>
        let (fs, r) ← rwFields fuel rest
        pure (.other name exported :: fs, r)
      | 'F' =>
        match rest with
        | ':' :: rest =>
          let nin := rest.takeWhile Char.isDigit
          match rest.dropWhile Char.isDigit with
          | c :: rest =>
            let nout := rest.takeWhile Char.isDigit
            match rest.dropWhile Char.isDigit with
            | x :: rest =>
              if nin.isEmpty || nout.isEmpty || !(c = 'c' || c = 'n') || !(x = 'e' || x = 'n') then none
              else
                let (fs, r) ← rwFields fuel rest
                pure (.func name exported ⟨digitsVal nin, c = 'c', digitsVal nout, x = 'e'⟩ :: fs, r)
            | [] => none
          | [] => none
        | _ => none
      | 'S' =>
        match rest with
        | '{' :: rest =>
          let (inner, r) ← rwFields fuel rest
          match r with
          | '}' :: r =>
            let (fs, r) ← rwFields fuel r
            pure (.struct name exported inner :: fs, r)
          | _ => none
        | _ => none
      | _ => none
    | _ => none

def rwShape (w : String) : Option (List Rw.Field) :=
  match w.toList with
  | '{' :: body =>
    match rwFields (body.length + 1) body with
    | some (fs, ['}']) => some fs
    | _ => none
  | _ => none

def rwFieldName : Rw.Field → String
  | .func n _ _ => n
  | .struct n _ _ => n
  | .other n _ => n

mutual
def rwDupFreeField : Rw.Field → Bool
  | .struct _ _ fs => rwDupFree fs
  | _ => true
/-- Sibling names are pairwise distinct at every level. -/
def rwDupFree : List Rw.Field → Bool
  | [] => true
  | f :: fs => !(fs.any fun g => rwFieldName g == rwFieldName f) && rwDupFreeField f && rwDupFree fs
end

/-! ### answers -/

def rwShowErr : Rw.WalkErr → String
  | .invalidReturn => "invalidReturn"
  | .invalidArgs => "invalidArgs"

def rwShowOutcome : Rw.Outcome → String
  | .ok [] => "ok"
  | .ok stubs =>
    "ok " ++ ",".intercalate (stubs.map fun st =>
      ".".intercalate (st.1.map hexEncode) ++ "=" ++ hexEncode st.2)
  | .err e => "err " ++ rwShowErr e
  | .panic => "panic"

/-- `rw walk <shape>` (the leading `rw` already stripped). -/
def remoteDefQuery (ws : List String) : String :=
  match ws with
  | ["walk", w] =>
    match rwShape w with
    | none => "bad-shape unparsable"
    | some fs =>
      if rwDupFree fs then rwShowOutcome (Rw.link Skeleton.current fs)
      else "bad-shape duplicate-sibling-name"
  | _ => "bad-op rw " ++ " ".intercalate ws

end Driver.RwQ
