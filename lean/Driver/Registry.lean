/-
  Driver/Registry.lean — replay / query interface of M4 (Model/Registry.lean; C13, C14, C15).
  The model executed is the very `Panrpc.Rg.step Skeleton.current` the theorems are about.

  Line protocol (the words after the leading `rg`).  Links are decimal indices chosen by the
  harness (one fresh index per `Link*` call).  Remote ids are decimal: the model hands out
  0, 1, 2, … in the order of the registration steps, so the harness canonicalises the uuids of
  the implementation trace by order of first appearance (`setup.registered` events).

    stateful replay (state kept by the caller, see `RgSt` / `rgHandle`):
      rg reset                     → ok reset
      rg <action> <l>              → ok | rejected rg <action> <l>
      rg respRead <l> <t>          → same; <t> = link whose pending call the response completes,
                                     `-` = unknown call id (frame dropped)
      rg state                     → state remotes=[<id>:<l>,…] links=[<l>:<setup>/<req>/<resp>,…]
                                           hooks=[<k>:<l>:<id>,…]
                                     remotes by ascending id; links by ascending index, those not
                                     `absent`; hooks oldest first, <k> ∈ rc rd lc ld
                                     (registry connect / disconnect, link connect / disconnect)
      rg ghost                     → ghost invocations=[<l>:<rid|->,…] written=[<via>:<writer>:<table|->,…]
                                           delivered=[<reader>:<caller>,…]            (oldest first)
      rg link <l>                  → link <l> setup=… id=<id|-> req=… resp=… ended=… closed=…
                                           cancelled=… readsfail=… inflight=<n> pending=<n>
      rg enabled <action> <l> [<t>] → yes | no                 (state unchanged)
      rg exitrun <l>               → run <action>,<action>,…   the own steps of l that lead all three
                                     of its goroutines to their exit (theorem C15_setup_and_loops_exit)
      rg check                     → inv ok | inv broken <what>   runtime monitor of the C14
                                     enumeration equation and the mirror equation on this state

    actions: linkStart setupRegister setupConnectHooks loopsStart reqRead reqHandle reqReadFails
             reqBadFrame respRead respReadFails respBadFrame setupLoopsDone setupUnregister
             setupDisconnectHooks callOn callDone cancel ctxWatch failReads faultOn

    stateless (`registryQuery`): a whole trace in one line, actions separated by the word `,`
      rg run <action> <l> , <action> <l> , …   → ok <state summary as above>
                                                 | rejected <index of the first refused action>
                                                 | bad-op <index>
-/
import Panrpc.Generated.Current
import Panrpc.Model.Registry

open Panrpc

namespace Driver.RgQ

structure RgSt where
  s       : Rg.State := Rg.init
  maxLink : Nat := 0          -- links 0 … maxLink-1 have been mentioned
  deriving Inhabited

def opOfWords : List String → Option Rg.Op
  | ["linkStart"] => some .linkStart
  | ["setupRegister"] => some .setupRegister
  | ["setupConnectHooks"] => some .setupConnectHooks
  | ["loopsStart"] => some .loopsStart
  | ["reqRead"] => some .reqRead
  | ["reqHandle"] => some .reqHandle
  | ["reqReadFails"] => some .reqReadFails
  | ["reqBadFrame"] => some .reqBadFrame
  | ["respRead", "-"] => some (.respRead none)
  | ["respRead", t] => t.toNat?.map fun t => .respRead (some t)
  | ["respReadFails"] => some .respReadFails
  | ["respBadFrame"] => some .respBadFrame
  | ["setupLoopsDone"] => some .setupLoopsDone
  | ["setupUnregister"] => some .setupUnregister
  | ["setupDisconnectHooks"] => some .setupDisconnectHooks
  | ["callOn"] => some .callOn
  | ["callDone"] => some .callDone
  | ["cancel"] => some .cancel
  | ["ctxWatch"] => some .ctxWatch
  | ["failReads"] => some .failReads
  | ["faultOn"] => some .faultOn
  | _ => none

/-- `<action> <l> [<t>]` -/
def actOfWords : List String → Option Rg.Act
  | name :: l :: rest => do
    let l ← l.toNat?
    let op ← opOfWords (name :: rest)
    pure ⟨l, op⟩
  | _ => none

def opName : Rg.Op → String
  | .linkStart => "linkStart" | .setupRegister => "setupRegister"
  | .setupConnectHooks => "setupConnectHooks" | .loopsStart => "loopsStart"
  | .reqRead => "reqRead" | .reqHandle => "reqHandle" | .reqReadFails => "reqReadFails"
  | .reqBadFrame => "reqBadFrame"
  | .respRead none => "respRead -" | .respRead (some t) => s!"respRead {t}"
  | .respReadFails => "respReadFails" | .respBadFrame => "respBadFrame"
  | .setupLoopsDone => "setupLoopsDone" | .setupUnregister => "setupUnregister"
  | .setupDisconnectHooks => "setupDisconnectHooks" | .callOn => "callOn" | .callDone => "callDone"
  | .cancel => "cancel" | .ctxWatch => "ctxWatch" | .failReads => "failReads" | .faultOn => "faultOn"

def setupName : Rg.Setup → String
  | .absent => "absent" | .started => "started" | .inserted => "inserted"
  | .registered => "registered" | .waiting => "waiting" | .loopsDone => "loopsDone"
  | .deleted => "deleted" | .unregistered => "unregistered"

def loopName : Rg.Loop → String
  | .notStarted => "notStarted" | .reading => "reading" | .exited => "exited"

def kindName : Rg.HookKind → String
  | .regConnect => "rc" | .regDisconnect => "rd" | .linkConnect => "lc" | .linkDisconnect => "ld"

def optNat : Option Nat → String
  | some n => toString n
  | none => "-"

def commas (xs : List String) : String := "[" ++ ",".intercalate xs ++ "]"

def summary (st : RgSt) : String :=
  let s := st.s
  let rem := (List.range s.nextId).filterMap fun i => (s.remotes i).map fun l => s!"{i}:{l}"
  let lks := (List.range st.maxLink).filterMap fun l =>
    let k := s.links l
    if k.setup = .absent then none
    else some s!"{l}:{setupName k.setup}/{loopName k.reqLoop}/{loopName k.respLoop}"
  let hooks := s.hookLog.reverse.map fun e => s!"{kindName e.kind}:{e.link}:{e.id}"
  s!"state remotes={commas rem} links={commas lks} hooks={commas hooks}"

def ghost (st : RgSt) : String :=
  let s := st.s
  let inv := s.invocations.reverse.map fun v => s!"{v.link}:{optNat v.rid}"
  let wr := s.written.reverse.map fun w => s!"{w.via}:{w.writer}:{optNat w.table}"
  let dl := s.delivered.reverse.map fun d => s!"{d.reader}:{d.caller}"
  s!"ghost invocations={commas inv} written={commas wr} delivered={commas dl}"

def linkLine (st : RgSt) (l : Nat) : String :=
  let k := st.s.links l
  s!"link {l} setup={setupName k.setup} id={optNat k.id} req={loopName k.reqLoop} " ++
  s!"resp={loopName k.respLoop} ended={k.ended} closed={k.closed} cancelled={k.ctxCancelled} " ++
  s!"readsfail={k.readsFail} inflight={k.inflight} pending={k.pendingReq}"

/-- runtime monitor: the C14 enumeration equation and the mirror equation, evaluated on the ids
    and links that exist in this state -/
def check (st : RgSt) : String :=
  let s := st.s
  let ids := List.range s.nextId
  let lks := List.range st.maxLink
  let enumOk := ids.all fun i => lks.all fun l =>
    (decide (s.remotes i = some l)) ==
      (s.hookLog.contains ⟨.regConnect, l, i⟩ && !s.hookLog.contains ⟨.regDisconnect, l, i⟩)
  let enumOk' := ids.all fun i => lks.all fun l =>
    (decide (s.remotes i = some l)) ==
      (s.hookLog.contains ⟨.linkConnect, l, i⟩ && !s.hookLog.contains ⟨.linkDisconnect, l, i⟩)
  let mirrorOk := lks.all fun l =>
    decide ((Rg.linkEvs s.hookLog l).map Rg.HookEv.toReg = Rg.regEvs s.hookLog l)
  let idOk := s.invocations.all fun v => decide (v.rid = (s.links v.link).id ∧ v.rid ≠ none)
  let routeOk := (s.written.all fun w => decide (w.writer = w.via ∧ w.table = some w.via)) &&
    (s.delivered.all fun d => decide (d.caller = d.reader))
  if !enumOk then "inv broken enumeration-vs-registry-hooks"
  else if !enumOk' then "inv broken enumeration-vs-link-hooks"
  else if !mirrorOk then "inv broken link-hooks-mirror"
  else if !idOk then "inv broken invocation-id"
  else if !routeOk then "inv broken routing"
  else "inv ok"

def bump (st : RgSt) (a : Rg.Act) : Nat :=
  let m := max st.maxLink (a.link + 1)
  match a.op with
  | .respRead (some t) => max m (t + 1)
  | _ => m

/-- one line of the stateful protocol (`ws` = the words after `rg`); the Bool is `false` iff the
    line was a replayed action that the model refused -/
def rgHandle (st : RgSt) (ws : List String) : RgSt × String × Bool :=
  match ws with
  | ["reset"] => ({}, "ok reset", true)
  | ["state"] => (st, summary st, true)
  | ["ghost"] => (st, ghost st, true)
  | ["check"] => (st, check st, true)
  | ["link", l] =>
    match l.toNat? with
    | some l => (st, linkLine st l, true)
    | none => (st, "bad-op rg " ++ " ".intercalate ws, true)
  | ["exitrun", l] =>
    match l.toNat? with
    | some l =>
      (st, "run " ++ ",".intercalate ((Rg.exitRun (st.s.links l) l).map fun a => opName a.op), true)
    | none => (st, "bad-op rg " ++ " ".intercalate ws, true)
  | "enabled" :: rest =>
    match actOfWords rest with
    | some a => (st, if (Rg.step Skeleton.current st.s a).isSome then "yes" else "no", true)
    | none => (st, "bad-op rg " ++ " ".intercalate ws, true)
  | _ =>
    match actOfWords ws with
    | some a =>
      match Rg.step Skeleton.current st.s a with
      | some s' => ({ s := s', maxLink := bump st a }, "ok", true)
      | none => (st, "rejected rg " ++ " ".intercalate ws, false)
    | none => (st, "bad-op rg " ++ " ".intercalate ws, true)

/-- split a word list at the separator word `,` -/
def splitComma (ws : List String) : List (List String) :=
  let (cur, acc) := ws.foldl (fun (p : List String × List (List String)) w =>
      if w = "," then ([], p.1.reverse :: p.2) else (w :: p.1, p.2)) ([], [])
  (cur.reverse :: acc).reverse.filter (· ≠ [])

def runTrace (st : RgSt) : List (List String) → Nat → String
  | [], _ => "ok " ++ summary st
  | ws :: rest, n =>
    match actOfWords ws with
    | none => s!"bad-op {n}"
    | some a =>
      match Rg.step Skeleton.current st.s a with
      | some s' => runTrace { s := s', maxLink := bump st a } rest (n + 1)
      | none => s!"rejected {n}"

/-- stateless query: `run <action> <l> , <action> <l> , …` -/
def registryQuery (ws : List String) : String :=
  match ws with
  | "run" :: rest => runTrace {} (splitComma rest) 0
  | _ => "bad-op rg " ++ " ".intercalate ws

end Driver.RgQ
