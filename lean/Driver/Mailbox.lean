/-
  Driver/Mailbox.lean — runtime cross-check of the refinement "M1 refines the per-key mailbox"
  (Spec/Mailbox.lean, Model/BroadcasterAbs.lean) on a concrete trace.  The skeleton in force is
  `Skeleton.current`.

  Protocol (words after the leading `mb`): one whole M1 trace on one line, actions separated by
  the word `/`:
      mb <action> <nat args…> / <action> <nat args…> / …
  actions exactly as the constructors of `Panrpc.Bc.Act`:
      receive t k x | rcvCall t | rcvValue t p | rcvChanClosed t | rcvDone t | rcvCtx t
      pubStart p k v | pubLookup p | pubCtx p | pubSendClosed p | free k | close
      ctxCancel x | ctxPropagate g
  plus `cancel x` = ctxCancel x followed by ctxPropagate of every entry whose parent is x.
  The trace is run on M1 and, through `absAct`, on the specification, in lockstep; after every
  step the abstraction of the M1 state is compared with the specification state on the window of
  ids 0 … max(id mentioned)+2.
  Answers (one line):
      ok steps=<n> visible=<m> handoffs=<h>        every step was a stutter or the spec step, same state
      rejected <i> <action…>                       M1 does not allow step i (0-based)
      spec-rejects <i> <spec op> <action…>         the specification does not allow the image of step i
      mismatch <i> <action…>                       both step, the states differ (or a stutter changed `abs`)
      bad-op <words…>
-/
import Panrpc.Generated.Current
import Panrpc.Model.BroadcasterAbs

open Panrpc

namespace Driver.Mbx

def natArgs (ws : List String) : Option (List Nat) := ws.mapM String.toNat?

def parseAct (ws : List String) : Option (List Bc.Act ⊕ Nat) :=
  match ws with
  | "receive" :: r => match natArgs r with | some [t,k,x] => some (.inl [.receive t k x]) | _ => none
  | "rcvCall" :: r => match natArgs r with | some [t] => some (.inl [.rcvCall t]) | _ => none
  | "rcvValue" :: r => match natArgs r with | some [t,p] => some (.inl [.rcvValue t p]) | _ => none
  | "rcvChanClosed" :: r => match natArgs r with | some [t] => some (.inl [.rcvChanClosed t]) | _ => none
  | "rcvDone" :: r => match natArgs r with | some [t] => some (.inl [.rcvDone t]) | _ => none
  | "rcvCtx" :: r => match natArgs r with | some [t] => some (.inl [.rcvCtx t]) | _ => none
  | "pubStart" :: r => match natArgs r with | some [p,k,v] => some (.inl [.pubStart p k v]) | _ => none
  | "pubLookup" :: r => match natArgs r with | some [p] => some (.inl [.pubLookup p]) | _ => none
  | "pubCtx" :: r => match natArgs r with | some [p] => some (.inl [.pubCtx p]) | _ => none
  | "pubSendClosed" :: r => match natArgs r with | some [p] => some (.inl [.pubSendClosed p]) | _ => none
  | "free" :: r => match natArgs r with | some [k] => some (.inl [.free k]) | _ => none
  | ["close"] => some (.inl [.close])
  | "ctxCancel" :: r => match natArgs r with | some [x] => some (.inl [.ctxCancel x]) | _ => none
  | "ctxPropagate" :: r => match natArgs r with | some [g] => some (.inl [.ctxPropagate g]) | _ => none
  | "cancel" :: r => match natArgs r with | some [x] => some (.inr x) | _ => none
  | _ => none

/-- split the words of the line at `/` -/
def splitSlash (ws : List String) : List (List String) :=
  let (cur, acc) := ws.foldl (fun (st : List String × List (List String)) w =>
    if w = "/" then ([], st.1.reverse :: st.2) else (w :: st.1, st.2)) ([], [])
  (cur.reverse :: acc).reverse.filter (· ≠ [])

/-- the propagation steps that follow `ctxCancel x` -/
def propagations (s : Bc.State) (x : Nat) : List Bc.Act :=
  ((List.range s.nextGen).filter fun g =>
    match s.entries g with
    | some e => e.parent == x && !e.ctxDone
    | none => false).map .ctxPropagate

/-- equality of two specification states on the ids below `n` -/
def sameOn (n : Nat) (a b : Mb.MState) : Bool :=
  a.closed == b.closed && a.next == b.next && decide (a.handoffs = b.handoffs) &&
  (List.range n).all fun i =>
    decide (a.live i = b.live i) && a.owner i == b.owner i && a.done i == b.done i &&
    decide (a.pubs i = b.pubs i) && decide (a.rcvs i = b.rcvs i)

structure Run where
  bc      : Bc.State := Bc.init
  spec    : Mb.MState := Mb.init
  steps   : Nat := 0
  visible : Nat := 0

/-- one M1 step in lockstep with the specification; `Except` carries the answer line -/
def lock (n : Nat) (i : Nat) (words : String) (r : Run) (a : Bc.Act) : Except String Run :=
  match Bc.step Skeleton.current r.bc a with
  | none => .error s!"rejected {i} {words}"
  | some bc' =>
    match Bc.absAct r.bc a with
    | none =>
      if sameOn n (Bc.abs bc') r.spec then .ok { r with bc := bc', steps := r.steps + 1 }
      else .error s!"mismatch {i} {words}"
    | some m =>
      match Mb.specStep r.spec m with
      | none =>
        -- a stutter is also acceptable for a mapped action (e.g. `free` of an unknown key)
        if sameOn n (Bc.abs bc') r.spec then .ok { r with bc := bc', steps := r.steps + 1 }
        else .error s!"spec-rejects {i} {repr m} {words}"
      | some spec' =>
        if sameOn n (Bc.abs bc') spec' then
          .ok { bc := bc', spec := spec', steps := r.steps + 1, visible := r.visible + 1 }
        else .error s!"mismatch {i} {words}"

def mailboxQuery (ws : List String) : String :=
  let groups := splitSlash ws
  let n := (ws.filterMap String.toNat?).foldl max 0 + 3
  match groups.mapM parseAct with
  | none => s!"bad-op {" ".intercalate ws}"
  | some items =>
    let go := (items.zip groups).foldlM (fun (st : Run × Nat) (it : (List Bc.Act ⊕ Nat) × List String) =>
      let (r, i) := st
      let words := " ".intercalate it.2
      let acts : List Bc.Act := match it.1 with
        | .inl as => as
        | .inr x =>
          match Bc.step Skeleton.current r.bc (.ctxCancel x) with
          | some s1 => .ctxCancel x :: propagations s1 x
          | none => [.ctxCancel x]
      (acts.foldlM (fun r a => lock n i words r a) r).map (fun r' => (r', i + 1))) (({} : Run), 0)
    match go with
    | .error e => e
    | .ok (r, _) => s!"ok steps={r.steps} visible={r.visible} handoffs={r.spec.handoffs.length}"

end Driver.Mbx
