/-
  Driver/Endpoint.lean — replay interface for M2 (Model/Endpoint.lean), the caller side of one
  endpoint of one link.  The skeleton in force is `Skeleton.current`.

  Protocol (words after the leading `ep`):
    ep <action> <nat args…>   → `ok` | `rejected ep <action> …` | `bad-op …`
        actions and arguments exactly as the constructors of `Panrpc.Ep.Act`
        (booleans are 0/1):
          callStart c x numOut nClosures | callMarshalFail c | callReceive c | callSpawn c
          callWrite c | callWriteFail c e | waiterRecvCall c | waiterGetsValue c p
          waiterGetsDone c | waiterGetsCtx c | waiterSend c | waiterFree c
          callTakeRes c decodeFails | callLinkCtx c | callRecover c e | callReturnOk c
          respFrame p callId frameId hasErr | pubLookup p | pubCtx p | pubSendClosed p
          closureInvoke q id | closureBodyDone q | setErrEnter t e | setErrStore t | setErrClose t | watcher t
          linkCheck | linkWake | linkReturn | ctxCancel x | ctxPropagate g | cancelLink
        `closureInvoke q id` is CallClosure's look-up (hit / miss); on a hit thread q is then inside
        the closure's body until `closureBodyDone q` (optional: traces that never report the end of
        a body replay as before — on a tree with `clInvokeOutsideLock` a running body disables nothing)
    ep cancel x               → ctxCancel x followed by the propagation to every entry whose
                                parent is x (package context does that before `cancel` returns)
    ep state                  → one canonical line (see `summary`)
    ep enabled <action> …     → `yes` | `no`   (does not change the state)
  Error codes: 0 ErrClosed, 1 link ctx error, 2 marshal, 3 decode, 4 the call's own context error
  (panic value of a stub whose `Receive` refused a done context — impossible on a tree with
  `bcReceiveErrorsOnlyClosed`), n+5 external error n
  (`setErrEnter t n` and `callWriteFail c n` take the external number n).
-/
import Panrpc.Generated.Current
import Panrpc.Model.Endpoint

open Panrpc

namespace Driver.Ep

def natArgs (ws : List String) : Option (List Nat) := ws.mapM String.toNat?

def parseAct (ws : List String) : Option Ep.Act :=
  match ws with
  | [] => none
  | name :: r =>
    match name, natArgs r with
    | "callStart", some [c, x, n, k] => some (.callStart c x n k)
    | "callMarshalFail", some [c] => some (.callMarshalFail c)
    | "callReceive", some [c] => some (.callReceive c)
    | "callSpawn", some [c] => some (.callSpawn c)
    | "callWrite", some [c] => some (.callWrite c)
    | "callWriteFail", some [c, e] => some (.callWriteFail c e)
    | "waiterRecvCall", some [c] => some (.waiterRecvCall c)
    | "waiterGetsValue", some [c, p] => some (.waiterGetsValue c p)
    | "waiterGetsDone", some [c] => some (.waiterGetsDone c)
    | "waiterGetsCtx", some [c] => some (.waiterGetsCtx c)
    | "waiterSend", some [c] => some (.waiterSend c)
    | "waiterFree", some [c] => some (.waiterFree c)
    | "callTakeRes", some [c, f] => some (.callTakeRes c (f != 0))
    | "callLinkCtx", some [c] => some (.callLinkCtx c)
    | "callRecover", some [c, e] => some (.callRecover c e)
    | "callReturnOk", some [c] => some (.callReturnOk c)
    | "respFrame", some [p, k, f, h] => some (.respFrame p k f (h != 0))
    | "pubLookup", some [p] => some (.pubLookup p)
    | "pubCtx", some [p] => some (.pubCtx p)
    | "pubSendClosed", some [p] => some (.pubSendClosed p)
    | "closureInvoke", some [q, id] => some (.closureInvoke q id)
    | "closureBodyDone", some [q] => some (.closureBodyDone q)
    | "setErrEnter", some [t, e] => some (.setErrEnter t e)
    | "setErrStore", some [t] => some (.setErrStore t)
    | "setErrClose", some [t] => some (.setErrClose t)
    | "watcher", some [t] => some (.watcher t)
    | "linkCheck", some [] => some .linkCheck
    | "linkWake", some [] => some .linkWake
    | "linkReturn", some [] => some .linkReturn
    | "ctxCancel", some [x] => some (.ctxCancel x)
    | "ctxPropagate", some [g] => some (.ctxPropagate g)
    | "cancelLink", some [] => some .cancelLink
    | _, _ => none

/-- `cancel x`: the application cancels context x; the children are marked before it returns. -/
def cancel (s : Ep.State) (x : Nat) : Option Ep.State := do
  let s1 ← Ep.step Skeleton.current s (.ctxCancel x)
  let gens := (List.range s1.bc.nextGen).filter fun g =>
    match s1.bc.entries g with
    | some e => e.parent == x && !e.ctxDone
    | none => false
  gens.foldlM (fun st g => Ep.step Skeleton.current st (.ctxPropagate g)) s1

/-- index window of the summary -/
def window : Nat := 32

def optNat : Option Nat → String
  | none => "none"
  | some n => toString n

def pcName : Ep.CallPc → String
  | .absent => "absent" | .marshalled => "marshalled" | .registered => "registered"
  | .spawned => "spawned" | .written => "written" | .decoded => "decoded"
  | .panicking e => s!"panicking{e}" | .returned => "returned"

def errName : Ep.RespErr → String
  | .none => "nil" | .app => "app" | .ctxErr => "ctx" | .closed => "closed"

def outcomeName : Ep.Outcome → String
  | .pending => "-"
  | .ok r => s!"ok({optNat r.fromFrame},{errName r.err})"
  | .failed e => s!"failed{e}"

def waiterName : Ep.Waiter → String
  | .absent => "absent" | .start => "start" | .recv => "recv"
  | .have r => s!"have({optNat r.fromFrame},{errName r.err})" | .sent => "sent" | .exited => "exited"

def setterName : Ep.SetErrPc → String
  | .absent => "absent" | .entered e => s!"entered{e}" | .stored e => s!"stored{e}"
  | .closedFirst e => s!"closedFirst{e}" | .done => "done"

def linkName : Ep.LinkPc → String
  | .running => "running" | .waiting => "waiting" | .woken => "woken"
  | .read e => s!"read({optNat e})" | .returned e => s!"returned({optNat e})"

/-- canonical one-line summary: closed flag, live table keys, registered closures, slot,
    fatalLog, Link pc, per call pc/outcome, per waiter pc, setter threads, non-empty `res` buffers
    (length), closure lookups (oldest first), link ctx, crash flag, holder of the closure table's
    mutex, running closure bodies (thread:closure id; invoking threads above the window are taken
    from the look-up log) -/
def summary (s : Ep.State) : String :=
  let idx := List.range window
  let keys := idx.filter fun k => (s.bc.table k).isSome
  let cls := idx.filter fun i => s.closures i
  let calls := idx.filterMap fun c =>
    match (s.calls c).pc with
    | .absent => none
    | pc => some s!"{c}:{pcName pc}:{outcomeName (s.calls c).outcome}"
  let waiters := idx.filterMap fun c =>
    match s.waiters c with
    | .absent => none
    | w => some s!"{c}:{waiterName w}"
  let setters := idx.filterMap fun t =>
    match s.setters t with
    | .absent => none
    | p => some s!"{t}:{setterName p}"
  let invs := s.invokes.reverse.map fun i => s!"{i.thread}:{i.id}:{if i.hit then "hit" else "miss"}"
  let runs := (idx ++ (s.invokes.reverse.map (·.thread)).filter (fun q => decide (window ≤ q))).eraseDups.filterMap fun q =>
    match s.running q with
    | some id => some s!"{q}:{id}"
    | none => none
  let ress := idx.filterMap fun c => if (s.res c).isEmpty then none else some s!"{c}:{(s.res c).length}"
  s!"state closed={s.bc.closed} keys={keys} closures={cls} slot={optNat s.slot} fatalLog={s.fatalLog} " ++
  s!"link={linkName s.link} calls={calls} waiters={waiters} setters={setters} " ++
  s!"res={ress} invokes={invs} linkCtxDone={s.linkCtxDone} crashed={s.crashed} clLock={optNat s.clLock} running={runs}"

/-- one driver line (the words after `ep`): new state (none = unchanged), answer, whether the
    line was a rejected action (the trace does not fit the model) -/
def handle (s : Ep.State) (ws : List String) : Option Ep.State × String × Bool :=
  let line := " ".intercalate ("ep" :: ws)
  match ws with
  | ["state"] => (none, summary s, false)
  | ["cancel", x] =>
    match x.toNat? with
    | some x =>
      match cancel s x with
      | some s' => (some s', "ok", false)
      | none => (none, s!"rejected {line}", true)
    | none => (none, s!"bad-op {line}", false)
  | "enabled" :: rest =>
    match parseAct rest with
    | some a => (none, if (Ep.step Skeleton.current s a).isSome then "yes" else "no", false)
    | none => (none, s!"bad-op {line}", false)
  | _ =>
    match parseAct ws with
    | some a =>
      match Ep.step Skeleton.current s a with
      | some s' => (some s', "ok", false)
      | none => (none, s!"rejected {line}", true)
    | none => (none, s!"bad-op {line}", false)

/-- stateless convenience: replay a whole trace given as one list of words, actions separated
    by `;`, and answer with the summary of the final state (or the first rejected action) -/
def epQuery (ws : List String) : String :=
  let rec go (s : Ep.State) (cur : List String) : List String → String
    | [] =>
      if cur.isEmpty then summary s else
      match handle s cur.reverse with
      | (_, ans, true) => ans
      | (some s', _, _) => summary s'
      | (none, ans, _) => if ans.startsWith "bad-op" then ans else summary s
    | w :: rest =>
      if w == ";" then
        if cur.isEmpty then go s [] rest else
        match handle s cur.reverse with
        | (_, ans, true) => ans
        | (some s', _, _) => go s' [] rest
        | (none, ans, _) => if ans.startsWith "bad-op" then ans else go s [] rest
      else go s (w :: cur) rest
  go Ep.init [] ws

end Driver.Ep
