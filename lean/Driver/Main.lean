/-
  Driver/Main.lean — line-protocol driver (compiled as `lean_exe driver`).
  Replays implementation traces on the executable models (trace validation) and answers
  queries about the pure models (differential checks).  One command per input line, one
  answer per output line.  The models executed here are the very definitions the theorems
  are about; the skeleton in force is `Skeleton.current` (regenerated from /repo).
-/
import Panrpc.Generated.Current
import Panrpc.Model.Broadcaster
import Driver.RemoteDef
import Driver.Wire
import Driver.Convert
import Driver.Stream
import Driver.Lookup
import Driver.Registry
import Driver.System
import Driver.Endpoint
import Driver.Mailbox
import Driver.Callee

open Panrpc

namespace Driver

def natArgs (ws : List String) : Option (List Nat) := ws.mapM String.toNat?

/-- M1: parse one action -/
def bcAct (ws : List String) : Option (List Bc.Act) :=
  match ws with
  | "receive" :: r => match natArgs r with | some [t,k,x] => some [.receive t k x] | _ => none
  | "rcvCall" :: r => match natArgs r with | some [t] => some [.rcvCall t] | _ => none
  | "rcvValue" :: r => match natArgs r with | some [t,p] => some [.rcvValue t p] | _ => none
  | "rcvChanClosed" :: r => match natArgs r with | some [t] => some [.rcvChanClosed t] | _ => none
  | "rcvDone" :: r => match natArgs r with | some [t] => some [.rcvDone t] | _ => none
  | "rcvCtx" :: r => match natArgs r with | some [t] => some [.rcvCtx t] | _ => none
  | "pubStart" :: r => match natArgs r with | some [p,k,v] => some [.pubStart p k v] | _ => none
  | "pubLookup" :: r => match natArgs r with | some [p] => some [.pubLookup p] | _ => none
  | "pubCtx" :: r => match natArgs r with | some [p] => some [.pubCtx p] | _ => none
  | "pubSendClosed" :: r => match natArgs r with | some [p] => some [.pubSendClosed p] | _ => none
  | "free" :: r => match natArgs r with | some [k] => some [.free k] | _ => none
  | ["close"] => some [.close]
  | _ => none

/-- `cancel x`: the application cancels context x; package context marks every child done
    before `cancel` returns, so the propagation steps follow immediately. -/
def bcCancel (s : Bc.State) (x : Nat) : Option Bc.State := do
  let s1 ← Bc.step Skeleton.current s (.ctxCancel x)
  let gens := (List.range s1.nextGen).filter fun g =>
    match s1.entries g with
    | some e => e.parent == x && !e.ctxDone
    | none => false
  gens.foldlM (fun st g => Bc.step Skeleton.current st (.ctxPropagate g)) s1

def bcSummary (s : Bc.State) : String :=
  let keys := (List.range 10).filter fun k => (s.table k).isSome
  let pubs := (List.range 10).filterMap fun p =>
    match s.pubs p with
    | .absent => none
    | .start _ _ => some s!"{p}:start"
    | .holding _ _ _ => some s!"{p}:holding"
    | .done d => some s!"{p}:done{if d then "+" else "-"}"
  let rcvs := (List.range 10).filterMap fun t =>
    match s.rcvs t with
    | .absent => none
    | .refused => some s!"{t}:refused"
    | .refusedCtx => some s!"{t}:refusedCtx"
    | .have _ _ _ => some s!"{t}:have"
    | .waiting _ _ _ => some s!"{t}:waiting"
    | .gotVal _ _ _ v => some s!"{t}:val{v}"
    | .gotCtx _ _ _ => some s!"{t}:ctx"
    | .gotClosed _ _ _ => some s!"{t}:closed"
  s!"state keys={keys} closed={s.closed} crashed={s.crashed} pubs={pubs} rcvs={rcvs}"

structure St where
  bc : Bc.State := Bc.init
  stm : St.State := St.init []
  lk : Driver.Lk.LkState := {}
  rg : RgQ.RgSt := {}
  sys : Sys.State := Sys.init
  ep : Ep.State := Ep.init
  dead : Bool := false     -- a previous line of this trace was rejected

def handle (st : St) (line : String) : St × String :=
  let ws := (line.splitOn " ").filter (· ≠ "")
  match ws with
  | [] => (st, "")
  | ["reset"] => ({}, "ok reset")
  | "bc" :: ["state"] => (st, bcSummary st.bc)
  | "bc" :: "cancel" :: [x] =>
    match x.toNat? with
    | some x =>
      match bcCancel st.bc x with
      | some s' => ({ st with bc := s' }, "ok")
      | none => ({ st with dead := true }, s!"rejected {line}")
    | none => (st, s!"bad-op {line}")
  | "bc" :: rest =>
    match bcAct rest with
    | some acts =>
      match Panrpc.runFrom (Bc.step Skeleton.current) st.bc acts with
      | some s' => ({ st with bc := s' }, "ok")
      | none => ({ st with dead := true }, s!"rejected {line}")
    | none => (st, s!"bad-op {line}")
  | "rw" :: rest => (st, RwQ.remoteDefQuery rest)
  | "wire" :: rest => (st, WireQ.wireQuery rest)
  | "cv" :: rest => (st, Driver.Cv.convertQuery rest)
  | "rg" :: "run" :: rest => (st, RgQ.registryQuery ("run" :: rest))
  | "rg" :: rest =>
    let (rg', ans, ok) := RgQ.rgHandle st.rg rest
    ({ st with rg := rg', dead := st.dead || !ok }, ans)
  | "ep" :: rest =>
    match Driver.Ep.handle st.ep rest with
    | (some s', ans, _) => ({ st with ep := s' }, ans)
    | (none, ans, true) => ({ st with dead := true }, ans)
    | (none, ans, false) => (st, ans)
  | "epq" :: rest => (st, Driver.Ep.epQuery rest)
  | "mb" :: rest => (st, Driver.Mbx.mailboxQuery rest)
  | "ce" :: rest => (st, Driver.CeQ.calleeQuery rest)
  | "sys" :: rest =>
    let (s', ans) := SysQ.sysHandle st.sys rest
    ({ st with sys := s', dead := st.dead || ans.startsWith "rejected" }, ans)
  | "lk" :: rest =>
    let (lk', a) := Driver.Lk.lookupStep st.lk rest
    ({ st with lk := lk' }, a)
  | "st" :: "run" :: rest => (st, streamQuery ("run" :: rest))
  | "st" :: rest =>
    let (s', rej, ans) := streamHandle st.stm rest
    ({ st with stm := s', dead := st.dead || rej }, ans)
  | _ => (st, s!"bad-op {line}")

partial def loop (h : IO.FS.Stream) (out : IO.FS.Stream) (st : St) : IO Unit := do
  let line ← h.getLine
  if line.isEmpty then return ()
  let l := line.trimAscii.toString
  let (st', ans) := handle st l
  if ans ≠ "" then out.putStrLn ans
  loop h out st'

end Driver

def main : IO Unit := do
  let out ← IO.getStdout
  Driver.loop (← IO.getStdin) out {}
  out.flush
