/-
  Driver/Callee.lean — line protocol for the callee-side model of one request (Model/Callee.lean),
  under `Skeleton.current`.  Stateless:

    ce run <callId hex> <closureEntry 0|1> <action>…
        actions: resolveOk | resolveFails | resolvePanics | start
                 ret:none0 | ret:oneErr:<msg hex|nil> | ret:oneVal | ret:two:<msg hex|nil>
                 panic:err:<msg hex> | panic:other | cpanic:err:<msg hex> | cpanic:other
                 marshalOk | marshalFails | writeFails | respond
      → `pc=<…> setErr=[cause,…] responses=[<call hex>/<err hex>,…] crashed=<0|1> app=<0|1>`
        or `rejected <index> <action>` (the model does not allow that step there)
        or `bad-op …`
    `-` stands for the empty string in hex positions; causes: resolveError lookupPanic handlerPanic
    marshalFail writeFail.  The message `utils.Call` reports for a panic is a function of the panic
    value (`PanicVal.msg`); `ce panicmsg err:<hex>|other` prints it (hex).
-/
import Panrpc.Generated.Current
import Panrpc.Model.Callee
import Driver.Lookup

open Panrpc

namespace Driver.CeQ
open Panrpc.Ce

def hexS (s : String) : Option String := Driver.Lk.hexDecode s
def toHex (s : String) : String := Driver.Lk.hexEncode s

def optMsg (w : String) : Option (Option String) :=
  if w = "nil" then some none else (hexS w).map some

def parseAct (w : String) : Option Act :=
  match w.splitOn ":" with
  | ["resolveOk"] => some .resolveOk
  | ["resolveFails"] => some .resolveFails
  | ["resolvePanics"] => some .resolvePanics
  | ["start"] => some .start
  | ["ret", "none0"] => some (.handlerReturns .none0)
  | ["ret", "oneVal"] => some (.handlerReturns .oneVal)
  | ["ret", "oneErr", m] => (optMsg m).map fun e => .handlerReturns (.oneErr e)
  | ["ret", "two", m] => (optMsg m).map fun e => .handlerReturns (.two e)
  | ["panic", "other"] => some (.handlerPanics .other)
  | ["panic", "err", m] => (hexS m).map fun m => .handlerPanics (.err m)
  | ["cpanic", "other"] => some (.closurePanics .other)
  | ["cpanic", "err", m] => (hexS m).map fun m => .closurePanics (.err m)
  | ["marshalOk"] => some .marshalOk
  | ["marshalFails"] => some .marshalFails
  | ["writeFails"] => some .writeFails
  | ["respond"] => some .respond
  | _ => none

def showCause : Cause → String
  | .resolveError => "resolveError"
  | .lookupPanic => "lookupPanic"
  | .handlerPanic => "handlerPanic"
  | .marshalFail => "marshalFail"
  | .writeFail => "writeFail"

def showPc : Pc → String
  | .resolving => "resolving"
  | .resolved => "resolved"
  | .running => "running"
  | .returned _ => "returned"
  | .panicked => "panicked"
  | .responding e => s!"responding:{toHex e}"
  | .done => "done"

def b01 (b : Bool) : String := if b then "1" else "0"

def summary (s : State) : String :=
  let se := ",".intercalate (s.setErrCalls.map showCause)
  let rs := ",".intercalate (s.responses.map fun (c, e) => s!"{toHex c}/{toHex e}")
  s!"pc={showPc s.pc} setErr=[{se}] responses=[{rs}] crashed={b01 s.crashed} app={b01 s.appCodeRan}"

def runActs (s : State) (i : Nat) : List String → String
  | [] => summary s
  | w :: rest =>
    match parseAct w with
    | none => s!"bad-op {w}"
    | some a =>
      match step Skeleton.current s a with
      | some s' => runActs s' (i + 1) rest
      | none => s!"rejected {i} {w}"

def calleeQuery (ws : List String) : String :=
  match ws with
  | "run" :: cid :: cl :: acts =>
    match hexS cid, cl with
    | some cid, "0" => runActs (init cid false) 0 acts
    | some cid, "1" => runActs (init cid true) 0 acts
    | _, _ => "bad-op ce run: bad call id / closure flag"
  | ["panicmsg", p] =>
    match p.splitOn ":" with
    | ["other"] => toHex (PanicVal.msg .other)
    | ["err", m] => match hexS m with | some m => toHex (PanicVal.msg (.err m)) | none => "bad-op"
    | _ => "bad-op"
  | _ => "bad-op ce " ++ " ".intercalate ws

end Driver.CeQ
