/-
  Go/Prim.lean — the few primitives every model shares.

  * `upd` : point update of a function-valued map (all tables, thread tables and
    channel tables in the models are total functions `Nat → α`; "absent" is `none`).
  * identifiers (call ids, closure ids, remote ids, channel generations) are `Nat`s
    handed out by counters: that *is* the freshness assumption for `uuid.NewString()`
    (trusted base, item 5 of DESIGN.md section 9).
-/
namespace Panrpc

def upd {α : Type} (f : Nat → α) (k : Nat) (v : α) : Nat → α :=
  fun i => if i = k then v else f i

@[simp] theorem upd_same {α : Type} (f : Nat → α) (k : Nat) (v : α) : upd f k v k = v := by
  simp [upd]

@[simp] theorem upd_other {α : Type} (f : Nat → α) (k i : Nat) (v : α) (h : i ≠ k) :
    upd f k v i = f i := by
  simp [upd, h]

theorem upd_apply {α : Type} (f : Nat → α) (k i : Nat) (v : α) :
    upd f k v i = if i = k then v else f i := rfl

/-- Run a partial step function over a list of actions. -/
def runFrom {σ α : Type} (step : σ → α → Option σ) : σ → List α → Option σ
  | s, [] => some s
  | s, a :: as => match step s a with
    | some s' => runFrom step s' as
    | none => none

end Panrpc
