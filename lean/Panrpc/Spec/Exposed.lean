/-
  Spec/Exposed.lean — which (path, method) pairs an exposed object graph offers, written from
  the Go language specification, not from `reflect`:

  * Selectors.  "For a value x of type T or *T where T is not a pointer or interface type, x.f
    denotes the field or method at the shallowest depth in T where there is such an f.  If there
    is not exactly one f with shallowest depth, the selector expression is illegal."
    "The depth of a field or method f declared in T is zero.  The depth of a field or method f
    declared in an embedded field A in T is the depth of f in A plus one."
    → `fieldsAtDepth` (all fields named f at depth exactly d), `Selects`.
  * "If x is of pointer type and has the value nil and x.f denotes a struct field, assigning to or
    evaluating x.f causes a run-time panic" — a selection that would cross a nil pointer
    denotes nothing (`Val.select` = none).
  * Exported identifiers: a field can be named from another package only if it is exported.
    Fields promoted through an embedded field are selectable whatever the embedded field's own
    name is (the embedded field is not named in the selector).
  * Method sets: taken from the type table (T: value receivers; *T: both; promotion applied by
    the compiler).  An interface-typed slot offers its interface's exported methods, on its
    dynamic value, when it is not nil.  A method is callable from outside iff exported.

  `ExposedG strict tt v segs m n recv`: from value `v`, the field names `segs` lead — each step
  on a struct, after at most one pointer dereference — to a value whose method set has the
  exported method `m` with `n` parameters (receiver not counted), bound to object `recv`
  (`none`: the holder is a nil pointer, there is no object).
  `strict = true` is the property as stated (every name in the path is an exported field).
  `strict = false` additionally admits the name of an UNEXPORTED EMBEDDED field as a non-final
  path segment; it describes what the pinned tree actually serves (see Props/C07.lean).
-/
import Panrpc.Model.Reflect

namespace Panrpc.Lk

/-- All fields named `f` at depth exactly `d` in struct type `T`, as index paths. -/
def fieldsAtDepth (tt : TypeTable) (f : String) : Nat → Nat → List (List Nat)
  | 0, T => (withIdx (structFields tt T) 0).flatMap fun fi =>
      if fi.1.name == f then [[fi.2]] else []
  | d + 1, T => (withIdx (structFields tt T) 0).flatMap fun fi =>
      match embTarget tt fi.1 with
      | some T' => (fieldsAtDepth tt f d T').map (fi.2 :: ·)
      | none => []

/-- The selector `x.f` on struct type `T` is legal and denotes the field at index path `p`. -/
def Selects (tt : TypeTable) (T : Nat) (f : String) (p : List Nat) : Prop :=
  f ≠ "" ∧ ∃ d, fieldsAtDepth tt f d T = [p] ∧ ∀ d', d' < d → fieldsAtDepth tt f d' T = []

/-- field `i` of a struct value, with its declaration -/
def Val.fieldAt (tt : TypeTable) : Val → Nat → Option (Val × FieldDecl)
  | .struct ty _ fs, i =>
    match (structFields tt ty)[i]?, fs[i]? with
    | some fd, some v => some (v, fd)
    | _, _ => none
  | _, _ => none

/-- `x.f` through an embedded pointer is `(*x.A).f`; a nil pointer has no fields -/
def Val.autoDeref : Val → Option Val
  | .ptr _ t => t
  | v => some v

/-- The value (and declaration) of the field at index path `p` of struct value `v`. -/
def Val.select (tt : TypeTable) : Val → List Nat → Option (Val × FieldDecl)
  | _, [] => none
  | v, [i] => v.fieldAt tt i
  | v, i :: j :: rest =>
    match v.fieldAt tt i with
    | none => none
    | some (w, _) =>
      match w.autoDeref with
      | none => none
      | some w' => Val.select tt w' (j :: rest)

/-- "after at most one pointer dereference, a struct" -/
def Val.asStruct : Val → Option Val
  | .struct ty i fs => some (.struct ty i fs)
  | .ptr _ (some (.struct ty i fs)) => some (.struct ty i fs)
  | _ => none

/-- the methods the table declares for the (static) type of `v` -/
def declaredMethods (tt : TypeTable) : Val → List MethodDecl
  | .struct ty _ _ => match tt[ty]? with | some (.struct _ ms) => ms | _ => []
  | .ptr ty _      => match tt[ty]? with | some (.ptr _ ms) => ms | _ => []
  | .iface ty _    => match tt[ty]? with | some (.iface ms) => ms | _ => []
  | .other ty _    => match tt[ty]? with | some (.other _ ms) => ms | _ => []

/-- the object a method value taken from `v` is bound to (`none`: `v` is, or holds, a nil pointer) -/
def Val.boundObject : Val → Option Nat
  | .struct _ i _ => some i
  | .other _ i => some i
  | .ptr _ (some (.struct _ i _)) => some i
  | .ptr _ (some (.other _ i)) => some i
  | .iface _ (some (.struct _ i _)) => some i
  | .iface _ (some (.other _ i)) => some i
  | .iface _ (some (.ptr _ (some (.struct _ i _)))) => some i
  | .iface _ (some (.ptr _ (some (.other _ i)))) => some i
  | _ => none

def Val.isNilIface : Val → Bool
  | .iface _ none => true
  | _ => false

/-- `v`'s method set contains the exported method `m` with `n` parameters, bound to `recv`. -/
def HasMethod (tt : TypeTable) (v : Val) (m : String) (n : Nat) (recv : Option Nat) : Prop :=
  v.isNilIface = false ∧ recv = v.boundObject ∧
  ∃ md, md ∈ declaredMethods tt v ∧ md.name = m ∧ md.exported = true ∧ md.numIn = n

inductive ExposedG (strict : Bool) (tt : TypeTable) : Val → List String → String → Nat → Option Nat → Prop where
  | method {v : Val} {m : String} {n : Nat} {recv : Option Nat} :
      HasMethod tt v m n recv → ExposedG strict tt v [] m n recv
  | field {v : Val} {T inst : Nat} {fs : List Val} {f : String} {p : List Nat} {v' : Val} {fd : FieldDecl}
      {segs : List String} {m : String} {n : Nat} {recv : Option Nat} :
      v.asStruct = some (.struct T inst fs) →
      Selects tt T f p →
      (Val.struct T inst fs).select tt p = some (v', fd) →
      (fd.exported = true ∨ (strict = false ∧ fd.embedded = true ∧ segs ≠ [])) →
      ExposedG strict tt v' segs m n recv →
      ExposedG strict tt v (f :: segs) m n recv

/-- `ExposedG` from the registry's root (`none`: the registry was created with a nil local). -/
def ExposedN (strict : Bool) (tt : TypeTable) (root : Option Val) (segs : List String) (m : String)
    (n : Nat) (recv : Option Nat) : Prop :=
  ∃ v, root = some v ∧ ExposedG strict tt v segs m n recv

/-- C07's notion: the path of exported field names `segs` leads to a value whose method set
    contains the exported method `m`, bound to object `inst`. -/
def Exposed (tt : TypeTable) (root : Option Val) (segs : List String) (m : String) (inst : Nat) : Prop :=
  ∃ n, ExposedN true tt root segs m n (some inst)

/-! ### well-formed shapes -/

def Val.ty : Val → Nat
  | .struct t _ _ => t
  | .ptr t _ => t
  | .iface t _ => t
  | .other t _ => t

mutual
/-- the value tree agrees with the table -/
def wfVal (tt : TypeTable) : Val → Bool
  | .struct ty _ fs => match tt[ty]? with | some (.struct fds _) => wfFields tt fds fs | _ => false
  | .ptr ty t => match tt[ty]? with | some (.ptr e _) => wfTarget tt e t | _ => false
  | .iface ty d => match tt[ty]? with | some (.iface _) => wfDyn tt d | _ => false
  | .other ty _ => match tt[ty]? with | some (.other _ _) => true | _ => false
def wfFields (tt : TypeTable) : List FieldDecl → List Val → Bool
  | [], [] => true
  | fd :: fds, v :: vs => v.ty == fd.ty && wfVal tt v && wfFields tt fds vs
  | _, _ => false
def wfTarget (tt : TypeTable) (e : Nat) : Option Val → Bool
  | none => true
  | some v => v.ty == e && wfVal tt v
def wfDyn (tt : TypeTable) : Option Val → Bool
  | none => true
  | some v => !v.isIface && wfVal tt v
end

def allMethods : TypeDecl → List MethodDecl
  | .struct _ ms => ms
  | .ptr _ ms => ms
  | .iface ms => ms
  | .other _ ms => ms

def declFields : TypeDecl → List FieldDecl
  | .struct fs _ => fs
  | _ => []

/-- The table is well-formed: within a struct the field names are distinct and within a method
    set the method names are distinct.  (Recursive types, recursive embedding included, are fine.) -/
def wfTable (tt : TypeTable) : Bool :=
  tt.all (fun d => decide ((declFields d).map (·.name)).Nodup && decide ((allMethods d).map (·.name)).Nodup)

/-- The shape the theorems quantify over (decidable): a well-formed table and a root value tree that agrees
    with it (field lists of the declared length and types, indices in range, dynamic values of
    interface slots not themselves interfaces); the root itself is not of interface kind. -/
def wfShape (tt : TypeTable) (root : Option Val) : Bool :=
  wfTable tt &&
  match root with
  | none => true
  | some v => !v.isIface && wfVal tt v

abbrev WFShape (tt : TypeTable) (root : Option Val) : Prop := wfShape tt root = true

end Panrpc.Lk
