/-
  Spec/Mailbox.lean — what the publish/receive utility is FOR, written without looking at its
  implementation: a sequential mailbox per key (C19, stretch goal).

  A key is *registered* by the first `Receive` on it and stays so until it is freed or the whole
  mailbox is closed; every registration gets a fresh *epoch*.  Receivers bind to the current epoch
  of their key; a publisher binds, at its lookup, to the epoch that is current then.  A value
  changes hands only between a publisher and a receiver bound to the same epoch of the same key,
  once.  A publisher gives up only when its epoch is gone (freed / closed) or the epoch's context
  is done; a receiver reports its context's error only when that context is done, and `closed`
  only when its epoch is gone.  There are no locks, channels, entries or goroutines here: each
  operation is one atomic step `specStep : MState → MAct → Option MState` (`none` = precondition
  not met).

  Two things one might expect and that are deliberately NOT required, because the code does not
  promise them: a hand-off may still happen after the epoch was freed (publisher and receiver
  both already stand at the channel; Go's select may pick that case), and a receive function may
  be called again after it returned (`again`).
-/
import Panrpc.Go.Prim

namespace Panrpc.Mb
open Panrpc

/-- a publisher (one `Publish` call) -/
inductive PStat where
  | absent
  | pending (key val : Nat) (epoch : Option Nat)   -- `none`: has not looked the key up yet
  | delivered
  | dropped                                        -- returned without delivering
  deriving DecidableEq, Repr, Inhabited

inductive ROut where
  | none | val (v : Nat) | ctxErr | closedErr
  deriving DecidableEq, Repr, Inhabited

/-- a receiver (one `Receive` call and the function it returned) -/
inductive RStat where
  | absent
  | refused                                        -- the mailbox was closed already
  | bound (key epoch ctx : Nat) (out : ROut)       -- `out = none`: no result (yet)
  deriving DecidableEq, Repr, Inhabited

structure Handoff where
  pub : Nat
  rcv : Nat
  pkey : Nat   -- the key the value was published on
  rkey : Nat   -- the key the receiver registered
  val : Nat
  deriving DecidableEq, Repr, Inhabited

@[ext] structure MState where
  closed   : Bool
  live     : Nat → Option Nat      -- key → epoch of its current registration
  next     : Nat                   -- epochs are fresh
  owner    : Nat → Nat             -- epoch → the context it was registered with
  done     : Nat → Bool            -- contexts: cancelled?
  pubs     : Nat → PStat
  rcvs     : Nat → RStat
  handoffs : List Handoff          -- ghost: every hand-off, newest first

def init : MState :=
  { closed := false, live := fun _ => none, next := 0, owner := fun _ => 0, done := fun _ => false,
    pubs := fun _ => .absent, rcvs := fun _ => .absent, handoffs := [] }

inductive MAct where
  | register (t k x : Nat)   -- Receive(k, ctx x)
  | again (t : Nat)          -- the receive function is called (again)
  | publish (p k v : Nat)    -- Publish(k, v) begins
  | lookup (p : Nat)         -- … binds to the current epoch of k, or returns at once
  | handoff (p t : Nat)
  | giveUp (p : Nat)         -- Publish returns undelivered
  | timeout (t : Nat)        -- the receive function returns ctx.Err()
  | sayClosed (t : Nat)      -- the receive function returns ErrClosed
  | free (k : Nat)
  | close
  | cancel (x : Nat)
  deriving DecidableEq, Repr, Inhabited

def specStep (m : MState) : MAct → Option MState
  | .register t k x =>
    if m.rcvs t = .absent then
      if m.closed = true then some { m with rcvs := upd m.rcvs t .refused }
      else match m.live k with
        | some e => some { m with rcvs := upd m.rcvs t (.bound k e x .none) }
        | none => some { m with live := upd m.live k (some m.next), owner := upd m.owner m.next x,
                                next := m.next + 1, rcvs := upd m.rcvs t (.bound k m.next x .none) }
    else none
  | .again t =>
    match m.rcvs t with
    | .bound k e x _ => some { m with rcvs := upd m.rcvs t (.bound k e x .none) }
    | _ => none
  | .publish p k v =>
    if m.pubs p = .absent then some { m with pubs := upd m.pubs p (.pending k v none) } else none
  | .lookup p =>
    match m.pubs p with
    | .pending k v none =>
      if m.closed = true then some { m with pubs := upd m.pubs p .dropped }
      else match m.live k with
        | none => some { m with pubs := upd m.pubs p .dropped }           -- unknown key: returns at once
        | some e => some { m with pubs := upd m.pubs p (.pending k v (some e)) }
    | _ => none
  | .handoff p t =>
    match m.pubs p, m.rcvs t with
    | .pending pk v (some pe), .bound rk re x .none =>
      if pk = rk ∧ pe = re then                                           -- same key, same epoch
        some { m with pubs := upd m.pubs p .delivered, rcvs := upd m.rcvs t (.bound rk re x (.val v)),
                      handoffs := { pub := p, rcv := t, pkey := pk, rkey := rk, val := v } :: m.handoffs }
      else none
    | _, _ => none
  | .giveUp p =>
    match m.pubs p with
    | .pending k _ (some e) =>
      if m.live k ≠ some e ∨ m.done (m.owner e) = true ∨ m.closed = true then
        some { m with pubs := upd m.pubs p .dropped }
      else none
    | _ => none
  | .timeout t =>
    match m.rcvs t with
    | .bound k e x .none => if m.done x = true then some { m with rcvs := upd m.rcvs t (.bound k e x .ctxErr) } else none
    | _ => none
  | .sayClosed t =>
    match m.rcvs t with
    | .bound k e x .none => if m.live k ≠ some e then some { m with rcvs := upd m.rcvs t (.bound k e x .closedErr) } else none
    | _ => none
  | .free k => some { m with live := upd m.live k none }
  | .close => some { m with live := fun _ => none, closed := true }
  | .cancel x => some { m with done := upd m.done x true }

inductive Reach : MState → Prop where
  | init : Reach init
  | step {m m' : MState} (a : MAct) : Reach m → specStep m a = some m' → Reach m'

/-! ### two trace properties of the specification -/

/-- a publisher that appears in the hand-off log has status `delivered` (and stays there) -/
theorem logged_delivered {m : MState} (h : Reach m) : ∀ d, d ∈ m.handoffs → m.pubs d.pub = .delivered := by
  induction h with
  | init => simp [init]
  | step a _ hs ih =>
    cases a <;> simp only [specStep] at hs
    all_goals (repeat' split at hs) <;> (try simp at hs) <;> (try subst hs)
    all_goals (intros; grind [upd_apply])

/-- A value is handed off at most once: no publisher occurs twice in the log. -/
theorem handoff_at_most_once {m : MState} (h : Reach m) : (m.handoffs.map Handoff.pub).Nodup := by
  induction h with
  | init => simp [init]
  | step a hr hs ih =>
    have hl := logged_delivered hr
    cases a <;> simp only [specStep] at hs
    all_goals (repeat' split at hs) <;> (try simp at hs) <;> (try subst hs)
    all_goals first
      | exact ih
      | grind [List.nodup_cons]

/-- Hand-offs never cross keys… -/
theorem handoff_same_key {m : MState} (h : Reach m) : ∀ d, d ∈ m.handoffs → d.pkey = d.rkey := by
  induction h with
  | init => simp [init]
  | step a _ hs ih =>
    cases a <;> simp only [specStep] at hs
    all_goals (repeat' split at hs) <;> (try simp at hs) <;> (try subst hs)
    all_goals first
      | exact ih
      | (intros; grind)

/-- …nor epochs: whenever a hand-off happens, both parties are bound to the same epoch of the
    same key, the publisher is still pending and the receiver has no result yet. -/
theorem handoff_same_epoch {m m' : MState} {p t : Nat} (hs : specStep m (.handoff p t) = some m') :
    ∃ k e v x, m.pubs p = .pending k v (some e) ∧ m.rcvs t = .bound k e x .none ∧
      m'.pubs p = .delivered ∧ m'.rcvs t = .bound k e x (.val v) := by
  simp only [specStep] at hs
  split at hs
  · rename_i pk v pe rk re x hp hr
    split at hs
    · rename_i hk
      obtain ⟨rfl, rfl⟩ := hk
      simp at hs; subst hs
      refine ⟨pk, pe, v, x, hp, hr, by simp, by simp⟩
    · simp at hs
  · simp at hs

end Panrpc.Mb
