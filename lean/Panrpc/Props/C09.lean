/-
  Props/C09.lean — "The values a handler receives are, position by position, what the caller passed
  after one encode/decode through the configured serializer into the handler's declared parameter
  types, and the value the caller gets back is the handler's return value after the same round-trip
  into the caller's declared result type; the context argument is never transmitted.  This holds for
  all parameter counts …"

  Wire-level part, on P3 (Model/Wire.lean): what is put into the frame, what the other side takes
  out of that frame.  That the frame built for call `c` is the one the handler for `c` sees, and its
  response the one the caller of `c` gets, under every interleaving, is C01 (M2/M3).
  All theorems are about `Skeleton.current`; `σ` is any serializer; arity is any (`rest : List _`).
-/
import Panrpc.Lemmas.WireCurrent

namespace Panrpc.Wire
open Panrpc

/-- For every arity: decoding the request frame with Go's decoder and unmarshalling position by
    position into the handler's parameter types `tys` yields, at each position, the caller's argument
    at that position after one round trip (`argValue σ (.val v _) = v`; a func argument is its
    closure id, a string).  `a` is the caller's first argument (the context). -/
theorem C09_args_in_order {V P : Type} (σ : Codec V P) (callId name : String) (a : Arg V)
    (rest : List (Arg V)) (tys : List Nat) :
    (goDecodeRequest Skeleton.current (mkRequest Skeleton.current σ callId name (a :: rest))).map
        (fun rq => handlerArgs σ rq.2.2 tys)
      = some (List.zipWith (fun x τ => rt σ τ (argValue σ x)) rest tys) := by
  rw [goDecodeRequest_mkRequest _ cur_req cur_tags]
  simp [handlerArgs, rt, List.zipWith_map_left]

/-- The same, position by position. -/
theorem C09_args_pointwise {V P : Type} (σ : Codec V P) (callId name : String) (a : Arg V)
    (rest : List (Arg V)) (tys : List Nat) (i : Nat) (x : Arg V) (τ : Nat)
    (hx : rest[i]? = some x) (hτ : tys[i]? = some τ) :
    (goDecodeRequest Skeleton.current (mkRequest Skeleton.current σ callId name (a :: rest))).map
        (fun rq => (handlerArgs σ rq.2.2 tys)[i]?)
      = some (some (rt σ τ (argValue σ x))) := by
  have h := C09_args_in_order σ callId name a rest tys
  cases hd : goDecodeRequest Skeleton.current (mkRequest Skeleton.current σ callId name (a :: rest)) with
  | none => simp [hd] at h
  | some rq =>
    simp only [hd, Option.map_some, Option.some.injEq] at h ⊢
    rw [h]
    simp [List.getElem?_zipWith, hx, hτ]

/-- The frame has exactly arity − 1 arguments, and it does not depend on the first argument at all:
    nothing of the context is transmitted. -/
theorem C09_ctx_not_transmitted {V P : Type} (σ : Codec V P) (callId name : String) (a : Arg V)
    (rest : List (Arg V)) :
    (reqArgsField Skeleton.current (mkRequest Skeleton.current σ callId name (a :: rest))).map List.length
        = some ((a :: rest).length - 1)
    ∧ ∀ b : Arg V, mkRequest Skeleton.current σ callId name (a :: rest)
        = mkRequest Skeleton.current σ callId name (b :: rest) := by
  constructor
  · rw [reqArgsField_mkRequest _ cur_req]; simp
  · intro b; exact mkRequest_first_irrelevant _ cur_req.ctxSkipped σ callId name a b rest

/-- The value the caller's stub returns is the handler's value after one round trip into the caller's
    declared result type `τ` — for a function returning one value (`NumOut() = 1`, not an error type)
    and for a function returning value and (here nil) error (`NumOut() = 2`).  A failing `unmarshal`
    makes the stub panic (recovered → setErr).  With a non-nil error: `C10_value_with_error`.
    (A local function returning a single value answers with the very frame a two-result function
    with a nil error answers with, so a remote declared `(T, error)` for it gets the second form.) -/
theorem C09_result_roundtrip {V P : Type} (σ : Codec V P) (reqCall : String) (v : V)
    (prev : Option String) (τ : Nat) (o : Bool) :
    callerResult Skeleton.current σ prev 1 false τ (mkResponse Skeleton.current σ reqCall (.oneVal v))
      = some (.ofDec1 (rt σ τ v))
    ∧ callerResult Skeleton.current σ prev 2 o τ (mkResponse Skeleton.current σ reqCall (.two v none))
      = some (.ofDec2 none (rt σ τ v))
    ∧ mkResponse Skeleton.current σ reqCall (.oneVal v) = mkResponse Skeleton.current σ reqCall (.two v none) := by
  refine ⟨?_, ?_, rfl⟩
  · rw [callerResult_mkResponse _ cur_res cur_err_value_distinct]
    simp only [respErrStr, respValue, respErr_empty _ cur_dec, decodeResult_one_val, rt]
  · rw [callerResult_mkResponse _ cur_res cur_err_value_distinct]
    simp only [respErrStr, respValue, respErr_empty _ cur_dec, decodeResult_two _ cur_dec, rt]

/-! ### non-vacuity (V = P = String, `idCodec`: unmarshal into type 9 fails) -/

/-- three arguments after the context, one of them a closure; the handler's third parameter type
    cannot be decoded -/
example : (goDecodeRequest Skeleton.current
      (mkRequest Skeleton.current idCodec "id" "F" [.ctx, .val "a" 1, .func "cl-7", .val "b" 2])).map
      (fun rq => handlerArgs idCodec rq.2.2 [1, 0, 9]) = some [some "a", some "cl-7", none] := rfl

/-- arity 1: only the context, nothing transmitted -/
example : reqArgsField Skeleton.current (mkRequest Skeleton.current idCodec "id" "F" [.ctx]) = some [] := rfl

example : callerResult Skeleton.current idCodec none 2 true 3
    (mkResponse Skeleton.current idCodec "id" (.two "v" none)) = some (.valErr (some "v") none) := rfl
example : callerResult Skeleton.current idCodec none 1 false 9
    (mkResponse Skeleton.current idCodec "id" (.oneVal "v")) = some (.panic "unmarshal") := rfl

/-- The wire model encodes THE value the handler returned. `utils.Call` hands back exactly what the function returned — `out = fn.Call(in)` is the only write to its result list (checked against the regenerated skeleton; `utils/call.go` is not among this property's anchors, yet every handler's and every closure's results pass through it). (A nil slice or map replaced by an empty one there arrives as `[]` / `{}` instead of `null`: not the handler's value after one round-trip.) -/
theorem C09_results_pass_through_utils_call :
    Skeleton.current.ucResultsUntouched = true := by decide

/-- Every argument of a closure invocation goes through `convertValue` (which maps the untyped nil a `null` decodes to onto the zero value of the declared type); no fast path skips it (checked against the regenerated skeleton). -/
theorem C09_closure_arguments_all_converted :
    Skeleton.current.clConvertsEveryArg = true ∧ Skeleton.current.cvHandlesInvalid = true := by decide

end Panrpc.Wire

#print axioms Panrpc.Wire.C09_args_in_order
#print axioms Panrpc.Wire.C09_args_pointwise
#print axioms Panrpc.Wire.C09_ctx_not_transmitted
#print axioms Panrpc.Wire.C09_result_roundtrip
#print axioms Panrpc.Wire.C09_results_pass_through_utils_call
#print axioms Panrpc.Wire.C09_closure_arguments_all_converted
