/-
  Props/C01.lean — "While a link is healthy, every call made through a remote function causes
  exactly one invocation of the corresponding exposed function on the peer, with that call's
  arguments, and returns exactly the value and error that invocation produced.  This holds for
  any number of calls in flight at once in both directions and for any order or delay in which
  the transport delivers requests and responses; no call ever observes another call's response."

  Model: M3 (Model/System.lean): two endpoints, unboundedly many call / handler / publisher
  threads on both sides, request and response buffers that are multisets (any frame may be
  delivered next), handlers that stall, call back and return ARBITRARY values.  `Reach` is over
  every action sequence, so the theorems hold for all sets of concurrent calls, all delivery
  orders and delays, and all goroutine schedules.  The link is healthy: M3 has no fault action.
  All theorems are about `Skeleton.current`, i.e. the facts regenerated from /repo's source.
-/
import Panrpc.Lemmas.SystemLive
import Panrpc.Lemmas.SystemStuck
import Panrpc.Generated.Current

namespace Panrpc.Sys
open Panrpc

/-! ### the source facts these theorems rest on (checked against the regenerated skeleton) -/

theorem cur_facts : Facts Skeleton.current :=
  ⟨by decide, by decide, by decide, by decide, by decide, by decide, by decide, by decide, by decide⟩

theorem cur_async : Async Skeleton.current := ⟨by decide, by decide, by decide, by decide, by decide, by decide⟩

theorem cur_recv_before_write : Skeleton.current.stubRecvBeforeWrite = true := by decide

/-! ### C01 -/

/-- Distinct call threads of one endpoint have distinct call ids; a key of the pending table is
    the id of exactly one call thread, which is waiting and has not been handed a result. -/
theorem C01_ids_unique : ∀ s, Reach Skeleton.current s →
    (∀ e t t', (s.calls e t).pc ≠ .absent → (s.calls e t').pc ≠ .absent →
      (s.calls e t).id = (s.calls e t').id → t = t') ∧
    (∀ e k, s.pending e k = true →
      ∃ t, (s.calls e t).pc.waiting = true ∧ (s.calls e t).id = k ∧ (s.calls e t).result = none ∧
        ∀ t', (s.calls e t').pc ≠ .absent → (s.calls e t').id = k → t' = t) :=
  ids_unique_of _ cur_facts

/-- Every request frame in flight, and every request frame ever consumed (it lives on in the
    handler thread spawned for it), carries the id, function and arguments of exactly the call
    thread of the peer that wrote it; per call there is at most one frame: ids in flight are
    pairwise distinct, an id in flight has never been consumed, and no two handler threads were
    spawned for the same id. -/
theorem C01_request_provenance : ∀ s, Reach Skeleton.current s →
    (∀ e f, f ∈ s.reqs e →
      ∃ t, (s.calls (peer e) t).pc.wrote = true ∧ (s.calls (peer e) t).id = f.call ∧
        (s.calls (peer e) t).fn = f.fn ∧ (s.calls (peer e) t).args = f.args) ∧
    (∀ e h, (s.handlers e h).pc ≠ .absent →
      ∃ t, (s.calls (peer e) t).pc.wrote = true ∧ (s.calls (peer e) t).id = (s.handlers e h).req.call ∧
        (s.calls (peer e) t).fn = (s.handlers e h).req.fn ∧ (s.calls (peer e) t).args = (s.handlers e h).req.args) ∧
    (∀ e, ((s.reqs e).map ReqFrame.call).Nodup) ∧
    (∀ e f h, f ∈ s.reqs e → (s.handlers e h).pc ≠ .absent → (s.handlers e h).req.call ≠ f.call) ∧
    (∀ e h h', (s.handlers e h).pc ≠ .absent → (s.handlers e h').pc ≠ .absent →
      (s.handlers e h).req.call = (s.handlers e h').req.call → h = h') :=
  request_provenance_of _ cur_facts

/-- For every endpoint and call id there is at most one invocation record — however often and in
    whatever order frames are delivered — and exactly one once the call has returned. -/
theorem C01_at_most_one_invocation : ∀ s, Reach Skeleton.current s →
    (∀ e k, invCountCall s.invocations e k ≤ 1) ∧
    (∀ e t, (s.calls e t).pc = .returned → invCountCall s.invocations (peer e) (s.calls e t).id = 1) :=
  at_most_one_invocation_of _ cur_facts

/-- Every response frame — in flight, or carried by a publisher — was built by the handler thread
    spawned for the request with that id (there is exactly one), from that handler's return. -/
theorem C01_response_provenance : ∀ s, Reach Skeleton.current s →
    ∀ e f, (f ∈ s.ress e ∨ ∃ p, (s.pubs e p).frame = some f) →
      ∃ h, (s.handlers (peer e) h).req.call = f.call ∧ (s.handlers (peer e) h).pc = .finished ∧
        (s.handlers (peer e) h).ret = some (f.value, f.err) ∧
        ∀ h', (s.handlers (peer e) h').pc ≠ .absent → (s.handlers (peer e) h').req.call = f.call → h' = h :=
  response_provenance_of _ cur_facts

/-- THE property.  If the waiter of call thread `t` of endpoint `e` was handed `(v, err)` — in
    particular if the call returned with it — then on the peer there is exactly one invocation
    record for that call's id; it carries the call's function and arguments, and `(v, err)` is
    what that invocation returned. -/
theorem C01_result_is_own : ∀ s, Reach Skeleton.current s → ∀ e t v err,
    (s.calls e t).result = some (v, err) →
    ∃ r, r ∈ s.invocations ∧ r.ep = peer e ∧ r.call = (s.calls e t).id ∧
      r.fn = (s.calls e t).fn ∧ r.args = (s.calls e t).args ∧ r.ret = some (v, err) ∧
      (∀ r', r' ∈ s.invocations → r'.ep = peer e → r'.call = (s.calls e t).id → r' = r) ∧
      invCountCall s.invocations (peer e) (s.calls e t).id = 1 :=
  result_is_own_of _ cur_facts

/-- … and a call that returned did get a result (so the above applies to every returned call). -/
theorem C01_returned_has_result : ∀ s, Reach Skeleton.current s → ∀ e t,
    (s.calls e t).pc = .returned → ∃ v err, (s.calls e t).result = some (v, err) :=
  returned_has_result_of _ cur_facts

/-- No waiter is ever handed a value from a response frame that carries another call's id
    (stated over the ghost delivery log, which records every hand-off). -/
theorem C01_no_foreign_response : ∀ s, Reach Skeleton.current s →
    ∀ d, d ∈ s.deliveries → d.frameCall = d.waiterId :=
  no_foreign_response_of _ cur_facts

/- `C01_can_complete` at full strength — every call thread that is `registered` OR `written`, in
   every reachable state, handlers waiting in nested calls to any depth included — is in
   Props/C01Live.lean (progress invariant: Lemmas/SystemProgress.lean).  The theorem below is
   the special case it grew out of (request not yet written); it additionally says that the
   handler's return value can be chosen freely and that no existing handler thread is used. -/

/-- From every reachable state, every call that has been started but whose request is not yet
    written can still be completed, with whatever `(v, err)` its handler returns, by 8 further
    steps, none of them a step of a handler thread that already exists (so stalled handlers do
    not matter) — the system is never trapped. -/
theorem C01_can_complete_partial : ∀ s, Reach Skeleton.current s → ∀ e t,
    (s.calls e t).pc = .registered → ∀ v err,
    ∃ acts s', run Skeleton.current s acts = some s' ∧ acts.length = 8 ∧
      (s'.calls e t).pc = .returned ∧ (s'.calls e t).result = some (v, err) ∧
      (∀ a, a ∈ acts → ∀ x h, a.handler? = some (x, h) → s.nextHandler x ≤ h) :=
  fun _ hr e t hpc v err =>
    registered_can_complete _ cur_facts cur_async cur_recv_before_write hr e t hpc v err

/-! ### non-vacuity -/

/-- two concurrent calls A→B; the requests overtake each other, the responses are delivered in
    reverse order; each call gets its own handler's result -/
example : ∃ acts, (run Skeleton.current init acts).map
    (fun s => decide ((s.calls .A 0).pc = .returned ∧ (s.calls .A 0).result = some (100, 0) ∧
                      (s.calls .A 1).pc = .returned ∧ (s.calls .A 1).result = some (200, 7) ∧
                      s.invocations.length = 2 ∧ s.deliveries.length = 2)) = some true :=
  ⟨[.callStart .A 10 1, .callStart .A 20 2, .callWrite .A 0, .callWrite .A 1,
    .reqDeliver .B 1, .reqDeliver .B 0,
    .handlerEnter .B 0, .handlerEnter .B 1,
    .handlerReturn .B 0 200 7, .handlerReturn .B 1 100 0,
    .respond .B 1, .respond .B 0,
    .resDeliver .A 1, .resDeliver .A 0,
    .publish .A 0 1, .publish .A 1 0,
    .callReturn .A 1, .callReturn .A 0], by decide⟩

/-- calls in flight in both directions at once, one of them nested inside a handler -/
example : ∃ acts, (run Skeleton.current init acts).map
    (fun s => decide ((s.calls .A 0).result = some (5, 0) ∧ (s.calls .B 0).result = some (6, 0) ∧
                      (s.calls .B 1).result = some (9, 1))) = some true :=
  ⟨[.callStart .A 1 1, .callStart .B 2 2, .callWrite .B 0, .callWrite .A 0,
    .reqDeliver .A 0, .reqDeliver .B 0, .handlerEnter .B 0, .handlerEnter .A 0,
    .handlerCallPeer .B 0 3 3, .callWrite .B 1, .reqDeliver .A 0, .handlerEnter .A 1,
    .handlerReturn .A 1 9 1, .handlerReturn .A 0 6 0, .respond .A 0, .respond .A 1,
    .resDeliver .B 1, .resDeliver .B 0, .publish .B 0 1, .publish .B 1 0,
    .callReturn .B 1, .handlerNestedDone .B 0, .handlerReturn .B 0 5 0, .respond .B 0,
    .resDeliver .A 0, .publish .A 0 0, .callReturn .A 0, .callReturn .B 0], by decide⟩

/-! ### the facts are load-bearing -/

/-- If the stub wrote the request before registering the call (`Receive` after `writeRequest`),
    the response could overtake the registration and be dropped: the call is then registered,
    waiting, and nothing in the system can move any more (lost wake-up). -/
theorem C01_needs_recv_before_write :
    ∃ acts, (run { Skeleton.current with stubRecvBeforeWrite := false } init acts).map
      (fun s => decide ((s.calls .A 0).pc = .written ∧ s.pending .A 0 = true ∧ (s.calls .A 0).result = none) &&
                stuck { Skeleton.current with stubRecvBeforeWrite := false } s) = some true :=
  ⟨[.callStart .A 1 1, .callWrite .A 0, .reqDeliver .B 0, .handlerEnter .B 0, .handlerReturn .B 0 5 0,
    .respond .B 0, .resDeliver .A 0, .publishDrop .A 0, .callRegister .A 0], by decide⟩

/-- If call ids were not fresh per call (one constant id), a call would be handed another call's
    result. -/
theorem C01_needs_fresh_ids :
    ∃ acts, (run { Skeleton.current with stubCallIdFresh := false } init acts).map
      (fun s => decide ((s.calls .A 1).fn = 20 ∧ (s.calls .A 1).result = some (111, 0) ∧
                        s.invocations.map (fun r => (r.fn, r.ret)) = [(10, some (111, 0))])) = some true :=
  ⟨[.callStart .A 10 1, .callWrite .A 0, .callStart .A 20 2, .reqDeliver .B 0, .handlerEnter .B 0,
    .handlerReturn .B 0 111 0, .respond .B 0, .resDeliver .A 0, .publish .A 0 1], by decide⟩

/-- "…exactly the value and error that invocation produced": the response loop builds the caller's error from
    the frame's `err` member VERBATIM (trimmed only to decide whether there is an error at all) and per
    frame (checked against the regenerated skeleton). -/
theorem C01_error_text_verbatim :
    Skeleton.current.respErrIffTrimNonEmpty = true ∧ Skeleton.current.respErrFreshPerFrame = true := by decide

/-- M3's `handlerReturn v e` puts the handler's value and error into the response as they are. `utils.Call` hands back exactly what the function returned — `out = fn.Call(in)` is the only write to its result list (checked against the regenerated skeleton; `utils/call.go` is not among this property's anchors, yet every handler's and every closure's results pass through it). A normalisation there (e.g. a zero-valued struct error such as `context.DeadlineExceeded` turned into nil) would give a caller a result its handler never produced. -/
theorem C01_results_pass_through_utils_call :
    Skeleton.current.ucResultsUntouched = true ∧ Skeleton.current.reqCallViaUtilsCall = true := by decide

/-- A call that passes a function gets back what ITS function produced: the id under which the function is registered is fresh (a UUID drawn per registration — not, say, the table's current size, which repeats as soon as an earlier call has returned while a later one is pending), and what is stored under it is that function's wrapper itself (checked against the regenerated skeleton; `rpc/manager.go` is outside this property's anchors). -/
theorem C01_closure_ids_never_collide :
    Skeleton.current.clIdFresh = true ∧ Skeleton.current.clStoresCreatedClosure = true ∧ Skeleton.current.clInsertUnderLock = true := by decide

/-- `Receive` fails only on a closed table — a context that is done already is registered and reported through the receive function, to that one caller — and the stub panics only on failures of the link (both checked against the regenerated skeleton; `utils/broadcaster.go` is outside this property's anchors). Otherwise a handler that invokes a callable (or makes any call) with a context of its own that has expired ends the link, and every other call in flight gets `closed` instead of its handler's result. -/
theorem C01_one_calls_expired_context_fails_no_other_call :
    Skeleton.current.bcReceiveErrorsOnlyClosed = true ∧ Skeleton.current.panicSitesCanonical = true := by decide

end Panrpc.Sys

#print axioms Panrpc.Sys.C01_ids_unique
#print axioms Panrpc.Sys.C01_request_provenance
#print axioms Panrpc.Sys.C01_at_most_one_invocation
#print axioms Panrpc.Sys.C01_response_provenance
#print axioms Panrpc.Sys.C01_result_is_own
#print axioms Panrpc.Sys.C01_returned_has_result
#print axioms Panrpc.Sys.C01_no_foreign_response
#print axioms Panrpc.Sys.C01_can_complete_partial
#print axioms Panrpc.Sys.C01_needs_recv_before_write
#print axioms Panrpc.Sys.C01_needs_fresh_ids
#print axioms Panrpc.Sys.C01_error_text_verbatim
#print axioms Panrpc.Sys.C01_results_pass_through_utils_call
#print axioms Panrpc.Sys.C01_closure_ids_never_collide
#print axioms Panrpc.Sys.C01_one_calls_expired_context_fails_no_other_call
