/-
  Props/C14.lean — "Each link produces exactly one connect notification carrying a fresh
  identifier before any of its requests is handled, and - once the link has ended and its
  transport reads have returned - exactly one disconnect notification with the same identifier;
  this applies to the registry-wide hooks and to the hooks supplied for the individual link.
  At every instant the set of remotes enumerated equals the set of links announced as connected
  and not yet as disconnected."

  Model: M4 (Model/Registry.lean): one registry, any number of concurrent and repeated links,
  every interleaving of their atomic steps, every termination cause (read error, bad frame,
  cancelled context, any other fatal error), peers that keep sending after termination.
  All theorems are about `Skeleton.current`, i.e. the facts regenerated from /repo on this run.

  Vocabulary: `s.hookLog` is the ghost log of hook calls (newest first); `evs log k l` its
  sub-list of kind `k` for link `l`; `expect k l o` is `[⟨k,l,i⟩]` if `o = some i`, else `[]`;
  `s.remotes i = some l` says that `ForRemotes` (one `remotesLock` region,
  `rgForRemotesUnderLock`) enumerates id `i`, and that the value it yields is link `l`'s remote.
-/
import Panrpc.Lemmas.RegistryCurrent
import Panrpc.Pinned

namespace Panrpc.Rg
open Panrpc

/-- In EVERY reachable state — also between the steps of a registration or removal running
    concurrently with the observer — id `i` is enumerated (as link `l`'s remote) iff the connect
    hook was called for it and the disconnect hook was not; for the registry-wide hooks and for
    the link's own hooks. -/
theorem C14_enumeration_eq_live : ∀ s, Reach Skeleton.current s → ∀ i l,
    (s.remotes i = some l ↔
      (⟨.regConnect, l, i⟩ ∈ s.hookLog ∧ ⟨.regDisconnect, l, i⟩ ∉ s.hookLog)) ∧
    (s.remotes i = some l ↔
      (⟨.linkConnect, l, i⟩ ∈ s.hookLog ∧ ⟨.linkDisconnect, l, i⟩ ∉ s.hookLog)) :=
  enumeration_eq_live_reach cur_facts

/-- Per link: the registry-connect events are exactly `[]` before the registration region and
    exactly the one event carrying the link's id afterwards (hence at most one ever, exactly one
    once registered); the same for the link's own connect hook; and whenever the request loop
    has been started, a request is waiting for its handler, or a handler was ever entered, both
    connect events are already in the log. -/
theorem C14_connect_once_first : ∀ s, Reach Skeleton.current s → ∀ l,
    evs s.hookLog .regConnect l = expect .regConnect l (s.links l).id ∧
    evs s.hookLog .linkConnect l = expect .linkConnect l (s.links l).id ∧
    (evs s.hookLog .regConnect l).length ≤ 1 ∧ (evs s.hookLog .linkConnect l).length ≤ 1 ∧
    (∀ i, ⟨.regConnect, l, i⟩ ∈ s.hookLog ↔ ⟨.linkConnect, l, i⟩ ∈ s.hookLog) ∧
    (((s.links l).reqLoop ≠ .notStarted ∨ 0 < (s.links l).pendingReq ∨
        (s.invocations.any fun v => decide (v.link = l)) = true) →
      ∃ i, (s.links l).id = some i ∧ ⟨.regConnect, l, i⟩ ∈ s.hookLog ∧
        ⟨.linkConnect, l, i⟩ ∈ s.hookLog) :=
  connect_once_first cur_facts

/-- The steps that read a request or enter a handler are enabled only in states whose log
    already holds both connect events of that link (events are never removed: the connect
    notification precedes every request of the link in time). -/
theorem C14_connect_before_requests : ∀ s, Reach Skeleton.current s → ∀ l s',
    (step Skeleton.current s ⟨l, .reqRead⟩ = some s' ∨ step Skeleton.current s ⟨l, .reqHandle⟩ = some s') →
    ∃ i, (s.links l).id = some i ∧ ⟨.regConnect, l, i⟩ ∈ s.hookLog ∧ ⟨.linkConnect, l, i⟩ ∈ s.hookLog :=
  connect_before_requests cur_facts

/-- Hook events are only ever appended: along every run the log of the earlier state is a suffix
    of the log of the later one (newest first), so membership in the log is "happened before". -/
theorem C14_log_append_only : ∀ (acts : List Act) (s s' : State),
    run Skeleton.current s acts = some s' → s.hookLog <:+ s'.hookLog :=
  hookLog_suffix_run Skeleton.current

/-- Per link: the disconnect events (registry-wide and the link's own) are exactly `[]` until the
    setup goroutine has exited and exactly the one event with the link's id afterwards; a
    disconnect event in the log implies that both loops have exited and that the connect event
    with the SAME id is in the log. -/
theorem C14_disconnect_once_after_loops : ∀ s, Reach Skeleton.current s → ∀ l,
    evs s.hookLog .regDisconnect l = expect .regDisconnect l (s.links l).discId ∧
    evs s.hookLog .linkDisconnect l = expect .linkDisconnect l (s.links l).discId ∧
    (evs s.hookLog .regDisconnect l).length ≤ 1 ∧ (evs s.hookLog .linkDisconnect l).length ≤ 1 ∧
    (∀ i, ⟨.regDisconnect, l, i⟩ ∈ s.hookLog ↔ ⟨.linkDisconnect, l, i⟩ ∈ s.hookLog) ∧
    (∀ i, ⟨.regDisconnect, l, i⟩ ∈ s.hookLog →
      (s.links l).reqLoop = .exited ∧ (s.links l).respLoop = .exited ∧
      ⟨.regConnect, l, i⟩ ∈ s.hookLog ∧ ⟨.linkConnect, l, i⟩ ∈ s.hookLog) :=
  disconnect_once_after_loops cur_facts

/-- The removal step is enabled only after `wg.Wait()` returned, i.e. when both loops have
    exited, and it is the step that appends both disconnect events (one atomic step: removal and
    notifications cannot be observed apart). -/
theorem C14_disconnect_step : ∀ s, Reach Skeleton.current s → ∀ l s',
    step Skeleton.current s ⟨l, .setupUnregister⟩ = some s' →
    (s.links l).reqLoop = .exited ∧ (s.links l).respLoop = .exited ∧
    ∃ i, (s.links l).id = some i ∧ s.remotes i = some l ∧ s'.remotes i = none ∧
      s'.hookLog = ⟨.linkDisconnect, l, i⟩ :: ⟨.regDisconnect, l, i⟩ :: s.hookLog :=
  disconnect_step cur_facts

/-- The events delivered to the hooks of link `l`'s own `Link*` call are exactly the events
    delivered to the registry-wide hooks for `l`, in the same order. -/
theorem C14_link_hooks_mirror_registry_hooks : ∀ s, Reach Skeleton.current s → ∀ l,
    (linkEvs s.hookLog l).map HookEv.toReg = regEvs s.hookLog l :=
  link_hooks_mirror_registry_hooks cur_facts

/-- Identifiers are fresh: distinct links have distinct ids, and the id a registration draws was
    never enumerated, never announced and belongs to no other link. -/
theorem C14_ids_fresh : ∀ s, Reach Skeleton.current s →
    (∀ l l' i, (s.links l).id = some i → (s.links l').id = some i → l = l') ∧
    (∀ l s', step Skeleton.current s ⟨l, .setupRegister⟩ = some s' →
      (s'.links l).id = some s.nextId ∧ s.remotes s.nextId = none ∧
      (∀ e, e ∈ s.hookLog → e.id ≠ s.nextId) ∧ (∀ l', (s.links l').id ≠ some s.nextId)) :=
  ids_fresh cur_facts

/-- From every reachable state in which link `l` has been started and not yet torn down, once
    the application has made its transport reads fail (and cancelled its context), the explicit
    run `teardownRun` — only own steps of `l`: [register, start loops,] the failing read of each
    loop that has not exited, `wg.Wait()` returning, the deferred removal — succeeds and ends
    with all three goroutines exited, `l` no longer enumerated and both disconnect events
    logged.  No step of another link, of the peer or of user code is needed; at most 5 steps
    from a registered link (6 from a link that has not reached its registration yet). -/
theorem C14_disconnect_reachable : ∀ s, Reach Skeleton.current s → ∀ l,
    (s.links l).ctxCancelled = true → (s.links l).readsFail = true →
    ((s.links l).setup = .started ∨ (s.links l).setup = .registered ∨
      (s.links l).setup = .waiting ∨ (s.links l).setup = .loopsDone) →
    (∀ a, a ∈ teardownRun (s.links l) l → a.link = l) ∧
    (teardownRun (s.links l) l).length ≤ 6 ∧
    ((s.links l).setup ≠ .started → (teardownRun (s.links l) l).length ≤ 5) ∧
    ∃ s', run Skeleton.current s (teardownRun (s.links l) l) = some s' ∧
      (s'.links l).setup = .unregistered ∧ (s'.links l).reqLoop = .exited ∧
      (s'.links l).respLoop = .exited ∧ (∀ i, s'.remotes i ≠ some l) ∧
      ∃ i, (s'.links l).id = some i ∧ ⟨.regDisconnect, l, i⟩ ∈ s'.hookLog ∧
        ⟨.linkDisconnect, l, i⟩ ∈ s'.hookLog :=
  disconnect_reachable cur_facts

/-- …in particular from every state in which `l` is enumerated. -/
theorem C14_disconnect_reachable_enumerated : ∀ s, Reach Skeleton.current s → ∀ l i,
    s.remotes i = some l → (s.links l).ctxCancelled = true → (s.links l).readsFail = true →
    (teardownRun (s.links l) l).length ≤ 5 ∧
    ∃ s', run Skeleton.current s (teardownRun (s.links l) l) = some s' ∧
      (∀ j, s'.remotes j ≠ some l) ∧ ⟨.regDisconnect, l, i⟩ ∈ s'.hookLog ∧
      ⟨.linkDisconnect, l, i⟩ ∈ s'.hookLog :=
  disconnect_reachable_enumerated cur_facts

/-! ### non-vacuity -/

/-- two links, interleaved: link 0 is torn down after a read failure while link 1 stays up; the
    log holds connect+disconnect of link 0 and the connect of link 1; only link 1 is enumerated -/
example : (run Skeleton.current init
    [⟨0, .linkStart⟩, ⟨1, .linkStart⟩, ⟨1, .setupRegister⟩, ⟨0, .setupRegister⟩, ⟨0, .loopsStart⟩,
     ⟨1, .loopsStart⟩, ⟨0, .reqRead⟩, ⟨1, .reqRead⟩, ⟨0, .reqHandle⟩, ⟨0, .failReads⟩,
     ⟨0, .reqReadFails⟩, ⟨1, .reqHandle⟩, ⟨0, .respReadFails⟩, ⟨0, .setupLoopsDone⟩,
     ⟨0, .setupUnregister⟩]).map
    (fun s => decide (s.remotes 0 = some 1 ∧ s.remotes 1 = none ∧
      s.hookLog = [⟨.linkDisconnect, 0, 1⟩, ⟨.regDisconnect, 0, 1⟩, ⟨.linkConnect, 0, 1⟩,
                   ⟨.regConnect, 0, 1⟩, ⟨.linkConnect, 1, 0⟩, ⟨.regConnect, 1, 0⟩] ∧
      s.invocations = [⟨1, some 0⟩, ⟨0, some 1⟩] ∧
      (s.links 0).setup = .unregistered ∧ (s.links 1).setup = .waiting)) = some true := by decide

/-- the hypotheses of `C14_disconnect_reachable` are met by a reachable state, and the run it
    gives is the expected one -/
example : (run Skeleton.current init
    [⟨0, .linkStart⟩, ⟨0, .setupRegister⟩, ⟨0, .loopsStart⟩, ⟨0, .cancel⟩, ⟨0, .failReads⟩,
     ⟨0, .respReadFails⟩]).map
    (fun s => decide ((s.links 0).ctxCancelled = true ∧ (s.links 0).readsFail = true ∧
      (s.links 0).setup = .waiting ∧
      teardownRun (s.links 0) 0 = [⟨0, .reqReadFails⟩, ⟨0, .setupLoopsDone⟩, ⟨0, .setupUnregister⟩])) =
    some true := by decide

/-- the removal is refused while a loop is still reading -/
example : (run Skeleton.current init
    [⟨0, .linkStart⟩, ⟨0, .setupRegister⟩, ⟨0, .loopsStart⟩, ⟨0, .faultOn⟩, ⟨0, .setupLoopsDone⟩]).isNone
    = true := by decide

/-- the atomicity facts are necessary: if the connect hooks were called outside the insert's
    `remotesLock` region (`rgRegisterAtomic = false`), an observer between the two steps sees id 0
    enumerated while no connect event has been logged; likewise for the removal -/
example : (run { Skeleton.current with rgRegisterAtomic := false } init
    [⟨0, .linkStart⟩, ⟨0, .setupRegister⟩]).map
    (fun s => decide (s.remotes 0 = some 0 ∧ s.hookLog = [] ∧ (s.links 0).setup = .inserted)) =
    some true := by decide

example : (run { Skeleton.current with rgUnregisterAtomic := false } init
    [⟨0, .linkStart⟩, ⟨0, .setupRegister⟩, ⟨0, .loopsStart⟩, ⟨0, .failReads⟩, ⟨0, .reqReadFails⟩,
     ⟨0, .respReadFails⟩, ⟨0, .setupLoopsDone⟩, ⟨0, .setupUnregister⟩]).map
    (fun s => decide (s.remotes 0 = none ∧
      s.hookLog = [⟨.linkConnect, 0, 0⟩, ⟨.regConnect, 0, 0⟩] ∧ (s.links 0).setup = .deleted)) =
    some true := by decide

/-- …and so is the order "register, then start the loops": with `rgRegisterBeforeLoops = false` a
    handler can be entered before any connect event, reading no id -/
example : (run { Skeleton.current with rgRegisterBeforeLoops := false } init
    [⟨0, .linkStart⟩, ⟨0, .loopsStart⟩, ⟨0, .reqRead⟩, ⟨0, .reqHandle⟩]).map
    (fun s => decide (s.invocations = [⟨0, none⟩] ∧ s.hookLog = [])) = some true := by decide

/-! ### the pinned tree violates the property (F4): the hooks passed to `Link*` are never called -/

/-- A full life cycle of one link on the pinned tree: the registry-wide hooks fire, the log holds
    no `linkConnect` / `linkDisconnect` event at all. -/
theorem C14_link_hooks_missing_on_pinned : ∃ acts, (run Skeleton.pinned init acts).map
    (fun s => decide ((s.links 0).setup = .unregistered ∧
      s.hookLog = [⟨.regDisconnect, 0, 0⟩, ⟨.regConnect, 0, 0⟩] ∧
      linkEvs s.hookLog 0 = [] ∧ regEvs s.hookLog 0 ≠ [])) = some true :=
  ⟨[⟨0, .linkStart⟩, ⟨0, .setupRegister⟩, ⟨0, .loopsStart⟩, ⟨0, .reqRead⟩, ⟨0, .reqHandle⟩,
    ⟨0, .cancel⟩, ⟨0, .failReads⟩, ⟨0, .reqReadFails⟩, ⟨0, .respReadFails⟩, ⟨0, .setupLoopsDone⟩,
    ⟨0, .setupUnregister⟩], by decide⟩

/-- M4 draws a fresh identifier for every link. In the source the identifier is assigned once, from a UUID, by one of the setup goroutine's own statements — never taken from the link's context (checked against the regenerated skeleton): a link opened from inside a handler of another link does not take over that link's identifier. The library only reads the hook structs it is handed. -/
theorem C14_identifier_has_one_fresh_source :
    Skeleton.current.rgPerLinkRemoteId = true ∧ Skeleton.current.hooksNeverWritten = true := by decide

end Panrpc.Rg

#print axioms Panrpc.Rg.C14_enumeration_eq_live
#print axioms Panrpc.Rg.C14_connect_once_first
#print axioms Panrpc.Rg.C14_connect_before_requests
#print axioms Panrpc.Rg.C14_log_append_only
#print axioms Panrpc.Rg.C14_disconnect_once_after_loops
#print axioms Panrpc.Rg.C14_disconnect_step
#print axioms Panrpc.Rg.C14_link_hooks_mirror_registry_hooks
#print axioms Panrpc.Rg.C14_ids_fresh
#print axioms Panrpc.Rg.C14_disconnect_reachable
#print axioms Panrpc.Rg.C14_disconnect_reachable_enumerated
#print axioms Panrpc.Rg.C14_link_hooks_missing_on_pinned
#print axioms Panrpc.Rg.C14_identifier_has_one_fresh_source
