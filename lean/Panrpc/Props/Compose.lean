/-
  Props/Compose.lean — composition theorems: bridges between the focused models that DESIGN.md
  section 7 states in prose.

  1. C11 ("exactly once") = C01 applied to the `CallClosure` call.  A closure invocation IS a call
     of the built-in function `CallClosure` through the same link in the opposite direction
     (rpc/registry.go: the proxy built in `findLocalFunctionToCallRecursively` calls
     `makeRPC(ctx, "CallClosure", …)`; the request is served by the closure owner's request
     loop like any other).  So M3 (Model/System.lean) covers it verbatim — M3 puts no condition
     on `fn`, its endpoints are symmetric, and a call may have a handler thread as parent — and
     P4 (Model/Convert.lean) says what the one invocation M3 guarantees does with its arguments.
     WHAT IS ASSUMED, not derived (`ClosureReading`): M3's argument tuple is an abstract `Nat`;
     `argsOf a` is the argument list that the number `a` stands for.  M3 proves that the number
     travels unchanged from the call thread to the one invocation record; P4 says what the
     wrapper does with the list.  The two models share no state; the bridge is this reading.

  2. C18 naming = P2's stub names composed with P1's lookup on a MIRRORED local object
     (`mirror`, Lemmas/Mirror.lean), for every remote definition — all depths, all shapes.
     `Rw.C18_naming_agrees` alone says that the function string splits back into the stub's
     path; here the callee's lookup model is actually run on that string: it resolves to the
     method of the same name of the object at the same path.  The two models' `splitOnDot` are
     proved equal (`splitOnDot_agree`); the proof goes through `Lk.joinPath` / `C07_complete`.

  All theorems are about `Skeleton.current`.
-/
import Panrpc.Lemmas.Mirror
import Panrpc.Props.C01
import Panrpc.Props.C07
import Panrpc.Props.C11
import Panrpc.Props.C18

namespace Panrpc.Compose

/-! ## 1. C11: a closure invocation is a `CallClosure` call of M3 -/

/-- the function code that stands, in M3, for the function string "CallClosure" (M3 treats
    function names as opaque numbers; any constant will do) -/
def fnCallClosure : Nat := 0

/-- How M3's abstract argument tuple is read when the call is a closure invocation: `argsOf a` is
    the argument list (closure id aside) that the number `a` stands for, if any.  ASSUMED — any
    function is a possible reading; the theorems hold for all of them. -/
structure ClosureReading where
  argsOf : Nat → Option (List Cv.TVal)

/-- `C11_invocation_runs_once`, the M3 half.  In every reachable state of the two-endpoint system
    — any number of closure invocations and ordinary calls in flight at once, in both directions,
    nested inside handlers or not, frames reordered and delayed at will — there is at most one
    invocation record per endpoint and call id; and for every RETURNED call of `CallClosure`
    there is exactly one invocation record on the peer (the closure owner) for it: it is an
    entry of `CallClosure`, with that call's argument tuple, and what it returned is what the
    call returned with. -/
theorem C11_invocation_runs_once : ∀ s, Sys.Reach Skeleton.current s →
    (∀ e k, Sys.invCountCall s.invocations e k ≤ 1) ∧
    ∀ e t, (s.calls e t).fn = fnCallClosure → (s.calls e t).pc = .returned →
      ∃ v err r, (s.calls e t).result = some (v, err) ∧
        r ∈ s.invocations ∧ r.ep = Sys.peer e ∧ r.call = (s.calls e t).id ∧
        r.fn = fnCallClosure ∧ r.args = (s.calls e t).args ∧ r.ret = some (v, err) ∧
        (∀ r', r' ∈ s.invocations → r'.ep = Sys.peer e → r'.call = (s.calls e t).id → r' = r) ∧
        Sys.invCountCall s.invocations (Sys.peer e) (s.calls e t).id = 1 := by
  intro s hr
  refine ⟨(Sys.C01_at_most_one_invocation s hr).1, ?_⟩
  intro e t hfn hpc
  obtain ⟨v, err, hres⟩ := Sys.C01_returned_has_result s hr e t hpc
  obtain ⟨r, h1, h2, h3, h4, h5, h6, h7, h8⟩ := Sys.C01_result_is_own s hr e t v err hres
  exact ⟨v, err, r, hres, h1, h2, h3, h4.trans hfn, h5, h6, h7, h8⟩

/-- `C11_invocation_runs_once`, composed with P4.  Read M3's argument tuples by `R`.  If the
    callee's proxy was invoked with the well-typed supported values `vals` (the `CallClosure`
    call's argument tuple stands for `vals`) and that call has returned, then:
    * exactly one invocation record exists on the closure owner for it, it is an entry of
      `CallClosure`, and the argument tuple it carries stands for the same `vals`;
    * executing that entry (`Cv.wrapper` on the generically decoded list, either codec) reaches
      the user function — once, `.ran` — with exactly `vals`, as values of their declared types;
    * whatever value and error the function returns, the wrapper hands back unchanged
      (`Cv.C11_wrapper_hands_back`), and what M3 records as that invocation's return is what
      this call — and, the record being the only one for its id, no other call — returned with. -/
theorem C11_invocation_runs_function_once (R : ClosureReading) (c : Cv.Codec) :
    ∀ s, Sys.Reach Skeleton.current s → ∀ e t (vals : List Cv.TVal),
      (s.calls e t).fn = fnCallClosure → R.argsOf (s.calls e t).args = some vals →
      (s.calls e t).pc = .returned → (∀ v, v ∈ vals → v.wt = true) →
      ∃ r, r ∈ s.invocations ∧ r.ep = Sys.peer e ∧ r.call = (s.calls e t).id ∧ r.fn = fnCallClosure ∧
        (∀ r', r' ∈ s.invocations → r'.ep = Sys.peer e → r'.call = (s.calls e t).id → r' = r) ∧
        R.argsOf r.args = some vals ∧
        Cv.wrapper Skeleton.current (vals.map Cv.TVal.ty) (vals.map (Cv.genericOf c))
          = .ran (vals.map Cv.TVal.embed) ∧
        (∀ gv eo, Cv.wrapperReturn Skeleton.current (.ret2 gv eo) = some { value := some gv, err := eo }) ∧
        (∃ v err, r.ret = some (v, err) ∧ (s.calls e t).result = some (v, err)) := by
  intro s hr e t vals hfn hargs hpc hwt
  obtain ⟨v, err, r, hres, h1, h2, h3, h4, h5, h6, h7, -⟩ := (C11_invocation_runs_once s hr).2 e t hfn hpc
  exact ⟨r, h1, h2, h3, h4, h7, by rw [h5]; exact hargs, Cv.C11_args_converted_nil_included c vals hwt,
    fun gv eo => (Cv.C11_wrapper_hands_back gv eo).1, v, err, h6, hres⟩

/-- a reading (so the theorem is not vacuous): the number `n` stands for the one-element list `[n]` -/
example : ClosureReading := ⟨fun n => some [.uint n]⟩

/-- non-vacuity: a closure invocation inside a handler.  A calls B (call 0); B's handler invokes
    the closure it was passed = calls `CallClosure` on A (call 0 of B, parent: that handler);
    A's request loop serves it; it returns `(7, 0)`; then the outer call returns.  Both calls
    have exactly one invocation record. -/
example : (Sys.run Skeleton.current Sys.init
    [.callStart .A 5 1, .callWrite .A 0, .reqDeliver .B 0, .handlerEnter .B 0,
     .handlerCallPeer .B 0 fnCallClosure 42, .callWrite .B 0, .reqDeliver .A 0, .handlerEnter .A 0,
     .handlerReturn .A 0 7 0, .respond .A 0, .resDeliver .B 0, .publish .B 0 0, .callReturn .B 0,
     .handlerNestedDone .B 0, .handlerReturn .B 0 9 0, .respond .B 0, .resDeliver .A 0,
     .publish .A 0 0, .callReturn .A 0]).map
    (fun s => decide ((s.calls .B 0).fn = fnCallClosure ∧ (s.calls .B 0).pc = .returned ∧
      (s.calls .B 0).parent = some (.B, 0) ∧ (s.calls .B 0).result = some (7, 0) ∧
      s.invocations.map (fun r => (r.ep, r.fn, r.args, r.ret)) =
        [(.B, 5, 1, some (9, 0)), (.A, fnCallClosure, 42, some (7, 0))])) = some true := by decide

/-! ## 2. C18: caller-side naming composed with callee-side lookup -/

open Rw (Field Sig)

/-- `C18_naming_agrees`, composed with the lookup model.  Let `fs` be a remote definition whose
    sibling field names are distinct at every level and whose names are non-empty and dot-free,
    and let `Link` succeed on it with the stubs `stubs`.  Then for EVERY installed stub `(p, fn)`:
    `p = P ++ [F]` for a path `P` of exported struct fields ending at the exported func field `F`;
    the stub sends `Request.Function = fn = P.F` joined with dots; and on the peer that exposes
    the mirrored object — every nested struct field a by-value struct field, every func field
    `F` at path `P` a method `F` of the struct at `P` with the same parameter count — the request
    `{Function: fn, Args: numIn - 1 values}` (the stub drops the context) resolves to exactly
    the method `F` of exactly the object at `P`.  For all shapes and depths. -/
theorem C18_naming_agrees_with_lookup : ∀ (fs : List Field) (stubs : List (List String × String)),
    WFDef fs → (∀ n ∈ Rw.names fs, n ≠ "" ∧ '.' ∉ n.toList) →
    Rw.walk Skeleton.current "" false fs = .ok stubs →
    ∀ p fn, (p, fn) ∈ stubs →
      ∃ P F sig inst, p = P ++ [F] ∧ HasFunc fs P F sig ∧ instAt 0 fs P = some inst ∧
        fn = ".".intercalate p ∧ Rw.splitOnDot fn.toList = Lk.splitOnDot fn.toList ∧
        Lk.resolve Skeleton.current (mirror fs).1 (some (mirror fs).2) fn (sig.numIn - 1) = .runs inst F := by
  intro fs stubs hwf hnames hwalk p fn hmem
  -- the stub is a settable func field of the flattened type, with a valid signature
  have hst := Rw.walk_stubs _ Rw.cur_rwstd fs stubs hwalk
  rw [hst] at hmem
  simp only [List.mem_map, List.mem_filter, Prod.mk.injEq] at hmem
  obtain ⟨x, ⟨hx, hset⟩, rfl, rfl⟩ := hmem
  have hvalid : Rw.ValidSig x.sig :=
    (Rw.walk_ok_iff _ Rw.cur_rwstd fs (Or.inl (by decide))).mp ⟨stubs, hwalk⟩ x hx
  obtain ⟨-, P, F, hp, hfunc⟩ := funcs_hasFunc false fs x hx hset
  obtain ⟨_, hin⟩ := Rw.funcs_path false fs x hx
  have hnm : ∀ s, s ∈ x.path → s ≠ "" ∧ '.' ∉ s.toList := fun s hs => hnames s (hin s hs)
  -- caller side
  obtain ⟨hfn, -⟩ := Rw.C18_naming_agrees fs stubs hnames hwalk x.path (Rw.joinPath "" x.path)
    (by rw [hst]; exact List.mem_map.mpr ⟨x, List.mem_filter.mpr ⟨hx, hset⟩, rfl⟩)
  -- callee side
  have hshape := mirror_wf fs hwf
  obtain ⟨inst, hinst, hexp⟩ := mirror_exposed (mirror fs).1 (Lk.wfShape_names hshape) hfunc 0
    (mirror_at fs).1 (mirror_at fs).2 hwf (fun n hn => (hnm n (by rw [hp]; simp [hn])).1)
  refine ⟨P, F, x.sig, inst, hp, hfunc, hinst, hfn, splitOnDot_agree _, ?_⟩
  have hargs : x.sig.numIn - 1 + 1 = x.sig.numIn := by have := hvalid.2.2.1; omega
  have := Lk.C07_complete (mirror fs).1 (some (mirror fs).2) hshape P F inst (x.sig.numIn - 1)
    ⟨_, rfl, by rw [hargs]; exact hexp⟩
    (fun s hs => (hnm s (by rw [hp]; exact hs)).2) (hnm F (by rw [hp]; simp)).1
  rw [hfn, hp, ← Lk.joinPath_eq_intercalate]
  exact this


/-- The objects of the mirror are pairwise distinct (numbered `0, 1, …` in pre-order), so "the
    object at `P`" identifies one struct node of the remote definition. -/
theorem C18_mirror_objects_distinct (fs : List Field) :
    instsV (mirror fs).2 = List.range (1 + sizeL fs) ∧ (instsV (mirror fs).2).Nodup :=
  ⟨mirror_insts fs, mirror_insts_nodup fs⟩

/-! ### non-vacuity: the depth-3 definition of Props/C18.lean, and two siblings with equal inner names -/

example : mirror Rw.exDeep =
  ([.struct [⟨"Inner", true, false, 1⟩] [⟨"Ok", true, 1⟩, ⟨"Last", true, 1⟩],
    .struct [⟨"Deep", true, false, 2⟩] [⟨"Get", true, 3⟩],
    .struct [] [⟨"Leaf", true, 1⟩]],
   .struct 0 0 [.struct 1 1 [.struct 2 2 []]]) := by rfl

example : WFDef Rw.exDeep := by decide
example : Lk.WFShape (mirror Rw.exDeep).1 (some (mirror Rw.exDeep).2) := by decide
example : instAt 0 Rw.exDeep ["Inner", "Deep"] = some 2 := by decide

/-- every stub of `exDeep` (see Props/C18.lean for the list), sent with its argument count,
    runs the method of the same name on the object at its path -/
example : (["Ok", "Inner.Get", "Inner.Deep.Leaf", "Last"].zip [0, 2, 0, 0]).map
    (fun q => Lk.resolve Skeleton.current (mirror Rw.exDeep).1 (some (mirror Rw.exDeep).2) q.1 q.2) =
    [.runs 0 "Ok", .runs 1 "Get", .runs 2 "Leaf", .runs 0 "Last"] := by decide

/-- a wrong argument count, a partial path, a path that does not exist: rejected -/
example : Lk.resolve Skeleton.current (mirror Rw.exDeep).1 (some (mirror Rw.exDeep).2) "Inner.Get" 0
    = .rejected Lk.errArgCount := by decide
example : (Lk.resolve Skeleton.current (mirror Rw.exDeep).1 (some (mirror Rw.exDeep).2) "Inner.Deep" 0).isRejected
    = true := by decide
example : (Lk.resolve Skeleton.current (mirror Rw.exDeep).1 (some (mirror Rw.exDeep).2) "Deep.Leaf" 0).isRejected
    = true := by decide

/-- `struct{ A struct{ F func(ctx) error }; x int; B struct{ F func(ctx) error; C struct{ F … } } }`:
    the three `F`s are told apart by the object they run on -/
def exSiblings : List Field :=
  [ .struct "A" true [ .func "F" true Rw.sigCtxErr ], .other "x" false,
    .struct "B" true [ .func "F" true Rw.sigCtxErr, .struct "C" true [ .func "F" true Rw.sigCtxValErr ] ] ]

example : WFDef exSiblings ∧ ∀ n ∈ Rw.names exSiblings, n ≠ "" ∧ '.' ∉ n.toList := by decide
example : Rw.walk Skeleton.current "" false exSiblings =
    .ok [(["A", "F"], "A.F"), (["B", "F"], "B.F"), (["B", "C", "F"], "B.C.F")] := by decide
example : (["A.F", "B.F", "B.C.F"].zip [0, 0, 2]).map
    (fun q => Lk.resolve Skeleton.current (mirror exSiblings).1 (some (mirror exSiblings).2) q.1 q.2) =
    [.runs 1 "F", .runs 2 "F", .runs 3 "F"] := by decide

/-- the hypothesis `WFDef` is not met by two sibling fields of the same name (Go rejects such a type) -/
example : ¬ WFDef [ .struct "A" true [], .func "A" true Rw.sigCtxErr ] := by decide

end Panrpc.Compose

#print axioms Panrpc.Compose.C11_invocation_runs_once
#print axioms Panrpc.Compose.C11_invocation_runs_function_once
#print axioms Panrpc.Compose.C18_naming_agrees_with_lookup
#print axioms Panrpc.Compose.C18_mirror_objects_distinct
