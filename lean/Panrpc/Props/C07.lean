/-
  Props/C07.lean — "A request runs application code only if its function name is a dot-separated
  path of exported struct fields of the exposed object ending in an exported method in the method
  set of the value held there, and the number of arguments sent equals the method's parameter
  count minus the leading context; then exactly that method of exactly that (sub-)object runs
  […].  Every other name […] runs no application code; the only extra callable is the built-in
  closure entry point."

  Model: P0 (Model/Reflect.lean) + P1 (Model/Lookup.lean); specification: Spec/Exposed.lean.
  All theorems quantify over every type table, every value tree, every path string and every
  argument count; `joinPath segs` is `String.intercalate "." segs` (`joinPath_eq_intercalate`).
  Hypothesis `WFShape tt root` (decidable, Spec/Exposed.lean): the table has distinct field names
  per struct and distinct method names per method set; the value tree agrees with the table
  (field lists of the declared length and types, indices in range, dynamic values of interface
  slots not themselves interfaces, root not of interface kind).  Recursive types and recursive
  embedding are covered.  Soundness uses only the table part, completeness both.

  FINDING recorded here.  With the facts of the current tree the STRICT statement `C07_sound`
  (every name in the path is an exported field) is FALSE: `FieldByName` finds an unexported
  EMBEDDED field by its name and `reflect` drops the resulting read-only flag at the next `Field`
  step, so "inner.Sub.Val" runs `Sub.Val` although `inner` is unexported
  (`C07_unexported_embedded_segment_runs_on_pinned`).  What holds is `C07_sound_partial`
  (exposure in the lax sense: names of unexported embedded fields are admitted as non-final
  segments; the method that runs is still an exported method of a value that the strict rules
  also reach — by the promoted path).  `C07_sound` and `C07_nothing_else_runs` are stated at
  full strength at the END of the file against the fact `lkRejectsUnexportedField`; they do not
  type-check until the source rejects such names.
-/
import Panrpc.Lemmas.LookupCurrent
import Panrpc.Lemmas.LookupZoo

namespace Panrpc.Lk
open Panrpc

/-! ### the source facts these theorems rest on -/

theorem wfShape_names {tt : TypeTable} {root : Option Val} (h : WFShape tt root) : NamesNodup tt := by
  simp only [WFShape, wfShape, Bool.and_eq_true] at h
  exact namesNodup_of_wfTable tt h.1

/-! ### C07 -/

/-- Soundness, as far as it holds on the current tree: whatever runs is exposed in the sense the
    fact `lkRejectsUnexportedField` selects (false → lax, true → strict), the argument count is
    the method's parameter count minus the context, and the method and object that run are the
    ones the path denotes.
    FULL STATEMENT: `C07_sound` at the end of this file (strict exposure); missing: the source
    does not reject path segments that name an unexported embedded field. -/
theorem C07_sound_partial (tt : TypeTable) (root : Option Val) (hwf : WFShape tt root)
    (path : String) (nargs inst : Nat) (m : String)
    (h : resolve Skeleton.current tt root path nargs = .runs inst m) :
    ∃ segs n, path = joinPath (segs ++ [m]) ∧
      ExposedN Skeleton.current.lkRejectsUnexportedField tt root segs m n (some inst) ∧ nargs + 1 = n :=
  resolveX_runs_sound _ cur_faithful _ tt (wfShape_names hwf) root path nargs inst m h

/-- …in particular it is exposed in the lax sense, whatever the fact's value. -/
theorem C07_sound_lax (tt : TypeTable) (root : Option Val) (hwf : WFShape tt root)
    (path : String) (nargs inst : Nat) (m : String)
    (h : resolve Skeleton.current tt root path nargs = .runs inst m) :
    ∃ segs n, path = joinPath (segs ++ [m]) ∧ ExposedN false tt root segs m n (some inst) ∧ nargs + 1 = n := by
  obtain ⟨segs, n, h1, h2, h3⟩ := C07_sound_partial tt root hwf path nargs inst m h
  exact ⟨segs, n, h1, h2.weaken, h3⟩

/-- A method value bound to a nil pointer is Called only along an exposed path as well (the
    holder of the method is a nil pointer; there is no object). -/
theorem C07_nil_receiver_sound (tt : TypeTable) (root : Option Val) (hwf : WFShape tt root)
    (path : String) (nargs : Nat) (m : String)
    (h : resolve Skeleton.current tt root path nargs = .runsNil m) :
    ∃ segs n, path = joinPath (segs ++ [m]) ∧ ExposedN false tt root segs m n none ∧ nargs + 1 = n := by
  obtain ⟨segs, n, h1, h2, h3⟩ :=
    resolveX_runsNil_sound _ cur_faithful _ tt (wfShape_names hwf) root path nargs m h
  exact ⟨segs, n, h1, h2.weaken, h3⟩

/-- The only extra callable is the built-in closure entry point: it is reached only by the
    name "CallClosure", with two arguments, and only when the lookup on the object failed. -/
theorem C07_closure_entry_only_extra (tt : TypeTable) (root : Option Val) (path : String) (nargs : Nat)
    (h : resolve Skeleton.current tt root path nargs = .closureEntry) :
    path = "CallClosure" ∧ nargs = 2 ∧ ∃ e, lookup Skeleton.current tt root path = .err e := by
  obtain ⟨h1, h2, h3⟩ := resolveX_closureEntry _ cur_faithful _ tt root path nargs h
  have hm : Skeleton.current.lkClosureManagerMethods = ["CallClosure"] := by decide
  rw [hm] at h2
  exact ⟨by simpa using h2, h3, h1⟩

/-- Completeness: every strictly exposed path (dot-free, method name non-empty) with the matching
    argument count runs exactly that method of exactly that object. -/
theorem C07_complete (tt : TypeTable) (root : Option Val) (hwf : WFShape tt root)
    (segs : List String) (m : String) (inst nargs : Nat)
    (he : ExposedN true tt root segs m (nargs + 1) (some inst))
    (hd : ∀ s ∈ segs ++ [m], '.' ∉ s.toList) (hm : m ≠ "") :
    resolve Skeleton.current tt root (joinPath (segs ++ [m])) nargs = .runs inst m :=
  resolveX_complete _ cur_faithful _ tt root hwf segs m (nargs + 1) nargs inst he rfl hd hm

/-- `Exposed` (C07's notion) with any parameter count n ≥ 1 is served with n - 1 arguments. -/
theorem C07_complete' (tt : TypeTable) (root : Option Val) (hwf : WFShape tt root)
    (segs : List String) (m : String) (inst : Nat) (he : Exposed tt root segs m inst)
    (hd : ∀ s ∈ segs ++ [m], '.' ∉ s.toList) (hm : m ≠ "") :
    ∃ n, ExposedN true tt root segs m n (some inst) ∧
      ∀ nargs, nargs + 1 = n → resolve Skeleton.current tt root (joinPath (segs ++ [m])) nargs = .runs inst m := by
  obtain ⟨n, hn⟩ := he
  exact ⟨n, hn, fun nargs h => resolveX_complete _ cur_faithful _ tt root hwf segs m n nargs inst hn h hd hm⟩

/-- Nothing else runs, as far as it holds on the current tree: a name without a (lax) exposure
    witness of the right arity runs no application code — the request is rejected, reaches
    the closure entry point, or (pinned tree) crashes the resolver.
    FULL STATEMENT: `C07_nothing_else_runs` at the end of this file. -/
theorem C07_nothing_else_runs_partial (tt : TypeTable) (root : Option Val) (hwf : WFShape tt root)
    (path : String) (nargs : Nat)
    (hno : ¬ ∃ segs m recv, path = joinPath (segs ++ [m]) ∧ ExposedN false tt root segs m (nargs + 1) recv) :
    (∀ inst m, resolve Skeleton.current tt root path nargs ≠ .runs inst m) ∧
    (∀ m, resolve Skeleton.current tt root path nargs ≠ .runsNil m) := by
  constructor
  · intro inst m h
    obtain ⟨segs, n, h1, h2, h3⟩ := C07_sound_lax tt root hwf path nargs inst m h
    subst h3
    exact hno ⟨segs, m, _, h1, h2⟩
  · intro m h
    obtain ⟨segs, n, h1, h2, h3⟩ := C07_nil_receiver_sound tt root hwf path nargs m h
    subst h3
    exact hno ⟨segs, m, _, h1, h2⟩

/-! ### non-vacuity: a concrete shape (Lemmas/LookupZoo.lean), checked against real reflect -/

/-- the zoo is a well-formed shape -/
theorem zoo_wf : WFShape Zoo.tt Zoo.root := by decide

example : WFShape Zoo.tt Zoo.rootNilEmb := by decide
example : WFShape Zoo.tt none := by decide

section examples
open Zoo
local notation "res" => resolve Skeleton.current Zoo.tt Zoo.root

-- exposed paths: by value, by pointer, promoted through embedding (value and pointer), interface slot,
-- non-struct named type, method promoted to the root; instances of one type are told apart
example : res "Sub.Val" 0 = .runs 1 "Val" := by decide
example : res "PSub.Val" 0 = .runs 2 "Val" := by decide
example : res "PSub.Ptr" 0 = .runs 2 "Ptr" := by decide
example : res "Deep.Val" 0 = .runs 3 "Val" := by decide
example : res "A.X.Val" 0 = .runs 32 "Val" := by decide
example : res "B.X.Val" 0 = .runs 42 "Val" := by decide
example : res "A.E2.X.Val" 0 = .runs 32 "Val" := by decide
example : res "I.Val" 0 = .runs 20 "Val" := by decide
example : res "N.Get" 0 = .runs 9 "Get" := by decide
example : res "PN.Get" 0 = .runs 5 "Get" := by decide
example : res "InnerM" 0 = .runs 0 "InnerM" := by decide
-- Go's method-set rule: pointer-receiver method of a sub-object nested by value is not exposed
example : res "Sub.Ptr" 0 = .rejected errNonFunc := by decide
-- unexported method (of an interface: found by reflect, refused by Call; of a struct: not listed at all)
example : res "I.hidden" 0 = .rejected errCallUnexp := by decide
example : res "Sub.val" 0 = .rejected errNonFunc := by decide
-- unexported field (plain, and embedded as the last segment)
example : (res "priv.Val" 0).isRejected = true := by decide
example : (res "inner.InnerM" 0).isRejected = true := by decide
example : resolve Skeleton.pinned Zoo.tt Zoo.root "priv.Val" 0 = .rejected errCallRO := by decide
example : (res "_.Val" 0).isRejected = true := by decide
-- func-typed field
example : res "F" 0 = .rejected errNonFunc := by decide
-- partial paths
example : res "Sub" 0 = .rejected errNonFunc := by decide
example : res "A.X" 0 = .rejected errNonFunc := by decide
-- over-long paths
example : res "Sub.Val.Val" 0 = .rejected errInvalidField := by decide
example : res "I.Val.X" 0 = .rejected errNonStruct := by decide
example : res "PP.Val" 0 = .rejected errNonFunc := by decide
-- differently-cased names
example : res "sub.Val" 0 = .rejected errInvalidField := by decide
example : res "SUB.VAL" 0 = .rejected errInvalidField := by decide
example : res "Sub.VAL" 0 = .rejected errNonFunc := by decide
-- empty path and empty segments
example : res "" 0 = .rejected errEmptyPath := by decide
example : res "." 0 = .rejected errInvalidField := by decide
example : res "Sub..Val" 0 = .rejected errInvalidField := by decide
example : res "Sub." 0 = .rejected errNonFunc := by decide
example : res ".Sub.Val" 0 = .rejected errInvalidField := by decide
-- ambiguous promotion (X and E2 are reachable through both A and B at the same depth)
example : res "X.Val" 0 = .rejected errInvalidField := by decide
example : res "E2.X.Val" 0 = .rejected errInvalidField := by decide
-- wrong argument counts
example : res "Sub.Val" 1 = .rejected errArgCount := by decide
example : res "CallClosure" 1 = .rejected errArgCount := by decide
-- the closure entry point, and only under its exact name
example : res "CallClosure" 2 = .closureEntry := by decide
example : res "Sub.CallClosure" 2 = .rejected errNonFunc := by decide
example : res "callClosure" 2 = .rejected errNonFunc := by decide
-- nil sub-object: the method value of a nil *Sub is found and Called
example : res "NilP.Ptr" 0 = .runsNil "Ptr" := by decide
-- nil root pointer: nothing below it is reachable
example : resolve Skeleton.current Zoo.tt (some (.ptr 15 none)) "Sub.Val" 0 = .rejected errNonStruct := by decide

end examples

/-! recursive embedding (`type L1 struct{*L2; W Sub}; type L2 struct{*L1; U Sub}`): well-formed, the
    search terminates, depths are told apart -/
example : WFShape Zoo.recTT Zoo.recRoot := by decide
example : resolve Skeleton.current Zoo.recTT Zoo.recRoot "W.Val" 0 = .runs 1 "Val" := by decide
example : resolve Skeleton.current Zoo.recTT Zoo.recRoot "U.Val" 0 = .runs 2 "Val" := by decide
example : resolve Skeleton.current Zoo.recTT Zoo.recRoot "L2.U.Val" 0 = .runs 2 "Val" := by decide
example : resolve Skeleton.current Zoo.recTT Zoo.recRoot "L1.W.Val" 0 = .runs 3 "Val" := by decide
example : resolve Skeleton.current Zoo.recTT Zoo.recRoot "L2.L1.W.Val" 0 = .runs 3 "Val" := by decide
example : resolve Skeleton.current Zoo.recTT Zoo.recRoot "Q.Val" 0 = .rejected errInvalidField := by decide
example : resolve Skeleton.current Zoo.recTT Zoo.recRootNil "Q.Val" 0 = .rejected errInvalidField := by decide

/-- `Exposed` is inhabited on the zoo: "Sub.Val" (Sub promoted through the unexported embedded
    `inner`, which the selector does not name) is exposed, bound to instance 1. -/
example : Exposed Zoo.tt Zoo.root ["Sub"] "Val" 1 := by
  refine ⟨1, _, rfl, ?_⟩
  refine .field (T := 0) (inst := 0) (p := [0, 0]) (fd := Zoo.fd "Sub" true false 4) (v' := Zoo.sub 1)
    rfl ⟨by decide, 1, by decide, ?_⟩ rfl (.inl rfl) ?_
  · intro d' hd'
    have : d' = 0 := by omega
    subst this
    decide
  · exact .method ⟨rfl, rfl, Zoo.md "Val", by decide, rfl, rfl, rfl⟩

/-! ### the finding: a path through the NAME of an unexported embedded field runs application code -/

/-- On the pinned tree (and on the current one) the request "inner.Sub.Val" runs `Sub.Val` of
    instance 1 although `inner` is an unexported field: the path is not exposed in C07's sense. -/
theorem C07_unexported_embedded_segment_runs_on_pinned :
    resolve Skeleton.pinned Zoo.tt Zoo.root "inner.Sub.Val" 0 = .runs 1 "Val" ∧
    resolve Skeleton.pinned Zoo.tt Zoo.root "pinner.Deep.Val" 0 = .runs 3 "Val" ∧
    ¬ Exposed Zoo.tt Zoo.root ["inner", "Sub"] "Val" 1 := by
  refine ⟨by decide, by decide, ?_⟩
  rintro ⟨n, he⟩
  have h1 := lookupX_complete Skeleton.pinned pinned_faithful true Zoo.tt Zoo.root zoo_wf
    ["inner", "Sub"] "Val" n (some 1) he (by decide) (by decide)
  have h2 : lookupX Skeleton.pinned true Zoo.tt Zoo.root (joinPath (["inner", "Sub"] ++ ["Val"]))
      = .err errUnexported := by decide
  rw [h2] at h1
  cases h1

/-- what a tree that rejects unexported names does with it -/
example : resolveX Skeleton.current true Zoo.tt Zoo.root "inner.Sub.Val" 0 = .rejected errUnexported := by decide

/-! ### the full-strength statements (do not type-check until the source rejects unexported names) -/

/-- C07, soundness at full strength. -/
theorem C07_sound (tt : TypeTable) (root : Option Val) (hwf : WFShape tt root)
    (path : String) (nargs inst : Nat) (m : String)
    (h : resolve Skeleton.current tt root path nargs = .runs inst m) :
    ∃ segs n, path = joinPath (segs ++ [m]) ∧ ExposedN true tt root segs m n (some inst) ∧ nargs + 1 = n := by
  have hchk : Skeleton.current.lkRejectsUnexportedField = true := by decide
  have := C07_sound_partial tt root hwf path nargs inst m h
  rwa [hchk] at this

/-- C07, "every other name runs no application code", at full strength. -/
theorem C07_nothing_else_runs (tt : TypeTable) (root : Option Val) (hwf : WFShape tt root)
    (path : String) (nargs : Nat)
    (hno : ¬ ∃ segs m inst, path = joinPath (segs ++ [m]) ∧ ExposedN true tt root segs m (nargs + 1) (some inst)) :
    ∀ inst m, resolve Skeleton.current tt root path nargs ≠ .runs inst m := by
  intro inst m h
  obtain ⟨segs, n, h1, h2, h3⟩ := C07_sound tt root hwf path nargs inst m h
  subst h3
  exact hno ⟨segs, m, inst, h1, h2⟩

/-- A resolved method is invoked by ONE `reflect` call on exactly the values decoded for this request, through a `utils.Call` that keeps nothing between invocations — no package-level state, results and arguments untouched (checked against the regenerated skeleton; `utils/call.go` is outside this property's anchors): what an earlier request did (e.g. a call of a variadic method) cannot change how a later valid request is dispatched. -/
theorem C07_dispatch_is_stateless :
    Skeleton.current.stateGlobals = [] ∧ Skeleton.current.ucResultsUntouched = true ∧ Skeleton.current.ucNoWaiting = true := by decide

/-- The resolver runs on the frame of ITS request: the request struct is declared inside the read loop's body, so a later frame — or the part of an undecodable frame that was filled in before the codec gave up — cannot change the function name or the arguments an earlier, still pending request is resolved with (checked against the regenerated skeleton). -/
theorem C07_each_request_is_resolved_from_its_own_frame :
    Skeleton.current.reqFrameFreshPerIteration = true ∧ Skeleton.current.lkResolvesPerRequest = true := by decide

end Panrpc.Lk

#print axioms Panrpc.Lk.C07_sound_partial
#print axioms Panrpc.Lk.C07_sound_lax
#print axioms Panrpc.Lk.C07_nil_receiver_sound
#print axioms Panrpc.Lk.C07_closure_entry_only_extra
#print axioms Panrpc.Lk.C07_complete
#print axioms Panrpc.Lk.C07_complete'
#print axioms Panrpc.Lk.C07_nothing_else_runs_partial
#print axioms Panrpc.Lk.zoo_wf
#print axioms Panrpc.Lk.C07_unexported_embedded_segment_runs_on_pinned
#print axioms Panrpc.Lk.C07_sound
#print axioms Panrpc.Lk.C07_nothing_else_runs
#print axioms Panrpc.Lk.C07_dispatch_is_stateless
#print axioms Panrpc.Lk.C07_each_request_is_resolved_from_its_own_frame
