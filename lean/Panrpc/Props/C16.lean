/-
  Props/C16.lean — "Link blocks while healthy and returns the first fatal error when it ends".

  Model: M2 (Model/Endpoint.lean).  `fatalLog` is the ghost sequence of the arguments of
  `setErr`'s store critical sections, in the order in which they ran; "the link is healthy" =
  `fatalLog = []` (no thread has reported a fatal error yet).  Every thread of the link that can
  report one (loops, handlers, the remote-definition walk, the ctx watcher, recovering stubs) is a
  setter thread of the model; which error each one carries is arbitrary (`setErrEnter t e`).
  All theorems are about `Skeleton.current`.
-/
import Panrpc.Lemmas.EndpointCurrent
import Panrpc.Pinned

namespace Panrpc.Ep
open Panrpc

/-! ### C16 -/

/-- Link does not return while the link is healthy: a returned Link thread implies that some
    thread's `setErr` has already stored an error. -/
theorem C16_blocks_while_healthy : ∀ s, Reach Skeleton.current s → ∀ e, s.link = .returned e → s.fatalLog ≠ [] := by
  intro s h e he
  have hi := reach_fi _ cur_firstonly h
  have := hi.ret_ok e he
  intro hnil
  rw [hi.slot_head, hnil] at this
  exact this.2 this.1

/-- The value Link returns is non-nil and is the first error that was reported — never a later one. -/
theorem C16_returns_first : ∀ s, Reach Skeleton.current s → ∀ e, s.link = .returned e →
    e = s.fatalLog.head? ∧ e ≠ none := by
  intro s h e he
  have hi := reach_fi _ cur_firstonly h
  have := hi.ret_ok e he
  exact ⟨by rw [← hi.slot_head]; exact this.1, this.2⟩

/-- The slot holds the first reported error at all times (it is never overwritten). -/
theorem C16_slot_is_first : ∀ s, Reach Skeleton.current s → s.slot = s.fatalLog.head? :=
  fun _ h => (reach_fi _ cur_firstonly h).slot_head

/-- The pending-call table is closed only after an error has been stored: everything that
    merely *observes* the dead link (a call refused with ErrClosed, a waiter woken by the close)
    comes after the primary error is in the slot, and can only be appended to the log. -/
theorem C16_first_is_primary : ∀ s, Reach Skeleton.current s → s.bc.closed = true →
    s.slot ≠ none ∧ s.fatalLog ≠ [] := by
  intro s h hc
  have hi := reach_fi _ cur_firstonly h
  have hp := (reach_pi _ cur_storefirst h).closed_set hc
  refine ⟨?_, hp⟩
  rw [hi.slot_head]; intro hn; exact hp (List.head?_eq_none_iff.mp hn)

/-- …in particular the consequential `ErrClosed` (which only the closed table produces, through a
    refused `Receive` in a stub that then panics into `setErr`) is never what Link returns. -/
theorem C16_closed_never_first : ∀ s, Reach Skeleton.current s →
    s.fatalLog.head? ≠ some eClosed ∧ s.slot ≠ some eClosed ∧ s.link ≠ .returned (some eClosed) := by
  intro s h
  have hi := reach_fi _ cur_firstonly h
  have hp := (reach_pi _ cur_storefirst h).head_ne
  refine ⟨hp, by rw [hi.slot_head]; exact hp, ?_⟩
  intro hl
  have := (hi.ret_ok _ hl).1
  rw [hi.slot_head] at this
  exact hp this.symm

/-- Promptness, enabledness form: once an error has been stored, the Link thread returns the slot
    by at most two further steps of its own (`linkCheck`/`linkWake`, `linkReturn`), whatever the
    handlers, loops and readers do — none of their steps is needed. -/
theorem C16_prompt : ∀ s, Reach Skeleton.current s → s.fatalLog ≠ [] →
    ∃ acts, acts.length ≤ 2 ∧ acts.all isLinkAct = true ∧
      (run Skeleton.current s acts).map (·.link) = some (.returned s.slot) :=
  fun s h hl => link_can_return _ s
    (reach_no_crash _ cur_recovers cur_hyg cur_nochanclose h) (reach_fi _ cur_firstonly h) hl

/-- Promptness, bounded-steps form: the Link thread takes at most 3 own steps in a whole run
    (`linkMeasure` starts at 3, strictly decreases on each own step, never increases otherwise);
    and it is never parked once an error is stored. -/
theorem C16_prompt_bound : ∀ s s' a, step Skeleton.current s a = some s' →
    (isLinkAct a = true → linkMeasure s'.link < linkMeasure s.link) ∧
    (isLinkAct a = false → linkMeasure s'.link ≤ linkMeasure s.link) :=
  fun _ _ a hs => link_measure_step _ a hs

theorem C16_never_parked_after_error : ∀ s, Reach Skeleton.current s → s.fatalLog ≠ [] → s.link ≠ .waiting :=
  fun _ h hl hw => hl ((reach_fi _ cur_firstonly h).waiting_nil hw)

/-! ### non-vacuity -/

/-- a healthy link: Link is parked, nothing stored -/
example : (run Skeleton.current init [.linkCheck, .callStart 0 5 2 0, .callReceive 0]).map
    (fun s => decide (s.link = .waiting ∧ s.fatalLog = [])) = some true := by decide

/-- read error (ext 7) first, then a call on the dead link reports ErrClosed: Link returns the read error -/
example : (run Skeleton.current init
    [.linkCheck, .setErrEnter 10 7, .setErrStore 10, .setErrClose 10,
     .callStart 0 5 2 0, .callReceive 0, .callRecover 0 eClosed, .setErrStore 0, .setErrClose 0,
     .linkWake, .linkReturn]).map
    (fun s => decide (s.link = .returned (some (eExt 7)) ∧ s.fatalLog = [eExt 7, eClosed] ∧ s.bc.closed = true)) = some true := by decide

/-! ### the pinned tree violates the property (F6): `setErr` closed the table before storing,
    and overwrote the slot -/

/-- (a) a consequential `ErrClosed` is stored first and returned: thread 10 reports a read error,
    closes the table, and before it stores, a new call is refused and stores `ErrClosed`. -/
theorem C16_wrong_error_on_pinned : ∃ acts, (run Skeleton.pinned init acts).map
    (fun s => decide (s.link = .returned (some eClosed) ∧ s.setters 10 = .closedFirst (eExt 7))) = some true :=
  ⟨[.setErrEnter 10 7, .setErrClose 10,
    .callStart 0 5 2 0, .callReceive 0, .callRecover 0 eClosed, .setErrClose 0, .setErrStore 0,
    .linkCheck, .linkReturn], by decide⟩

/-- (b) the slot is overwritten: Link is woken by the first error and returns the second. -/
theorem C16_overwrite_on_pinned : ∃ acts, (run Skeleton.pinned init acts).map
    (fun s => decide (s.link = .returned (some (eExt 8)) ∧ s.fatalLog.head? = some (eExt 7))) = some true :=
  ⟨[.linkCheck, .setErrEnter 10 7, .setErrClose 10, .setErrStore 10,
    .setErrEnter 11 8, .setErrClose 11, .setErrStore 11, .linkWake, .linkReturn], by decide⟩

/-- `C16_blocks_while_healthy` needs every `setErr` of M2 to stem from a failure OF THE LINK.  The stub
    turns any error of `Receive` into `setErr`; `Receive` fails only when the table is closed (source fact
    `bcReceiveErrorsOnlyClosed`, checked against the regenerated skeleton) — i.e. only when `setErr` has run
    already.  Hence the error of a call's OWN context never ends the link: no stub ever panics with it, no
    `setErr` is ever entered with it, it is never stored — not first, not later — and `Link` never returns
    it.  (Were `Receive` to refuse a context that is already done, one call made with an expired context
    would end a healthy link and `Link` would return that call's context error:
    `C16_link_would_return_a_call_context_error`.) -/
theorem C16_only_link_failures_end_the_link : ∀ s, Reach Skeleton.current s →
    (∀ c, (s.calls c).pc ≠ .panicking eCallCtx ∧ (s.calls c).outcome ≠ .failed eCallCtx) ∧
    (∀ t, s.setters t ≠ .entered eCallCtx ∧ s.setters t ≠ .stored eCallCtx ∧ s.setters t ≠ .closedFirst eCallCtx) ∧
    eCallCtx ∉ s.fatalLog ∧ s.slot ≠ some eCallCtx ∧ s.link ≠ .returned (some eCallCtx) := by
  intro s h
  have hx := reach_cx _ cur_only_closed cur_panic_sites h
  exact ⟨fun c => ⟨hx.pan c, hx.out c⟩, fun t => ⟨hx.ent t, hx.sto t, hx.clf t⟩, hx.log, hx.slot, hx.ret⟩

/-- steps by which the environment makes the link fail (a loop / handler / the remote-definition walk
    reporting an error, the link context ending and its watcher, a failing write or marshal, a response
    frame): none of them occurs in the witness run below -/
def isLinkFailure : Act → Bool
  | .setErrEnter .. | .watcher .. | .cancelLink | .callWriteFail .. | .callMarshalFail .. | .callLinkCtx ..
  | .respFrame .. => true
  | _ => false

/-- What the fact protects against, as a behaviour of the model: on the current tree with that ONE fact
    flipped (`Receive` refuses a context that is done already), `Link` is parked on a healthy link with a
    call in flight; a second call is made with an expired context.  Its refused `Receive` becomes a panic,
    the recovering stub calls `setErr` with the CALL's context error, and `Link` wakes up and returns it —
    although no step of the run is a failure of the link (no loop, handler or watcher entered `setErr`, the
    link context is alive, nothing failed to be written): the only `setErr` of the run is the one of call
    1's recover. -/
theorem C16_link_would_return_a_call_context_error : ∃ acts, acts.all (fun a => !isLinkFailure a) = true ∧
    (run skRefusesDoneCtx init acts).map
      (fun s => decide (s.link = .returned (some eCallCtx) ∧ s.fatalLog = [eCallCtx] ∧ s.bc.closed = true ∧
                        s.setters 1 = .done ∧ s.linkCtxDone = false ∧ s.watcherFired = false ∧
                        (s.calls 0).pc = .written)) = some true :=
  ⟨[.linkCheck,
    .callStart 0 5 2 0, .callReceive 0, .callSpawn 0, .callWrite 0, .waiterRecvCall 0,
    .ctxCancel 6,
    .callStart 1 6 2 0, .callReceive 1, .callRecover 1 eCallCtx, .setErrStore 1, .setErrClose 1,
    .linkWake, .linkReturn], by decide, by decide⟩

/-- The second fact `C16_only_link_failures_end_the_link` rests on (`panicSitesCanonical`), as a behaviour of the
    model: on the current tree with that ONE fact flipped (the stub panics when the response it takes carries the
    call's own context error — "the resolver was closed beneath us"), a call whose context ends while it is in
    flight takes `Link` down with it: `Link` returns that CALL's context error, the table is closed under the
    sibling call still in flight — and no step of the run is a failure of the link. -/
theorem C16_panicking_on_a_call_outcome_ends_the_link : ∃ acts, acts.all (fun a => !isLinkFailure a) = true ∧
    (run skPanicsOnOutcome init acts).map
      (fun s => decide (s.link = .returned (some eCallCtx) ∧ s.fatalLog = [eCallCtx] ∧ s.bc.closed = true ∧
                        s.linkCtxDone = false ∧ s.watcherFired = false ∧
                        (s.calls 0).pc = .written)) = some true :=
  ⟨[.linkCheck,
    .callStart 0 5 2 0, .callReceive 0, .callSpawn 0, .callWrite 0, .waiterRecvCall 0,
    .callStart 1 6 2 0, .callReceive 1, .callSpawn 1, .callWrite 1, .waiterRecvCall 1,
    .ctxCancel 6,
    .waiterGetsCtx 1, .waiterSend 1, .waiterFree 1, .callTakeRes 1 false, .callRecover 1 eCallCtx, .setErrStore 1, .setErrClose 1,
    .linkWake, .linkReturn], by decide, by decide⟩

/-- The positive counterpart on the current tree: the same run up to call 1's `Receive` registers call 1,
    which returns its context error the regular way; `Link` stays parked, nothing is stored, the table stays
    open and call 0 stays in flight. -/
theorem C16_done_context_call_leaves_link_healthy :
    (run Skeleton.current init
      [.linkCheck,
       .callStart 0 5 2 0, .callReceive 0, .callSpawn 0, .callWrite 0, .waiterRecvCall 0,
       .ctxCancel 6,
       .callStart 1 6 2 0, .callReceive 1, .callSpawn 1, .callWrite 1, .waiterRecvCall 1,
       .waiterGetsCtx 1, .waiterSend 1, .waiterFree 1, .callTakeRes 1 false, .callReturnOk 1]).map
      (fun s => decide (s.link = .waiting ∧ s.fatalLog = [] ∧ s.slot = none ∧ s.bc.closed = false ∧
                        (s.calls 1).pc = .returned ∧ (s.calls 1).outcome = .ok ⟨none, .ctxErr⟩ ∧
                        (s.calls 0).pc = .written ∧ s.waiters 0 = .recv)) = some true := by decide

/-- `C16_prompt` counts M2's `setErrEnter / setErrStore / setErrClose` as steps that are always enabled for
    the thread inside `setErr`.  In the source that needs `setErr` to wait for nobody: the only lock it takes
    is its own condition variable's (whose critical sections run no foreign code), it has no channel
    operation, select or wait, and the failing read loop reaches it without waiting either (checked
    against the regenerated skeleton).  A `setErr` that first took e.g. the registry's remotes lock would
    hang for as long as application code sits in the enumeration callback — and `Link` with it. -/
theorem C16_setErr_waits_for_nobody :
    Skeleton.current.seOnlyOwnLock = true ∧ Skeleton.current.seStoreUnderLock = true ∧
    Skeleton.current.reqLoopBlocksOnlyOnRead = true ∧ Skeleton.current.respLoopBlocksOnlyOnRead = true := by decide

/-- M2's `linkReturn` returns the fatal slot.  In the source the variable `Link` returns is assigned from
    the slot only (checked against the regenerated skeleton) — not, say, overridden by the link context's
    error when the application cancels the context BECAUSE the link failed. -/
theorem C16_link_returns_the_slot : Skeleton.current.linkReturnsOnlyFatalSlot = true ∧ Skeleton.current.linkWaitsOnCond = true := by decide

/-- A failure inside a closure proxy (undecodable closure id, failing stub) is a failure of the link: the
    proxy reports it with `setErr` (checked against the regenerated skeleton), so `Link` returns it. -/
theorem C16_proxy_failures_are_fatal :
    Skeleton.current.pxRecoverReports = true ∧ Skeleton.current.seClosesOnEveryPath = true := by decide

/-- A closure that panics — with a runtime error too — is an error result of that invocation (`utils.Call` recovers every panic and re-raises none; every `panic(…)` of the library hands on a tested error, a sentinel or a context's error): `Link` keeps blocking (checked against the regenerated skeleton; `utils/call.go` is outside this property's anchors). -/
theorem C16_a_panicking_closure_does_not_end_the_link :
    Skeleton.current.ucRecovers = true ∧ Skeleton.current.ucNonErrorPanicMapped = true ∧ Skeleton.current.panicSitesCanonical = true ∧ Skeleton.current.clCallViaUtilsCall = true ∧ Skeleton.current.ucResultsUntouched = true := by decide

end Panrpc.Ep

#print axioms Panrpc.Ep.C16_setErr_waits_for_nobody
#print axioms Panrpc.Ep.C16_only_link_failures_end_the_link
#print axioms Panrpc.Ep.C16_link_would_return_a_call_context_error
#print axioms Panrpc.Ep.C16_panicking_on_a_call_outcome_ends_the_link
#print axioms Panrpc.Ep.C16_done_context_call_leaves_link_healthy

#print axioms Panrpc.Ep.C16_blocks_while_healthy
#print axioms Panrpc.Ep.C16_returns_first
#print axioms Panrpc.Ep.C16_slot_is_first
#print axioms Panrpc.Ep.C16_first_is_primary
#print axioms Panrpc.Ep.C16_closed_never_first
#print axioms Panrpc.Ep.C16_prompt
#print axioms Panrpc.Ep.C16_prompt_bound
#print axioms Panrpc.Ep.C16_never_parked_after_error
#print axioms Panrpc.Ep.C16_wrong_error_on_pinned
#print axioms Panrpc.Ep.C16_overwrite_on_pinned
#print axioms Panrpc.Ep.C16_link_returns_the_slot
#print axioms Panrpc.Ep.C16_proxy_failures_are_fatal
#print axioms Panrpc.Ep.C16_a_panicking_closure_does_not_end_the_link
