/-
  Props/C16.lean — "Link blocks while healthy and returns the first fatal error when it ends".

  Model: M2 (Model/Endpoint.lean).  `fatalLog` is the ghost sequence of the arguments of
  `setErr`'s store critical sections, in the order in which they ran; "the link is healthy" =
  `fatalLog = []` (no thread has reported a fatal error yet).  Every thread of the link that can
  report one (loops, handlers, the remote-definition walk, the ctx watcher, recovering stubs) is a
  setter thread of the model; which error each one carries is arbitrary (`setErrEnter t e`).
  All theorems are about `Skeleton.current`.
-/
import Panrpc.Lemmas.EndpointCurrent
import Panrpc.Pinned

namespace Panrpc.Ep
open Panrpc

/-! ### C16 -/

/-- Link does not return while the link is healthy: a returned Link thread implies that some
    thread's `setErr` has already stored an error. -/
theorem C16_blocks_while_healthy : ∀ s, Reach Skeleton.current s → ∀ e, s.link = .returned e → s.fatalLog ≠ [] := by
  intro s h e he
  have hi := reach_fi _ cur_firstonly h
  have := hi.ret_ok e he
  intro hnil
  rw [hi.slot_head, hnil] at this
  exact this.2 this.1

/-- The value Link returns is non-nil and is the first error that was reported — never a later one. -/
theorem C16_returns_first : ∀ s, Reach Skeleton.current s → ∀ e, s.link = .returned e →
    e = s.fatalLog.head? ∧ e ≠ none := by
  intro s h e he
  have hi := reach_fi _ cur_firstonly h
  have := hi.ret_ok e he
  exact ⟨by rw [← hi.slot_head]; exact this.1, this.2⟩

/-- The slot holds the first reported error at all times (it is never overwritten). -/
theorem C16_slot_is_first : ∀ s, Reach Skeleton.current s → s.slot = s.fatalLog.head? :=
  fun _ h => (reach_fi _ cur_firstonly h).slot_head

/-- The pending-call table is closed only after an error has been stored: everything that
    merely *observes* the dead link (a call refused with ErrClosed, a waiter woken by the close)
    comes after the primary error is in the slot, and can only be appended to the log. -/
theorem C16_first_is_primary : ∀ s, Reach Skeleton.current s → s.bc.closed = true →
    s.slot ≠ none ∧ s.fatalLog ≠ [] := by
  intro s h hc
  have hi := reach_fi _ cur_firstonly h
  have hp := (reach_pi _ cur_storefirst h).closed_set hc
  refine ⟨?_, hp⟩
  rw [hi.slot_head]; intro hn; exact hp (List.head?_eq_none_iff.mp hn)

/-- …in particular the consequential `ErrClosed` (which only the closed table produces, through a
    refused `Receive` in a stub that then panics into `setErr`) is never what Link returns. -/
theorem C16_closed_never_first : ∀ s, Reach Skeleton.current s →
    s.fatalLog.head? ≠ some eClosed ∧ s.slot ≠ some eClosed ∧ s.link ≠ .returned (some eClosed) := by
  intro s h
  have hi := reach_fi _ cur_firstonly h
  have hp := (reach_pi _ cur_storefirst h).head_ne
  refine ⟨hp, by rw [hi.slot_head]; exact hp, ?_⟩
  intro hl
  have := (hi.ret_ok _ hl).1
  rw [hi.slot_head] at this
  exact hp this.symm

/-- Promptness, enabledness form: once an error has been stored, the Link thread returns the slot
    by at most two further steps of its own (`linkCheck`/`linkWake`, `linkReturn`), whatever the
    handlers, loops and readers do — none of their steps is needed. -/
theorem C16_prompt : ∀ s, Reach Skeleton.current s → s.fatalLog ≠ [] →
    ∃ acts, acts.length ≤ 2 ∧ acts.all isLinkAct = true ∧
      (run Skeleton.current s acts).map (·.link) = some (.returned s.slot) :=
  fun s h hl => link_can_return _ s
    (reach_no_crash _ cur_recovers cur_hyg cur_nochanclose h) (reach_fi _ cur_firstonly h) hl

/-- Promptness, bounded-steps form: the Link thread takes at most 3 own steps in a whole run
    (`linkMeasure` starts at 3, strictly decreases on each own step, never increases otherwise);
    and it is never parked once an error is stored. -/
theorem C16_prompt_bound : ∀ s s' a, step Skeleton.current s a = some s' →
    (isLinkAct a = true → linkMeasure s'.link < linkMeasure s.link) ∧
    (isLinkAct a = false → linkMeasure s'.link ≤ linkMeasure s.link) :=
  fun _ _ a hs => link_measure_step _ a hs

theorem C16_never_parked_after_error : ∀ s, Reach Skeleton.current s → s.fatalLog ≠ [] → s.link ≠ .waiting :=
  fun _ h hl hw => hl ((reach_fi _ cur_firstonly h).waiting_nil hw)

/-! ### non-vacuity -/

/-- a healthy link: Link is parked, nothing stored -/
example : (run Skeleton.current init [.linkCheck, .callStart 0 5 2 0, .callReceive 0]).map
    (fun s => decide (s.link = .waiting ∧ s.fatalLog = [])) = some true := by decide

/-- read error (ext 7) first, then a call on the dead link reports ErrClosed: Link returns the read error -/
example : (run Skeleton.current init
    [.linkCheck, .setErrEnter 10 7, .setErrStore 10, .setErrClose 10,
     .callStart 0 5 2 0, .callReceive 0, .callRecover 0 eClosed, .setErrStore 0, .setErrClose 0,
     .linkWake, .linkReturn]).map
    (fun s => decide (s.link = .returned (some (eExt 7)) ∧ s.fatalLog = [eExt 7, eClosed] ∧ s.bc.closed = true)) = some true := by decide

/-! ### the pinned tree violates the property (F6): `setErr` closed the table before storing,
    and overwrote the slot -/

/-- (a) a consequential `ErrClosed` is stored first and returned: thread 10 reports a read error,
    closes the table, and before it stores, a new call is refused and stores `ErrClosed`. -/
theorem C16_wrong_error_on_pinned : ∃ acts, (run Skeleton.pinned init acts).map
    (fun s => decide (s.link = .returned (some eClosed) ∧ s.setters 10 = .closedFirst (eExt 7))) = some true :=
  ⟨[.setErrEnter 10 7, .setErrClose 10,
    .callStart 0 5 2 0, .callReceive 0, .callRecover 0 eClosed, .setErrClose 0, .setErrStore 0,
    .linkCheck, .linkReturn], by decide⟩

/-- (b) the slot is overwritten: Link is woken by the first error and returns the second. -/
theorem C16_overwrite_on_pinned : ∃ acts, (run Skeleton.pinned init acts).map
    (fun s => decide (s.link = .returned (some (eExt 8)) ∧ s.fatalLog.head? = some (eExt 7))) = some true :=
  ⟨[.linkCheck, .setErrEnter 10 7, .setErrClose 10, .setErrStore 10,
    .setErrEnter 11 8, .setErrClose 11, .setErrStore 11, .linkWake, .linkReturn], by decide⟩

/-- `C16_blocks_while_healthy` needs every `setErr` of M2 to stem from a failure OF THE LINK.  The stub
    turns any error of `Receive` into `setErr`; `Receive` fails only when the table is closed (checked
    against the regenerated skeleton) — i.e. only when `setErr` has run already.  Were it to refuse, say,
    a context that is already done, one call made with an expired context would end a healthy link and
    `Link` would return that call's context error. -/
theorem C16_only_link_failures_end_the_link : Skeleton.current.bcReceiveErrorsOnlyClosed = true := by decide

/-- `C16_prompt` counts M2's `setErrEnter / setErrStore / setErrClose` as steps that are always enabled for
    the thread inside `setErr`.  In the source that needs `setErr` to wait for nobody: the only lock it takes
    is its own condition variable's (whose critical sections run no foreign code), it has no channel
    operation, select or wait, and the failing read loop reaches it without waiting either (checked
    against the regenerated skeleton).  A `setErr` that first took e.g. the registry's remotes lock would
    hang for as long as application code sits in the enumeration callback — and `Link` with it. -/
theorem C16_setErr_waits_for_nobody :
    Skeleton.current.seOnlyOwnLock = true ∧ Skeleton.current.seStoreUnderLock = true ∧
    Skeleton.current.reqLoopBlocksOnlyOnRead = true ∧ Skeleton.current.respLoopBlocksOnlyOnRead = true := by decide

end Panrpc.Ep

#print axioms Panrpc.Ep.C16_setErr_waits_for_nobody
#print axioms Panrpc.Ep.C16_only_link_failures_end_the_link

#print axioms Panrpc.Ep.C16_blocks_while_healthy
#print axioms Panrpc.Ep.C16_returns_first
#print axioms Panrpc.Ep.C16_slot_is_first
#print axioms Panrpc.Ep.C16_first_is_primary
#print axioms Panrpc.Ep.C16_closed_never_first
#print axioms Panrpc.Ep.C16_prompt
#print axioms Panrpc.Ep.C16_prompt_bound
#print axioms Panrpc.Ep.C16_never_parked_after_error
#print axioms Panrpc.Ep.C16_wrong_error_on_pinned
#print axioms Panrpc.Ep.C16_overwrite_on_pinned
