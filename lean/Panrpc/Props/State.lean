/-
  Props/State.lean — the state the models have is the state the code has.

  Every model's state space was written down from the fields of the structs that hold panrpc's state:
  the broadcaster (table, closed flag, one mutex; per entry: value channel, done channel, context,
  cancel), the closure manager (one mutex, one table), the registry (local object + closure manager,
  remote template, table of remotes, one shared mutex, hooks).  A further field — a cache of resolved
  methods or closures, a counter, a semaphore, a second lock — is state no model has, so a theorem
  about the models would say nothing about it.  The field types, in declaration order, are extracted
  from /repo on every run and compared here.
-/
import Panrpc.Generated.Current

namespace Panrpc.State

theorem cur_state_broadcaster :
    Skeleton.current.stateBroadcaster = ["map[string]channelWithContext[T]", "bool", "*sync.Mutex"] ∧
    Skeleton.current.stateChannel = ["chan T", "chan struct{}", "context.Context", "func(cause error)"] := by decide

theorem cur_state_closure_manager :
    Skeleton.current.stateClosureManager = ["sync.Mutex", "map[string]func(args ...interface{}) (interface{}, error)"] ∧
    Skeleton.current.stateWrappedChild = ["any", "*closureManager"] := by decide

theorem cur_state_registry :
    Skeleton.current.stateRegistry = ["wrappedChild", "R", "map[string]R", "*sync.Mutex", "*RegistryHooks"] := by decide

/-- Lock regions: the models treat each critical section as one atomic step and no mutex as held between
    steps (except where a fact says otherwise).  That needs every function body to release what it locks on
    EVERY path — no `return` while holding, branches that rejoin agree, loops neutral, or a deferred unlock
    (a structural check of all function declarations and literals, on the source as written). -/
theorem cur_locks_balanced : Skeleton.current.locksBalanced = true := by decide

/-- Error branches: in the models every failing operation (marshal, unmarshal, write, read, resolve, convert)
    has exactly the outcome written next to it — `setErr`, a panic that the stub recovers, or an error result.
    In the source that is an `if err != nil { … }` per operation; each of them reports the error with one of
    its own statements and then leaves (a structural check over all of them): none is empty, none reports
    only under a further condition, none falls through into the success path. -/
theorem cur_error_branches_handled : Skeleton.current.errBranchesHandled = true := by decide

/-- …and there is no mutable package-level state (nothing a model would have to share between registries). -/
theorem cur_state_no_globals : Skeleton.current.stateGlobals = [] := by decide

end Panrpc.State

#print axioms Panrpc.State.cur_state_no_globals
#print axioms Panrpc.State.cur_locks_balanced
#print axioms Panrpc.State.cur_error_branches_handled

#print axioms Panrpc.State.cur_state_broadcaster
#print axioms Panrpc.State.cur_state_closure_manager
#print axioms Panrpc.State.cur_state_registry
