/-
  Props/C08Param.lean — C08, "…and whichever serializer and wire payload type are plugged in (JSON
  with raw or byte-string payloads, CBOR, ...), up to the serializer's own value round-trip.
  Nothing in panrpc depends on message boundaries, payload type or encoding beyond the
  user-supplied functions."

  Models: P3 (Model/Wire.lean) for frames, M4 (Model/Stream.lean) for the stream adapters.
  General lemmas: Lemmas/WireParam.lean, Lemmas/StreamParam.lean — none of them has a hypothesis
  on the skeleton; the statements below are their instances at `Skeleton.current`.  (Only
  `C08_link_kind_irrelevant` uses facts about the current source: the envelope literals and the
  struct tags.)

  Reading.  Two serializer configurations `σ₁ : Codec V P₁`, `σ₂ : Codec V P₂` for the same
  application values are related by a payload translation `f : P₁ → P₂` when `CodecHom f σ₁ σ₂`:
  `σ₂` encodes like `σ₁` followed by `f` and decodes an `f`-image like `σ₁` decodes the original.
  (E.g. JSON text ↦ its UTF-8 bytes; `text_bytes_hom` below is such a pair, and
  `CodecHom.pushforward` shows every injective re-encoding of a serializer's output gives one.)
  Then every frame panrpc builds under `σ₂` is the `Tree.map f`-image of the frame it builds under
  `σ₁`, every frame decoder commutes with `Tree.map f`, and everything the applications observe
  of a call is EQUAL.
-/
import Panrpc.Lemmas.WireParam
import Panrpc.Lemmas.StreamParam
import Panrpc.Lemmas.WireCurrent
import Panrpc.Generated.Current

namespace Panrpc.Param
open Panrpc Panrpc.Wire

/-! ### frames -/

/-- **Payload parametricity.**  One call — the stub builds the request, the link carries it
    (message link, or stream link with envelope), the callee decodes it and the arguments, the
    handler `hdl` runs on the decoded arguments, the callee builds the response, the link carries
    it back, the response loop and the stub decode it — has the same observables (stub panic,
    call id and function name seen by the callee, decoded handler arguments, call id of the
    response, the stub's `CallResult`) under any two serializers related by a codec
    homomorphism. -/
theorem C08_payload_parametric {V P₁ P₂ : Type} {f : P₁ → P₂} {σ₁ : Codec V P₁} {σ₂ : Codec V P₂}
    (h : CodecHom f σ₁ σ₂) (stream : Bool) (callId name : String) (args : List (Arg V))
    (paramTys : List Nat) (hdl : String → List (Option V) → Ret V) (prev : Option String)
    (numOut : Nat) (outIsErr : Bool) (ty : Nat) :
    callObservables Skeleton.current σ₂ stream callId name args paramTys hdl prev numOut outIsErr ty =
      callObservables Skeleton.current σ₁ stream callId name args paramTys hdl prev numOut outIsErr ty :=
  roundtrip_param h Skeleton.current stream callId name args paramTys hdl prev numOut outIsErr ty

/-- **Frame construction is functorial in the payload type**: the request frame, the outcome of the
    stub's frame building (same panics), the response frame and the stream envelope under `σ₂` are
    the `f`-images of those under `σ₁`. -/
theorem C08_frames_functorial {V P₁ P₂ : Type} {f : P₁ → P₂} {σ₁ : Codec V P₁} {σ₂ : Codec V P₂}
    (h : CodecHom f σ₁ σ₂) :
    (∀ callId name args,
       mkRequest Skeleton.current σ₂ callId name args = (mkRequest Skeleton.current σ₁ callId name args).map f) ∧
    (∀ callId name args,
       stubBuild Skeleton.current σ₂ callId name args = (stubBuild Skeleton.current σ₁ callId name args).map f) ∧
    (∀ reqCall r,
       mkResponse Skeleton.current σ₂ reqCall r = (mkResponse Skeleton.current σ₁ reqCall r).map f) ∧
    (∀ isRequest (t : Tree P₁),
       mkEnvelope Skeleton.current isRequest (t.map f) = (mkEnvelope Skeleton.current isRequest t).map f) :=
  ⟨mkRequest_map h _, stubBuild_map h _, mkResponse_map h _, mkEnvelope_map f _⟩

/-- **Frame decoding is natural in the payload type** — for *every* frame, not only panrpc's own:
    Go's request decoder and the independent decoders return the same strings and the translated
    payloads; decoding payloads into values (handler arguments, the stub's result) gives equal
    values; the error the response loop publishes does not involve payloads at all (`respErr` has
    no payload or codec argument). -/
theorem C08_decoders_natural {V P₁ P₂ : Type} {f : P₁ → P₂} {σ₁ : Codec V P₁} {σ₂ : Codec V P₂}
    (h : CodecHom f σ₁ σ₂) :
    (∀ t : Tree P₁, goDecodeRequest Skeleton.current (t.map f) =
       (goDecodeRequest Skeleton.current t).map (fun x => (x.1, x.2.1, x.2.2.map f))) ∧
    (∀ t : Tree P₁, parseRequest (t.map f) = (parseRequest t).map (fun x => (x.1, x.2.1, x.2.2.map f))) ∧
    (∀ t : Tree P₁, parseResponse (t.map f) = (parseResponse t).map (fun x => (x.1, f x.2.1, x.2.2))) ∧
    (∀ t : Tree P₁, parseEnvelope (t.map f) = (parseEnvelope t).map (fun x => (x.1, x.2.map f))) ∧
    (∀ ps tys, handlerArgs σ₂ (ps.map f) tys = handlerArgs σ₁ ps tys) ∧
    (∀ numOut outIsErr cancelled p err ty,
       decodeResult Skeleton.current σ₂ numOut outIsErr cancelled (f p) err ty =
         decodeResult Skeleton.current σ₁ numOut outIsErr cancelled p err ty) ∧
    (∀ prev numOut outIsErr ty (t : Tree P₁),
       callerResult Skeleton.current σ₂ prev numOut outIsErr ty (t.map f) =
         callerResult Skeleton.current σ₁ prev numOut outIsErr ty t) ∧
    (∀ τ v, rt σ₂ τ v = rt σ₁ τ v) :=
  ⟨goDecodeRequest_map f _, parseRequest_map f, parseResponse_map f, parseEnvelope_map f,
   handlerArgs_hom h, decodeResult_hom h _, callerResult_hom h _, rt_hom h⟩

/-- **The link kind does not matter either**: on the current tree one call has the same observables
    over a stream link (write adapter wraps, decoder goroutine unwraps) as over a message link. -/
theorem C08_link_kind_irrelevant {V P : Type} (σ : Codec V P) (callId name : String) (args : List (Arg V))
    (paramTys : List Nat) (hdl : String → List (Option V) → Ret V) (prev : Option String)
    (numOut : Nat) (outIsErr : Bool) (ty : Nat) :
    callObservables Skeleton.current σ true callId name args paramTys hdl prev numOut outIsErr ty =
      callObservables Skeleton.current σ false callId name args paramTys hdl prev numOut outIsErr ty :=
  callObservables_stream_eq_message Skeleton.current cur_env cur_tags σ callId name args paramTys hdl
    prev numOut outIsErr ty

/-- Both at once: {message, stream} × {σ₁, σ₂} — all four configurations agree. -/
theorem C08_link_and_payload_irrelevant {V P₁ P₂ : Type} {f : P₁ → P₂} {σ₁ : Codec V P₁} {σ₂ : Codec V P₂}
    (h : CodecHom f σ₁ σ₂) (s₁ s₂ : Bool) (callId name : String) (args : List (Arg V))
    (paramTys : List Nat) (hdl : String → List (Option V) → Ret V) (prev : Option String)
    (numOut : Nat) (outIsErr : Bool) (ty : Nat) :
    callObservables Skeleton.current σ₂ s₂ callId name args paramTys hdl prev numOut outIsErr ty =
      callObservables Skeleton.current σ₁ s₁ callId name args paramTys hdl prev numOut outIsErr ty := by
  rw [C08_payload_parametric h]
  cases s₁ <;> cases s₂ <;> first | rfl | exact C08_link_kind_irrelevant .. | exact (C08_link_kind_irrelevant ..).symm

/-! ### the stream adapters -/

open Panrpc.St in
/-- **The stream adapters are blind to payload content.**  For every relabelling `g` of the
    payloads: `step` commutes with it in every state for every action (no action carries a
    payload); reachable states map to reachable states; under every schedule from the relabelled
    input the schedule is enabled iff it was, each read adapter has returned the `g`-images of what
    it returned before, in the same order, and the errors the adapters returned and all control
    state are the same. -/
theorem C08_stream_payload_blind (g : Payload → Payload) :
    (∀ s a, (step Skeleton.current s a).map (mapState g) = step Skeleton.current (mapState g s) a) ∧
    (∀ inp s, Reach Skeleton.current inp s → Reach Skeleton.current (mapInp g inp) (mapState g s)) ∧
    (∀ inp acts,
      run Skeleton.current (init (mapInp g inp)) acts = (run Skeleton.current (init inp) acts).map (mapState g) ∧
      (run Skeleton.current (init (mapInp g inp)) acts).map (·.gotReq) =
        (run Skeleton.current (init inp) acts).map (·.gotReq.map g) ∧
      (run Skeleton.current (init (mapInp g inp)) acts).map (·.gotRes) =
        (run Skeleton.current (init inp) acts).map (·.gotRes.map g) ∧
      (run Skeleton.current (init (mapInp g inp)) acts).map (·.reqEnd) =
        (run Skeleton.current (init inp) acts).map (·.reqEnd) ∧
      (run Skeleton.current (init (mapInp g inp)) acts).map (·.resEnd) =
        (run Skeleton.current (init inp) acts).map (·.resEnd) ∧
      (run Skeleton.current (init (mapInp g inp)) acts).map ctrl =
        (run Skeleton.current (init inp) acts).map ctrl) :=
  ⟨step_map g _, fun _ _ h => reach_map g _ h, run_observables_map g _⟩

open Panrpc.St in
/-- Hence demultiplexing depends only on the *shape* of the decoded stream: two streams that are
    equal after erasing every payload show the same control behaviour, errors and delivery counts
    under every schedule. -/
theorem C08_stream_shape_only (inp₁ inp₂ : List (Option Envelope))
    (hshape : mapInp (fun _ => 0) inp₁ = mapInp (fun _ => 0) inp₂) (acts : List Act) :
    (run Skeleton.current (init inp₁) acts).map ctrl = (run Skeleton.current (init inp₂) acts).map ctrl :=
  run_ctrl_of_same_shape _ inp₁ inp₂ hshape acts

/-! ### non-vacuity -/

/-- `respErr` has no payload, payload-type or codec argument: nothing to translate -/
example : Skeleton → Option String → String → Option String := respErr

/-- a concrete homomorphism: text payloads ↦ byte-string payloads -/
example : CodecHom bytesOf textCodec bytesCodec := text_bytes_hom

/-- the handler of the examples: `Add` increments its first argument, anything else fails -/
def exHdl : String → List (Option Val) → Ret Val
  | "Add", some (.num n) :: _ => .two (.num (n + 1)) none
  | _, _ => .two (.num 0) (some "no such function")

/-- `C08_payload_parametric` instantiated -/
example (stream : Bool) (args : List (Arg Val)) :
    callObservables Skeleton.current bytesCodec stream "c1" "Add" args [0, 1, 1] exHdl none 2 false 0 =
      callObservables Skeleton.current textCodec stream "c1" "Add" args [0, 1, 1] exHdl none 2 false 0 :=
  C08_payload_parametric text_bytes_hom ..

deriving instance DecidableEq for CallResult
deriving instance DecidableEq for CallObs

/-- …and the common value is a completed call: the handler saw the three decoded arguments (the
    func argument as its closure id), the stub returned `42, nil`. -/
example : callObservables Skeleton.current textCodec false "c1" "Add"
      [.ctx, .val (.num 41) 0, .val (.str "hi") 1, .func "clo-7"] [0, 1, 1] exHdl none 2 false 0 =
    .done "c1" "Add" [some (.num 41), some (.str "hi"), some (.str "clo-7")] (some "c1")
      (.valErr (some (.num 42)) none) := by decide

example : callObservables Skeleton.current bytesCodec true "c1" "Add"
      [.ctx, .val (.num 41) 0, .val (.str "hi") 1, .func "clo-7"] [0, 1, 1] exHdl none 2 false 0 =
    .done "c1" "Add" [some (.num 41), some (.str "hi"), some (.str "clo-7")] (some "c1")
      (.valErr (some (.num 42)) none) := by decide

/-- a decoding failure is the same failure on both sides (a string sent where the callee declares
    a number: the argument does not decode; the handler's error comes back) -/
example : callObservables Skeleton.current bytesCodec false "c2" "Add" [.ctx, .val (.str "x") 0] [0] exHdl none 2 false 0 =
    .done "c2" "Add" [none] (some "c2") (.valErr (some (.num 0)) (some "no such function")) := by decide

/-- the frames themselves differ (text vs. code points) and are related by `Tree.map bytesOf` -/
example : mkRequest Skeleton.current bytesCodec "c" "F" [.ctx, .val (.num 7) 0] =
    .obj [("call", .str "c"), ("function", .str "F"), ("args", .arr [.raw [55]])] := rfl

example : mkRequest Skeleton.current textCodec "c" "F" [.ctx, .val (.num 7) 0] =
    .obj [("call", .str "c"), ("function", .str "F"), ("args", .arr [.raw "7"])] := rfl

open Panrpc.St in
/-- stream: relabelling `p ↦ p + 100` — same schedule, relabelled deliveries, same errors -/
example : (run Skeleton.current
      (init (mapInp (· + 100) [some { req := some 1, res := some 2 }, some { req := none, res := some 3 }, none]))
      [.decRead, .handReq, .handRes, .decRead, .handRes, .decRead, .decFinish, .readDoneReq, .readDoneRes]).map
    (fun s => decide (s.gotReq = [101] ∧ s.gotRes = [102, 103] ∧ s.reqEnd = some (some (.decode 2)) ∧
                      s.resEnd = some (some (.decode 2)))) = some true := by decide

open Panrpc.St in
/-- the hypothesis of `C08_stream_shape_only` is satisfiable by different streams -/
example : mapInp (fun _ => 0) [some { req := some 1, res := none }, none] =
          mapInp (fun _ => 0) [some { req := some 9, res := none }, none] := by decide

end Panrpc.Param

#print axioms Panrpc.Param.C08_payload_parametric
#print axioms Panrpc.Param.C08_frames_functorial
#print axioms Panrpc.Param.C08_decoders_natural
#print axioms Panrpc.Param.C08_link_kind_irrelevant
#print axioms Panrpc.Param.C08_link_and_payload_irrelevant
#print axioms Panrpc.Param.C08_stream_payload_blind
#print axioms Panrpc.Param.C08_stream_shape_only
