/-
  Props/C10Callee.lean — C10, callee side: "An application-level error never terminates the link":
  a function that RETURNS — whatever its result shape, with a nil or a non-nil error — is answered
  with exactly one response carrying the request's call id and the error's message (`""` for nil),
  and `setErr` is not called on that path.  (What the caller makes of that response is
  Props/C10.lean, on Model/Wire.lean; `Shape.errStr` is `Wire.respErrStr` with the values erased.)

  Model: Model/Callee.lean.  All theorems are about `Skeleton.current`.
-/
import Panrpc.Lemmas.CalleeCurrent

namespace Panrpc.Ce
open Panrpc

/-- Any run of a request's life in which the function returns `r` (any of the four shapes, error nil
    or not, any message) and neither marshal nor write fails: `setErr` is never called, nothing
    crashes, nothing is written before the end, and at the end exactly one response has been
    written: `(req.Call, Err r)`. -/
theorem C10_not_fatal (cid : String) (cl : Bool) (r : Shape) (acts : List Act) (s' : State)
    (hrun : run Skeleton.current (init cid cl) acts = some s')
    (hret : Act.handlerReturns r ∈ acts)
    (hm : Act.marshalFails ∉ acts) (hw : Act.writeFails ∉ acts) :
    s'.setErrCalls = [] ∧ s'.crashed = false ∧
    s'.responses = (if s'.pc = .done then [(cid, r.errStr)] else []) :=
  returns_not_fatal _ cur_hyp cur_resp cid cl r acts s' hrun hret hm hw

/-- … and that end is reachable from every state in which the function is running: return, marshal
    and write are enabled one after the other (a closure entry returns `CallClosure`'s two results). -/
theorem C10_not_fatal_enabled (cid : String) (cl : Bool) (s : State) (r : Shape)
    (h : Reach Skeleton.current cid cl s) (hpc : s.pc = .running) (hcl : cl = false ∨ r.isTwo = true) :
    run Skeleton.current s [.handlerReturns r, .marshalOk, .respond] =
      some { s with pc := .done, responses := [(cid, r.errStr)] } := by
  have g := reach_good _ cur_hyp h
  have q := quiet g (by simp [hpc])
  have := returns_run _ cur_resp s r hpc (by rw [g.clOk]; exact hcl)
  simpa [q.1, g.idOk] using this

/-- The error message travels unchanged: `Err` is `""` exactly for the shapes without a non-nil error. -/
theorem C10_err_field (m : String) :
    Shape.none0.errStr = "" ∧ Shape.oneVal.errStr = "" ∧ (Shape.oneErr none).errStr = "" ∧
    (Shape.two none).errStr = "" ∧ (Shape.oneErr (some m)).errStr = m ∧ (Shape.two (some m)).errStr = m :=
  ⟨rfl, rfl, rfl, rfl, rfl, rfl⟩

/-- In every reachable state: at most one response, and it carries the request's call id; before the
    end nothing has been written and `setErr` has not been called; at the end exactly one response
    unless `setErr` was called — and then it was called once and nothing was written. -/
theorem C10_one_response_per_request (cid : String) (cl : Bool) (s : State)
    (h : Reach Skeleton.current cid cl s) :
    s.responses.length ≤ 1 ∧ (∀ x ∈ s.responses, x.1 = cid) ∧
    (s.pc ≠ .done → s.responses = [] ∧ s.setErrCalls = []) ∧
    (s.pc = .done → s.setErrCalls = [] → s.responses.length = 1) ∧
    (s.setErrCalls ≠ [] → s.pc = .done ∧ s.responses = [] ∧ s.setErrCalls.length = 1) :=
  one_response _ cur_hyp h

/-! ### non-vacuity: every shape, nil and non-nil, ordinary and closure entry -/

example : (run Skeleton.current (init "id7" false)
      [.resolveOk, .start, .handlerReturns (.two (some " not found\n")), .marshalOk, .respond]).map
    (fun s => (s.pc, s.setErrCalls, s.responses, s.crashed))
    = some (.done, [], [("id7", " not found\n")], false) := by decide
example : (run Skeleton.current (init "id7" false)
      [.resolveOk, .start, .handlerReturns (.oneErr (some "denied")), .marshalOk, .respond]).map
    (fun s => (s.setErrCalls, s.responses)) = some ([], [("id7", "denied")]) := by decide
example : (run Skeleton.current (init "id7" false)
      [.resolveOk, .start, .handlerReturns (.oneErr none), .marshalOk, .respond]).map
    (fun s => (s.setErrCalls, s.responses)) = some ([], [("id7", "")]) := by decide
example : (run Skeleton.current (init "id7" false)
      [.resolveOk, .start, .handlerReturns .none0, .marshalOk, .respond]).map
    (fun s => (s.setErrCalls, s.responses)) = some ([], [("id7", "")]) := by decide
example : (run Skeleton.current (init "id7" false)
      [.resolveOk, .start, .handlerReturns .oneVal, .marshalOk, .respond]).map
    (fun s => (s.setErrCalls, s.responses)) = some ([], [("id7", "")]) := by decide
/-- `CallClosure` returning the closure's error (or `ErrClosureDoesNotExist`) -/
example : (run Skeleton.current (init "id8" true)
      [.resolveOk, .start, .handlerReturns (.two (some "closure does not exist")), .marshalOk, .respond]).map
    (fun s => (s.setErrCalls, s.responses)) = some ([], [("id8", "closure does not exist")]) := by decide
/-- the hypotheses of `C10_not_fatal` on such a run -/
example : Act.handlerReturns (.two (some "e")) ∈
      [Act.resolveOk, .start, .handlerReturns (.two (some "e")), .marshalOk, .respond] ∧
    Act.marshalFails ∉ [Act.resolveOk, .start, .handlerReturns (.two (some "e")), .marshalOk, .respond] ∧
    Act.writeFails ∉ [Act.resolveOk, .start, .handlerReturns (.two (some "e")), .marshalOk, .respond] := by decide
/-- what the hypotheses exclude: the serializer refuses the value, or the transport is gone — these
    DO end the link, with no response -/
example : (run Skeleton.current (init "id7" false)
      [.resolveOk, .start, .handlerReturns (.two none), .marshalFails]).map
    (fun s => (s.pc, s.setErrCalls, s.responses)) = some (.done, [.marshalFail], []) := by decide
example : (run Skeleton.current (init "id7" false)
      [.resolveOk, .start, .handlerReturns (.two none), .marshalOk, .writeFails]).map
    (fun s => (s.pc, s.setErrCalls, s.responses)) = some (.done, [.writeFail], []) := by decide
/-- after the end nothing more happens: no second response, no late `setErr` -/
example : ∀ a : Act, (run Skeleton.current (init "id7" false)
      [.resolveOk, .start, .handlerReturns (.two none), .marshalOk, .respond, a]) = none := by
  intro a
  cases a <;> rfl

/-! ### the source facts are load-bearing -/

/-- a branch that writes twice: two responses for one request -/
example : (run { Skeleton.current with reqOneResponsePerBranch := false } (init "id7" false)
      [.resolveOk, .start, .handlerReturns (.two none), .marshalOk, .respond, .respond]).map
    (fun s => s.responses.length) = some 2 := by decide
/-- a `Response` literal without `Call: req.Call`: the caller cannot match the answer -/
example : (run { Skeleton.current with reqResponseCallIsReqCall := false } (init "id7" false)
      [.resolveOk, .start, .handlerReturns (.two (some "e")), .marshalOk, .respond]).map
    (fun s => s.responses) = some [("", "e")] := by decide
/-- a branch that drops the error: the application error arrives as success -/
example : (run { Skeleton.current with reqRespShapesOk := false } (init "id7" false)
      [.resolveOk, .start, .handlerReturns (.two (some "e")), .marshalOk, .respond]).map
    (fun s => s.responses) = some [("id7", "")] := by decide

/-- a `utils.Call` that rewrites its result list (`ucResultsUntouched` flipped — e.g. "a zero-valued error is no
    error", "typed nil is nil"): the handler returned an error, the response says success -/
theorem C10_normalising_call_loses_the_error :
    (run { Skeleton.current with ucResultsUntouched := false } (init "id7" false)
      [.resolveOk, .start, .handlerReturns (.two (some "context deadline exceeded")), .marshalOk, .respond]).map
    (fun s => s.responses) = some [("id7", "")] ∧
    (run Skeleton.current (init "id7" false)
      [.resolveOk, .start, .handlerReturns (.two (some "context deadline exceeded")), .marshalOk, .respond]).map
    (fun s => s.responses) = some [("id7", "context deadline exceeded")] := by decide

end Panrpc.Ce

#print axioms Panrpc.Ce.C10_normalising_call_loses_the_error
#print axioms Panrpc.Ce.C10_not_fatal
#print axioms Panrpc.Ce.C10_not_fatal_enabled
#print axioms Panrpc.Ce.C10_err_field
#print axioms Panrpc.Ce.C10_one_response_per_request
