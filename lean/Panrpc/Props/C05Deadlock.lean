/-
  Props/C05Deadlock.lean — C05, the clause "No relative timing of response arrival, per-call
  cancellation, duplicate or late responses, closure release and link shutdown can make panrpc …
  leave its internal goroutines deadlocked".

  Model: M2 (Model/Endpoint.lean) with M1 embedded.  The internal threads are the stubs (call
  threads inside the generated function), the per-call waiters, the `Publish` goroutines (one per
  response frame, duplicates and late ones included), the threads inside `setErr` and the Link
  thread (`Thread`, Lemmas/EndpointThreads.lean).  `actThreads a` says whose own step an action is;
  all other actions are the environment: the application (`callStart`, `ctxCancel`, `cancelLink`),
  the peer/transport (`respFrame`, `closureInvoke`, `setErrEnter` = a loop reporting a failed
  read/write), the application's closure bodies returning (`closureBodyDone`), the `context` package (`ctxPropagate`), the ctx watcher starting (`watcher`).

      live s th      started and not finished
      parked s th    at a blocking operation: the stub's select, the receive function's select,
                     Publish's select, Cond.Wait
      CanStep s th   some own step of th is enabled
      Blocked s th   live and ¬ CanStep
      waitsOn s th th'   an own step of th' can be what th is parked for:
                     stub c → waiter c;  waiter c → a publisher of call id c before its lookup, any setter;
                     publisher of call id c → waiter c, any setter;  Link → any setter

  All theorems are about `Skeleton.current`, from the general lemmas in Lemmas/EndpointProgress.lean
  plus `by decide` facts (`cur_prog`).
-/
import Panrpc.Lemmas.EndpointProgress
import Panrpc.Lemmas.EndpointCurrent
import Panrpc.Pinned

namespace Panrpc.Ep
open Panrpc

/-- the source facts the progress theorems rest on, checked against the regenerated skeleton -/
theorem cur_prog : Prog Skeleton.current :=
  { lv := cur_live, order := cur_storefirst, first := cur_firstonly,
    selChan := by decide, selSend := by decide, selEntry := by decide }

/-- **No internal deadlock.**  In every reachable state, every internal thread that has started
    and not finished
      * has an enabled own step, or
      * is parked at one of the four blocking operations, and then
          - whatever step gives it an enabled step again is a context event (the application
            cancels a call's or the link's context) or an own step of a thread it waits on
            (for a waiter: the lookup of a publisher spawned for a response frame of its call id,
            or the `Close` of a `setErr`; for a publisher: its call's waiter entering the select
            or freeing the entry, or that `Close`; for Link: the store of a `setErr`; for a stub:
            its waiter's send), and
          - every live thread it waits on has an enabled own step — the one exception being the
            waiter of a parked stub, which may itself be parked inside the receive function
            (and to which this same statement applies: it is not waiting for the stub).
    So no set of internal threads waits on one another: see `C05_no_wait_cycle`. -/
theorem C05_no_internal_deadlock : ∀ s, Reach Skeleton.current s → ∀ th, live s th = true →
    CanStep Skeleton.current s th ∨
    ( parked s th = true ∧
      (∀ a s', step Skeleton.current s a = some s' → CanStep Skeleton.current s' th →
          isCtxEvent a = true ∨ ∃ th', th' ∈ actThreads a ∧ waitsOn s th th') ∧
      (∀ th', waitsOn s th th' → live s th' = true →
          CanStep Skeleton.current s th' ∨ ∃ c, th = .stub c ∧ th' = .waiter c) ) := by
  intro s hr th hl
  by_cases hc : CanStep Skeleton.current s th
  · exact Or.inl hc
  · have hb : Blocked Skeleton.current s th := ⟨hl, hc⟩
    exact Or.inr ⟨blocked_parked _ cur_prog hr th hb,
      fun a s' hs hc' => unblock_cause _ cur_prog hr a hs th hb hc',
      fun th' hw hl' => awaited_can_step _ cur_prog hr th th' hb hw hl'⟩

/-- A thread that is not at a blocking operation always has an enabled own step: the waiter at
    `start`/`have`/`sent` (`have`: `res` is buffered), a publisher before its lookup, every thread
    inside `setErr`, the Link thread outside `Cond.Wait`, the stub outside its select.  In
    particular nobody ever waits for the table mutex or for `closuresLock`. -/
theorem C05_only_blocking_ops_block : ∀ s, Reach Skeleton.current s → ∀ th, live s th = true →
    parked s th = false → CanStep Skeleton.current s th :=
  fun _ hr th hl hp => not_parked_can_step _ cur_prog hr th hl hp

/-- Threads inside `setErr` are never blocked (they are what everybody else may be waiting for). -/
theorem C05_setters_never_block : ∀ s, Reach Skeleton.current s → ∀ t, live s (.setter t) = true →
    CanStep Skeleton.current s (.setter t) :=
  fun _ hr t hl => setter_can_step _ cur_prog hr t hl

/-- No cycle publisher ↔ waiter: if a publisher holds the entry of call `c` and waiter `c` is
    inside the receive function, the hand-off is enabled. -/
theorem C05_rendezvous_enabled : ∀ s, Reach Skeleton.current s → ∀ c p v g,
    s.bc.pubs p = .holding c v g → s.waiters c = .recv →
    ∃ s', step Skeleton.current s (.waiterGetsValue c p) = some s' :=
  fun _ hr c p v g hp hw => rendezvous_enabled _ cur_prog hr c p v g hp hw

/-- No wait-for cycle among blocked threads: a chain blocked → blocked → … has at most two
    members (a stub and its waiter), and no two blocked threads wait for each other. -/
theorem C05_no_wait_cycle : ∀ s, Reach Skeleton.current s → ∀ th th',
    Blocked Skeleton.current s th → waitsOn s th th' → Blocked Skeleton.current s th' →
    ¬ waitsOn s th' th ∧ ∀ th'', waitsOn s th' th'' → ¬ Blocked Skeleton.current s th'' :=
  fun _ hr th th' hb hw hb' =>
    ⟨no_mutual_wait _ cur_prog hr th th' hb hw hb',
     fun th'' hw' => no_blocked_chain _ cur_prog hr th th' th'' hb hw hb' hw'⟩

/-- A blocked waiter waits for an external event: its entry is still live, its context is not
    done and no publisher stands at its channel (no response frame for it is being delivered) —
    and cancelling its context gives it an enabled step at once. -/
theorem C05_blocked_waiter_waits_for_outside : ∀ s, Reach Skeleton.current s → ∀ c,
    Blocked Skeleton.current s (.waiter c) →
    (∃ g, WQuiet s c g) ∧
    ∃ s', step Skeleton.current s (.ctxCancel (s.calls c).ctx) = some s' ∧
      CanStep Skeleton.current s' (.waiter c) := by
  intro s hr c hb
  have hpk := blocked_parked _ cur_prog hr _ hb
  have hw : s.waiters c = .recv := by simpa [parked] using hpk
  exact ⟨wq_of_blocked _ cur_prog hr c hw hb.2, cancel_wakes_waiter _ cur_prog hr c hw⟩

/-- What can end the wait of a blocked waiter, exactly — three kinds of step and no other:
    the application cancels the call's context; a `Publish` goroutine spawned for a response
    frame of this call id does its table lookup (frame arrival); a `setErr` closes the
    pending-call table (link end).  No step of a stub, of another call's waiter, of a publisher
    of another call id, or of the Link thread can. -/
theorem C05_waiter_woken_only_by : ∀ s, Reach Skeleton.current s → ∀ a s' c,
    step Skeleton.current s a = some s' → Blocked Skeleton.current s (.waiter c) →
    CanStep Skeleton.current s' (.waiter c) →
    a = .ctxCancel (s.calls c).ctx ∨ (∃ p v, a = .pubLookup p ∧ s.bc.pubs p = .start c v) ∨
    ∃ t, a = .setErrClose t := by
  intro s hr a s' c hs hb hc
  have h := waiter_wakers _ cur_prog hr a hs c hb hc
  cases a <;> simp only [wakesWaiter] at h <;> (try (simp at h; done))
  · rename_i p
    cases hpb : s.bc.pubs p <;> simp [hpb] at h
    subst h
    exact Or.inr (Or.inl ⟨p, _, rfl, hpb⟩)
  · exact Or.inr (Or.inr ⟨_, rfl⟩)
  · simp at h; subst h; exact Or.inl rfl

/-- What can end the wait of a blocked publisher of call id `k`, exactly: waiter `k` enters the
    receive function (then the hand-off is enabled) or frees the entry, a `setErr` closes the
    table, or the `context` package hands the cancellation of the call's context on to the entry. -/
theorem C05_publisher_woken_only_by : ∀ s, Reach Skeleton.current s → ∀ a s' p k v g,
    step Skeleton.current s a = some s' → s.bc.pubs p = .holding k v g →
    ¬ CanStep Skeleton.current s (.pub p) → CanStep Skeleton.current s' (.pub p) →
    a = .waiterRecvCall k ∨ a = .waiterFree k ∨ (∃ t, a = .setErrClose t) ∨ ∃ g', a = .ctxPropagate g' := by
  intro s hr a s' p k v g hs hpb hb hc
  have h := pub_wakers _ cur_prog hr a hs p k v g hpb hb hc
  cases a <;> simp [wakesPub] at h
  · subst h; exact Or.inl rfl
  · subst h; exact Or.inr (Or.inl rfl)
  · exact Or.inr (Or.inr (Or.inl ⟨_, rfl⟩))
  · exact Or.inr (Or.inr (Or.inr ⟨_, rfl⟩))

/-- A blocked publisher holds a live entry whose context is not done, with nobody at the other
    end of the channel; the call's waiter is live (and then has an enabled step, by
    `C05_no_internal_deadlock`), or is about to be spawned by a stub standing right before its
    `go` statement. -/
theorem C05_blocked_publisher_waits_for_its_waiter : ∀ s, Reach Skeleton.current s → ∀ p k v g,
    s.bc.pubs p = .holding k v g → ¬ CanStep Skeleton.current s (.pub p) →
    PQuiet s p k v g ∧ s.bc.table k = some g ∧
    (live s (.waiter k) = true ∨ (s.waiters k = .absent ∧ (s.calls k).pc = .registered)) := by
  intro s hr p k v g hp hb
  exact ⟨pq_of_blocked _ cur_prog hr p k v g hp hb,
         blocked_pub_has_waiter _ cur_prog hr cur_waiterfrees p k v g hp hb⟩

/-- A blocked stub waits for its waiter or for the link context; cancelling the link context
    gives it an enabled step at once. -/
theorem C05_blocked_stub_waits_for_waiter_or_link : ∀ s, Reach Skeleton.current s → ∀ c,
    Blocked Skeleton.current s (.stub c) →
    SQuiet s c ∧ s.waiters c ≠ .absent ∧
    ∃ s', step Skeleton.current s .cancelLink = some s' ∧ CanStep Skeleton.current s' (.stub c) := by
  intro s hr c hb
  have hpk := blocked_parked _ cur_prog hr _ hb
  have hpc : (s.calls c).pc = .written := by simpa [parked] using hpk
  exact ⟨sq_of_blocked _ cur_prog hr c hpc hb.2, (reach_ri _ hr).has_waiter c (Or.inr hpc),
         cancelLink_wakes_stub _ cur_prog hr c hpc⟩

/-- The Link thread is blocked only while the link is healthy: parked in `Cond.Wait` with no
    error stored yet; it waits for the first `setErrStore` and nothing else (`C16_prompt` takes
    over from there). -/
theorem C05_blocked_link_is_healthy : ∀ s, Reach Skeleton.current s →
    Blocked Skeleton.current s .link → s.link = .waiting ∧ s.fatalLog = [] :=
  fun _ hr hb => blocked_link_healthy _ cur_prog hr hb

/-! ### non-vacuity -/

/-- a parked waiter with nothing to do (call written, no response yet): none of its select cases
    is enabled; after the application cancels the call's context one is -/
example : (run Skeleton.current init
    [.callStart 0 5 2 0, .callReceive 0, .callSpawn 0, .callWrite 0, .waiterRecvCall 0]).map
    (fun s => live s (.waiter 0) && parked s (.waiter 0) &&
              (step Skeleton.current s (.waiterGetsDone 0)).isNone &&
              (step Skeleton.current s (.waiterGetsCtx 0)).isNone &&
              (step Skeleton.current s (.waiterGetsValue 0 0)).isNone &&
              ((step Skeleton.current s (.ctxCancel 5)).bind
                (fun s' => step Skeleton.current s' (.waiterGetsCtx 0))).isSome) = some true := by decide

/-- a parked publisher whose waiter has not entered the receive function yet: neither of its select
    cases is enabled; the waiter's next own step (`waiterRecvCall`) is, and enables the hand-off -/
example : (run Skeleton.current init
    [.callStart 0 5 2 0, .callReceive 0, .callSpawn 0, .callWrite 0, .respFrame 0 0 1 false, .pubLookup 0]).map
    (fun s => live s (.pub 0) && parked s (.pub 0) &&
              (step Skeleton.current s (.pubCtx 0)).isNone &&
              (step Skeleton.current s (.pubSendClosed 0)).isNone &&
              (step Skeleton.current s (.waiterGetsValue 0 0)).isNone &&
              ((step Skeleton.current s (.waiterRecvCall 0)).bind
                (fun s' => step Skeleton.current s' (.waiterGetsValue 0 0))).isSome) = some true := by decide

/-- the Link thread parked on a healthy link; a `setErr` store wakes it -/
example : (run Skeleton.current init [.linkCheck, .setErrEnter 9 0]).map
    (fun s => live s .link && parked s .link && (step Skeleton.current s .linkWake).isNone &&
              ((step Skeleton.current s (.setErrStore 9)).bind
                (fun s' => step Skeleton.current s' .linkWake)).isSome) = some true := by decide

/-! ### the pinned tree violates the property (F5): an internal goroutine blocked for good -/

/-- On the pinned tree (`res` unbuffered) the schedule of `C15_waiter_stranded_on_pinned` — the call
    leaves through the link context while its waiter is still inside the receive function —
    reaches a state in which the waiter goroutine is live, has no enabled own step, and waits on
    nobody: in every state any run can reach from there it is still live and still has no enabled
    step (`stranded_forever`).  That *is* an internal deadlock. -/
theorem C05_internal_deadlock_on_pinned : ∃ s, Reach Skeleton.pinned s ∧
    Blocked Skeleton.pinned s (.waiter 0) ∧
    ∀ acts s', run Skeleton.pinned s acts = some s' → Blocked Skeleton.pinned s' (.waiter 0) := by
  let acts : List Act :=
    [.callStart 0 5 2 0, .callReceive 0, .callSpawn 0, .callWrite 0, .waiterRecvCall 0,
     .cancelLink, .callLinkCtx 0, .callRecover 0 eLinkCtx, .setErrClose 0, .setErrStore 0,
     .waiterGetsDone 0]
  have hw : (run Skeleton.pinned init acts).map
      (fun s => decide ((s.calls 0).pc = .returned ∧ s.waiters 0 = .have ⟨none, .closed⟩)) = some true := by
    decide
  cases hrun : run Skeleton.pinned init acts with
  | none => rw [hrun] at hw; simp at hw
  | some s =>
    rw [hrun] at hw
    simp only [Option.map_some, Option.some.injEq, decide_eq_true_eq] at hw
    obtain ⟨hpc, hwt⟩ := hw
    refine ⟨s, reach_of_run _ acts Reach.init hrun, stranded_blocked _ (by decide) 0 _ hpc hwt, ?_⟩
    have key : ∀ acts' (s1 s' : State), (s1.calls 0).pc = .returned → s1.waiters 0 = .have ⟨none, .closed⟩ →
        run Skeleton.pinned s1 acts' = some s' →
        (s'.calls 0).pc = .returned ∧ s'.waiters 0 = .have ⟨none, .closed⟩ := by
      intro acts'
      induction acts' with
      | nil => intro s1 s' h1 h2 h; simp [run, runFrom] at h; subst h; exact ⟨h1, h2⟩
      | cons a as ih =>
        intro s1 s' h1 h2 h
        simp only [run, runFrom] at h
        cases hs : step Skeleton.pinned s1 a with
        | none => simp [hs] at h
        | some s2 =>
          simp only [hs] at h
          obtain ⟨g1, g2⟩ := stranded_forever _ (by decide) a hs 0 _ h1 h2
          exact ih s2 s' g1 g2 h
    intro acts' s' h
    obtain ⟨g1, g2⟩ := key acts' s s' hpc hwt h
    exact stranded_blocked _ (by decide) 0 _ g1 g2

end Panrpc.Ep

#print axioms Panrpc.Ep.cur_prog
#print axioms Panrpc.Ep.C05_no_internal_deadlock
#print axioms Panrpc.Ep.C05_only_blocking_ops_block
#print axioms Panrpc.Ep.C05_setters_never_block
#print axioms Panrpc.Ep.C05_rendezvous_enabled
#print axioms Panrpc.Ep.C05_no_wait_cycle
#print axioms Panrpc.Ep.C05_blocked_waiter_waits_for_outside
#print axioms Panrpc.Ep.C05_waiter_woken_only_by
#print axioms Panrpc.Ep.C05_publisher_woken_only_by
#print axioms Panrpc.Ep.C05_blocked_publisher_waits_for_its_waiter
#print axioms Panrpc.Ep.C05_blocked_stub_waits_for_waiter_or_link
#print axioms Panrpc.Ep.C05_blocked_link_is_healthy
#print axioms Panrpc.Ep.C05_internal_deadlock_on_pinned
