/-
  Props/C05.lean — "No timing of completion, cancel, late responses or shutdown crashes…".

  Model: M2 with M1 embedded: every interleaving of stub, waiter, publisher (one per response
  frame, duplicates and late ones included), cancel, free, close, closure release, `setErr` and
  Link steps.  `crashed` is set by the crash-capable steps: M1's send on a closed channel and
  close of a closed channel (reached through the projection onto M1), and a panic that leaves
  the stub un-recovered.  (`C05_user_panic_contained` is about the callee side, outside M2.)
-/
import Panrpc.Lemmas.EndpointCurrent
import Panrpc.Pinned

namespace Panrpc.Ep
open Panrpc

/-- No reachable state of the endpoint is a crash — from M1's `NC` invariant through the
    projection lemma, plus: the stub recovers every panic on its own path. -/
theorem C05_no_crash : ∀ s, Reach Skeleton.current s → s.crashed = false ∧ s.bc.crashed = false :=
  fun _ h => ⟨reach_no_crash _ cur_recovers cur_hyg cur_nochanclose h,
              (reach_nc _ cur_hyg cur_nochanclose h).nocrash⟩

/-- Every reachable M2 state embeds a reachable M1 state (so all of C19's theorems apply to the
    link's pending-call table as used by the stubs). -/
theorem C05_projects_to_broadcaster : ∀ s, Reach Skeleton.current s → Bc.Reach Skeleton.current s.bc :=
  fun _ h => reach_bc _ h

/-- The table lock is never held across a blocking operation, so `Free`, `Close`, `Receive`
    and `Publish`'s lookup are never blocked by a parked thread. -/
theorem C05_lock_never_held_across_select : ∀ s, Reach Skeleton.current s → s.bc.lockHolder = none :=
  fun _ h => reach_lock_free _ cur_select_outside_lock h

/-! ### non-vacuity: the dangerous window, on the current tree: duplicate response, hand-off,
    free, and the second publisher standing at its select -/
example : (run Skeleton.current init
    [.callStart 0 5 2 0, .callReceive 0, .callSpawn 0, .callWrite 0, .waiterRecvCall 0,
     .respFrame 0 0 1 false, .respFrame 1 0 2 false, .pubLookup 0, .pubLookup 1,
     .waiterGetsValue 0 0, .waiterSend 0, .waiterFree 0]).map
    (fun s => decide (s.crashed = false ∧ s.bc.pubs 1 = .holding 0 2 0) &&
              (step Skeleton.current s (.pubSendClosed 1)).isNone &&
              (step Skeleton.current s (.pubCtx 1)).isSome) = some true := by decide

/-! ### the pinned tree violates the property (F1): same schedule, the process dies -/
theorem C05_fails_on_pinned : ∃ acts, (run Skeleton.pinned init acts).map (·.crashed) = some true :=
  ⟨[.callStart 0 5 2 0, .callReceive 0, .callSpawn 0, .callWrite 0, .waiterRecvCall 0,
    .respFrame 0 0 1 false, .respFrame 1 0 2 false, .pubLookup 0, .pubLookup 1,
    .waiterGetsValue 0 0, .waiterSend 0, .waiterFree 0, .pubSendClosed 1], by decide⟩

/-- "closure release": M2's `callReturn…` steps release the call's closures as part of the step.  In
    the source the release takes the closure table's mutex; `CallClosure` holds that mutex only for the
    look-up, never while the closure runs, and the table is touched by nothing else (checked against the
    regenerated skeleton) — so a release never waits for a running closure (no deadlock between a
    cancelled call and its own still-running closure, nor for a closure body that passes a closure on). -/
theorem C05_closure_release_never_waits_for_a_running_closure :
    Skeleton.current.clInvokeOutsideLock = true ∧ Skeleton.current.clLockIsMutex = true ∧
    Skeleton.current.clDeleteUnderLock = true ∧ Skeleton.current.clLookupUnderLock = true := by decide

/-- `utils.Call` is one reflect call under a deferred recover: nothing in it can wait and it touches no
    package-level state (checked against the regenerated skeleton) — handlers nest `utils.Call` (a handler
    invoking a closure), so anything acquired there and held across the call could exhaust and deadlock. -/
theorem C05_reflect_call_never_waits : Skeleton.current.ucNoWaiting = true ∧ Skeleton.current.stateGlobals = [] := by decide

end Panrpc.Ep

#print axioms Panrpc.Ep.C05_closure_release_never_waits_for_a_running_closure

#print axioms Panrpc.Ep.C05_no_crash
#print axioms Panrpc.Ep.C05_projects_to_broadcaster
#print axioms Panrpc.Ep.C05_lock_never_held_across_select
#print axioms Panrpc.Ep.C05_fails_on_pinned
#print axioms Panrpc.Ep.C05_reflect_call_never_waits
