/-
  Props/C05.lean — "No timing of completion, cancel, late responses or shutdown crashes…".

  Model: M2 with M1 embedded: every interleaving of stub, waiter, publisher (one per response
  frame, duplicates and late ones included), cancel, free, close, closure release, `setErr` and
  Link steps.  `crashed` is set by the crash-capable steps: M1's send on a closed channel and
  close of a closed channel (reached through the projection onto M1), and a panic that leaves
  the stub un-recovered.  (`C05_user_panic_contained` is about the callee side, outside M2.)
-/
import Panrpc.Lemmas.EndpointCurrent
import Panrpc.Pinned

namespace Panrpc.Ep
open Panrpc

/-- No reachable state of the endpoint is a crash — from M1's `NC` invariant through the
    projection lemma, plus: the stub recovers every panic on its own path. -/
theorem C05_no_crash : ∀ s, Reach Skeleton.current s → s.crashed = false ∧ s.bc.crashed = false :=
  fun _ h => ⟨reach_no_crash _ cur_recovers cur_hyg cur_nochanclose h,
              (reach_nc _ cur_hyg cur_nochanclose h).nocrash⟩

/-- Every reachable M2 state embeds a reachable M1 state (so all of C19's theorems apply to the
    link's pending-call table as used by the stubs). -/
theorem C05_projects_to_broadcaster : ∀ s, Reach Skeleton.current s → Bc.Reach Skeleton.current s.bc :=
  fun _ h => reach_bc _ h

/-- The table lock is never held across a blocking operation, so `Free`, `Close`, `Receive`
    and `Publish`'s lookup are never blocked by a parked thread. -/
theorem C05_lock_never_held_across_select : ∀ s, Reach Skeleton.current s → s.bc.lockHolder = none :=
  fun _ h => reach_lock_free _ cur_select_outside_lock h

/-! ### non-vacuity: the dangerous window, on the current tree: duplicate response, hand-off,
    free, and the second publisher standing at its select -/
example : (run Skeleton.current init
    [.callStart 0 5 2 0, .callReceive 0, .callSpawn 0, .callWrite 0, .waiterRecvCall 0,
     .respFrame 0 0 1 false, .respFrame 1 0 2 false, .pubLookup 0, .pubLookup 1,
     .waiterGetsValue 0 0, .waiterSend 0, .waiterFree 0]).map
    (fun s => decide (s.crashed = false ∧ s.bc.pubs 1 = .holding 0 2 0) &&
              (step Skeleton.current s (.pubSendClosed 1)).isNone &&
              (step Skeleton.current s (.pubCtx 1)).isSome) = some true := by decide

/-! ### the pinned tree violates the property (F1): same schedule, the process dies -/
theorem C05_fails_on_pinned : ∃ acts, (run Skeleton.pinned init acts).map (·.crashed) = some true :=
  ⟨[.callStart 0 5 2 0, .callReceive 0, .callSpawn 0, .callWrite 0, .waiterRecvCall 0,
    .respFrame 0 0 1 false, .respFrame 1 0 2 false, .pubLookup 0, .pubLookup 1,
    .waiterGetsValue 0 0, .waiterSend 0, .waiterFree 0, .pubSendClosed 1], by decide⟩

/-- "closure release": M2's `callReturn…` steps release the call's closures as part of the step.  In
    the source the release takes the closure table's mutex; `CallClosure` holds that mutex only for the
    look-up, never while the closure runs, and the table is touched by nothing else (checked against the
    regenerated skeleton) — so a release never waits for a running closure (no deadlock between a
    cancelled call and its own still-running closure, nor for a closure body that passes a closure on). -/
theorem C05_closure_release_never_waits_for_a_running_closure :
    Skeleton.current.clInvokeOutsideLock = true ∧ Skeleton.current.clLockIsMutex = true ∧
    Skeleton.current.clDeleteUnderLock = true ∧ Skeleton.current.clLookupUnderLock = true := by decide

/-- The same, as a property of the model (M2 has the mutex as `clLock` and the bodies of invoked closures
    as `running`; a hit of `closureInvoke` keeps the mutex across the body iff `clInvokeOutsideLock` is
    false): on the current tree the mutex is free in every reachable state — it is never held from one
    step to the next, however many closure bodies are running. -/
theorem C05_closure_lock_never_held_across_a_body : ∀ s, Reach Skeleton.current s → s.clLock = none :=
  fun _ h => reach_cl_free _ cur_invoke_outside_lock h

/-- Hence the release step of a call is never disabled by a running closure: whenever a call stands
    before its return — normal (`decoded`) or panicking, e.g. after its context was cancelled or the
    link ended — the return step is enabled, the call is `returned` after it and every closure it had
    passed is out of the table; nothing is assumed about `s.running` (the call's own closures may be
    running at that moment: see the example below). -/
theorem C05_release_never_disabled_by_a_running_closure : ∀ s, Reach Skeleton.current s → ∀ c,
    ((s.calls c).pc = .decoded →
      ∃ s', step Skeleton.current s (.callReturnOk c) = some s' ∧ (s'.calls c).pc = .returned ∧
        ∀ id, id ∈ (s.calls c).closures → s'.closures id = false) ∧
    (∀ e, (s.calls c).pc = .panicking e →
      ∃ s', step Skeleton.current s (.callRecover c e) = some s' ∧ (s'.calls c).pc = .returned ∧
        ∀ id, id ∈ (s.calls c).closures → s'.closures id = false) := by
  intro s h c
  have hd : Skeleton.current.stubClosureFreeDeferred = true := by decide
  refine ⟨fun hp => ⟨_, callReturnOk_enabled _ cur_live h c hp, by simp, ?_⟩,
          fun e hp => ⟨_, callRecover_enabled _ cur_live h c e hp, by simp, ?_⟩⟩ <;>
    (intro id hm; simp [freeClosures, hd, hm])

/-- the prefix of the witnesses below: call 0 passes closure 0 and is in flight, the peer invokes the
    closure (thread 9: a hit, the body is running), the caller's context is cancelled and call 0 gets as
    far as its return (`decoded`, outcome: the context error) -/
def cancelWhileClosureRuns : List Act :=
  [.callStart 0 5 2 1, .callReceive 0, .callSpawn 0, .callWrite 0, .waiterRecvCall 0,
   .closureInvoke 9 0, .ctxCancel 5, .ctxPropagate 0,
   .waiterGetsCtx 0, .waiterSend 0, .waiterFree 0, .callTakeRes 0 false]

/-- …and the link ends instead (panic path): call 0 is `panicking eLinkCtx`, before `callRecover` -/
def linkEndsWhileClosureRuns : List Act :=
  [.callStart 0 5 2 1, .callReceive 0, .callSpawn 0, .callWrite 0, .waiterRecvCall 0,
   .closureInvoke 9 0, .cancelLink, .callLinkCtx 0]

/-- non-vacuity of `C05_release_never_disabled_by_a_running_closure`, on the current tree: the body of
    call 0's closure is running, nobody holds the mutex, the return is enabled on both paths -/
example : (run Skeleton.current init cancelWhileClosureRuns).map
    (fun s => decide (s.invokes = [⟨9, 0, true⟩] ∧ s.running 9 = some 0 ∧ s.clLock = none ∧
                      (s.calls 0).pc = .decoded ∧ (s.calls 0).outcome = .ok ⟨none, .ctxErr⟩ ∧
                      (step Skeleton.current s (.callReturnOk 0)).isSome = true)) = some true := by decide
example : (run Skeleton.current init linkEndsWhileClosureRuns).map
    (fun s => decide (s.running 9 = some 0 ∧ s.clLock = none ∧ (s.calls 0).pc = .panicking eLinkCtx ∧
                      (step Skeleton.current s (.callRecover 0 eLinkCtx)).isSome = true)) = some true := by decide

/-- What the fact protects against, as a behaviour of the model: on the current tree with that ONE fact
    flipped (`CallClosure`: `Lock(); defer Unlock()`), after the very same steps the invoking thread 9
    holds the mutex across the body of closure 0.  The cancelled call 0 has its result (the context
    error) but cannot return: `callReturnOk 0` — the deferred `freeClosure()` — is NOT enabled while the
    body runs, and becomes enabled only once the body has returned (`closureBodyDone 9`).  Likewise on
    the panic path (the link ended): `callRecover 0 eLinkCtx` is not enabled, so the error is not even
    reported to `setErr`, until the body returns.  A cancelled call waits for user code of unbounded
    duration; if that body itself waits for the call's return (or makes a closure-carrying call, see
    `C02_lock_held_across_closure_blocks_other_calls`), this is a deadlock. -/
theorem C05_lock_held_across_closure_blocks_release :
    (run skLockAcrossClosure init cancelWhileClosureRuns).map
      (fun s => decide (s.invokes = [⟨9, 0, true⟩] ∧ s.running 9 = some 0 ∧ s.clLock = some 9 ∧
                        (s.calls 0).pc = .decoded ∧ (s.calls 0).outcome = .ok ⟨none, .ctxErr⟩ ∧
                        (step skLockAcrossClosure s (.callReturnOk 0)).isSome = false)) = some true ∧
    (run skLockAcrossClosure init (cancelWhileClosureRuns ++ [.closureBodyDone 9])).map
      (fun s => decide (s.running 9 = none ∧ s.clLock = none ∧
                        (step skLockAcrossClosure s (.callReturnOk 0)).isSome = true)) = some true ∧
    (run skLockAcrossClosure init linkEndsWhileClosureRuns).map
      (fun s => decide (s.clLock = some 9 ∧ (s.calls 0).pc = .panicking eLinkCtx ∧
                        (step skLockAcrossClosure s (.callRecover 0 eLinkCtx)).isSome = false)) = some true ∧
    (run skLockAcrossClosure init (linkEndsWhileClosureRuns ++ [.closureBodyDone 9])).map
      (fun s => decide ((step skLockAcrossClosure s (.callRecover 0 eLinkCtx)).isSome = true)) = some true := by
  refine ⟨?_, ?_, ?_, ?_⟩ <;> decide

/-- The same for a release that WAITS for running invocations (`clFreeNeverWaits` flipped): the mutex is free, yet
    the cancelled call (normal path) and the call whose link ended (panic path) cannot return while the peer's
    handler is inside the closure — and can as soon as the body is done.  On the panic path the stub has not
    reached `setErr` yet: `Link` keeps blocking on a dead link and a LATER failure is stored first. -/
theorem C05_release_that_waits_blocks_the_call :
    (run skFreeWaits init cancelWhileClosureRuns).map
      (fun s => decide (s.running 9 = some 0 ∧ s.clLock = none ∧ (s.calls 0).pc = .decoded ∧
                        (step skFreeWaits s (.callReturnOk 0)).isSome = false ∧
                        (step Skeleton.current s (.callReturnOk 0)).isSome = true)) = some true ∧
    (run skFreeWaits init (cancelWhileClosureRuns ++ [.closureBodyDone 9])).map
      (fun s => decide ((step skFreeWaits s (.callReturnOk 0)).isSome = true)) = some true ∧
    (run skFreeWaits init linkEndsWhileClosureRuns).map
      (fun s => decide (s.clLock = none ∧ (s.calls 0).pc = .panicking eLinkCtx ∧ s.fatalLog = [] ∧
                        (step skFreeWaits s (.callRecover 0 eLinkCtx)).isSome = false ∧
                        (step Skeleton.current s (.callRecover 0 eLinkCtx)).isSome = true)) = some true ∧
    (run skFreeWaits init (linkEndsWhileClosureRuns ++ [.closureBodyDone 9])).map
      (fun s => decide ((step skFreeWaits s (.callRecover 0 eLinkCtx)).isSome = true)) = some true := by
  refine ⟨?_, ?_, ?_, ?_⟩ <;> decide

/-- "…any number of times, also concurrently": with the closure's wrapper itself in the table two threads are inside
    the SAME closure at once; with a serialising wrapper around it (`clStoresCreatedClosure` flipped) the second
    invocation is not let in while the first one runs — if the first waits for the second (a rendezvous, a chain that
    re-enters the closure) that is a deadlock inside panrpc — and is let in once the first body is done. -/
theorem C05_serialised_closure_keeps_the_second_invocation_out :
    (run Skeleton.current init [.callStart 0 5 2 1, .callReceive 0, .callSpawn 0, .callWrite 0, .waiterRecvCall 0,
                                .closureInvoke 9 0, .closureInvoke 8 0]).map
      (fun s => decide (s.running 9 = some 0 ∧ s.running 8 = some 0)) = some true ∧
    (run skSerialisedClosure init [.callStart 0 5 2 1, .callReceive 0, .callSpawn 0, .callWrite 0, .waiterRecvCall 0,
                                   .closureInvoke 9 0]).map
      (fun s => decide (s.running 9 = some 0 ∧ (step skSerialisedClosure s (.closureInvoke 8 0)).isSome = false)) = some true ∧
    (run skSerialisedClosure init [.callStart 0 5 2 1, .callReceive 0, .callSpawn 0, .callWrite 0, .waiterRecvCall 0,
                                   .closureInvoke 9 0, .closureBodyDone 9]).map
      (fun s => decide ((step skSerialisedClosure s (.closureInvoke 8 0)).isSome = true)) = some true := by
  refine ⟨?_, ?_, ?_⟩ <;> decide

/-- `utils.Call` is one reflect call under a deferred recover: nothing in it can wait and it touches no
    package-level state (checked against the regenerated skeleton) — handlers nest `utils.Call` (a handler
    invoking a closure), so anything acquired there and held across the call could exhaust and deadlock. -/
theorem C05_reflect_call_never_waits : Skeleton.current.ucNoWaiting = true ∧ Skeleton.current.stateGlobals = [] := by decide

/-- Panics on the stub's, the proxy's and the handler goroutine's own path are recovered, converted and
    reported in the canonical way (see `C03_recover_blocks_canonical`). -/
theorem C05_recover_blocks_canonical : Skeleton.current.recoverBlocksCanonical = true := by decide

/-- The release function `registerClosure` returns runs DEFERRED on every exit path of a closure-carrying call; it only locks, deletes and unlocks — no wait, channel operation or select (checked against the regenerated skeleton) — and the lock it takes is not held while a closure body runs. -/
theorem C05_closure_release_never_waits :
    Skeleton.current.clFreeNeverWaits = true ∧ Skeleton.current.clInvokeOutsideLock = true := by decide

/-- `Receive` fails only on a closed table — a context that is done already is registered and reported through the receive function, to that one caller — and the stub panics only on failures of the link (both checked against the regenerated skeleton; `utils/broadcaster.go` is outside this property's anchors). Otherwise a handler that invokes a callable (or makes any call) with a context of its own that has expired ends the link. -/
theorem C05_expired_context_at_call_time_is_not_fatal :
    Skeleton.current.bcReceiveErrorsOnlyClosed = true ∧ Skeleton.current.panicSitesCanonical = true := by decide

end Panrpc.Ep

#print axioms Panrpc.Ep.C05_closure_release_never_waits_for_a_running_closure
#print axioms Panrpc.Ep.C05_closure_lock_never_held_across_a_body
#print axioms Panrpc.Ep.C05_release_never_disabled_by_a_running_closure
#print axioms Panrpc.Ep.C05_lock_held_across_closure_blocks_release
#print axioms Panrpc.Ep.C05_release_that_waits_blocks_the_call
#print axioms Panrpc.Ep.C05_serialised_closure_keeps_the_second_invocation_out

#print axioms Panrpc.Ep.C05_no_crash
#print axioms Panrpc.Ep.C05_projects_to_broadcaster
#print axioms Panrpc.Ep.C05_lock_never_held_across_select
#print axioms Panrpc.Ep.C05_fails_on_pinned
#print axioms Panrpc.Ep.C05_reflect_call_never_waits
#print axioms Panrpc.Ep.C05_recover_blocks_canonical
#print axioms Panrpc.Ep.C05_closure_release_never_waits
#print axioms Panrpc.Ep.C05_expired_context_at_call_time_is_not_fatal
