/-
  Props/C11.lean — "A closure argument runs on the caller's side with the callee's arguments"
  (value part: what the caller's function receives, and what comes back to the invocation).

  Model: P4 (Model/Convert.lean): `convertValue`, the wrapper returned by `createClosure` as
  called by `CallClosure`, the result half of the closure proxy, and the generic decoders'
  image of the supported values (JSON: every number a float64; CBOR: uint64 / int64 / float64;
  both: arrays as `[]interface{}`, null as nil).  The "exactly once, concurrently, either
  direction" part of C11 is proved over M3 elsewhere.

  All theorems are about `Skeleton.current`, i.e. the facts regenerated from /repo on this run.
  The LAST section holds the two statements that need the F3 repair (`cvHandlesInvalid`): they
  do not type-check against the pinned tree — that is the finding, see
  `C11_nil_arg_panics_on_pinned`.
-/
import Panrpc.Lemmas.Convert
import Panrpc.Generated.Current
import Panrpc.Pinned

namespace Panrpc.Cv
open Panrpc

/-! ### the source facts these theorems rest on -/

theorem cur_shape : CvShape Skeleton.current := ⟨by decide, by decide, by decide⟩
theorem cur_fallback : Skeleton.current.cvFallbackError = true := by decide
theorem cur_count_checked : Skeleton.current.clArgCountChecked = true := by decide
theorem cur_call_recovered :
    (Skeleton.current.clCallViaUtilsCall && Skeleton.current.ucRecovers) = true := by decide

/-! ### C11, argument direction -/

/-- The function receives exactly the values the callee supplied, in order, as values of its
    declared parameter types: for every list of well-typed supported values (numbers, booleans,
    strings, slices of those, nested slices; zero and empty values included), under either
    generic decoder, the wrapper reaches the function, once, with `vals.map embed`.
    Nil slices are covered as soon as the source has the invalid-source guard (the hypothesis
    `cvHandlesInvalid || nilFree` is then true for every value; see the last section). -/
theorem C11_args_converted (c : Codec) (vals : List TVal)
    (h : ∀ v, v ∈ vals → v.wt = true ∧ (Skeleton.current.cvHandlesInvalid || v.nilFree) = true) :
    wrapper Skeleton.current (vals.map TVal.ty) (vals.map (genericOf c)) = .ran (vals.map TVal.embed) :=
  wrapper_generic _ cur_shape c vals h

/-- `C11_convert_total`, the part that holds on every tree: a source value with no nil anywhere
    inside (no zero Value, no nil interface element) never makes `convertValue` panic, whatever
    the destination type.
    Full statement (last section): `∀ g τ, convertValue Skeleton.current g τ ≠ .panic`.
    Missing here: sources that are / contain nil. -/
theorem C11_convert_total_partial (g : GVal) (τ : Ty) (h : g.noInvalid = true) :
    convertValue Skeleton.current g τ ≠ .panic :=
  convertValue_ne_panic_of_noInvalid _ g τ h

/-- A wrong number of arguments is the ordinary error `ErrInvalidArgsCount`: nothing is
    converted, the function does not run, nothing panics. -/
theorem C11_arg_count_mismatch_is_error_not_panic (tys : List Ty) (args : List GVal)
    (h : args.length ≠ tys.length) :
    wrapper Skeleton.current tys args = .errResult .argsCount :=
  wrapper_count_mismatch _ cur_count_checked tys args h

/-- An argument whose (valid) value cannot be converted to the declared type — e.g. a string
    for an `int`, a number for a `bool`, a scalar for a slice, a map for a struct — makes the
    wrapper return `ErrInvalidArg` when the arguments before it converted; the function does
    not run and nothing panics. -/
theorem C11_inconvertible_is_error_not_panic
    (tpre : List Ty) (pre : List GVal) (τ : Ty) (a : GVal) (tpost : List Ty) (post : List GVal)
    (hl : pre.length = tpre.length) (hl' : post.length = tpost.length)
    (hp : ∀ p, p ∈ pre → ∀ σ, ∃ v, convertValue Skeleton.current p σ = .ok v)
    (hv : a.isInvalid = false) (hi : a.kind ≠ .iface)
    (hsl : τ.elem? = none ∨ (a.kind ≠ .sliceIface ∧ a.kind ≠ .sliceTyped))
    (hc : convertible a.kind τ = false) :
    wrapper Skeleton.current (tpre ++ τ :: tpost) (pre ++ a :: post) = .errResult .arg :=
  wrapper_err_at _ tpre pre τ a tpost post hl hl' hp
    (convertValue_err_of_inconvertible _ cur_fallback a τ hv hi hsl hc)

/-- Whatever the declared types and however many arguments: if no argument is or contains a
    nil, no panic leaves the wrapper (the outcome is a run or an ordinary error result). -/
theorem C11_valid_args_never_panic (tys : List Ty) (args : List GVal)
    (h : ∀ a, a ∈ args → a.noInvalid = true) :
    wrapper Skeleton.current tys args ≠ .panicOut :=
  wrapper_ne_panicOut_of_noInvalid _ cur_count_checked tys args h

/-- The wrapper hands the function's result value and error back unchanged (the value also
    when the error is non-nil); a panic of the function is recovered by `utils.Call` and
    becomes an error result. -/
theorem C11_wrapper_hands_back (v : GVal) (e : Option String) :
    wrapperReturn Skeleton.current (.ret2 v e) = some { value := some v, err := e } ∧
    wrapperReturn Skeleton.current (.ret1 e) = some { value := none, err := e } ∧
    wrapperReturn Skeleton.current .panicked = some { value := none, err := none, recoveredPanic := true } := by
  refine ⟨rfl, rfl, ?_⟩
  simp [wrapperReturn, cur_call_recovered]

/-! ### C11, result direction (the proxy on the callee's side)

`proxyResult sk true ρ el`: `true` = the `el.IsValid()` guard is present (not yet a
`Skeleton` fact; see the report). -/

/-- A supported result value arrives converted to the proxy's declared result type; a nil
    slice result (and a nil result in general) leaves the zero value; this direction does not
    panic — none of this needs the F3 repair.  (`innerNilFree`: a nil slice *inside* a slice of
    slices is outside this statement unless the repair is in.) -/
theorem C11_result_back (c : Codec) (v : TVal) (hw : v.wt = true)
    (hn : (Skeleton.current.cvHandlesInvalid || v.innerNilFree) = true) :
    proxyResult Skeleton.current true v.ty (genericOf c v) = .ok v.embed :=
  proxyResult_generic _ cur_shape c v hw hn

theorem C11_result_back_nil (ρ : Ty) :
    proxyResult Skeleton.current true ρ .invalid = .ok (zeroOf ρ) :=
  proxyResult_nil _ ρ

theorem C11_result_back_never_panics (ρ : Ty) (el : GVal)
    (h : el = .invalid ∨ el.noInvalid = true) :
    proxyResult Skeleton.current true ρ el ≠ .panic :=
  proxyResult_ne_panic _ ρ el h

/-! ### the pinned tree: finding F3 -/

/-- `convertValue(reflect.ValueOf(nil), []string)` panics (`.Type()` on the zero Value) … -/
theorem C11_nil_arg_panics_on_pinned :
    convertValue Skeleton.pinned .invalid (.slice .string) = .panic := by decide

/-- … and so the panic leaves the wrapper, for `cb(ctx, nil, 0)` with
    `cb func(ctx, []string, int)`: the function does not run; the nil slice is the JSON (and
    CBOR) image of the supported value `[]string(nil)`. -/
theorem C11_nil_arg_panics_on_pinned_wrapper :
    wrapper Skeleton.pinned [.slice .string, .int] [.invalid, .float 0] = .panicOut ∧
    [TVal.slice .string true [], TVal.int 0].map (genericOf .json) = [.invalid, .float 0] ∧
    [TVal.slice .string true [], TVal.int 0].map TVal.ty = [.slice .string, .int] := by decide

/-- The same input with the guard added to the pinned skeleton: the function runs with a
    zero-length slice and 0 (the repair is enough). -/
theorem C11_nil_arg_ok_with_guard :
    wrapper { Skeleton.pinned with cvHandlesInvalid := true } [.slice .string, .int] [.invalid, .float 0]
      = .ran [.slice false [], .int 0] := by decide

/-! ### non-vacuity -/

/-- concrete supported values: zero, empty and negative values, a nested slice -/
def sampleVals : List TVal :=
  [.bool false, .int (-7), .uint 0, .float 3, .string "", .string "héllo",
   .slice .string false [], .slice .int false [.int 1, .int (-2), .int 0],
   .slice (.slice .uint) false [.slice .uint false [.uint 5], .slice .uint false []]]

example : ∀ v, v ∈ sampleVals → v.wt = true ∧ (Skeleton.current.cvHandlesInvalid || v.nilFree) = true := by
  decide

example : sampleVals.map (genericOf .json) =
    [.bool false, .float (-7), .float 0, .float 3, .string "", .string "héllo",
     .slice true [], .slice true [.iface (.float 1), .iface (.float (-2)), .iface (.float 0)],
     .slice true [.iface (.slice true [.iface (.float 5)]), .iface (.slice true [])]] := by decide

example : wrapper Skeleton.current (sampleVals.map TVal.ty) (sampleVals.map (genericOf .json))
    = .ran (sampleVals.map TVal.embed) := by decide

example : wrapper Skeleton.current (sampleVals.map TVal.ty) (sampleVals.map (genericOf .cbor))
    = .ran (sampleVals.map TVal.embed) := by decide

example : (sampleVals.map (genericOf .cbor)).take 3 = [.bool false, .int (-7), .uint 0] := by decide

-- arity mismatch, both ways
example : wrapper Skeleton.current [.int, .string] [.float 1] = .errResult .argsCount := by decide
example : wrapper Skeleton.current [.int] [.float 1, .string "x"] = .errResult .argsCount := by decide

-- inconvertible: a string for an int (second position), a bool for a float, a number for a slice
example : wrapper Skeleton.current [.int, .int] [.float 1, .string "x"] = .errResult .arg := by decide
example : wrapper Skeleton.current [.float] [.bool true] = .errResult .arg := by decide
example : wrapper Skeleton.current [.slice .int] [.float 1] = .errResult .arg := by decide
example : wrapper Skeleton.current [.slice .int] [.slice true [.iface (.float 1), .iface (.string "x")]]
    = .errResult .arg := by decide
example : wrapper Skeleton.current [.other] [.other] = .errResult .arg := by decide
-- the hypotheses of `C11_inconvertible_is_error_not_panic` are satisfiable
example : (GVal.string "x").isInvalid = false ∧ (GVal.string "x").kind ≠ .iface ∧
    Ty.int.elem? = none ∧ convertible (GVal.string "x").kind .int = false := by decide

-- `interface{}` parameters keep the generic value; integer → string is Go's rune conversion
example : convertValue Skeleton.current (.float 3) .anyIface = .ok (.iface (.float 3)) := by decide
example : convertValue Skeleton.current (.int 65) .string = .ok .other := by decide
example : convertValue Skeleton.current (.float 65) .string = .err := by decide

-- result direction: a value, a nil slice, a nil result for every type class
example : proxyResult Skeleton.current true (.slice .int) (genericOf .json (.slice .int false [.int 4]))
    = .ok (.slice false [.int 4]) := by decide
example : proxyResult Skeleton.current true (.slice .int) (genericOf .json (.slice .int true []))
    = .ok (.slice false []) := by decide
example : proxyResult Skeleton.current true .string .invalid = .ok (.string "") := by decide
-- without the guard the nil result would hit the same panic as the argument direction
example : proxyResult Skeleton.pinned false .string .invalid = .panic := by decide
-- a nil inside a decoded result (`[null]` for `[][]int`) is the one way this direction panics on the pinned tree
example : proxyResult Skeleton.pinned true (.slice (.slice .int)) (.slice true [.iface .invalid]) = .panic := by
  decide

/-! ### needs the F3 repair (`cvHandlesInvalid = true`): does not type-check on the pinned tree -/

/-- `C11_args_converted` with nil slices included, no side condition. -/
theorem C11_args_converted_nil_included (c : Codec) (vals : List TVal) (h : ∀ v, v ∈ vals → v.wt = true) :
    wrapper Skeleton.current (vals.map TVal.ty) (vals.map (genericOf c)) = .ran (vals.map TVal.embed) :=
  wrapper_generic _ cur_shape c vals
    (fun v hv => ⟨h v hv, by rw [show Skeleton.current.cvHandlesInvalid = true by decide]; rfl⟩)

/-- `convertValue` has no panic outcome at all (nil included, at any depth). -/
theorem C11_convert_total (g : GVal) (τ : Ty) : convertValue Skeleton.current g τ ≠ .panic :=
  convertValue_ne_panic_of_handles _ (by decide) g τ

/-- … hence no panic leaves the wrapper, whatever it is called with. -/
theorem C11_wrapper_total (tys : List Ty) (args : List GVal) :
    wrapper Skeleton.current tys args ≠ .panicOut :=
  wrapper_ne_panicOut_of_handles _ cur_count_checked (by decide) tys args

/-- The proxy side of the model (`proxyResult … guarded := true`, one argument list per invocation) is
    what the source does: the result is converted exactly when it is valid, and the `[]interface{}` list
    of an invocation is built inside the per-invocation function, so concurrent invocations of one
    closure never share it (checked against the regenerated skeleton). -/
theorem C11_proxy_matches_source :
    Skeleton.current.pxResultChecksValid = true ∧ Skeleton.current.pxArgsFreshPerInvocation = true := by decide

/-- Each callable the handler receives stands for the caller's function AT THAT ARGUMENT POSITION: the
    proxy decodes the closure id from its own position into a variable of the per-invocation literal and
    builds the `CallClosure` stub there (checked against the regenerated skeleton) — nothing is shared
    between two function-typed parameters of one call, between concurrent invocations, or between links. -/
theorem C11_each_callable_is_its_own_closure :
    Skeleton.current.pxClosureIdPerInvocation = true ∧ Skeleton.current.pxArgsFreshPerInvocation = true := by decide

/-- "…any number of times, also concurrently": `CallClosure` looks the closure up under the table's
    (plain) mutex and releases it BEFORE running the caller's function, and the table is touched only by
    register / look-up / release (checked against the regenerated skeleton).  So concurrent invocations
    run concurrently (they can wait for each other), and the function's body may itself make a
    closure-carrying call (which registers a closure, i.e. takes the same mutex) without deadlocking. -/
theorem C11_invocations_run_outside_the_table_lock :
    Skeleton.current.clInvokeOutsideLock = true ∧ Skeleton.current.clLockIsMutex = true ∧
    Skeleton.current.clLookupUnderLock = true := by decide

/-- The wrapper's result is what the caller's function returned. `utils.Call` hands back exactly what the function returned — `out = fn.Call(in)` is the only write to its result list (checked against the regenerated skeleton; `utils/call.go` is not among this property's anchors, yet every handler's and every closure's results pass through it). -/
theorem C11_results_pass_through_utils_call :
    Skeleton.current.ucResultsUntouched = true := by decide

/-- `C11_args_converted` is about a wrapper that applies `convertValue` to EVERY element of the decoded list, and the table holds that wrapper itself (checked against the regenerated skeleton). -/
theorem C11_every_argument_is_converted :
    Skeleton.current.clConvertsEveryArg = true ∧ Skeleton.current.clStoresCreatedClosure = true := by decide

/-- `Receive` fails only on a closed table — a context that is done already is registered and reported through the receive function, to that one caller — and the stub panics only on failures of the link (both checked against the regenerated skeleton; `utils/broadcaster.go` is outside this property's anchors). Otherwise a handler that invokes a callable (or makes any call) with a context of its own that has expired ends the link: every other invocation — running or later, with a perfectly live context — then fails with `closed` and the caller's function never runs for it. -/
theorem C11_an_invocation_with_an_expired_context_fails_alone :
    Skeleton.current.bcReceiveErrorsOnlyClosed = true ∧ Skeleton.current.panicSitesCanonical = true := by decide

end Panrpc.Cv

#print axioms Panrpc.Cv.C11_invocations_run_outside_the_table_lock
#print axioms Panrpc.Cv.C11_each_callable_is_its_own_closure
#print axioms Panrpc.Cv.C11_args_converted
#print axioms Panrpc.Cv.C11_convert_total_partial
#print axioms Panrpc.Cv.C11_arg_count_mismatch_is_error_not_panic
#print axioms Panrpc.Cv.C11_inconvertible_is_error_not_panic
#print axioms Panrpc.Cv.C11_valid_args_never_panic
#print axioms Panrpc.Cv.C11_wrapper_hands_back
#print axioms Panrpc.Cv.C11_result_back
#print axioms Panrpc.Cv.C11_result_back_nil
#print axioms Panrpc.Cv.C11_result_back_never_panics
#print axioms Panrpc.Cv.C11_nil_arg_panics_on_pinned
#print axioms Panrpc.Cv.C11_nil_arg_panics_on_pinned_wrapper
#print axioms Panrpc.Cv.C11_nil_arg_ok_with_guard
#print axioms Panrpc.Cv.C11_args_converted_nil_included
#print axioms Panrpc.Cv.C11_convert_total
#print axioms Panrpc.Cv.C11_wrapper_total
#print axioms Panrpc.Cv.C11_proxy_matches_source
#print axioms Panrpc.Cv.C11_results_pass_through_utils_call
#print axioms Panrpc.Cv.C11_every_argument_is_converted
#print axioms Panrpc.Cv.C11_an_invocation_with_an_expired_context_fails_alone
