/-
  Props/C13.lean — "With any number of links on one registry, the identifier a handler reads
  from its context is the one under which that link's remote is enumerated and was announced on
  connect, and a call made through a given remote is delivered only to that link's peer, its
  response returning only to that caller.  The failure or cancellation of one link leaves calls
  in flight on every other link unaffected."

  Model: M4 (Model/Registry.lean): one registry, any number of links, every interleaving.
  All theorems are about `Skeleton.current`.  Ghost histories: `s.invocations` (a handler was
  entered on `link`, `GetRemoteID(ctx)` yields `rid` there), `s.written` (a call through the
  remote of link `via` wrote its request with the writer of link `writer` and waits in pending-call
  table `table`), `s.delivered` (a response read by the response loop of link `reader` completed a
  call made through the remote of link `caller`).  Within one link, which call a response goes to
  is C01 (M2).
-/
import Panrpc.Lemmas.RegistryCurrent

namespace Panrpc.Rg
open Panrpc

/-- Every handler invocation on link `v.link` reads an id `i` from its context that is: the
    `remoteID` of that link; the argument of that link's registry-wide and own connect events;
    the ONLY key under which that link's remote is ever enumerated, and the key under which it IS
    enumerated until its disconnect event; and the id of no other link. -/
theorem C13_identity_consistent : ∀ s, Reach Skeleton.current s →
    ∀ v, v ∈ s.invocations →
    ∃ i, v.rid = some i ∧ (s.links v.link).id = some i ∧
      ⟨.regConnect, v.link, i⟩ ∈ s.hookLog ∧ ⟨.linkConnect, v.link, i⟩ ∈ s.hookLog ∧
      (∀ j, s.remotes j = some v.link → j = i) ∧
      (⟨.regDisconnect, v.link, i⟩ ∉ s.hookLog → s.remotes i = some v.link) ∧
      (∀ l', (s.links l').id = some i → l' = v.link) :=
  identity_consistent cur_facts

/-- distinct links have distinct ids (`C13_ids_distinct` of the design) -/
theorem C13_ids_distinct : ∀ s, Reach Skeleton.current s →
    ∀ l l' i, (s.links l).id = some i → (s.links l').id = some i → l = l' :=
  fun s hr => (ids_fresh cur_facts s hr).1

/-- A call through the remote of link `l` writes its request only with `l`'s writer and waits
    only in `l`'s own pending-call table; a response read on link `l` only ever completes a call
    that was made through `l`'s remote. -/
theorem C13_routing : ∀ s, Reach Skeleton.current s →
    (∀ w, w ∈ s.written → w.writer = w.via ∧ w.table = some w.via) ∧
    (∀ d, d ∈ s.delivered → d.caller = d.reader) :=
  routing cur_facts

/-- Frame lemma.  For `l' ≠ l`, EVERY action `a` of link `l` — fatal errors, cancellation, failing
    reads, bad frames, teardown included —
    (1) leaves `l'`'s component unchanged (its pcs, its id, its calls in flight, its pending-call
        table and fatal slot, its handler backlog);
    (2) leaves every table entry owned by `l'` unchanged;
    (3) changes neither the enabledness nor the effect on `l'`'s component of any action `b` of
        `l'` (`Option.map` equality: `none` = not enabled) — except that when both are the
        registration step, `l'` draws a different fresh id;
    (4) in that one case too, enabledness and the effect up to the id are unchanged. -/
theorem C13_isolation : ∀ s, Reach Skeleton.current s →
    ∀ (l l' : Nat) (a : Op) (s1 : State), l' ≠ l → step Skeleton.current s ⟨l, a⟩ = some s1 →
    s1.links l' = s.links l' ∧
    (∀ i, s1.remotes i = some l' ↔ s.remotes i = some l') ∧
    (∀ b, ¬(a = .setupRegister ∧ b = .setupRegister) →
      (step Skeleton.current s1 ⟨l', b⟩).map (fun t => t.links l') =
      (step Skeleton.current s ⟨l', b⟩).map (fun t => t.links l')) ∧
    (∀ b, (step Skeleton.current s1 ⟨l', b⟩).map (fun t => (t.links l').eraseId) =
          (step Skeleton.current s ⟨l', b⟩).map (fun t => (t.links l').eraseId)) :=
  isolation cur_facts

/-- The commuting-square form: whatever `l'` could do before `l`'s action it can do after it, with
    the same effect on its own component and on the table entries it owns. -/
theorem C13_isolation_commute : ∀ s, Reach Skeleton.current s →
    ∀ (l l' : Nat) (a b : Op) (s1 s2 : State), l' ≠ l →
    ¬(a = .setupRegister ∧ b = .setupRegister) →
    step Skeleton.current s ⟨l, a⟩ = some s1 → step Skeleton.current s ⟨l', b⟩ = some s2 →
    ∃ s12, step Skeleton.current s1 ⟨l', b⟩ = some s12 ∧ s12.links l' = s2.links l' ∧
      ∀ i, s12.remotes i = some l' ↔ s2.remotes i = some l' :=
  isolation_commute cur_facts

/-- A whole run of other links' actions leaves `l'`'s component — in particular the number of its
    calls in flight, its pending-call table (`closed`) and its fatal slot (`ended`) — and the table
    entries it owns unchanged. -/
theorem C13_isolation_run : ∀ (l' : Nat) (acts : List Act) (s s' : State),
    Reach Skeleton.current s → (∀ a, a ∈ acts → a.link ≠ l') → run Skeleton.current s acts = some s' →
    s'.links l' = s.links l' ∧ ∀ i, s'.remotes i = some l' ↔ s.remotes i = some l' :=
  isolation_run cur_facts

/-! ### non-vacuity -/

/-- two links with calls in flight and handlers entered on both; link 0 fails (fault, cancel,
    failing reads, full teardown): link 1 keeps its two calls in flight, is neither closed nor
    ended, stays enumerated under its id; every record is link-pure -/
example : (run Skeleton.current init
    [⟨0, .linkStart⟩, ⟨1, .linkStart⟩, ⟨0, .setupRegister⟩, ⟨1, .setupRegister⟩, ⟨0, .loopsStart⟩,
     ⟨1, .loopsStart⟩, ⟨0, .callOn⟩, ⟨1, .callOn⟩, ⟨1, .callOn⟩, ⟨0, .reqRead⟩, ⟨1, .reqRead⟩,
     ⟨1, .reqHandle⟩, ⟨0, .faultOn⟩, ⟨0, .cancel⟩, ⟨0, .ctxWatch⟩, ⟨0, .failReads⟩, ⟨0, .reqHandle⟩,
     ⟨0, .reqReadFails⟩, ⟨0, .respReadFails⟩, ⟨0, .setupLoopsDone⟩, ⟨0, .setupUnregister⟩,
     ⟨0, .callOn⟩]).map
    (fun s => decide ((s.links 1).inflight = 2 ∧ (s.links 1).closed = false ∧
      (s.links 1).ended = false ∧ (s.links 0).inflight = 0 ∧ (s.links 0).closed = true ∧
      s.remotes 1 = some 1 ∧ s.remotes 0 = none ∧
      s.invocations = [⟨0, some 0⟩, ⟨1, some 1⟩] ∧
      s.written = [⟨1, 1, some 1⟩, ⟨1, 1, some 1⟩, ⟨0, 0, some 0⟩])) = some true := by decide

/-- a response on link 1 completes a call of link 1; one addressed to a call of link 0 is refused -/
example : (run Skeleton.current init
    [⟨0, .linkStart⟩, ⟨1, .linkStart⟩, ⟨0, .setupRegister⟩, ⟨1, .setupRegister⟩, ⟨0, .loopsStart⟩,
     ⟨1, .loopsStart⟩, ⟨0, .callOn⟩, ⟨1, .callOn⟩, ⟨1, .respRead (some 1)⟩]).map
    (fun s => decide (s.delivered = [⟨1, 1⟩] ∧ (s.links 0).inflight = 1 ∧
      (step Skeleton.current s ⟨1, .respRead (some 0)⟩).isNone = true)) = some true := by decide

/-- the excepted case of `C13_isolation` (3) is real: both links at their registration step -/
example : (run Skeleton.current init [⟨0, .linkStart⟩, ⟨1, .linkStart⟩]).map
    (fun s => decide (
      ((step Skeleton.current s ⟨1, .setupRegister⟩).map fun t => (t.links 1).id) = some (some 0) ∧
      ((run Skeleton.current s [⟨0, .setupRegister⟩, ⟨1, .setupRegister⟩]).map fun t => (t.links 1).id)
        = some (some 1))) = some true := by decide

/-- M4's per-link components (writer, pending-call table, error slot) are exactly what a call made for a
    link uses.  For the closure invocations a handler makes that holds because the `CallClosure` stub is
    built per invocation from the parameters of the link whose request is being served (checked against
    the regenerated skeleton) — a stub cached in registry-wide state would route every later link's closure
    invocations to the first link's peer, and let that link's failure fail them. -/
theorem C13_closure_invocations_use_their_own_link : Skeleton.current.pxClosureIdPerInvocation = true := by decide

/-- Invocations stay with the call (and link) that passed the closure: every registration gets an entry and an id of its own — no sharing by function identity (`reflect.Value.Pointer()` is the CODE pointer: equal for all closures of one literal) — and the manager has no state beyond its table (checked against the regenerated skeleton). -/
theorem C13_closures_of_different_calls_are_different_entries :
    Skeleton.current.clIdFresh = true ∧ Skeleton.current.clStoresCreatedClosure = true := by decide

end Panrpc.Rg

#print axioms Panrpc.Rg.C13_closure_invocations_use_their_own_link

#print axioms Panrpc.Rg.C13_identity_consistent
#print axioms Panrpc.Rg.C13_ids_distinct
#print axioms Panrpc.Rg.C13_routing
#print axioms Panrpc.Rg.C13_isolation
#print axioms Panrpc.Rg.C13_isolation_commute
#print axioms Panrpc.Rg.C13_isolation_run
#print axioms Panrpc.Rg.C13_closures_of_different_calls_are_different_entries
