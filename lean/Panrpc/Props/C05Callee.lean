/-
  Props/C05Callee.lean — C05, callee side: "a panic of user code (handler or closure) and a reflect
  panic during the lookup surface as an error on the link or on the closure call, never as a
  process crash".

  Model: Model/Callee.lean, the life of ONE incoming request on the callee (resolve goroutine →
  handler goroutine → `utils.Call` → `switch len(res)` → marshal → writeResponse), with `setErr`
  calls, responses written and `crashed` as ghost fields.  `cid` is `req.Call`, `cl` says whether the
  request resolves to the closure manager's `CallClosure`.  All theorems are about `Skeleton.current`.
-/
import Panrpc.Lemmas.CalleeCurrent
import Panrpc.Pinned

namespace Panrpc.Ce
open Panrpc

/-- No reachable state of a request's life is a crash: no goroutine of the request ever dies with a
    panic (lookup panics are recovered in the lookup; the function runs under `utils.Call`). -/
theorem C05_callee_no_crash (cid : String) (cl : Bool) :
    ∀ s, Reach Skeleton.current cid cl s → s.crashed = false ∧ s.pc ≠ .panicked :=
  fun _ h => ⟨(reach_good _ cur_hyp h).nocrash, (reach_good _ cur_hyp h).npanic⟩

/-- (a) A panic of the invoked function, with an `error` value or any other: exactly one `setErr`
    (cause: the error `utils.Call` returned), nothing is written, the process lives.
    (b) A panic of the user's closure inside `CallClosure`: `CallClosure` RETURNS `(nil, err)` with
    `err.Error() = p.msg`; no `setErr`; unless marshal or write fail afterwards, every continuation
    stays without `setErr` and ends with the single response `(req.Call, p.msg)`; that end is
    reachable; and `p.msg` is non-empty unless the closure panicked with an error whose message is empty. -/
theorem C05_user_panic_contained (cid : String) (cl : Bool) (s s' : State) (p : PanicVal)
    (h : Reach Skeleton.current cid cl s) :
    (step Skeleton.current s (.handlerPanics p) = some s' →
        s'.setErrCalls = [.handlerPanic] ∧ s'.responses = [] ∧ s'.crashed = false ∧ s'.pc = .done)
    ∧ (step Skeleton.current s (.closurePanics p) = some s' →
        s'.pc = .returned (.two (some p.msg)) ∧ s'.setErrCalls = [] ∧ s'.responses = [] ∧
        s'.crashed = false ∧
        run Skeleton.current s' [.marshalOk, .respond]
          = some { s' with pc := .done, responses := [(cid, p.msg)] } ∧
        (∀ (acts : List Act) (s'' : State), run Skeleton.current s' acts = some s'' →
          Act.marshalFails ∉ acts → Act.writeFails ∉ acts →
          s''.setErrCalls = [] ∧ s''.crashed = false ∧
          s''.responses = (if s''.pc = .done then [(cid, p.msg)] else [])) ∧
        ((∀ m, p = .err m → m ≠ "") → p.msg ≠ "")) :=
  ⟨fun hs => handlerPanics_contained _ cur_hyp cur_mapped cur_callErr p h hs,
   fun hs =>
    have c := closurePanics_contained _ cur_hyp cur_resp cur_clVia cur_mapped p h hs
    ⟨c.1, c.2.1, c.2.2.1, c.2.2.2.1, c.2.2.2.2.1, c.2.2.2.2.2, p.msg_ne_empty⟩⟩

/-- A reflect panic during the lookup never leaves its goroutine (`lkRecoversPanics ∨
    reqResolverRecovers`); it ends the request with one `setErr`, before any application code ran. -/
theorem C05_lookup_panic_contained (cid : String) (cl : Bool) (s s' : State)
    (h : Reach Skeleton.current cid cl s) (hs : step Skeleton.current s .resolvePanics = some s') :
    s'.crashed = false ∧ s'.pc ≠ .panicked ∧
    s'.setErrCalls = [.lookupPanic] ∧ s'.responses = [] ∧ s'.pc = .done ∧ s'.appCodeRan = false := by
  have n := resolvePanics_no_crash _ cur_contained hs
  have c := resolvePanics_contained _ cur_hyp cur_resolveErr h hs
  exact ⟨c.2.2.1, n.2.1, c.1, c.2.1, c.2.2.2.1, c.2.2.2.2⟩

/-- Neither the lookup nor the function runs on the request loop's goroutine: while a request is
    being served (or its handler is stuck in user code) the loop keeps reading. -/
theorem C05_request_loop_not_occupied (s : State) : onLoopGoroutine Skeleton.current s = false :=
  onLoop_false _ cur_resolveGo cur_handlerGo s

/-! ### non-vacuity: the steps the theorems speak about are enabled in reachable states -/

/-- handler panics with an error value / with a string -/
example : (run Skeleton.current (init "c1" false) [.resolveOk, .start, .handlerPanics (.err "boom")]).map
    (fun s => (s.pc, s.setErrCalls, s.responses, s.crashed, s.appCodeRan))
    = some (.done, [.handlerPanic], [], false, true) := by decide
example : (run Skeleton.current (init "c1" false) [.resolveOk, .start, .handlerPanics .other]).map
    (fun s => (s.pc, s.setErrCalls, s.responses, s.crashed)) = some (.done, [.handlerPanic], [], false) := by decide
/-- the user's closure panics with a non-error value: an ordinary error response, the link lives -/
example : (run Skeleton.current (init "c2" true)
      [.resolveOk, .start, .closurePanics .other, .marshalOk, .respond]).map
    (fun s => (s.pc, s.setErrCalls, s.responses, s.crashed))
    = some (.done, [], [("c2", "panicked with no error value")], false) := by decide
example : (run Skeleton.current (init "c2" true)
      [.resolveOk, .start, .closurePanics (.err "runtime error: integer divide by zero"), .marshalOk, .respond]).map
    (fun s => (s.setErrCalls, s.responses)) = some ([], [("c2", "runtime error: integer divide by zero")]) := by decide
/-- a panic of the wrapper outside the inner `utils.Call` (e.g. `Convert`) is a handler panic: fatal for the link, not for the process -/
example : (run Skeleton.current (init "c2" true) [.resolveOk, .start, .handlerPanics (.err "reflect")]).map
    (fun s => (s.setErrCalls, s.crashed)) = some ([.handlerPanic], false) := by decide
/-- `closurePanics` is not enabled on an ordinary entry; `CallClosure` returns two results -/
example : run Skeleton.current (init "c1" false) [.resolveOk, .start, .closurePanics .other] = none := by decide
example : run Skeleton.current (init "c2" true) [.resolveOk, .start, .handlerReturns .oneVal] = none := by decide
/-- lookup panic / lookup error -/
example : (run Skeleton.current (init "c3" false) [.resolvePanics]).map
    (fun s => (s.pc, s.setErrCalls, s.crashed, s.appCodeRan)) = some (.done, [.lookupPanic], false, false) := by decide
example : (run Skeleton.current (init "c3" false) [.resolveFails]).map
    (fun s => (s.pc, s.setErrCalls, s.crashed, s.appCodeRan)) = some (.done, [.resolveError], false, false) := by decide

/-! ### the source facts are load-bearing -/

/-- The pinned tree (F: no recover in the lookup, none in the goroutine): a lookup panic kills the process. -/
theorem C05_lookup_panic_fails_on_pinned :
    (run Skeleton.pinned (init "c3" false) [.resolvePanics]).map (·.crashed) = some true := by decide

/-- `function.Call(args)` instead of `utils.Call(function, args)`: a handler panic kills the process -/
example : (run { Skeleton.current with reqCallViaUtilsCall := false } (init "c" false)
    [.resolveOk, .start, .handlerPanics (.err "boom")]).map (fun s => (s.pc, s.crashed)) = some (.panicked, true) := by decide
/-- `utils.Call` without its `recover()`: handler panics and closure panics kill the process -/
example : (run { Skeleton.current with ucRecovers := false } (init "c" false)
    [.resolveOk, .start, .handlerPanics .other]).map (·.crashed) = some true := by decide
example : (run { Skeleton.current with ucRecovers := false } (init "c" true)
    [.resolveOk, .start, .closurePanics .other]).map (·.crashed) = some true := by decide
/-- without `if err != nil { setErr(err); return }` after `utils.Call` the panic is answered as a SUCCESS -/
example : (run { Skeleton.current with reqCallErrSetErr := false } (init "c" false)
    [.resolveOk, .start, .handlerPanics (.err "boom"), .marshalOk, .respond]).map
    (fun s => (s.setErrCalls, s.responses)) = some ([], [("c", "")]) := by decide
/-- without the `ErrPanickedWithNonErrorValue` mapping `panic("x")` is answered as a SUCCESS … -/
example : (run { Skeleton.current with ucNonErrorPanicMapped := false } (init "c" false)
    [.resolveOk, .start, .handlerPanics .other, .marshalOk, .respond]).map
    (fun s => (s.setErrCalls, s.responses)) = some ([], [("c", "")]) := by decide
/-- … and in a closure it ends the link (`out[1]` of an empty slice) instead of failing the closure call -/
example : (run { Skeleton.current with ucNonErrorPanicMapped := false } (init "c" true)
    [.resolveOk, .start, .closurePanics .other]).map
    (fun s => (s.pc, s.setErrCalls)) = some (.done, [.handlerPanic]) := by decide
/-- the wrapper calling the closure directly: a closure panic ends the link instead of failing the call -/
example : (run { Skeleton.current with clCallViaUtilsCall := false } (init "c" true)
    [.resolveOk, .start, .closurePanics (.err "boom")]).map
    (fun s => (s.pc, s.setErrCalls, s.responses)) = some (.done, [.handlerPanic], []) := by decide
/-- without the check after the lookup a refused request reaches application code -/
example : (run { Skeleton.current with reqResolveErrSetErr := false } (init "c" false)
    [.resolveFails, .start]).map (fun s => (s.setErrCalls, s.appCodeRan)) = some ([], true) := by decide
/-- handler inline in the loop: the loop is occupied while user code runs -/
example : (run { Skeleton.current with reqHandlerGoDepth := 0, reqResolveGoDepth := 0 } (init "c" false)
    [.resolveOk, .start]).map (onLoopGoroutine { Skeleton.current with reqHandlerGoDepth := 0, reqResolveGoDepth := 0 })
    = some true := by decide

/-- The callee model takes the `Error()` method of a returned error and the result-shape assertions
    (`.(error)`, `IsNil`) as non-panicking.  In the source they run in the handler goroutine AFTER
    `utils.Call` returned; that goroutine has its own deferred `recover → setErr`, so a panic there —
    e.g. a typed-nil error whose `Error()` dereferences its receiver — ends the link with an error and
    not the process (checked against the regenerated skeleton; false on the pinned tree: F10). -/
theorem C05_response_building_recovered :
    Skeleton.current.reqHandlerRecovers = true ∧ Skeleton.pinned.reqHandlerRecovers = false := by decide

end Panrpc.Ce

#print axioms Panrpc.Ce.C05_callee_no_crash
#print axioms Panrpc.Ce.C05_user_panic_contained
#print axioms Panrpc.Ce.C05_lookup_panic_contained
#print axioms Panrpc.Ce.C05_request_loop_not_occupied
#print axioms Panrpc.Ce.C05_lookup_panic_fails_on_pinned
#print axioms Panrpc.Ce.C05_response_building_recovered
