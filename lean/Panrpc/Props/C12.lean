/-
  Props/C12.lean — "Closures live exactly as long as the call that passed them".

  Model: M2.  The closure table (`closures`) is written by `callStart` (registerClosure, one
  fresh id per func argument) and by the deferred `freeClosure()`s, which run on *every* way out
  of the stub: `callReturnOk` (success, handler error, cancel) and `callRecover` (every panic
  path: marshal failure of a later argument, refused Receive, write failure, link end, decode
  failure) — before the recovering frame, because they were deferred after it.
  A peer's `CallClosure` is `closureInvoke q id`: its lookup under the lock is the
  linearization point of the invocation and is logged (hit / miss) in the ghost `invokes`; on a hit
  thread `q` then runs the closure's body (`running q`) until `closureBodyDone q`.  The table's mutex
  is `clLock`: held between steps only if `CallClosure` keeps it across the body
  (`sk.clInvokeOutsideLock = false`); registration, release and look-up need it free.
-/
import Panrpc.Lemmas.EndpointCurrent

namespace Panrpc.Ep
open Panrpc

/-- The closure table is exactly the union of the closure ids of the calls in flight
    (registered and not yet returned), in every reachable state. -/
theorem C12_table_is_inflight : ∀ s, Reach Skeleton.current s → ∀ id,
    (s.closures id = true ↔ ∃ c, id ∈ (s.calls c).closures ∧ (s.calls c).pc ≠ .returned) := by
  intro s h id
  have hi := reach_ci _ cur_closurefreed h
  constructor
  · intro ht
    cases ho : s.owner id with
    | none => exact absurd ho (hi.tbl_owned id ht)
    | some c => exact ⟨c, hi.own_mem id c ho, hi.tbl_live id c ht ho⟩
  · rintro ⟨c, hm, hp⟩
    exact hi.live_tbl id c (hi.mem_own id c hm) hp

/-- the same, existential-free, through the ghost owner map -/
theorem C12_table_is_inflight_owner : ∀ s, Reach Skeleton.current s → ∀ id,
    s.closures id = (match s.owner id with
                     | some c => decide ((s.calls c).pc ≠ .returned)
                     | none => false) := by
  intro s h id
  have hi := reach_ci _ cur_closurefreed h
  cases ho : s.owner id with
  | none =>
    cases ht : s.closures id with
    | false => rfl
    | true => exact absurd ho (hi.tbl_owned id ht)
  | some c =>
    by_cases hp : (s.calls c).pc = .returned
    · cases ht : s.closures id with
      | false => simp [hp]
      | true => exact absurd hp (hi.tbl_live id c ht ho)
    · simp [hp, hi.live_tbl id c ho hp]

/-- No registration outlives its call: with no call in flight the table is empty. -/
theorem C12_empty_when_idle : ∀ s, Reach Skeleton.current s →
    (∀ c, (s.calls c).pc = .absent ∨ (s.calls c).pc = .returned) → ∀ id, s.closures id = false := by
  intro s h hidle id
  have hi := reach_ci _ cur_closurefreed h
  cases ht : s.closures id with
  | false => rfl
  | true =>
    obtain ⟨c, hm, hp⟩ := (C12_table_is_inflight s h id).mp ht
    rcases hidle c with ha | hr
    · rw [hi.absent_nil c ha] at hm; simp at hm
    · exact absurd hr hp

/-- A `CallClosure` whose lookup happens after the passing call returned (by whatever path) finds
    nothing: it is answered "closure does not exist" (a logged miss) — and a returned call
    stays returned, so this holds for ever after. -/
theorem C12_late_invocation_rejected : ∀ s, Reach Skeleton.current s → ∀ q id c,
    s.owner id = some c → (s.calls c).pc = .returned →
    (step Skeleton.current s (.closureInvoke q id)).map (·.invokes.head?) =
      some (some { thread := q, id := id, hit := false }) := by
  intro s h q id c ho hp
  have hi := reach_ci _ cur_closurefreed h
  have hc := reach_no_crash _ cur_recovers cur_hyg cur_nochanclose h
  have ht : s.closures id = false := by
    cases ht : s.closures id with
    | false => rfl
    | true => exact absurd hp (hi.tbl_live id c ht ho)
  simp [step, hc, ht, cur_live.storesCreated, reach_cl_free _ cur_invoke_outside_lock h]

theorem C12_returned_forever : ∀ s s' a, step Skeleton.current s a = some s' → ∀ c,
    (s.calls c).pc = .returned → (s'.calls c).pc = .returned :=
  fun _ _ a hs c hc => returned_stable _ a hs c hc

/-- an id that no call ever registered is a miss, too -/
theorem C12_unknown_invocation_rejected : ∀ s, Reach Skeleton.current s → ∀ q id,
    s.owner id = none →
    (step Skeleton.current s (.closureInvoke q id)).map (·.invokes.head?) =
      some (some { thread := q, id := id, hit := false }) := by
  intro s h q id ho
  have hi := reach_ci _ cur_closurefreed h
  have hc := reach_no_crash _ cur_recovers cur_hyg cur_nochanclose h
  have ht : s.closures id = false := by
    cases ht : s.closures id with
    | false => rfl
    | true => exact absurd ho (hi.tbl_owned id ht)
  simp [step, hc, ht, cur_live.storesCreated, reach_cl_free _ cur_invoke_outside_lock h]

/-- a lookup made while the passing call is in flight hits -/
theorem C12_inflight_invocation_hits : ∀ s, Reach Skeleton.current s → ∀ q id c,
    s.owner id = some c → (s.calls c).pc ≠ .returned →
    (step Skeleton.current s (.closureInvoke q id)).map (·.invokes.head?) =
      some (some { thread := q, id := id, hit := true }) := by
  intro s h q id c ho hp
  have hi := reach_ci _ cur_closurefreed h
  have hc := reach_no_crash _ cur_recovers cur_hyg cur_nochanclose h
  simp [step, hc, hi.live_tbl id c ho hp, cur_live.storesCreated, reach_cl_free _ cur_invoke_outside_lock h]

/-- Closure ids are fresh: the ids a call registers were never registered before (by any call,
    live or returned), so a later call passing the same function cannot resurrect an old id;
    and an id belongs to exactly one call. -/
theorem C12_ids_fresh : ∀ s, Reach Skeleton.current s → ∀ c x numOut n s',
    step Skeleton.current s (.callStart c x numOut n) = some s' →
    ∀ id, id ∈ (s'.calls c).closures →
      s.owner id = none ∧ s.closures id = false ∧ ∀ c', id ∉ (s.calls c').closures := by
  intro s h c x numOut n s' hs id hm
  have hi := reach_ci _ cur_closurefreed h
  simp only [step] at hs
  split at hs <;> simp at hs
  subst hs
  have hreg : Skeleton.current.stubFuncArgsRegistered = true := by decide
  have hfresh : Skeleton.current.clIdFresh = true := by decide
  simp [newClosures, hreg, hfresh, List.mem_range'_1] at hm
  have hown : s.owner id = none := by
    cases ho : s.owner id with
    | none => rfl
    | some c' => have := hi.own_lt id c' ho; omega
  refine ⟨hown, ?_, ?_⟩
  · cases ht : s.closures id with
    | false => rfl
    | true => have := hi.tbl_lt id ht; omega
  · intro c' hm'
    rw [hi.mem_own id c' hm'] at hown; simp at hown

/-- What `clIdFresh` protects against, as a behaviour of the model: with ids derived from the table's current size
    (that ONE fact flipped), three calls with overlapping lifetimes collide — X and Y are in flight with ids 0 and 1,
    X returns (the table shrinks to one entry), Z starts and is given id 1 again: Y's and Z's closures share an
    entry. On the current tree Z gets id 2. -/
theorem C12_size_derived_ids_collide :
    (run { Skeleton.current with clIdFresh := false } init
      [.callStart 0 5 2 1, .callReceive 0, .callSpawn 0, .callWrite 0, .waiterRecvCall 0,
       .callStart 1 5 2 1, .callReceive 1, .callSpawn 1, .callWrite 1, .waiterRecvCall 1,
       .ctxCancel 5, .ctxPropagate 0, .waiterGetsCtx 0, .waiterSend 0, .waiterFree 0, .callTakeRes 0 false, .callReturnOk 0,
       .callStart 2 6 2 1]).map
      (fun s => decide ((s.calls 1).closures = [1] ∧ (s.calls 2).closures = [1])) = some true ∧
    (run Skeleton.current init
      [.callStart 0 5 2 1, .callReceive 0, .callSpawn 0, .callWrite 0, .waiterRecvCall 0,
       .callStart 1 5 2 1, .callReceive 1, .callSpawn 1, .callWrite 1, .waiterRecvCall 1,
       .ctxCancel 5, .ctxPropagate 0, .waiterGetsCtx 0, .waiterSend 0, .waiterFree 0, .callTakeRes 0 false, .callReturnOk 0,
       .callStart 2 6 2 1]).map
      (fun s => decide ((s.calls 1).closures = [1] ∧ (s.calls 2).closures = [2])) = some true := by
  constructor <;> decide

theorem C12_one_owner : ∀ s, Reach Skeleton.current s → ∀ id c c',
    id ∈ (s.calls c).closures → id ∈ (s.calls c').closures → c = c' := by
  intro s h id c c' h1 h2
  have hi := reach_ci _ cur_closurefreed h
  have := hi.mem_own id c h1
  rw [hi.mem_own id c' h2] at this
  exact (Option.some.inj this).symm

/-! ### non-vacuity: every exit path, with a late invocation -/

/-- success path: two closures registered, invoked in flight (hit), released on return, late invocation misses -/
example : (run Skeleton.current init
    [.callStart 0 5 2 2, .callReceive 0, .callSpawn 0, .callWrite 0, .closureInvoke 9 1, .waiterRecvCall 0,
     .respFrame 0 0 42 false, .pubLookup 0, .waiterGetsValue 0 0, .waiterSend 0, .waiterFree 0,
     .callTakeRes 0 false, .callReturnOk 0, .closureInvoke 9 1]).map
    (fun s => decide (s.invokes = [⟨9, 1, false⟩, ⟨9, 1, true⟩] ∧ s.closures 0 = false ∧ s.closures 1 = false ∧
                      (s.calls 0).closures = [0, 1])) = some true := by decide

/-- marshal failure of a later argument: the closure registered before it is released by the panic path -/
example : (run Skeleton.current init
    [.callStart 0 5 2 1, .callMarshalFail 0, .callRecover 0 eMarshal, .closureInvoke 9 0]).map
    (fun s => decide (s.invokes = [⟨9, 0, false⟩] ∧ (s.calls 0).pc = .returned ∧ s.owner 0 = some 0)) = some true := by decide

/-- link end while the call waits; a second call gets fresh ids -/
example : (run Skeleton.current init
    [.callStart 0 5 2 1, .callReceive 0, .callSpawn 0, .callWrite 0, .cancelLink, .callLinkCtx 0,
     .callRecover 0 eLinkCtx, .callStart 1 5 2 1]).map
    (fun s => decide (s.closures 0 = false ∧ s.closures 1 = true ∧ (s.calls 1).closures = [1])) = some true := by decide

/-- Registration and look-up never wait for a closure body: in every reachable state — whatever closure
    bodies are running — a new call can register its closures (`callStart` with any number of func
    arguments is enabled for an unused call id) and a peer's `CallClosure` can do its look-up. -/
theorem C12_table_mutex_never_waits_for_a_closure_body : ∀ s, Reach Skeleton.current s →
    (∀ c x numOut n, (s.calls c).pc = .absent → s.setters c = .absent → (numOut = 1 ∨ numOut = 2) →
      (step Skeleton.current s (.callStart c x numOut n)).isSome = true) ∧
    (∀ q id, (step Skeleton.current s (.closureInvoke q id)).isSome = true) :=
  fun _ h => ⟨fun c x numOut n hp hst hn => callStart_enabled _ cur_live h c x numOut n hp hst hn,
             fun q id => closureInvoke_enabled _ cur_live h q id⟩

/-- call 0 passes closure 0 and is in flight; the peer invokes the closure (thread 9): its body is running -/
def closureBodyRunning : List Act :=
  [.callStart 0 5 2 1, .callReceive 0, .callSpawn 0, .callWrite 0, .closureInvoke 9 0]

/-- What the fact `clInvokeOutsideLock` protects against (the closure table and its mutex belong to the
    REGISTRY, not to one call or one link): on the current tree with that ONE fact flipped
    (`CallClosure`: `Lock(); defer Unlock()`), while the body of closure 0 runs the invoking thread holds
    the mutex, and
      * `callStart` of another call that carries a closure is NOT enabled (`registerClosure` waits) —
        whoever issues it: another goroutine of the application, a handler of another link of the same
        registry, or the running body itself, which then never returns (self-deadlock);
      * another `CallClosure` (any id, hit or miss) is not enabled either;
      * a call that carries no closure is unaffected;
    all of them are enabled again once the body has returned.  On the current tree the very same
    `callStart` / `closureInvoke` are enabled while the body runs. -/
theorem C02_lock_held_across_closure_blocks_other_calls :
    (run skLockAcrossClosure init closureBodyRunning).map
      (fun s => decide (s.invokes = [⟨9, 0, true⟩] ∧ s.running 9 = some 0 ∧ s.clLock = some 9 ∧
                        (step skLockAcrossClosure s (.callStart 1 6 2 1)).isSome = false ∧
                        (step skLockAcrossClosure s (.closureInvoke 8 0)).isSome = false ∧
                        (step skLockAcrossClosure s (.closureInvoke 8 7)).isSome = false ∧
                        (step skLockAcrossClosure s (.callStart 1 6 2 0)).isSome = true)) = some true ∧
    (run skLockAcrossClosure init (closureBodyRunning ++ [.closureBodyDone 9])).map
      (fun s => decide (s.clLock = none ∧
                        (step skLockAcrossClosure s (.callStart 1 6 2 1)).isSome = true ∧
                        (step skLockAcrossClosure s (.closureInvoke 8 0)).isSome = true)) = some true ∧
    (run Skeleton.current init closureBodyRunning).map
      (fun s => decide (s.invokes = [⟨9, 0, true⟩] ∧ s.running 9 = some 0 ∧ s.clLock = none ∧
                        (step Skeleton.current s (.callStart 1 6 2 1)).isSome = true ∧
                        (step Skeleton.current s (.closureInvoke 8 0)).isSome = true)) = some true := by
  refine ⟨?_, ?_, ?_⟩ <;> decide

/-- The closure table is touched by exactly the three operations M2 models — `CallClosure`'s lookup,
    `registerClosure`'s insert and its release function's delete — and nowhere else in the package
    (so no teardown, hook or other link can add or drop registrations behind the owning call's back).
    Checked against the regenerated skeleton. -/
theorem C12_table_touched_only_by_owner :
    Skeleton.current.clTableSites = 3 ∧ Skeleton.current.clLookupUnderLock = true ∧
    Skeleton.current.clInsertUnderLock = true ∧ Skeleton.current.clDeleteUnderLock = true := by decide

/-- The registration ends WITH the call: The release function `registerClosure` returns runs DEFERRED on every exit path of a closure-carrying call; it only locks, deletes and unlocks — no wait, channel operation or select (checked against the regenerated skeleton) — and the lock it takes is not held while a closure body runs. -/
theorem C12_closure_release_never_waits :
    Skeleton.current.clFreeNeverWaits = true ∧ Skeleton.current.clDeleteUnderLock = true := by decide

end Panrpc.Ep

#print axioms Panrpc.Ep.C12_table_is_inflight
#print axioms Panrpc.Ep.C12_table_is_inflight_owner
#print axioms Panrpc.Ep.C12_empty_when_idle
#print axioms Panrpc.Ep.C12_late_invocation_rejected
#print axioms Panrpc.Ep.C12_returned_forever
#print axioms Panrpc.Ep.C12_unknown_invocation_rejected
#print axioms Panrpc.Ep.C12_inflight_invocation_hits
#print axioms Panrpc.Ep.C12_ids_fresh
#print axioms Panrpc.Ep.C12_one_owner
#print axioms Panrpc.Ep.C12_table_touched_only_by_owner
#print axioms Panrpc.Ep.C12_table_mutex_never_waits_for_a_closure_body
#print axioms Panrpc.Ep.C02_lock_held_across_closure_blocks_other_calls
#print axioms Panrpc.Ep.C12_closure_release_never_waits
#print axioms Panrpc.Ep.C12_size_derived_ids_collide
