/-
  Props/C06.lean (resolution part) — "Whatever a peer sends — … unknown or empty function names,
  paths through any field of the exposed object (nil, non-struct, unexported or interface-typed
  ones included), wrong argument counts … — the receiving process does not crash".

  Model: P0 + P1.  `findLocalFunctionToCallRecursively` runs in a goroutine of the request loop
  that has no `recover` (fact `reqResolverRecovers`), and the lookup itself has none either
  (fact `lkRecoversPanics`): a `reflect` panic during resolution is outcome `crash`.

  * `C06_crash_on_pinned_nil_iface`, `C06_crash_on_pinned_nil_embedded_ptr`,
    `C06_crash_on_pinned_nil_root`: the three crash classes of the pinned tree, as concrete
    requests on a shape that was compared with real `reflect`.
  * `C06_resolve_total_partial`: on well-formed shapes these three are the ONLY crashes.
  * `C06_call_panics_are_contained`: panics raised by `reflect.Value.Call` itself (read-only
    method value, unexported interface method) are recovered by `utils.Call` — they end the link.
  * `C06_resolve_total`: the property.  Its proof is the general lemma `resolveX_no_crash`
    (Lemmas/Lookup.lean) plus `by decide` facts about `Skeleton.current`; it is LAST in the file
    and does not type-check while the source neither recovers inside the lookup nor in the
    resolver goroutine.
-/
import Panrpc.Lemmas.LookupCurrent
import Panrpc.Lemmas.LookupZoo

namespace Panrpc.Lk
open Panrpc

/-! ### pinned-tree witnesses: three requests that kill the process -/

/-- a path ending in a method of a nil interface-typed field: `reflect: Method on nil interface value` -/
theorem C06_crash_on_pinned_nil_iface :
    resolve Skeleton.pinned Zoo.tt Zoo.root "NI.Val" 0 = .crash msgNilIface := by
  decide

/-- a path through a field promoted through a nil embedded pointer -/
theorem C06_crash_on_pinned_nil_embedded_ptr :
    resolve Skeleton.pinned Zoo.tt Zoo.rootNilEmb "Deep.Val" 0 =
      .crash msgNilEmb := by
  decide

/-- a registry created with a nil local object: any dot-free name (here even the closure entry
    point's own name) -/
theorem C06_crash_on_pinned_nil_root :
    resolve Skeleton.pinned Zoo.tt none "Anything" 0 =
      .crash msgZeroMeth ∧
    resolve Skeleton.pinned Zoo.tt none "CallClosure" 2 =
      .crash msgZeroMeth := by
  constructor <;> decide

/-- …also below the root, with recursive embedding (`&L1{&L2{&L1{nil,…},…},…}`: "L1" selects the
    inner L1, whose embedded `*L2` is nil) -/
example : resolve Skeleton.pinned Zoo.recTT Zoo.recRoot "L1.U.Val" 0 = .crash msgNilEmb := by decide
example : resolve Skeleton.pinned Zoo.recTT Zoo.recRootNil "U.Val" 0 = .crash msgNilEmb := by decide
example : resolve Skeleton.pinned Zoo.recTT Zoo.recRootNil "L1.W.Val" 0 = .crash msgNilEmb := by decide

/-- the neighbouring requests do not crash: naming the nil embedded pointer itself, a missing
    method on the nil interface, a dotted path on the nil root -/
example : resolve Skeleton.pinned Zoo.tt Zoo.rootNilEmb "pinner.Deep.Val" 0 = .rejected errNonStruct := by decide
example : resolve Skeleton.pinned Zoo.tt Zoo.root "NI.Nope" 0 = .rejected errNonFunc := by decide
example : resolve Skeleton.pinned Zoo.tt none "A.B" 0 = .rejected errNonStruct := by decide

/-! ### what holds on the current tree -/

/-- Panics of `reflect.Value.Call` on a resolved method value are recovered by `utils.Call`. -/
theorem C06_call_panics_are_contained (mv : MethodVal) (w : String) :
    callMethod Skeleton.current mv ≠ .crash w :=
  callMethod_ne_crash _ cur_call_recovers mv w

/-- On the current tree, for well-formed shapes, a crash of the resolution is one of exactly three
    `reflect` panics: `MethodByName` on the zero Value — precisely when the registry was created
    with a nil local object —, `Method` on a nil interface-typed field, or the indirection
    through a nil embedded pointer on the way to a promoted field.  Every other request —
    unknown, empty, over-long, partial, differently-cased names, paths through nil pointers,
    non-struct, unexported or interface-typed fields, wrong argument counts — does not crash.
    FULL STATEMENT: `C06_resolve_total` at the end of this file; missing: a `recover` around the
    lookup or in the resolver goroutine. -/
theorem C06_resolve_total_partial (tt : TypeTable) (root : Option Val) (hwf : WFShape tt root)
    (path : String) (nargs : Nat) (w : String)
    (h : resolve Skeleton.current tt root path nargs = .crash w) :
    (root = none ∧ w = msgZeroMeth) ∨ (root ≠ none ∧ (w = msgNilIface ∨ w = msgNilEmb)) :=
  resolveX_crash_classes _ cur_faithful cur_call_recovers _ tt root hwf path nargs w h

/-- General lemma instance for ANY skeleton that recovers (restated here for the record):
    if either the lookup converts panics into errors (and keeps its Kind and argument-count
    checks) or the resolver goroutine recovers, and `utils.Call` recovers, no request crashes. -/
theorem C06_resolve_total_of (sk : Skeleton) (hr : Recovering sk) (tt : TypeTable) (root : Option Val)
    (path : String) (nargs : Nat) (w : String) : resolve sk tt root path nargs ≠ .crash w :=
  resolveX_no_crash sk hr _ tt root path nargs w

/-- non-vacuity of the hypothesis: the pinned skeleton with a recovering resolver goroutine -/
example : Recovering { Skeleton.pinned with reqResolverRecovers := true } :=
  ⟨⟨by decide, by decide⟩, .inl rfl⟩
example : Recovering { Skeleton.pinned with lkRecoversPanics := true } :=
  ⟨⟨by decide, by decide⟩, .inr ⟨rfl, by decide, by decide, fun _ => by decide⟩⟩
/-- and the three crashing requests are then rejected -/
example : resolve { Skeleton.pinned with reqResolverRecovers := true } Zoo.tt Zoo.root "NI.Val" 0 =
    .rejected "recovered: reflect: Method on nil interface value" := by decide
example : resolve { Skeleton.pinned with lkRecoversPanics := true } Zoo.tt none "CallClosure" 2 = .closureEntry := by
  decide

/-! ### C06 (resolution part) — LAST: does not type-check until the source recovers -/

/-- Whatever function name and argument count a peer sends, on whatever exposed object shape,
    resolving the request does not crash the process. -/
theorem C06_resolve_total (tt : TypeTable) (root : Option Val) (path : String) (nargs : Nat) (w : String) :
    resolve Skeleton.current tt root path nargs ≠ .crash w :=
  C06_resolve_total_of Skeleton.current ⟨⟨by decide, by decide⟩, by decide⟩ tt root path nargs w

/-- A peer that stalls inside a closure invocation (it sends a valid `CallClosure` and never answers
    what the closure asks of it) holds no panrpc lock on our side: `CallClosure` releases the closure
    table's mutex before it runs the closure.  So the registry-wide closure table stays usable for
    every other link (checked against the regenerated skeleton). -/
theorem C06_stalled_peer_holds_no_lock :
    Skeleton.current.clInvokeOutsideLock = true ∧ Skeleton.current.clLockIsMutex = true := by decide

/-- The resolver's fallback `MethodByName` runs on the closure manager: its exported method set is exactly {CallClosure} (checked against the regenerated skeleton), so no peer-chosen name reaches any other library function. -/
theorem C06_closure_manager_exposes_only_its_entry_point :
    Skeleton.current.lkClosureManagerMethods = ["CallClosure"] := by decide

end Panrpc.Lk

#print axioms Panrpc.Lk.C06_crash_on_pinned_nil_iface
#print axioms Panrpc.Lk.C06_crash_on_pinned_nil_embedded_ptr
#print axioms Panrpc.Lk.C06_crash_on_pinned_nil_root
#print axioms Panrpc.Lk.C06_call_panics_are_contained
#print axioms Panrpc.Lk.C06_resolve_total_partial
#print axioms Panrpc.Lk.C06_resolve_total_of
#print axioms Panrpc.Lk.C06_resolve_total
#print axioms Panrpc.Lk.C06_stalled_peer_holds_no_lock
#print axioms Panrpc.Lk.C06_closure_manager_exposes_only_its_entry_point
