/-
  Props/C19Sections.lean — why `Receive` has to be ONE critical section (fact `bcReceiveOneSection`), as a model.

  M1 (`Model/Broadcaster`) treats `Receive` as one atomic step and lists the facts that justify that in `Bc.Atomic`.
  This file models the alternative the fact excludes, so that the obligation is more than a flag: a `Receive` whose
  closed check + lookup and whose insertion are TWO lock…unlock regions (`begin`, `finish`), racing with `Close`.
  With one region a closed broadcaster's table is empty for ever (everything a `Close` has to release has been
  released); with two regions one schedule of three steps leaves an entry — and with it the context and the waiter of
  the call that registered — in a closed table that nobody will close again.  (Seeded change MA-C15j is that schedule:
  one teardown in a hundred with calls just starting.)

  The effects of `Close` and the refusal of `Receive` on a closed broadcaster are the same `Skeleton` facts M1 uses.
-/
import Panrpc.Go.Prim
import Panrpc.Skeleton
import Panrpc.Generated.Current

namespace Panrpc.BcSections

structure State where
  closed  : Bool
  table   : List Nat            -- keys that have an entry
  between : List (Nat × Nat)    -- receivers (thread, key) that have left the first region and not entered the second
  refused : List Nat            -- receivers that were refused
  deriving DecidableEq, Repr, Inhabited

def init : State := { closed := false, table := [], between := [], refused := [] }

inductive Act where
  | begin (t k : Nat)     -- `Receive`: lock, closed check, lookup — and, if it is one region, the insertion
  | finish (t : Nat)      -- the second region of a split `Receive`: lock, insert, unlock
  | close                 -- `Close`: one region (`bcCloseOneSection`)
  deriving DecidableEq, Repr, Inhabited

def step (sk : Skeleton) (s : State) : Act → Option State
  | .begin t k =>
    if s.closed = true ∧ sk.bcReceiveRefusesWhenClosed = true then
      some { s with refused := t :: s.refused }
    else if sk.bcReceiveOneSection = true then
      some { s with table := if k ∈ s.table then s.table else k :: s.table }
    else
      some { s with between := (t, k) :: s.between }
  | .finish t =>
    match s.between.find? (·.1 = t) with
    | some (_, k) =>
      some { s with between := s.between.filter (·.1 ≠ t),
                    table := if k ∈ s.table then s.table else k :: s.table }
    | none => none
  | .close =>
    some { s with closed := s.closed || sk.bcCloseSetsClosed,
                  table := if sk.bcCloseClearsTable = true then [] else s.table }

inductive Reach (sk : Skeleton) : State → Prop where
  | init : Reach sk init
  | step {s s' : State} (a : Act) : Reach sk s → step sk s a = some s' → Reach sk s'

def run (sk : Skeleton) (s : State) (acts : List Act) : Option State := runFrom (step sk) s acts

/-- the facts about `Receive` and `Close` the invariant needs -/
structure Sections (sk : Skeleton) : Prop where
  one     : sk.bcReceiveOneSection = true
  refuses : sk.bcReceiveRefusesWhenClosed = true
  clears  : sk.bcCloseClearsTable = true
  sets    : sk.bcCloseSetsClosed = true

theorem sections_current : Sections Skeleton.current := ⟨by decide, by decide, by decide, by decide⟩

/-- with one region nobody is ever between two regions -/
theorem nobody_between (sk : Skeleton) (h : Sections sk) {s : State} (hr : Reach sk s) : s.between = [] := by
  induction hr with
  | init => rfl
  | step a _ hs ih =>
    cases a <;> simp only [step, h.one, h.refuses] at hs
    · repeat' split at hs
      all_goals first | (cases hs; simpa using ih) | simp_all
    · simp [ih] at hs
    · cases hs; simpa using ih

/-- **a closed broadcaster's table stays empty**: every entry that exists when `Close` runs is released by it, and no
    entry appears afterwards — so a link that has ended holds no pending call, no context and no waiter (C15), and a
    receiver is never handed a function that blocks on a closed broadcaster (C19, C03). -/
theorem closed_table_stays_empty (sk : Skeleton) (h : Sections sk) {s : State} (hr : Reach sk s) :
    s.closed = true → s.table = [] := by
  induction hr with
  | init => intro hc; simp [init] at hc
  | @step s s' a hr' hs ih =>
    have hb := nobody_between sk h hr'
    cases a <;> simp only [step, h.one, h.refuses, h.clears, h.sets] at hs
    · repeat' split at hs
      all_goals first | (cases hs; simp_all; done) | simp_all
    · simp [hb] at hs
    · cases hs; simp

/-- **the obligation is not idle**: split `Receive` into two regions and leave everything else as it is — three steps
    put an entry into a closed table. -/
def skSplitReceive : Skeleton := { Skeleton.current with bcReceiveOneSection := false }

theorem split_receive_registers_on_a_closed_broadcaster :
    (run skSplitReceive init [.begin 0 7, .close, .finish 0]).map (fun s => (s.closed, s.table)) = some (true, [7]) := by
  decide

/-- non-vacuity on the current tree: a receiver registers, `Close` releases it, a later receiver is refused -/
example : (run Skeleton.current init [.begin 0 7, .close, .begin 1 7]).map (fun s => (s.closed, s.table, s.refused))
    = some (true, [], [1]) := by decide

/-- the property-level statement, for the extracted skeleton -/
theorem C19_closed_broadcaster_holds_no_entry {s : State} (hr : Reach Skeleton.current s) (hc : s.closed = true) :
    s.table = [] := closed_table_stays_empty _ sections_current hr hc

end Panrpc.BcSections

#print axioms Panrpc.BcSections.sections_current
#print axioms Panrpc.BcSections.nobody_between
#print axioms Panrpc.BcSections.closed_table_stays_empty
#print axioms Panrpc.BcSections.split_receive_registers_on_a_closed_broadcaster
#print axioms Panrpc.BcSections.C19_closed_broadcaster_holds_no_entry
