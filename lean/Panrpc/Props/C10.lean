/-
  Props/C10.lean — "If a handler or closure returns a non-nil error whose message contains a
  non-blank character, the caller's call returns a non-nil error with exactly that message, together
  with the accompanying value if the function returns one; if it returns a nil error the caller gets
  a nil error.  An application-level error never terminates the link."

  Wire-level part, on P3 (Model/Wire.lean): handler's return → response frame → the caller's response
  loop (`strings.TrimSpace(res.Err) != ""`, with Go's `unicode.IsSpace` table) → the stub's result.
  Closures take the same path (`CallClosure` is a two-result RPC built by the same `makeRPC`).
  "never terminates the link" (no `setErr` on this path) is a statement about M2 and is not here.
  All theorems are about `Skeleton.current`; `prev` is whatever the loop's `err` variable held
  before (irrelevant, because it is declared per frame).
-/
import Panrpc.Lemmas.WireCurrent

namespace Panrpc.Wire
open Panrpc

/-- A non-nil error whose message `m` has a non-blank character arrives as a non-nil error with
    exactly the message `m` (nothing trimmed), for a function returning only an error and for one
    returning value and error. -/
theorem C10_message_exact {V P : Type} (σ : Codec V P) (reqCall m : String) (v : V) (prev : Option String)
    (τ : Nat) (hm : ∃ c ∈ m.toList, isGoSpace c = false) :
    (resErrField Skeleton.current (mkResponse Skeleton.current σ reqCall (.oneErr (some m) : Ret V))).map
        (respErr Skeleton.current prev) = some (some m)
    ∧ (resErrField Skeleton.current (mkResponse Skeleton.current σ reqCall (.two v (some m)))).map
        (respErr Skeleton.current prev) = some (some m)
    ∧ callerResult Skeleton.current σ prev 1 true τ
        (mkResponse Skeleton.current σ reqCall (.oneErr (some m) : Ret V)) = some (.errOnly (some m)) := by
  refine ⟨?_, ?_, ?_⟩
  · rw [resErrField_mkResponse _ cur_res]; simp [respErrStr, respErr_nonblank _ cur_dec prev m hm]
  · rw [resErrField_mkResponse _ cur_res]; simp [respErrStr, respErr_nonblank _ cur_dec prev m hm]
  · rw [callerResult_mkResponse _ cur_res cur_err_value_distinct]
    simp only [respErrStr, respErr_nonblank _ cur_dec prev m hm, decodeResult_one_err _ cur_dec]

/-- Value and error: the caller gets the value after one round trip into its declared type `τ`
    together with the error `m`.  (If that `unmarshal` fails the stub panics → setErr, error or not.) -/
theorem C10_value_with_error {V P : Type} (σ : Codec V P) (reqCall m : String) (v : V) (prev : Option String)
    (τ : Nat) (o : Bool) (hm : ∃ c ∈ m.toList, isGoSpace c = false) :
    callerResult Skeleton.current σ prev 2 o τ (mkResponse Skeleton.current σ reqCall (.two v (some m)))
      = some (.ofDec2 (some m) (rt σ τ v)) := by
  rw [callerResult_mkResponse _ cur_res cur_err_value_distinct]
  simp only [respErrStr, respValue, respErr_nonblank _ cur_dec prev m hm, decodeResult_two _ cur_dec, rt]

/-- A nil error arrives as a nil error, whatever an earlier frame carried. -/
theorem C10_nil_stays_nil {V P : Type} (σ : Codec V P) (reqCall : String) (v : V) (prev : Option String)
    (τ : Nat) (o : Bool) :
    callerResult Skeleton.current σ prev 1 true τ
        (mkResponse Skeleton.current σ reqCall (.oneErr none : Ret V)) = some (.errOnly none)
    ∧ callerResult Skeleton.current σ prev 2 o τ (mkResponse Skeleton.current σ reqCall (.two v none))
        = some (.ofDec2 none (rt σ τ v)) := by
  constructor
  · rw [callerResult_mkResponse _ cur_res cur_err_value_distinct]
    simp only [respErrStr, respErr_empty _ cur_dec, decodeResult_one_nil _ cur_dec]
  · rw [callerResult_mkResponse _ cur_res cur_err_value_distinct]
    simp only [respErrStr, respValue, respErr_empty _ cur_dec, decodeResult_two _ cur_dec, rt]

/-- The class the property excludes, as a fact about the code: a non-nil error whose message consists
    of blank characters only (including the empty message, F7) arrives as a nil error. -/
theorem C10_blank_message_arrives_nil {V P : Type} (σ : Codec V P) (reqCall m : String) (v : V)
    (prev : Option String) (τ : Nat) (o : Bool) (hm : ∀ c ∈ m.toList, isGoSpace c = true) :
    callerResult Skeleton.current σ prev 1 true τ
        (mkResponse Skeleton.current σ reqCall (.oneErr (some m) : Ret V)) = some (.errOnly none)
    ∧ callerResult Skeleton.current σ prev 2 o τ (mkResponse Skeleton.current σ reqCall (.two v (some m)))
        = some (.ofDec2 none (rt σ τ v)) := by
  constructor
  · rw [callerResult_mkResponse _ cur_res cur_err_value_distinct]
    simp only [respErrStr, respErr_blank _ cur_dec prev m hm, decodeResult_one_nil _ cur_dec]
  · rw [callerResult_mkResponse _ cur_res cur_err_value_distinct]
    simp only [respErrStr, respValue, respErr_blank _ cur_dec prev m hm, decodeResult_two _ cur_dec, rt]

/-- `strings.TrimSpace(s) != ""` exactly when `s` has a character outside Go's `unicode.IsSpace`. -/
theorem C10_trimSpace_spec (s : List Char) : trimSpace s ≠ [] ↔ ∃ c ∈ s, isGoSpace c = false :=
  trimSpace_ne_nil_iff s

/-! ### non-vacuity -/

/-- the hypothesis of `C10_message_exact`: a message wrapped in blanks (U+00A0 in front, "\n\t" behind) -/
example : ∃ c ∈ "\u00a0boom\n\t".toList, isGoSpace c = false := ⟨'b', by decide, by decide⟩
example : respErr Skeleton.current none "\u00a0boom\n\t" = some "\u00a0boom\n\t" := by decide
example : callerResult Skeleton.current idCodec none 2 true 3
    (mkResponse Skeleton.current idCodec "id" (.two "v" (some " x "))) = some (.valErr (some "v") (some " x ")) := rfl
example : callerResult Skeleton.current idCodec (some "stale") 1 true 0
    (mkResponse Skeleton.current idCodec "id" (.oneErr none : Ret String)) = some (.errOnly none) := rfl
/-- the hypothesis of `C10_blank_message_arrives_nil`: every code point of Go's table -/
example : ∀ c ∈ "\t\n\x0b\x0c\r \u0085\u00a0\u1680\u2000\u2001\u2002\u2003\u2004\u2005\u2006\u2007\u2008\u2009\u200a\u2028\u2029\u202f\u205f\u3000".toList,
    isGoSpace c = true := by decide
example : respErr Skeleton.current none "\u0085\u00a0\u2003\u3000 " = none := by decide
/-- neighbours of the table that are NOT white space for Go: U+200B, U+FEFF, U+180E, U+001F, U+1FFF, U+2060 -/
example : ∀ c ∈ "\u200b\ufeff\u180e\x1f\x1c\u1fff\u2060\u00a1\u0084".toList, isGoSpace c = false := by decide
example : respErr Skeleton.current none "\u200b" = some "\u200b" := by decide
example : trimSpace " \t a b \n".toList = "a b".toList := by decide

/-- the source facts are load-bearing: were `err` declared outside the loop, an earlier frame's error would stick -/
example : respErr { Skeleton.current with respErrFreshPerFrame := false } (some "stale") "" = some "stale" := by decide

/-- For closures the "accompanying value" travels back through the proxy's result conversion, which is
    skipped only for an invalid (nil) result — never because the closure also returned an error
    (checked against the regenerated skeleton). -/
theorem C10_closure_value_kept_with_error : Skeleton.current.pxResultChecksValid = true := by decide

/-- "nil stays nil" for closures whose declared error result is a concrete pointer type: the wrapper decides
    "failed or not" by `IsNil()` on the last result and only then converts it to `error` (checked against the
    regenerated skeleton) — a type assertion alone would turn the nil pointer into a non-nil `error`. -/
theorem C10_closure_nil_error_stays_nil : Skeleton.current.clNilErrorViaIsNil = true := by decide

/-- The error the responder looks at is THE error the handler / closure returned. `utils.Call` hands back exactly what the function returned — `out = fn.Call(in)` is the only write to its result list (checked against the regenerated skeleton; `utils/call.go` is not among this property's anchors, yet every handler's and every closure's results pass through it). -/
theorem C10_results_pass_through_utils_call :
    Skeleton.current.ucResultsUntouched = true := by decide

/-- A closure that panics yields an error for that invocation, never the end of the link: the inner `utils.Call` recovers every panic, maps non-error values, and re-raises none (checked against the regenerated skeleton). -/
theorem C10_a_panicking_closure_is_an_error_not_a_dead_link :
    Skeleton.current.ucRecovers = true ∧ Skeleton.current.ucNonErrorPanicMapped = true ∧ Skeleton.current.panicSitesCanonical = true ∧ Skeleton.current.clCallViaUtilsCall = true := by decide

/-- The wire model answers EVERY handler outcome — whatever the error is, in particular errors that wrap sentinels the
    library gives a meaning to elsewhere (`context.Canceled`, `io.EOF`, `utils.ErrClosed`): the message travels. That is
    the code's responder only if there is no way out of it that neither writes the response nor ends the link: every
    `return` in the goroutine that runs the handler directly follows a `setErr(…)` (checked against the regenerated
    skeleton). A responder that leaves silently for some error values turns the handler's message into the caller's
    own deadline. -/
theorem C10_every_handler_outcome_is_answered :
    Skeleton.current.respEveryReturnReports = true ∧ Skeleton.current.errBranchesHandled = true := by decide

end Panrpc.Wire

#print axioms Panrpc.Wire.C10_message_exact
#print axioms Panrpc.Wire.C10_value_with_error
#print axioms Panrpc.Wire.C10_nil_stays_nil
#print axioms Panrpc.Wire.C10_blank_message_arrives_nil
#print axioms Panrpc.Wire.C10_trimSpace_spec
#print axioms Panrpc.Wire.C10_closure_value_kept_with_error
#print axioms Panrpc.Wire.C10_closure_nil_error_stays_nil
#print axioms Panrpc.Wire.C10_results_pass_through_utils_call
#print axioms Panrpc.Wire.C10_a_panicking_closure_is_an_error_not_a_dead_link
#print axioms Panrpc.Wire.C10_every_handler_outcome_is_answered
