/-
  Props/C08.lean — C08, stream part: "the observable outcome of any workload is the same
  whether the link is message-based or stream-based".

  Model: M4 (Model/Stream.lean).  `LinkStream` is `LinkMessage` behind four adapters; the
  theorems say that what the two read adapters return, for every sequence of decoder results
  and every interleaving, is what a FIFO message transport would deliver: the `request`
  members in order to the request loop, the `response` members in order to the response
  loop, then the decode error to both — and that the write adapters emit envelopes with
  exactly one member.  All theorems are about `Skeleton.current`.

  Not covered here: payload parametricity (`C08_payload_parametric`, endpoint model);
  the behaviour at teardown differs between the APIs on a tree whose hand-off is unguarded
  (`decoder_wedges_on_pinned` below; the positive statement is in Props/C08Live.lean).
-/
import Panrpc.Lemmas.Stream
import Panrpc.Generated.Current
import Panrpc.Pinned

namespace Panrpc.St
open Panrpc

/-! ### the source facts these theorems rest on -/

theorem cur_stok : StOk Skeleton.current := ⟨by decide, by decide, by decide, by decide, by decide, by decide⟩

theorem cur_readers_select_done : Skeleton.current.stReadersSelectDone = true := by decide

/-! ### safety -/

/-- Demultiplexing preserves order and invents nothing: in every reachable state the values
    the request-read adapter has returned are a prefix of the request members of the decoded
    envelopes, in order; likewise for responses; and the decoded envelopes are a prefix of
    what the stream carries. -/
theorem C08_stream_demux_order : ∀ inp s, Reach Skeleton.current inp s →
    s.gotReq <+: reqsOf s.consumed ∧ s.gotRes <+: ressOf s.consumed ∧ s.consumed <+: inp :=
  fun _ _ h => demux_prefix (reach_sinv _ cur_stok h)

/-- …and loses nothing: every decoded member has been returned, or is the one the decoder is
    handing over right now, or was dropped when the decoder aborted — which it only does once
    the link context is cancelled. -/
theorem C08_stream_no_loss : ∀ inp s, Reach Skeleton.current inp s →
    reqsOf s.consumed = s.gotReq ++ pendReq s.dec ++ s.lostReq ∧
    ressOf s.consumed = s.gotRes ++ pendRes s.dec ++ s.lostRes ∧
    (s.linkCtxDone = false → s.lostReq = [] ∧ s.lostRes = []) :=
  fun _ _ h =>
    let hi := reach_sinv _ cur_stok h
    ⟨hi.reqs, hi.ress, lost_only_on_ctx hi⟩

/-- the decoder goroutine never panics (it closes `decodeDone` at most once) -/
theorem C08_stream_no_panic : ∀ inp s, Reach Skeleton.current inp s → s.crashed = false :=
  fun _ _ h => (reach_sinv _ cur_stok h).nocrash

/-- what holds when a read adapter has returned the error `e` of a failed `decode` -/
structure EndOk (s : State) (e : Option StErr) (got members : List Payload) : Prop where
  /-- it is the (non-nil) error of the last `decode` call … -/
  is_err     : e = some (.decode (s.consumed.length - 1))
  /-- … which was the first failing one, -/
  last_fails : s.consumed.getLast? = some none
  first      : s.consumed.dropLast.all Option.isSome = true
  /-- and every member decoded before it has been returned before the error (never after:
      the decoder is done) -/
  complete   : got = members

/-- Both readers get exactly the decode error, after all earlier members — or, if the link
    context was cancelled and the decoder gave up a hand-off, the context's error (which is
    what LinkMessage's own `readRequestCtx` / `readResponseCtx` return for a cancelled context
    over a message transport, too). Never a nil error, never anything else. -/
theorem C08_stream_end : ∀ inp s, Reach Skeleton.current inp s →
    (∀ e, s.reqEnd = some e → s.reqRd = .exited ∧ e = s.decodeErr ∧ s.dec = .done ∧
       (EndOk s e s.gotReq (reqsOf s.consumed) ∨ (e = some .ctx ∧ s.linkCtxDone = true))) ∧
    (∀ e, s.resEnd = some e → s.resRd = .exited ∧ e = s.decodeErr ∧ s.dec = .done ∧
       (EndOk s e s.gotRes (ressOf s.consumed) ∨ (e = some .ctx ∧ s.linkCtxDone = true))) := by
  intro inp s h
  have hi := reach_sinv _ cur_stok h
  constructor
  · intro e he
    obtain ⟨hd, hee, hx⟩ := hi.req_end e he
    obtain ⟨f1, f | f⟩ := end_facts hi hd
    · obtain ⟨f2, f3, f4, f5, _⟩ := f
      exact ⟨hx, hee, f1, Or.inl ⟨by rw [hee, f2], f3, f4, f5.symm⟩⟩
    · exact ⟨hx, hee, f1, Or.inr ⟨by rw [hee, f.1], f.2⟩⟩
  · intro e he
    obtain ⟨hd, hee, hx⟩ := hi.res_end e he
    obtain ⟨f1, f | f⟩ := end_facts hi hd
    · obtain ⟨f2, f3, f4, _, f6⟩ := f
      exact ⟨hx, hee, f1, Or.inl ⟨by rw [hee, f2], f3, f4, f6.symm⟩⟩
    · exact ⟨hx, hee, f1, Or.inr ⟨by rw [hee, f.1], f.2⟩⟩

/-- Once `decodeDone` is closed a reader that keeps reading does get the error: its
    `case <-decodeDone` is enabled and returns `decodeErr`. -/
theorem C08_stream_end_delivered : ∀ inp s, Reach Skeleton.current inp s → s.decodeDone = true →
    (s.reqRd = .waiting → (step Skeleton.current s .readDoneReq).map (·.reqEnd) = some (some s.decodeErr)) ∧
    (s.resRd = .waiting → (step Skeleton.current s .readDoneRes).map (·.resEnd) = some (some s.decodeErr)) := by
  intro inp s h hd
  have hc := (reach_sinv _ cur_stok h).nocrash
  have hsel := cur_readers_select_done
  constructor <;> intro hw <;> simp [step, hc, hw, hd, hsel]

/-- The same as one statement about complete runs: over a stream that carries the envelopes
    `es` and then fails, with the link context not cancelled, a reader that has got its error
    has got exactly the FIFO subsequence of its members before it, and the error is the one of
    decode call number `es.length`.  Hence every such run of the stream-linked system is a run
    of the message-linked system over a FIFO transport that delivers `es.filterMap (·.req)` to
    `readRequest`, `es.filterMap (·.res)` to `readResponse`, and then fails both. -/
theorem C08_stream_refines_message : ∀ (es : List Envelope) s,
    Reach Skeleton.current (es.map some ++ [none]) s → s.linkCtxDone = false →
    (∀ e, s.reqEnd = some e → s.gotReq = es.filterMap (·.req) ∧ e = some (.decode es.length)) ∧
    (∀ e, s.resEnd = some e → s.gotRes = es.filterMap (·.res) ∧ e = some (.decode es.length)) := by
  intro es s h hctx
  have hi := reach_sinv _ cur_stok h
  have key : s.decodeDone = true →
      s.consumed = es.map some ++ [none] ∧ s.decodeErr = some (.decode (s.consumed.length - 1)) ∧
      reqsOf s.consumed = s.gotReq ∧ ressOf s.consumed = s.gotRes := by
    intro hd
    obtain ⟨_, f | f⟩ := end_facts hi hd
    · obtain ⟨f2, hlast, _, f5, f6⟩ := f
      refine ⟨?_, f2, f5, f6⟩
      have hmem : none ∈ s.consumed := List.mem_of_getLast? hlast
      have hnot : (none : Option Envelope) ∉ es.map some := by simp
      rcases List.append_eq_append_iff.mp hi.split with ⟨a', ha, _⟩ | ⟨c', hc, hr⟩
      · exact absurd (by rw [ha]; exact List.mem_append_left _ hmem) hnot
      · cases c' with
        | nil => rw [hc] at hmem; simp at hmem
        | cons x c'' =>
          have : c'' = [] ∧ x = none := by
            have := congrArg List.length hr
            cases c'' with
            | nil => simp at hr; exact ⟨rfl, hr.1.symm⟩
            | cons _ _ => simp at this
          rw [hc, this.1, this.2]
    · rw [hctx] at f; cases f.2
  have hreq : reqsOf (es.map some ++ [none]) = es.filterMap (·.req) := by
    simp [reqsOf, List.filterMap_map, Function.comp_def]
  have hres : ressOf (es.map some ++ [none]) = es.filterMap (·.res) := by
    simp [ressOf, List.filterMap_map, Function.comp_def]
  constructor
  · intro e he
    obtain ⟨hd, hee, _⟩ := hi.req_end e he
    obtain ⟨hk, f2, f5, _⟩ := key hd
    refine ⟨by rw [← f5, hk, hreq], ?_⟩
    rw [hee, f2, hk]; simp
  · intro e he
    obtain ⟨hd, hee, _⟩ := hi.res_end e he
    obtain ⟨hk, f2, _, f6⟩ := key hd
    refine ⟨by rw [← f6, hk, hres], ?_⟩
    rw [hee, f2, hk]; simp

/-- The write adapters emit an envelope with exactly one member, the payload they were given:
    read back through the decoder, a written request goes to the request loop only and a
    written response to the response loop only. -/
theorem C08_envelope_written_has_one_member : ∀ (b : Payload) (o : Option Payload),
    writeReq Skeleton.current b o = { req := some b, res := none } ∧
    writeRes Skeleton.current b o = { req := none, res := some b } ∧
    reqsOf [some (writeReq Skeleton.current b o)] = [b] ∧ ressOf [some (writeReq Skeleton.current b o)] = [] ∧
    reqsOf [some (writeRes Skeleton.current b o)] = [] ∧ ressOf [some (writeRes Skeleton.current b o)] = [b] := by
  intro b o
  have h1 : Skeleton.current.stEncodeRequestOnly = true := by decide
  have h2 : Skeleton.current.stEncodeResponseOnly = true := by decide
  simp [writeReq, writeRes, h1, h2, reqsOf, ressOf]

/-! ### liveness-shaped statements (cited by C14 / C15) -/

/-- As long as both reader loops keep reading and the stream ends in a decode error, the
    decoder goroutine can run to its end (this half needs no guard on the hand-off). -/
theorem decoder_finishes_if_readers_stay : ∀ inp s, Reach Skeleton.current inp s → none ∈ s.inp →
    s.reqRd = .waiting → s.resRd = .waiting → Leads Skeleton.current s (fun s' => s'.dec = .done) :=
  fun _ _ h hn h1 h2 => decoder_can_finish_gen _ cur_stok h hn (Or.inr ⟨h1, h2⟩)

/-- Pinned tree (F5b): the request loop leaves, a request arrives: the decoder goroutine is
    stuck in `requests <- *msg.Request` forever — whatever anybody does afterwards (cancelling
    the link context included) the decoder stays where it is, and none of its own actions is
    ever enabled again. -/
theorem decoder_wedges_on_pinned :
    ∃ s0, run Skeleton.pinned (init [some { req := some 1, res := none }, none]) [.exitReq, .decRead] = some s0 ∧
      s0.dec = .handReq 1 none ∧
      (∀ acts s', run Skeleton.pinned s0 acts = some s' → s'.dec = .handReq 1 none ∧ s'.dec ≠ .done) ∧
      (∀ acts s', run Skeleton.pinned s0 acts = some s' → ∀ a, a.ofDecoder = true → step Skeleton.pinned s' a = none) := by
  have hg : Skeleton.pinned.stHandoffGuarded = false := by decide
  refine ⟨_, rfl, by decide, ?_, ?_⟩
  · intro acts s' hr
    have := wedge_run_req _ hg acts (by decide) (by decide : _ = Dec.handReq 1 none) hr
    exact ⟨this.2, by rw [this.2]; decide⟩
  · intro acts s' hr a ha
    have := wedge_run_req _ hg acts (by decide) (by decide : _ = Dec.handReq 1 none) hr
    exact wedge_no_decoder_step _ hg a this.1 this.2 ha

/-! ### non-vacuity -/

/-- a complete exchange: two envelopes, then the stream fails; both readers end with the error
    of decode call 2 after having received `[1]` resp. `[2, 3]` -/
example : (run Skeleton.current
      (init [some { req := some 1, res := some 2 }, some { req := none, res := some 3 }, none])
      [.decRead, .handReq, .handRes, .decRead, .handRes, .decRead, .decFinish, .readDoneReq, .readDoneRes]).map
    (fun s => decide (s.gotReq = [1] ∧ s.gotRes = [2, 3] ∧ s.reqEnd = some (some (.decode 2)) ∧ s.resEnd = some (some (.decode 2)) ∧
                      s.dec = .done)) = some true := by decide

/-- the hypotheses of `C08_stream_end_delivered` and `decoder_finishes_if_readers_stay` are met -/
example : (run Skeleton.current (init [some { req := some 1, res := none }, none])
      [.decRead, .handReq, .decRead, .decFinish]).map
    (fun s => decide (s.decodeDone = true ∧ s.reqRd = .waiting ∧ s.resRd = .waiting)) = some true := by decide

example : (run Skeleton.current (init [some { req := some 1, res := some 2 }, none]) [.decRead]).map
    (fun s => decide (none ∈ s.inp ∧ s.reqRd = .waiting ∧ s.resRd = .waiting ∧ s.dec = .handReq 1 (some 2))) = some true := by
  decide

/-- a reader cannot get the error early: `readDoneReq` is rejected while `decodeDone` is open -/
example : run Skeleton.current (init [some { req := some 1, res := none }, none]) [.decRead, .readDoneReq] = none := by
  decide

/-- The hand-off between the decoder and the two read loops is a rendezvous (unbuffered channels):
    the model's joint hand-off step is what the source does, so a frame is consumed by its loop
    before the decoder can reach a later decode error (checked against the regenerated skeleton). -/
theorem C08_handoff_is_rendezvous : Skeleton.current.stHandoffChanCap = 0 := by decide

/-- The source declares `var msg Message[T]` INSIDE the decode loop (checked against the regenerated
    skeleton), so the model's `decRead` starts every frame from an empty envelope (`decoded` = the
    envelope just decoded).  This is the hypothesis `StOk.fresh` of every FIFO theorem above; what
    happens without it is `C08_hoisted_envelope_redelivers` below: a frame that omits a member (any
    encoder that drops empty fields) redelivers the previous frame's — behaviour that depends on the
    peer's encoder, which the message API cannot show. -/
theorem C08_envelope_fresh_per_frame : Skeleton.current.stMsgFreshPerIteration = true := by decide

/-- the source that differs from the current one only in declaring the envelope OUTSIDE the decode loop -/
abbrev hoisted : Skeleton := { Skeleton.current with stMsgFreshPerIteration := false }

/-- **The fact is needed.**  With the envelope hoisted out of the loop, the peer sends a request
    frame `{request: 1}` and then a response frame `{response: 7}`: decoding the second frame leaves
    the `Request` member of the first in place, and request 1 is handed to the request loop a SECOND
    time (the run below is enabled and ends with `gotReq = [1, 1]`) although the peer sent it once
    (`reqsOf consumed = [1]`) — the FIFO statement `C08_stream_no_loss` fails on that tree. -/
theorem C08_hoisted_envelope_redelivers :
    (run hoisted (init [some { req := some 1, res := none }, some { req := none, res := some 7 }])
      [.decRead, .handReq, .decRead, .handReq, .handRes]).map
    (fun s => (s.gotReq, s.gotRes, reqsOf s.consumed, ressOf s.consumed, s.crashed)) =
      some ([1, 1], [7], [1], [7], false) := by
  decide

/-- … in particular the conclusion of `C08_stream_demux_order` is false in a reachable state of that tree -/
theorem C08_hoisted_envelope_breaks_fifo :
    ∃ inp s, Reach hoisted inp s ∧ ¬ (s.gotReq <+: reqsOf s.consumed) := by
  refine ⟨[some { req := some 1, res := none }, some { req := none, res := some 7 }], _,
    reach_of_run hoisted [.decRead, .handReq, .decRead, .handReq, .handRes] Reach.init rfl, ?_⟩
  decide

/-- On the current source the same two frames give the request loop request 1 ONCE: after the second
    `decode` the decoder holds only the response (`dec = handRes 7`), the second hand-off to the request
    loop is not a step, and the run that hands over what is there ends with `gotReq = [1]`, `gotRes = [7]`. -/
theorem C08_fresh_envelope_delivers_once :
    (run Skeleton.current (init [some { req := some 1, res := none }, some { req := none, res := some 7 }])
      [.decRead, .handReq, .decRead]).map (·.dec) = some (.handRes 7) ∧
    run Skeleton.current (init [some { req := some 1, res := none }, some { req := none, res := some 7 }])
      [.decRead, .handReq, .decRead, .handReq, .handRes] = none ∧
    (run Skeleton.current (init [some { req := some 1, res := none }, some { req := none, res := some 7 }])
      [.decRead, .handReq, .decRead, .handRes]).map
    (fun s => (s.gotReq, s.gotRes, reqsOf s.consumed, ressOf s.consumed, s.crashed)) =
      some ([1], [7], [1], [7], false) := by
  decide

/-- When a link dies the calls in flight get `utils.ErrClosed` — not the cause handed to `Close` (the user-supplied read / decode function's error, whose text differs per API and serializer): the receive function's closed-signal case returns ErrClosed and nothing else (checked against the regenerated skeleton). -/
theorem C08_in_flight_calls_fail_uniformly :
    Skeleton.current.bcRecvSelectsDone = true ∧ Skeleton.current.bcReceiveErrorsOnlyClosed = true := by decide

/-- What a closure receives depends on its declared parameter types only, not on the dynamic type the serializer's generic decoder produced (`float64` under JSON, `uint64` / `int64` under CBOR): the wrapper's conversion loop is convert–check–store and nothing else, no type assertion on the decoded argument (checked against the regenerated skeleton; `rpc/manager.go` is outside this property's anchors). -/
theorem C08_closure_arguments_converted_by_declared_type_only :
    Skeleton.current.clConvertsEveryArg = true ∧ Skeleton.current.cvUsesConvertibleTo = true := by decide

end Panrpc.St

#print axioms Panrpc.St.C08_envelope_fresh_per_frame
#print axioms Panrpc.St.C08_hoisted_envelope_redelivers
#print axioms Panrpc.St.C08_hoisted_envelope_breaks_fifo
#print axioms Panrpc.St.C08_fresh_envelope_delivers_once

#print axioms Panrpc.St.C08_handoff_is_rendezvous
#print axioms Panrpc.St.C08_stream_demux_order
#print axioms Panrpc.St.C08_stream_no_loss
#print axioms Panrpc.St.C08_stream_no_panic
#print axioms Panrpc.St.C08_stream_end
#print axioms Panrpc.St.C08_stream_end_delivered
#print axioms Panrpc.St.C08_stream_refines_message
#print axioms Panrpc.St.C08_envelope_written_has_one_member
#print axioms Panrpc.St.decoder_finishes_if_readers_stay
#print axioms Panrpc.St.decoder_wedges_on_pinned
#print axioms Panrpc.St.C08_in_flight_calls_fail_uniformly
#print axioms Panrpc.St.C08_closure_arguments_converted_by_declared_type_only
