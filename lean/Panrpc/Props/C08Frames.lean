/-
  Props/C08Frames.lean — the decode target of a read loop and the handlers it spawns (C06, C08, C09).

  The request loop of `LinkMessage` decodes a frame into a `utils.Request[T]` and spawns a goroutine that
  reads `req.Call` / `req.Args` LATER (when it resolves the function, decodes the arguments, builds the
  response).  The loop does not wait for that goroutine: it reads and decodes the next frame at once.
  `fresh` says whether every iteration declares its own struct (`reqFrameFreshPerIteration`, regenerated
  from the source) — otherwise the spawned goroutines alias ONE buffer which the loop overwrites (a struct
  copy does not help: the argument slice's backing array is still shared).
-/
import Panrpc.Generated.Current

namespace Panrpc.Frames
open Panrpc

/-- A frame: call id and argument payload. -/
abbrev Frame := Nat × Nat

structure St where
  inbox : List Frame                 -- frames the peer has sent and the loop has not read yet
  buf   : Nat                        -- argument bytes currently in the shared decode target
  pend  : List (Nat × Option Nat)    -- spawned handlers: call id, and their own arguments (`none`: they alias `buf`)
  out   : List Frame                 -- (call id, arguments the handler actually ran with)

inductive Act where
  | read            -- the loop reads and decodes the next frame and spawns its handler
  | run (i : Nat)   -- the i-th pending handler reads its arguments and runs

def step (fresh : Bool) (s : St) : Act → Option St
  | .read => match s.inbox with
    | [] => none
    | (c, a) :: rest =>
      some { s with inbox := rest, buf := a, pend := s.pend ++ [(c, if fresh then some a else none)] }
  | .run i => match s.pend[i]? with
    | none => none
    | some (c, own) => some { s with pend := s.pend.eraseIdx i, out := s.out ++ [(c, own.getD s.buf)] }

def init (frames : List Frame) : St := { inbox := frames, buf := 0, pend := [], out := [] }

inductive Reach (fresh : Bool) (frames : List Frame) : St → Prop where
  | init : Reach fresh frames (init frames)
  | step {s s' a} : Reach fresh frames s → step fresh s a = some s' → Reach fresh frames s'

/-- Invariant with per-iteration structs: everything in flight is one of the peer's frames. -/
def Inv (frames : List Frame) (s : St) : Prop :=
  (∀ f ∈ s.inbox, f ∈ frames) ∧ (∀ p ∈ s.pend, ∃ a, p.2 = some a ∧ (p.1, a) ∈ frames) ∧ (∀ f ∈ s.out, f ∈ frames)

theorem inv_reach (frames : List Frame) : ∀ s, Reach true frames s → Inv frames s := by
  intro s h
  induction h with
  | init => exact ⟨fun f hf => hf, fun p hp => by simp [init] at hp, fun f hf => by simp [init] at hf⟩
  | @step s s' a _ hs ih =>
    obtain ⟨hi, hp, ho⟩ := ih
    cases a with
    | read =>
      simp only [step] at hs
      split at hs
      · cases hs
      · rename_i c a rest heq
        cases hs
        refine ⟨fun f hf => hi f (by rw [heq]; exact List.mem_cons_of_mem _ hf), ?_, ho⟩
        intro p hp'
        rcases List.mem_append.mp hp' with h | h
        · exact hp p h
        · simp only [List.mem_singleton] at h
          subst h
          exact ⟨a, rfl, hi (c, a) (by rw [heq]; exact List.mem_cons_self ..)⟩
    | run i =>
      simp only [step] at hs
      split at hs
      · cases hs
      · rename_i c own heq
        cases hs
        have hm : (c, own) ∈ s.pend := List.mem_of_getElem? heq
        obtain ⟨a, ha, hf⟩ := hp _ hm
        refine ⟨hi, fun p hp' => hp p (List.mem_of_mem_eraseIdx hp'), ?_⟩
        intro f hf'
        rcases List.mem_append.mp hf' with h | h
        · exact ho f h
        · simp only [List.mem_singleton] at h
          subst h
          simp only at ha
          subst ha
          exact hf

/-- C08/C09 — every request runs with the arguments of ITS OWN frame, whatever the peer pipelines and however
    the handlers are scheduled against the read loop: with the regenerated skeleton's per-iteration struct. -/
theorem C08_handlers_run_with_their_own_frame (frames : List Frame) (s : St)
    (h : Reach Skeleton.current.reqFrameFreshPerIteration frames s) : ∀ f ∈ s.out, f ∈ frames := by
  have hc : Skeleton.current.reqFrameFreshPerIteration = true := by decide
  rw [hc] at h
  exact (inv_reach frames s h).2.2

/-- Witness: with one decode target reused across iterations two pipelined well-formed requests suffice — the
    first handler runs with the second request's arguments (in the Go code: `json.Unmarshal` reading bytes that
    change underfoot, i.e. a crash of the process, or a silently wrong result). -/
theorem C06_shared_decode_target_crosses_requests :
    ∃ s, Reach false [(1, 10), (2, 20)] s ∧ (1, 20) ∈ s.out ∧ (1, 20) ∉ [(1, 10), (2, 20)] := by
  refine ⟨{ inbox := [], buf := 20, pend := [(2, none)], out := [(1, 20)] }, ?_, by simp, by decide⟩
  have h0 := Reach.init (fresh := false) (frames := [(1, 10), (2, 20)])
  have h1 := Reach.step (a := .read) h0 (s' := { inbox := [(2, 20)], buf := 10, pend := [(1, none)], out := [] }) (by rfl)
  have h2 := Reach.step (a := .read) h1 (s' := { inbox := [], buf := 20, pend := [(1, none), (2, none)], out := [] }) (by rfl)
  exact Reach.step (a := .run 0) h2 (by rfl)

/-- Non-vacuity: a run in which both pipelined requests are handled exists on the current skeleton. -/
example : ∃ s, Reach Skeleton.current.reqFrameFreshPerIteration [(1, 10), (2, 20)] s ∧ s.out = [(1, 10), (2, 20)] := by
  have hc : Skeleton.current.reqFrameFreshPerIteration = true := by decide
  rw [hc]
  refine ⟨{ inbox := [], buf := 20, pend := [], out := [(1, 10), (2, 20)] }, ?_, rfl⟩
  have h0 := Reach.init (fresh := true) (frames := [(1, 10), (2, 20)])
  have h1 := Reach.step (a := .read) h0 (s' := { inbox := [(2, 20)], buf := 10, pend := [(1, some 10)], out := [] }) (by rfl)
  have h2 := Reach.step (a := .read) h1 (s' := { inbox := [], buf := 20, pend := [(1, some 10), (2, some 20)], out := [] }) (by rfl)
  have h3 := Reach.step (a := .run 0) h2 (s' := { inbox := [], buf := 20, pend := [(2, some 20)], out := [(1, 10)] }) (by rfl)
  exact Reach.step (a := .run 0) h3 (by rfl)

end Panrpc.Frames

#print axioms Panrpc.Frames.C08_handlers_run_with_their_own_frame
#print axioms Panrpc.Frames.C06_shared_decode_target_crosses_requests
