/-
  Props/Foundation.lean — the contract of the shared infrastructure that EVERY call-level model assumes.

  A call, a closure invocation or a response of panrpc passes through `utils.Call`, the pending-call table
  (`utils.Broadcaster`), the codec methods of `utils/messages.go` and — when functions are passed — the closure
  manager.  The models of the call-level properties (C01–C06, C08–C13, C15–C17, C20) describe the mechanism in the
  files a property is anchored in and take this infrastructure as given.  Rounds 6–8 of the seeded changes broke
  properties through exactly these files: half of those changes passed the check of the property they broke, because
  the relevant fact was an obligation only of the properties anchored in that file.  This module states the contract
  once; `check` attaches it to every call-level property (not to C07, C14, C18, C19, whose models do not run calls
  through it), so that a change to the infrastructure is never invisible to a property that relies on it.  When one
  of these obligations fails and the property's own search finds no failing input, the check reports that the
  property "is no longer shown to hold" (`no-failing-input-found`) — which is what has happened: the model's
  assumption about the code is gone.
-/
import Panrpc.Generated.Current

namespace Panrpc.Foundation
open Panrpc

/-- `utils.Call`: one reflect call under a deferred recover that turns every panic into an error (non-error values
    mapped), re-raises none, hands the results back untouched and waits for nothing. -/
theorem infra_utils_call :
    Skeleton.current.ucRecovers = true ∧ Skeleton.current.ucNonErrorPanicMapped = true ∧
    Skeleton.current.ucResultsUntouched = true ∧ Skeleton.current.ucNoWaiting = true := by decide

/-- No package-level state anywhere in the library: nothing an invocation leaves behind can meet another one. -/
theorem infra_no_package_state : Skeleton.current.stateGlobals = [] := by decide

/-- The pending-call table: `Receive` fails only when the table is closed; the receive function listens to the
    value channel, the caller's context and the closed signal, and yields `ErrClosed` — nothing else — for the latter;
    `Publish` waits outside the lock, and the response loop publishes and forgets: nothing — in particular no
    `setErr` — hangs on whether somebody took the value, so a response nobody waits for (its call was cancelled, has
    ended, never existed) is dropped whatever it carries. -/
theorem infra_pending_call_table :
    Skeleton.current.respPublishFireAndForget = true ∧
    Skeleton.current.bcReceiveErrorsOnlyClosed = true ∧ Skeleton.current.bcRecvSelectsDone = true ∧
    Skeleton.current.bcRecvSelectsCallerCtx = true ∧ Skeleton.current.bcRecvSelectsChan = true ∧
    Skeleton.current.bcPublishSelectOutsideLock = true ∧ Skeleton.current.bcPublishLooksUpUnderLock = true := by decide

/-- Failures of the link, and only those, travel as panics into `setErr`: every `panic(…)` hands on a tested error,
    a sentinel or a context's error; the recover blocks are canonical; every error branch reports and leaves — and the
    responder leaves ONLY that way: a request is answered or the link ends. -/
theorem infra_failures_reach_setErr :
    Skeleton.current.respEveryReturnReports = true ∧
    Skeleton.current.panicSitesCanonical = true ∧ Skeleton.current.recoverBlocksCanonical = true ∧
    Skeleton.current.errBranchesHandled = true ∧ Skeleton.current.locksBalanced = true := by decide

/-- The four codec methods hand the struct itself to the user's function and do nothing else. -/
theorem infra_codec_methods_plain : Skeleton.current.msgCodecPlain = true := by decide

/-- The closure manager: fresh ids, the table holds `createClosure`'s wrapper itself, the mutex is not held across
    a closure body, the release waits for nobody, every argument is converted, a nil result of a concrete error type
    is no error, the user's function runs under `utils.Call`, and the only exported method is `CallClosure`. -/
theorem infra_closure_manager :
    Skeleton.current.clIdFresh = true ∧ Skeleton.current.clStoresCreatedClosure = true ∧
    Skeleton.current.clInvokeOutsideLock = true ∧ Skeleton.current.clFreeNeverWaits = true ∧
    Skeleton.current.clConvertsEveryArg = true ∧ Skeleton.current.clNilErrorViaIsNil = true ∧
    Skeleton.current.clCallViaUtilsCall = true ∧ Skeleton.current.lkClosureManagerMethods = ["CallClosure"] := by decide

/-- The read loops and the wrappers around the transport functions never wait for anything but the transport; every
    frame has its own decode target. -/
theorem infra_loops_and_wrappers :
    Skeleton.current.reqLoopBlocksOnlyOnRead = true ∧ Skeleton.current.respLoopBlocksOnlyOnRead = true ∧
    Skeleton.current.ioWrappersNonBlocking = true ∧ Skeleton.current.reqFrameFreshPerIteration = true ∧
    Skeleton.current.respFrameFreshPerIteration = true := by decide

/-- The stream adapter (`LinkStream`): the decoder hands EVERY non-nil member of an envelope on (request and response
    independently), guards each hand-off with the link's context, declares a fresh envelope per frame, and closes its
    done signal exactly once per exit. -/
theorem infra_stream_decoder :
    Skeleton.current.stDecoderHandsRequests = true ∧ Skeleton.current.stDecoderHandsResponses = true ∧
    Skeleton.current.stHandoffGuarded = true ∧ Skeleton.current.stAbortClosesDone = true ∧
    Skeleton.current.stDoneClosedOncePerExit = true ∧ Skeleton.current.stMsgFreshPerIteration = true := by decide

/-- The callee-side closure proxy: closure id, argument list, context and stub are per INVOCATION (the id is decoded
    from the argument at the proxy's own position), a nil result is checked before it is converted, and its recover
    block reports to `setErr`. -/
theorem infra_closure_proxy :
    Skeleton.current.pxClosureIdPerInvocation = true ∧ Skeleton.current.pxCtxIsInvocationCtx = true ∧
    Skeleton.current.pxRecoverReports = true ∧ Skeleton.current.pxResultChecksValid = true ∧
    Skeleton.current.cvHandlesInvalid = true := by decide

end Panrpc.Foundation

#print axioms Panrpc.Foundation.infra_utils_call
#print axioms Panrpc.Foundation.infra_no_package_state
#print axioms Panrpc.Foundation.infra_pending_call_table
#print axioms Panrpc.Foundation.infra_failures_reach_setErr
#print axioms Panrpc.Foundation.infra_codec_methods_plain
#print axioms Panrpc.Foundation.infra_closure_manager
#print axioms Panrpc.Foundation.infra_loops_and_wrappers
#print axioms Panrpc.Foundation.infra_stream_decoder
#print axioms Panrpc.Foundation.infra_closure_proxy
