/-
  Props/C15.lean — "A finished link leaves nothing behind" (the part M2 carries: the per-call
  waiter goroutines and the pending-call table; closure registrations are C12's
  `C12_empty_when_idle`; loops, decoder and enumeration belong to the registry model).

  A link has ended once some `setErr` closed the pending-call table (`bc.closed`).  The waiter
  goroutine of a call hands its response over the channel `res`; the call thread may have left
  through `<-linkCtx.Done()` or a write failure and never receive it.
-/
import Panrpc.Lemmas.EndpointCurrent
import Panrpc.Pinned

namespace Panrpc.Ep
open Panrpc

/-- A waiter that holds a response can always get rid of it and exit, whether or not the call
    thread still listens: `waiterSend` is enabled (`res` is buffered and still empty), then the
    deferred `Free` — two own steps, and its table entry is gone. -/
theorem C15_waiter_can_always_exit : ∀ s, Reach Skeleton.current s → ∀ c r, s.waiters c = .have r →
    ∃ s', run Skeleton.current s [.waiterSend c, .waiterFree c] = some s' ∧
      s'.waiters c = .exited ∧ s'.bc.table c = none := by
  intro s h c r hw
  obtain ⟨s', h1, h2, h3, _⟩ := exit_from_have _ cur_live h c r hw
  exact ⟨s', h1, h2, h3⟩

/-- Every waiter goroutine of an ended link reaches `exited` by at most four steps of its own
    (enter the receive function, be woken by the close, send, free) — no step of the call thread,
    the peer or user code is needed. -/
theorem C15_waiters_exit_after_end : ∀ s, Reach Skeleton.current s → s.bc.closed = true →
    ∀ c, s.waiters c ≠ .absent →
    (waiterExitActs (s.waiters c) c).length ≤ 4 ∧
    ∃ s', run Skeleton.current s (waiterExitActs (s.waiters c) c) = some s' ∧
      s'.waiters c = .exited ∧ s'.bc.table c = none := by
  intro s h hcl c hw
  obtain ⟨s', h1, h2, h3, _⟩ := waiter_exits_when_closed _ cur_live h hcl c hw
  exact ⟨waiterExitActs_length _ _, s', h1, h2, h3⟩

/-- No pending-call entry survives the end of the link… -/
theorem C15_no_pending_entries : ∀ s, Reach Skeleton.current s → s.bc.closed = true →
    ∀ k, s.bc.table k = none :=
  fun _ h hcl => (reach_wk _ cur_hyg cur_wakes h).closed_empty hcl

/-- …and, ended or not, every entry in the table belongs to a call whose waiter has not exited:
    once all waiters have exited (and no call stands between `Receive` and the spawn of its
    waiter) the table is empty. -/
theorem C15_entry_has_live_waiter : ∀ s, Reach Skeleton.current s → ∀ k g, s.bc.table k = some g →
    s.waiters k ≠ .exited ∧ (s.calls k).pc ≠ .absent ∧ (s.calls k).pc ≠ .marshalled :=
  fun _ h => (reach_ti _ cur_waiterfrees cur_hyg cur_nochanclose h).tbl_wait

theorem C15_all_exited_table_empty : ∀ s, Reach Skeleton.current s →
    (∀ c, s.waiters c = .exited ∨ (s.calls c).pc = .absent ∨ (s.calls c).pc = .marshalled) →
    ∀ k, s.bc.table k = none := by
  intro s h hall k
  cases ht : s.bc.table k with
  | none => rfl
  | some g =>
    obtain ⟨a, b, c⟩ := C15_entry_has_live_waiter s h k g ht
    rcases hall k with h1 | h1 | h1
    · exact absurd h1 a
    · exact absurd h1 b
    · exact absurd h1 c

/-! ### non-vacuity -/

/-- the call left through the link context; its waiter is woken by the close, sends into the
    buffer nobody reads, frees and exits -/
example : (run Skeleton.current init
    [.callStart 0 5 2 0, .callReceive 0, .callSpawn 0, .callWrite 0, .waiterRecvCall 0,
     .cancelLink, .callLinkCtx 0, .callRecover 0 eLinkCtx, .setErrStore 0, .setErrClose 0,
     .waiterGetsDone 0, .waiterSend 0, .waiterFree 0]).map
    (fun s => decide ((s.calls 0).pc = .returned ∧ s.waiters 0 = .exited ∧ s.bc.closed = true ∧
                      s.res 0 = [⟨none, .closed⟩])) = some true := by decide

/-! ### the pinned tree violates the property (F5): `res` was unbuffered -/

/-- same schedule on the pinned tree: the waiter holds its response, the call thread is gone, and
    the send is not enabled -/
theorem C15_waiter_stranded_on_pinned : ∃ acts, (run Skeleton.pinned init acts).map
    (fun s => decide ((s.calls 0).pc = .returned ∧ s.waiters 0 = .have ⟨none, .closed⟩) &&
              (step Skeleton.pinned s (.waiterSend 0)).isNone) = some true :=
  ⟨[.callStart 0 5 2 0, .callReceive 0, .callSpawn 0, .callWrite 0, .waiterRecvCall 0,
    .cancelLink, .callLinkCtx 0, .callRecover 0 eLinkCtx, .setErrClose 0, .setErrStore 0,
    .waiterGetsDone 0], by decide⟩

/-- …and never will be: no step of any thread changes that state of the pair (call returned,
    waiter holding a response), so the goroutine and everything it references are leaked. -/
theorem C15_stranded_forever_on_pinned : ∀ s s' a, step Skeleton.pinned s a = some s' → ∀ c r,
    (s.calls c).pc = .returned → s.waiters c = .have r →
    (s'.calls c).pc = .returned ∧ s'.waiters c = .have r :=
  fun _ _ a hs c r hp hw => stranded_forever _ (by decide) a hs c r hp hw

/-- No goroutine stays parked in a release after the link ended: The release function `registerClosure` returns runs DEFERRED on every exit path of a closure-carrying call; it only locks, deletes and unlocks — no wait, channel operation or select (checked against the regenerated skeleton) — and the lock it takes is not held while a closure body runs. -/
theorem C15_closure_release_never_waits :
    Skeleton.current.clFreeNeverWaits = true ∧ Skeleton.current.clInvokeOutsideLock = true := by decide

end Panrpc.Ep

#print axioms Panrpc.Ep.C15_waiter_can_always_exit
#print axioms Panrpc.Ep.C15_waiters_exit_after_end
#print axioms Panrpc.Ep.C15_no_pending_entries
#print axioms Panrpc.Ep.C15_entry_has_live_waiter
#print axioms Panrpc.Ep.C15_all_exited_table_empty
#print axioms Panrpc.Ep.C15_waiter_stranded_on_pinned
#print axioms Panrpc.Ep.C15_stranded_forever_on_pinned
#print axioms Panrpc.Ep.C15_closure_release_never_waits
