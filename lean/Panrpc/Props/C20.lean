/-
  Props/C20.lean — "No data races inside panrpc under concurrent use".

  Model: P6 (Model/Lockset.lean): a fragment of the Go memory model (mutex unlock→lock,
  close→receive-that-observes-close, program order) and the extractor's access table
  `Skeleton.current.accesses` (regenerated from /repo on every run).

  Shape of the argument:
    `lockset_race_free`  (Lemmas/Lockset.lean, once and for all)
        well-formed trace  ∧  threads follow a disciplined table   →   no race
    `C20_instance`       the regenerated table is disciplined            (by decide)
    `C20_race_free`      the two combined.

  TRUSTED (not proved here, see DESIGN.md section 9):
    * completeness of the extractor's enumeration: every variable that several goroutines can
      reach (fields of Registry / closureManager / Broadcaster behind a shared receiver,
      locals of LinkMessage / LinkStream captured by a function literal and written there)
      and every access site of it is in the table.  `go test -race` on the harness workloads
      is the dynamic cross-check of this, not a proof;
    * the lexical lock sets are the dynamic ones: a `Lock()`…`Unlock()`/`defer Unlock()`
      region found in the AST really brackets the access at run time, on the mutex instance
      that belongs to the variable's instance (same receiver / same LinkMessage activation);
      this is hypothesis `Follows` of the theorem;
    * for the `close:<chan>` entries: the writing site is executed by one goroutine per
      variable instance, which is also the only one that closes the channel, after the write
      (part of `Follows`; it is what the table's "all writes in one site, write followed by
      close(chan) in that site" records);
    * `sync.Cond.Wait` is unlock;park;lock of its `L` (so accesses after `Wait` are inside an
      `acq … rel` bracket), the memory model of https://go.dev/ref/mem itself, and everything
      inside `reflect`, `context`, `sync`, the runtime, and the user-supplied transport /
      serializer functions (C20 assumes those thread-safe).
-/
import Panrpc.Lemmas.Lockset
import Panrpc.Generated.Current
import Panrpc.Pinned

namespace Panrpc.Ls
open Panrpc

/-- The regenerated access table satisfies the discipline: every variable is never written,
    or has one mutex held at every access, or is ordered by one close→receive edge. -/
theorem C20_instance : disciplined Skeleton.current.accesses = true := by decide

/-- **C20.**  Every well-formed interleaving of goroutines that access the shared variables
    the way the table records is free of data races. -/
theorem C20_race_free : ∀ tr : Trace, WF tr → Follows Skeleton.current.accesses tr →
    ∀ i j, ¬ Race tr i j :=
  fun tr hwf hf => lockset_race_free _ C20_instance tr hwf hf

/-- the pinned tree's table is disciplined as well (C20 was expected to hold there) -/
theorem C20_instance_pinned : disciplined Skeleton.pinned.accesses = true := by decide

/-! ### non-vacuity -/

/-- an interleaving with all three kinds of variable: mutex-protected, close-ordered, read-only -/
def sample : Trace :=
  [ (0, .acq "b.lock"), (0, .wr "Broadcaster.closed"), (0, .rel "b.lock"),
    (2, .wr "LinkStream.decodeErr"),
    (1, .acq "b.lock"), (1, .rd "Broadcaster.closed"),
    (2, .closeCh "decodeDone"),
    (1, .rel "b.lock"),
    (3, .recvClosed "decodeDone"), (4, .rd "Registry.local"), (3, .rd "LinkStream.decodeErr"),
    (5, .rd "Registry.local") ]

/-- it meets both hypotheses of `C20_race_free` … -/
example : WF sample ∧ Follows Skeleton.current.accesses sample :=
  ⟨wf_of_wfB _ (by decide), follows_of_followsB _ _ (by decide)⟩

/-- … and contains conflicting accesses (write at 1 / read at 5; write at 3 / read at 10), so
    the theorem's conclusion says something: they are ordered by happens-before. -/
example : Conflict sample 1 5 ∧ Conflict sample 3 10 :=
  ⟨⟨0, 1, .wr "Broadcaster.closed", .rd "Broadcaster.closed", "Broadcaster.closed", true, false,
     by decide, by decide, by decide, by decide, by decide, by decide⟩,
   ⟨2, 3, .wr "LinkStream.decodeErr", .rd "LinkStream.decodeErr", "LinkStream.decodeErr", true, false,
     by decide, by decide, by decide, by decide, by decide, by decide⟩⟩

example : HB sample 1 5 ∧ HB sample 3 10 := by
  have h := C20_race_free sample (wf_of_wfB _ (by decide)) (follows_of_followsB _ _ (by decide))
  refine ⟨?_, ?_⟩
  · apply Classical.byContradiction
    intro hn
    exact h 1 5 ⟨⟨0, 1, .wr "Broadcaster.closed", .rd "Broadcaster.closed", "Broadcaster.closed",
      true, false, by decide, by decide, by decide, by decide, by decide, by decide⟩, hn,
      fun hb => absurd (hb_lt hb) (by decide)⟩
  · apply Classical.byContradiction
    intro hn
    exact h 3 10 ⟨⟨2, 3, .wr "LinkStream.decodeErr", .rd "LinkStream.decodeErr", "LinkStream.decodeErr",
      true, false, by decide, by decide, by decide, by decide, by decide, by decide⟩, hn,
      fun hb => absurd (hb_lt hb) (by decide)⟩

/-! ### negative examples: the check and the race definition both bite -/

/-- a table with one unlocked write (beside a locked read) is rejected -/
example : disciplined
    [ { var := "Registry.remotes", site := "ForRemotes", write := false, locks := ["r.remotesLock"], order := "" },
      { var := "Registry.remotes", site := "LinkMessage.func7", write := true, locks := [], order := "" } ] = false := by
  decide

/-- two sites under two different mutexes are rejected -/
example : disciplined
    [ { var := "v", site := "f", write := true, locks := ["a"], order := "" },
      { var := "v", site := "g", write := false, locks := ["b"], order := "" } ] = false := by
  decide

/-- a `close:` write with a reader that does not wait for the close is rejected -/
example : disciplined
    [ { var := "LinkStream.decodeErr", site := "LinkStream.func1", write := true, locks := [], order := "close:decodeDone" },
      { var := "LinkStream.decodeErr", site := "LinkStream.func4", write := false, locks := [], order := "" } ] = false := by
  decide

/-- an `init`-ordered write (a `go` edge, not modelled) is rejected rather than trusted -/
example : disciplined
    [ { var := "v", site := "f", write := true, locks := [], order := "init" },
      { var := "v", site := "g", write := false, locks := [], order := "" } ] = false := by
  decide

/-- the unlocked write really races in the model: happens-before is not trivially total -/
def racy : Trace := [ (0, .wr "Registry.remotes"), (1, .acq "r.remotesLock"), (1, .rd "Registry.remotes") ]

/-- the only happens-before edge of `racy` is the program order of thread 1 -/
theorem racy_hb : ∀ i j, HB racy i j → i = 1 ∧ j = 2 := by
  intro i j h
  have bound : ∀ (k t : Nat) (e : Ev), racy[k]? = some (t, e) → k < 3 := by
    intro k t e hk
    by_cases h3 : k < 3
    · exact h3
    · have : racy[k]? = none := by simp [racy]; omega
      rw [this] at hk; simp at hk
  induction h with
  | @po i j t e e' hlt h1 h2 =>
    have hj := bound _ _ _ h2
    have : (i = 0 ∧ j = 1) ∨ (i = 0 ∧ j = 2) ∨ (i = 1 ∧ j = 2) := by omega
    rcases this with ⟨rfl, rfl⟩ | ⟨rfl, rfl⟩ | ⟨rfl, rfl⟩
    · simp [racy] at h1 h2; omega
    · simp [racy] at h1 h2; omega
    · exact ⟨rfl, rfl⟩
  | @mutex i j t t' m hlt h1 h2 =>
    have hj := bound _ _ _ h2
    have : i = 0 ∨ i = 1 := by omega
    rcases this with rfl | rfl <;> simp [racy] at h1
  | @chan i j t t' c hlt h1 h2 =>
    have hj := bound _ _ _ h2
    have : i = 0 ∨ i = 1 := by omega
    rcases this with rfl | rfl <;> simp [racy] at h1
  | trans _ _ ih1 ih2 => omega

/-- thread 0 writes without the mutex while thread 1 reads under it: a race -/
theorem C20_unlocked_write_races : Race racy 0 2 :=
  ⟨⟨0, 1, .wr "Registry.remotes", .rd "Registry.remotes", "Registry.remotes", true, false,
     by decide, by decide, by decide, by decide, by decide, by decide⟩,
   fun h => absurd (racy_hb _ _ h).1 (by decide),
   fun h => absurd (racy_hb _ _ h).1 (by decide)⟩

/-- The lexical lock sets of the access table are the dynamic ones only if every user locks the SAME
    mutex object: each mutex is a pointer field, or a value field of a struct that is only ever used
    through a pointer (no value-receiver method copies it).  Checked against the regenerated skeleton. -/
theorem C20_locks_are_shared : Skeleton.current.locksShared = true := by decide

/-- The access table lists the variables goroutines share.  Variables of the closure proxy are not in
    it because each invocation has its own: the closure id, the stub and the argument list are declared
    inside the per-invocation literal (checked against the regenerated skeleton), so concurrent
    invocations of one callable share no panrpc memory. -/
theorem C20_proxy_state_is_per_invocation :
    Skeleton.current.pxClosureIdPerInvocation = true ∧ Skeleton.current.pxArgsFreshPerInvocation = true ∧
    Skeleton.current.pxCtxIsInvocationCtx = true := by decide

/-- The hook structs belong to the application; one `LinkHooks` value may be handed to many concurrently established links. The library never assigns to a field of one (checked against the regenerated skeleton) — filling in no-op callbacks in place would be an unsynchronised check-then-write on shared memory. -/
theorem C20_hook_structs_are_only_read :
    Skeleton.current.hooksNeverWritten = true := by decide

end Panrpc.Ls

#print axioms Panrpc.Ls.lockset_race_free
#print axioms Panrpc.Ls.C20_instance
#print axioms Panrpc.Ls.C20_race_free
#print axioms Panrpc.Ls.C20_instance_pinned
#print axioms Panrpc.Ls.C20_unlocked_write_races
#print axioms Panrpc.Ls.C20_locks_are_shared
#print axioms Panrpc.Ls.C20_proxy_state_is_per_invocation
#print axioms Panrpc.Ls.C20_hook_structs_are_only_read
