/-
  Props/C19.lean — "The publish/receive utility hands each value to one waiter and is safe to race".

  Model: M1 (Model/Broadcaster.lean), any number of publisher / receiver threads, keys and
  contexts, every interleaving of their atomic steps.  All theorems are about
  `Skeleton.current`, i.e. about the facts regenerated from /repo's source on this run.
-/
import Panrpc.Lemmas.BcWake
import Panrpc.Lemmas.BcDeliv
import Panrpc.Generated.Current
import Panrpc.Pinned

namespace Panrpc.Bc
open Panrpc

/-! ### general lemmas: reachability → invariants -/

theorem reach_wf (sk : Skeleton) {s : State} (h : Reach sk s) : WF s := by
  induction h with
  | init => exact wf_init
  | step a _ hs ih => exact wf_step sk a ih hs

theorem reach_nc (sk : Skeleton) (hy : Hyg sk) (hn : NoChanClose sk) {s : State} (h : Reach sk s) : NC s := by
  induction h with
  | init => exact nc_init
  | step a hr hs ih => exact nc_step sk hy hn a (reach_wf sk hr) ih hs

theorem reach_wk (sk : Skeleton) (hy : Hyg sk) (hk : Wakes sk) {s : State} (h : Reach sk s) : WK s := by
  induction h with
  | init => exact wk_init
  | step a hr hs ih => exact wk_step sk hy hk a (reach_wf sk hr) ih hs

theorem reach_dl (sk : Skeleton) {s : State} (h : Reach sk s) : DL s := by
  induction h with
  | init => exact dl_init
  | step a hr hs ih => exact dl_step sk a (reach_wf sk hr) ih hs

/-! ### the source facts these theorems rest on (checked against the regenerated skeleton) -/

theorem cur_hyg : Hyg Skeleton.current := ⟨by decide, by decide⟩
theorem cur_nochanclose : NoChanClose Skeleton.current := ⟨by decide, by decide⟩
theorem cur_wakes : Wakes Skeleton.current := ⟨by decide, by decide, by decide, by decide, by decide, by decide, by decide⟩

/-- The current source never keeps the mutex across Publish's select. -/
theorem cur_lock_free : ∀ s, Reach Skeleton.current s → s.lockHolder = none := by
  intro s h
  have hsel : Skeleton.current.bcPublishSelectOutsideLock = true := by decide
  induction h with
  | init => rfl
  | step a _ hs ih =>
    cases a <;> simp only [step] at hs
    all_goals (repeat' split at hs) <;> (try simp at hs) <;> (try subst hs) <;> (try simp_all)

/-- The atomic steps of M1 are what the source does: every broadcaster operation is a single
    critical section (checked against the regenerated skeleton).  All theorems below are about
    the model under this reading of the code. -/
theorem C19_model_atomicity : Atomic Skeleton.current :=
  ⟨by decide, by decide, by decide, by decide, by decide, by decide, by decide, by decide⟩

/-! ### C19 -/

/-- No interleaving of publish / receive / free / close / cancel panics (send on a closed
    channel, close of a closed channel). -/
theorem C19_no_panic : ∀ s, Reach Skeleton.current s → s.crashed = false :=
  fun _ h => (reach_nc _ cur_hyg cur_nochanclose h).nocrash

/-- A published value is handed to at most one receiver: no publisher occurs twice in the
    delivery log. -/
theorem C19_at_most_one_receiver : ∀ s, Reach Skeleton.current s → (s.deliveries.map Delivery.pub).Nodup :=
  fun _ h => (reach_dl _ h).nodup

/-- …and never to a receiver of another key. -/
theorem C19_no_cross_key : ∀ s, Reach Skeleton.current s → ∀ d, d ∈ s.deliveries → d.pkey = d.rkey :=
  fun _ h => (reach_dl _ h).same_key

/-- A value a receive function returned is a logged hand-off to that very receiver, on its key. -/
theorem C19_received_was_published : ∀ s, Reach Skeleton.current s → ∀ t k g x v,
    s.rcvs t = .gotVal k g x v →
    s.deliveries.any (fun d => decide (d.rcv = t ∧ d.val = v ∧ d.rkey = k)) = true :=
  fun _ h => (reach_dl _ h).got_logged

/-- Publish returns immediately for unknown keys and on a closed broadcaster: the lookup step
    is enabled (the mutex is never held across a blocking operation) and finishes the call. -/
theorem C19_publish_unknown_returns : ∀ s, Reach Skeleton.current s → ∀ p k v,
    s.pubs p = .start k v → (s.table k = none ∨ s.closed = true) →
    (step Skeleton.current s (.pubLookup p)).map (·.pubs p) = some (.done false) := by
  intro s h p k v hp hk
  have hnc := (reach_nc _ cur_hyg cur_nochanclose h).nocrash
  have hwk := reach_wk _ cur_hyg cur_wakes h
  have hl : s.lockHolder = none := cur_lock_free s h
  have hk' : s.table k = none := by
    cases hk with
    | inl h => exact h
    | inr hc => exact hwk.closed_empty hc k
  simp [step, hnc, hl, hp, hk']

/-- A publisher that already holds an entry returns once the key is freed or the broadcaster is
    closed: its `ctx.Done()` case is enabled (≤ 2 own steps per Publish call in total). -/
theorem C19_publish_returns_when_freed : ∀ s, Reach Skeleton.current s → ∀ p k v g,
    s.pubs p = .holding k v g → s.table k ≠ some g →
    (step Skeleton.current s (.pubCtx p)).map (·.pubs p) = some (.done false) := by
  intro s h p k v g hp hk
  have hnc := (reach_nc _ cur_hyg cur_nochanclose h).nocrash
  have hwf := reach_wf _ h
  have hwk := reach_wk _ cur_hyg cur_wakes h
  have he := hwf.pub_entry p k v g hp
  cases hent : s.entries g with
  | none => simp [hent] at he
  | some e =>
    simp [hent] at he
    have hd : e.ctxDone = true := hwk.removed_ctx g e hent (by rw [he]; exact hk)
    have hsel : Skeleton.current.bcPublishSelectsEntryCtx = true := by decide
    simp [step, hnc, hp, hent, hd, hsel]

/-- A receive function never blocks once its context is done. -/
theorem C19_receive_returns_on_ctx : ∀ s, Reach Skeleton.current s → ∀ t k g x,
    s.rcvs t = .waiting k g x → s.ctxs x = true →
    (step Skeleton.current s (.rcvCtx t)).map (·.rcvs t) = some (.gotCtx k g x) := by
  intro s h t k g x ht hx
  have hnc := (reach_nc _ cur_hyg cur_nochanclose h).nocrash
  have hsel : Skeleton.current.bcRecvSelectsCallerCtx = true := by decide
  simp [step, hnc, ht, hx, hsel]

/-- A receive function never blocks once its entry was freed or the broadcaster closed. -/
theorem C19_receive_returns_when_freed : ∀ s, Reach Skeleton.current s → ∀ t k g x,
    s.rcvs t = .waiting k g x → s.table k ≠ some g →
    (step Skeleton.current s (.rcvDone t)).map (·.rcvs t) = some (.gotClosed k g x) := by
  intro s h t k g x ht hk
  have hnc := reach_nc _ cur_hyg cur_nochanclose h
  have hwf := reach_wf _ h
  have hwk := reach_wk _ cur_hyg cur_wakes h
  have he := hwf.rcv_entry t k g (by simp [ht, Rcv.binding])
  cases hent : s.entries g with
  | none => simp [hent] at he
  | some e =>
    simp [hent] at he
    have hs : e.signalled = true := hwk.removed_sig g e hent (by rw [he]; exact hk)
    have hc : e.chanClosed = false := hnc.nochan g e hent
    have hd : e.doneClosed = true := by simpa [Entry.signalled, hc] using hs
    have hsel : Skeleton.current.bcRecvSelectsDone = true := by decide
    simp [step, hnc.nocrash, ht, hent, hd, hsel]

/-- The context error is returned only if that context is done; `closed` only if the entry
    really was freed / the broadcaster closed. -/
theorem C19_receive_outcomes_justified : ∀ s, Reach Skeleton.current s → ∀ t k g x,
    (s.rcvs t = .gotCtx k g x → s.ctxs x = true) ∧
    (s.rcvs t = .gotClosed k g x → s.table k ≠ some g) := by
  intro s h t k g x
  have hwf := reach_wf _ h
  have hwk := reach_wk _ cur_hyg cur_wakes h
  refine ⟨hwk.got_ctx t k g x, ?_⟩
  intro ht
  have he := hwf.rcv_entry t k g (by simp [ht, Rcv.binding])
  have hs := hwk.got_closed t k g x ht
  cases hent : s.entries g with
  | none => simp [hent] at he
  | some e =>
    simp [hent] at he hs
    have := hwk.sig_removed g e hent hs
    rw [he] at this; exact this

/-- Free and Close can be called at any time, any number of times: always enabled, never a
    crash (covered by `C19_no_panic`), and a second Free of the same key changes nothing. -/
theorem C19_free_close_always_enabled : ∀ s, Reach Skeleton.current s → ∀ k,
    (step Skeleton.current s (.free k)).isSome = true ∧ (step Skeleton.current s .close).isSome = true := by
  intro s h k
  have hnc := (reach_nc _ cur_hyg cur_nochanclose h).nocrash
  have hl : s.lockHolder = none := cur_lock_free s h
  constructor
  · have hg : (s.crashed = false ∧ s.lockHolder = none) := ⟨hnc, hl⟩
    simp only [step, if_pos hg]
    split
    · rfl
    · split
      · rfl
      · split <;> rfl
  · simp [step, hnc, hl]

theorem C19_free_idempotent : ∀ s, Reach Skeleton.current s → ∀ k s1 s2,
    step Skeleton.current s (.free k) = some s1 → step Skeleton.current s1 (.free k) = some s2 →
    s2 = s1 := by
  intro s h k s1 s2 h1 h2
  have hdel : Skeleton.current.bcFreeDeletes = true := by decide
  have hnc := (reach_nc _ cur_hyg cur_nochanclose h).nocrash
  have hl := cur_lock_free s h
  have hwf := reach_wf _ h
  simp only [step, hnc, hl] at h1
  cases hk : s.table k with
  | none =>
    simp [hk] at h1; subst h1
    simp [step, hnc, hl, hk] at h2; exact h2.symm
  | some g =>
    have he := hwf.table_key k g hk
    cases hent : s.entries g with
    | none => simp [hent] at he
    | some e =>
      have hch := (reach_nc _ cur_hyg cur_nochanclose h).nochan g e hent
      have hdn := (reach_nc _ cur_hyg cur_nochanclose h).live k g e hk hent
      simp [hk, hent, hch, hdn, hdel] at h1; subst h1
      simp [step] at h2; exact h2.symm

/-! ### non-vacuity: the hypotheses are met by concrete reachable states -/

/-- a receiver is waiting, a publisher holds the entry, then the key is freed: the state in
    which `C19_publish_returns_when_freed` and `C19_receive_returns_when_freed` apply. -/
example : ∃ acts, (run Skeleton.current init acts).map
    (fun s => decide (s.pubs 0 = .holding 7 42 0 ∧ s.rcvs 0 = .waiting 7 0 1 ∧ s.table 7 ≠ some 0)) = some true :=
  ⟨[.receive 0 7 1, .rcvCall 0, .pubStart 0 7 42, .pubLookup 0, .free 7], by decide⟩

/-- a value is actually delivered -/
example : ∃ acts, (run Skeleton.current init acts).map
    (fun s => decide (s.rcvs 0 = .gotVal 7 0 1 42 ∧ s.deliveries.length = 1)) = some true :=
  ⟨[.receive 0 7 1, .rcvCall 0, .pubStart 0 7 42, .pubLookup 0, .rcvValue 0 0], by decide⟩

/-! ### the pinned tree violates the property (F1): two publishers, one receiver, one key -/

theorem C19_fails_on_pinned : ∃ acts, (run Skeleton.pinned init acts).map (·.crashed) = some true :=
  ⟨[.receive 0 7 1, .rcvCall 0, .pubStart 0 7 1, .pubStart 1 7 2, .pubLookup 0, .pubLookup 1,
    .rcvValue 0 0, .free 7, .pubSendClosed 1], by decide⟩

end Panrpc.Bc

#print axioms Panrpc.Bc.C19_model_atomicity
#print axioms Panrpc.Bc.C19_no_panic
#print axioms Panrpc.Bc.C19_at_most_one_receiver
#print axioms Panrpc.Bc.C19_no_cross_key
#print axioms Panrpc.Bc.C19_received_was_published
#print axioms Panrpc.Bc.C19_publish_unknown_returns
#print axioms Panrpc.Bc.C19_publish_returns_when_freed
#print axioms Panrpc.Bc.C19_receive_returns_on_ctx
#print axioms Panrpc.Bc.C19_receive_returns_when_freed
#print axioms Panrpc.Bc.C19_receive_outcomes_justified
#print axioms Panrpc.Bc.C19_free_close_always_enabled
#print axioms Panrpc.Bc.C19_free_idempotent
#print axioms Panrpc.Bc.C19_fails_on_pinned
