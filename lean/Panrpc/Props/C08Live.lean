/-
  Props/C08Live.lean — the teardown half of the stream link (cited by C14 / C15).

  EXPECTED NOT TO TYPE-CHECK until /repo's LinkStream guards its two hand-off sends with the
  link context (`select { case requests <- …: case <-ctx.Done(): return }`): the first
  theorem below is `by decide` on the regenerated fact `stHandoffGuarded`, which is `false`
  for the unrepaired source.  Everything that holds without the repair is in Props/C08.lean
  (`decoder_finishes_if_readers_stay`, and the witness `decoder_wedges_on_pinned`).
  Keep this module LAST and out of the import closure of the other Props files.
-/
import Panrpc.Props.C08

namespace Panrpc.St
open Panrpc

/-- the hand-off sends of the decoder goroutine also select on the link context -/
theorem cur_handoff_guarded : Skeleton.current.stHandoffGuarded = true := by decide

/-- From every reachable state in which the link context is cancelled, or in which both
    reader loops are still reading, the decoder goroutine can run to its end, provided the
    stream eventually fails (`decode` returns an error: the transport was closed).  In
    particular a reader loop that has left can no longer wedge the decoder.
    (While `decode` itself blocks nothing can end the goroutine: closing the transport is the
    caller's job, as for the message API.) -/
theorem decoder_can_finish : ∀ inp s, Reach Skeleton.current inp s → none ∈ s.inp →
    (s.linkCtxDone = true ∨ (s.reqRd = .waiting ∧ s.resRd = .waiting)) →
    Leads Skeleton.current s (fun s' => s'.dec = .done) := by
  intro inp s h hn hc
  refine decoder_can_finish_gen _ cur_stok h hn ?_
  rcases hc with hc | hc
  · exact Or.inl ⟨cur_handoff_guarded, hc⟩
  · exact Or.inr hc

/-- a blocked hand-off is left in one step once the link context is cancelled (whichever of
    the two ways of leaving the source implements) -/
theorem decoder_abort_enabled : ∀ inp s, Reach Skeleton.current inp s → s.linkCtxDone = true → ∀ c,
    (∀ p n, s.dec = .handReq p n → (step Skeleton.current s (.decAbort c)).map (·.dec) = some .done) ∧
    (∀ q, s.dec = .handRes q → (step Skeleton.current s (.decAbort c)).map (·.dec) = some .done) := by
  intro inp s h hx c
  have hc := (reach_sinv _ cur_stok h).nocrash
  have hg := cur_handoff_guarded
  constructor
  · intro p n hd; cases c <;> simp [step, hc, hg, hx, hd, abortWith, closeDone] <;> split <;> rfl
  · intro q hd; cases c <;> simp [step, hc, hg, hx, hd, abortWith, closeDone] <;> split <;> rfl

/-- non-vacuity: the request loop has left, the context is cancelled, a request arrives (the
    very state that wedges the pinned tree): the decoder leaves, the response loop is told -/
example : (run Skeleton.current (init [some { req := some 1, res := none }, none])
      [.exitReq, .ctxCancel, .decRead, .decAbort true, .readDoneRes]).map
    (fun s => decide (s.dec = .done ∧ s.lostReq = [1] ∧ s.resEnd = some (some .ctx))) = some true := by
  decide

/-- The model allows the decoder's abort both with and without signalling the readers; the progress
    theorems above use the signalling form `decAbort true`.  The source takes exactly that form: every
    context-done exit records `decodeErr` and closes `decodeDone` before returning (checked against the
    regenerated skeleton) — otherwise a reader parked in its adapter would never be woken. -/
theorem C15_decoder_abort_signals_readers : Skeleton.current.stAbortClosesDone = true := by decide

/-- `decodeDone` is closed exactly once on every way out of the decoder goroutine, and by nobody else
    (checked against the regenerated skeleton): the model's `dec = .done` is entered once.  A second
    close would panic in a goroutine that has no `recover` — e.g. when a frame arrives after the link
    context was cancelled and the exit taken is one that both closes explicitly and has a deferred close. -/
theorem C05_decoder_done_closed_once : Skeleton.current.stDoneClosedOncePerExit = true := by decide

end Panrpc.St

#print axioms Panrpc.St.cur_handoff_guarded
#print axioms Panrpc.St.decoder_can_finish
#print axioms Panrpc.St.decoder_abort_enabled
#print axioms Panrpc.St.C15_decoder_abort_signals_readers
#print axioms Panrpc.St.C05_decoder_done_closed_once
