/-
  Props/C08Live.lean — the teardown half of the stream link (cited by C05 / C14 / C15).

  EXPECTED NOT TO TYPE-CHECK until /repo's LinkStream guards its two hand-off sends with the
  link context (`select { case requests <- …: case <-ctx.Done(): return }`): the first
  theorem below is `by decide` on the regenerated fact `stHandoffGuarded`, which is `false`
  for the unrepaired source.  Everything that holds without the repair is in Props/C08.lean
  (`decoder_finishes_if_readers_stay`, and the witness `decoder_wedges_on_pinned`).
  Keep this module LAST and out of the import closure of the other Props files.
-/
import Panrpc.Props.C08

namespace Panrpc.St
open Panrpc

/-- the hand-off sends of the decoder goroutine also select on the link context -/
theorem cur_handoff_guarded : Skeleton.current.stHandoffGuarded = true := by decide

/-- From every reachable state in which the link context is cancelled, or in which both
    reader loops are still reading, the decoder goroutine can run to its end, provided the
    stream eventually fails (`decode` returns an error: the transport was closed).  In
    particular a reader loop that has left can no longer wedge the decoder.
    (While `decode` itself blocks nothing can end the goroutine: closing the transport is the
    caller's job, as for the message API.) -/
theorem decoder_can_finish : ∀ inp s, Reach Skeleton.current inp s → none ∈ s.inp →
    (s.linkCtxDone = true ∨ (s.reqRd = .waiting ∧ s.resRd = .waiting)) →
    Leads Skeleton.current s (fun s' => s'.dec = .done) := by
  intro inp s h hn hc
  refine decoder_can_finish_gen _ cur_stok h hn ?_
  rcases hc with hc | hc
  · exact Or.inl ⟨cur_handoff_guarded, hc⟩
  · exact Or.inr hc

/-- a blocked hand-off is left in one step once the link context is cancelled: the signalling abort
    (`decodeErr = ctx.Err(); close(decodeDone); return`) is enabled, the decoder is done after it,
    `decodeDone` is closed without a panic and `decodeErr` is the context error -/
theorem decoder_abort_enabled : ∀ inp s, Reach Skeleton.current inp s → s.linkCtxDone = true →
    (∀ p n, s.dec = .handReq p n →
      (step Skeleton.current s (.decAbort true)).map (·.dec) = some .done ∧
      (step Skeleton.current s (.decAbort true)).map (fun s' => (s'.decodeDone, s'.decodeErr, s'.crashed)) =
        some (true, some .ctx, false)) ∧
    (∀ q, s.dec = .handRes q →
      (step Skeleton.current s (.decAbort true)).map (·.dec) = some .done ∧
      (step Skeleton.current s (.decAbort true)).map (fun s' => (s'.decodeDone, s'.decodeErr, s'.crashed)) =
        some (true, some .ctx, false)) := by
  intro inp s h hx
  have hi := reach_sinv _ cur_stok h
  have hc := hi.nocrash
  have hg := cur_handoff_guarded
  have hab : Skeleton.current.stAbortClosesDone = true := by decide
  constructor
  · intro p n hd
    have hdd : s.decodeDone = false := (hi.live (by rw [hd]; rfl)).2
    simp [step, hc, hg, hx, hd, hab, abortWith, closeDone, hdd, leave_once cur_stok.closedOnce]
  · intro q hd
    have hdd : s.decodeDone = false := (hi.live (by rw [hd]; rfl)).2
    simp [step, hc, hg, hx, hd, hab, abortWith, closeDone, hdd, leave_once cur_stok.closedOnce]

/-- the silent abort (leave the hand-off without telling the readers) is not a step of the current
    source, in any state -/
theorem C15_no_silent_abort : ∀ s, step Skeleton.current s (.decAbort false) = none := by
  intro s
  have hab : Skeleton.current.stAbortClosesDone = true := by decide
  simp [step, hab]

/-- non-vacuity: the request loop has left, the context is cancelled, a request arrives (the
    very state that wedges the pinned tree): the decoder leaves, the response loop is told -/
example : (run Skeleton.current (init [some { req := some 1, res := none }, none])
      [.exitReq, .ctxCancel, .decRead, .decAbort true, .readDoneRes]).map
    (fun s => decide (s.dec = .done ∧ s.lostReq = [1] ∧ s.resEnd = some (some .ctx))) = some true := by
  decide

/-- … and the same schedule with the silent abort is rejected at the abort -/
example : run Skeleton.current (init [some { req := some 1, res := none }, none])
      [.exitReq, .ctxCancel, .decRead, .decAbort false] = none := by
  decide

/-- The source's abort is the signalling one: every context-done exit records `decodeErr` and closes
    `decodeDone` before returning (checked against the regenerated skeleton) — otherwise a reader
    parked in its adapter would never be woken.  The model's `decAbort c` is enabled only for
    `c =` this fact. -/
theorem C15_decoder_abort_signals_readers : Skeleton.current.stAbortClosesDone = true := by decide

/-- **Whenever the decoder goroutine is done, the readers have been told**: `decodeDone` is closed
    and `decodeErr` holds the reason (the decode error or `ctx.Err()`), on every way out — the
    error path and the abort of either hand-off.  (Conversely `decodeDone` closed implies the
    decoder is done: `SInv.closed_dec`, used in Props/C08.lean.) -/
theorem C15_decoder_done_means_signalled : ∀ inp s, Reach Skeleton.current inp s → s.dec = .done →
    s.decodeDone = true ∧ s.decodeErr ≠ none := by
  intro inp s h hd
  exact done_signalled _ cur_stok (by decide) h hd

/-- **Once the decoder has left, a reader parked in its adapter is never stuck**: its
    `case <-decodeDone:` arm is enabled (both read adapters select on `decodeDone`). -/
theorem C15_readers_can_always_leave : ∀ inp s, Reach Skeleton.current inp s → s.dec = .done →
    (s.reqRd = .waiting → (step Skeleton.current s .readDoneReq).isSome = true) ∧
    (s.resRd = .waiting → (step Skeleton.current s .readDoneRes).isSome = true) := by
  intro inp s h hd
  exact readers_can_leave _ cur_stok (by decide) (by decide) h hd

/-- non-vacuity of the two theorems: a run that reaches `dec = .done` through `decAbort true` with
    the response reader still parked in its adapter; `decodeDone` is closed, `decodeErr` is set,
    and the reader's way out is enabled -/
example : (run Skeleton.current (init [some { req := some 1, res := some 2 }])
      [.ctxCancel, .decRead, .decAbort true]).map
    (fun s => decide (s.dec = .done ∧ s.resRd = .waiting ∧ s.reqRd = .waiting ∧
                      s.decodeDone = true ∧ s.decodeErr = some .ctx ∧
                      (step Skeleton.current s .readDoneReq).isSome = true ∧
                      (step Skeleton.current s .readDoneRes).isSome = true)) = some true := by
  decide

/-- … and one through the error path (`decRead` of a decode error, `decFinish`) -/
example : (run Skeleton.current (init [none]) [.decRead, .decFinish]).map
    (fun s => decide (s.dec = .done ∧ s.reqRd = .waiting ∧ s.decodeDone = true ∧
                      s.decodeErr = some (.decode 0) ∧
                      (step Skeleton.current s .readDoneReq).isSome = true)) = some true := by
  decide

/-- the fact is needed: a source that differs from the current one only in leaving the hand-off
    silently (`case <-ctx.Done(): return`) reaches a state in which the decoder is done, `decodeDone`
    is open, and the reader parked in its adapter cannot take its `case <-decodeDone:` arm -/
theorem C15_silent_abort_would_strand_reader :
    (run { Skeleton.current with stAbortClosesDone := false } (init [some { req := some 1, res := some 2 }])
      [.ctxCancel, .decRead, .decAbort false]).map
    (fun s => decide (s.dec = .done ∧ s.decodeDone = false ∧ s.decodeErr = none ∧ s.resRd = .waiting ∧
        (step { Skeleton.current with stAbortClosesDone := false } s .readDoneRes).isNone = true ∧
        (step { Skeleton.current with stAbortClosesDone := false } s .handRes).isNone = true)) = some true := by
  decide

/-  On the pinned tree the failure is a different one: `stHandoffGuarded = false` there, so no abort
    exists at all (`stAbortClosesDone = false` is vacuous), `dec = .done` is entered only by the
    error path and is always signalled.  What goes wrong there is that the decoder never gets done —
    it stays blocked in the bare hand-off: `decoder_wedges_on_pinned` in Props/C08.lean.  The two
    statements below record that the invariant itself is NOT what fails on the pinned tree. -/

/-- on the pinned tree no abort of either form is a step, in any state -/
theorem C15_no_abort_on_pinned : ∀ s c, step Skeleton.pinned s (.decAbort c) = none := by
  intro s c
  have hg : Skeleton.pinned.stHandoffGuarded = false := by decide
  simp [step, hg]

/-- … so there, too, a decoder that is done has signalled (its only way out is the error path) -/
theorem C15_decoder_done_means_signalled_on_pinned : ∀ inp s, Reach Skeleton.pinned inp s → s.dec = .done →
    s.decodeDone = true ∧ s.decodeErr ≠ none := by
  intro inp s h hd
  exact reach_done_signalled _ ⟨by decide, by decide, by decide, by decide, by decide, by decide⟩
    (fun hg => absurd hg (by decide)) h hd

/-- `decodeDone` is closed exactly once on every way out of the decoder goroutine, and by nobody else
    (checked against the regenerated skeleton): the model's `leave` adds nothing to the one close in
    front of each exit.  This is the hypothesis `StOk.closedOnce` of `C08_stream_no_panic` (through
    `SInv.nocrash`) and of every theorem here that rests on `reach_sinv`; what happens without it is
    `C05_surplus_close_crashes` below. -/
theorem C05_decoder_done_closed_once : Skeleton.current.stDoneClosedOncePerExit = true := by decide

/-- the source that differs from the current one only in closing `decodeDone` once more when the decoder
    goroutine returns (e.g. a `defer close(decodeDone)` added while the explicit closes remain) -/
abbrev surplusClose : Skeleton := { Skeleton.current with stDoneClosedOncePerExit := false }

/-- **The fact is needed.**  With a surplus close, each way out of the decoder goroutine ends in
    `panic: close of closed channel` (`crashed = true`) in a goroutine that has no `recover`:
    the error path (`decode` fails, `decodeErr = err; close(decodeDone); break`), and the abort of a
    hand-off — a frame arrives after the link context was cancelled
    (`decodeErr = ctx.Err(); close(decodeDone); return`), from either hand-off select. -/
theorem C05_surplus_close_crashes :
    (run surplusClose (init [none]) [.decRead, .decFinish]).map
      (fun s => (s.dec, s.decodeDone, s.crashed)) = some (.done, true, true) ∧
    (run surplusClose (init [some { req := some 1, res := none }]) [.ctxCancel, .decRead, .decAbort true]).map
      (fun s => (s.dec, s.decodeDone, s.crashed)) = some (.done, true, true) ∧
    (run surplusClose (init [some { req := none, res := some 2 }]) [.ctxCancel, .decRead, .decAbort true]).map
      (fun s => (s.dec, s.decodeDone, s.crashed)) = some (.done, true, true) := by
  decide

/-- … so `C08_stream_no_panic` is false on that tree -/
theorem C05_surplus_close_reaches_panic : ∃ inp s, Reach surplusClose inp s ∧ s.crashed = true :=
  ⟨[none], _, reach_of_run surplusClose [.decRead, .decFinish] Reach.init rfl, by decide⟩

/-- On the current source the same three runs close `decodeDone` once and do not panic. -/
theorem C05_single_close_no_crash :
    (run Skeleton.current (init [none]) [.decRead, .decFinish]).map
      (fun s => (s.dec, s.decodeDone, s.crashed)) = some (.done, true, false) ∧
    (run Skeleton.current (init [some { req := some 1, res := none }]) [.ctxCancel, .decRead, .decAbort true]).map
      (fun s => (s.dec, s.decodeDone, s.crashed)) = some (.done, true, false) ∧
    (run Skeleton.current (init [some { req := none, res := some 2 }]) [.ctxCancel, .decRead, .decAbort true]).map
      (fun s => (s.dec, s.decodeDone, s.crashed)) = some (.done, true, false) := by
  decide

end Panrpc.St

#print axioms Panrpc.St.cur_handoff_guarded
#print axioms Panrpc.St.decoder_can_finish
#print axioms Panrpc.St.decoder_abort_enabled
#print axioms Panrpc.St.C15_no_silent_abort
#print axioms Panrpc.St.C15_decoder_abort_signals_readers
#print axioms Panrpc.St.C15_decoder_done_means_signalled
#print axioms Panrpc.St.C15_readers_can_always_leave
#print axioms Panrpc.St.C15_silent_abort_would_strand_reader
#print axioms Panrpc.St.C15_no_abort_on_pinned
#print axioms Panrpc.St.C15_decoder_done_means_signalled_on_pinned
#print axioms Panrpc.St.C05_decoder_done_closed_once
#print axioms Panrpc.St.C05_surplus_close_crashes
#print axioms Panrpc.St.C05_surplus_close_reaches_panic
#print axioms Panrpc.St.C05_single_close_no_crash
