/-
  Props/C02.lean — "A handler or remote closure that is still running - blocked, slow, or itself
  issuing calls to the peer over the same link - never prevents other requests, responses or
  closure invocations on that link from being processed.  Consequently call chains that
  alternate direction (A calls B, whose handler calls A, …) complete for every depth, and
  independent calls complete while others are stalled."

  Model: M3 (Model/System.lean).  Handlers stall for as long as they like (`handlerStall` /
  `handlerResume` are choices of the application), call the peer from inside user code
  (`handlerCallPeer`) and return arbitrary values.  All theorems are about `Skeleton.current`.
  What the model cannot carry and is left to the runtime: that the Go scheduler eventually runs
  every runnable goroutine (the theorems exhibit the enabled steps; they do not schedule them).
-/
import Panrpc.Props.C01

namespace Panrpc.Sys
open Panrpc

/-! ### C02 -/

/-- Neither loop ever waits: in every reachable state the request loop and the response loop of
    both endpoints are at their reading step (they are never inside a resolver, a handler or a
    Publish), and "consume frame `i`" is enabled iff the buffer holds a frame `i` — independently
    of the state of every handler, call and publisher thread. -/
theorem C02_loops_never_wait : ∀ s, Reach Skeleton.current s → ∀ e,
    s.reqLoopBusy e = none ∧ s.resLoopBusy e = none ∧
    (∀ i, (step Skeleton.current s (.reqDeliver e i)).isSome = true ↔ i < (s.reqs e).length) ∧
    (∀ i, (step Skeleton.current s (.resDeliver e i)).isSome = true ↔ i < (s.ress e).length) :=
  loops_never_wait_of _ cur_async

/-- Call chains that alternate direction complete for every depth.  From EVERY reachable state `s`
    — whatever handler threads are stalled in it, whatever calls and frames are in flight — and
    for every depth `n`, an explicit run of `9 + 10·n` steps starts a fresh call of `e`, whose
    handler on the peer calls back to `e`, whose handler calls the peer again, … `n` levels deep,
    and takes it to `returned` with value `n` (the innermost handler returns 0, every other one
    its nested result + 1).  No step of the run belongs to a handler thread that existed in `s`,
    and everything that existed in `s` (in particular every stalled handler) is left untouched. -/
theorem C02_chain_completes : ∀ n s, Reach Skeleton.current s → ∀ e,
    ∃ acts s', run Skeleton.current s (.callStart e 0 n :: acts) = some s' ∧ acts.length = 8 + 10 * n ∧
      s'.calls e (s.nextCall e) =
        { pc := .returned, id := s.nextCall e, fn := 0, args := n, parent := none, result := some (n, 0) } ∧
      (∀ a, a ∈ acts → ∀ x h, a.handler? = some (x, h) → s.nextHandler x ≤ h) ∧
      Untouched s s' ∧
      (∀ x h, (s.handlers x h).pc = .stalled → (s'.handlers x h).pc = .stalled) :=
  fun n _ hr e =>
    chain_completes_stalled _ cur_facts cur_async cur_recv_before_write (fun k => (k, 0)) n hr e 0 n

/-- Independent calls complete while others are stalled: from every reachable state, with any
    number of stalled handlers, a fresh call (any function, any arguments, any handler result)
    completes in 9 steps that touch nothing that existed before; the stalled handlers stay stalled. -/
theorem C02_independent_progress : ∀ s, Reach Skeleton.current s → ∀ e fn args v err,
    ∃ acts s', run Skeleton.current s (.callStart e fn args :: acts) = some s' ∧ acts.length = 8 ∧
      s'.calls e (s.nextCall e) =
        { pc := .returned, id := s.nextCall e, fn := fn, args := args, parent := none, result := some (v, err) } ∧
      (∀ a, a ∈ acts → ∀ x h, a.handler? = some (x, h) → s.nextHandler x ≤ h) ∧
      Untouched s s' ∧
      (∀ x h, (s.handlers x h).pc = .stalled → (s'.handlers x h).pc = .stalled) :=
  fun _ hr e fn args v err =>
    chain_completes_stalled _ cur_facts cur_async cur_recv_before_write (fun _ => (v, err)) 0 hr e fn args

/-! ### non-vacuity -/

/-- a reachable state with a stalled handler on each side, a request in flight that nobody
    delivers, and a freshly started call -/
def stalledPrefix : List Act :=
  [.callStart .A 1 1, .callWrite .A 0, .reqDeliver .B 0, .handlerEnter .B 0, .handlerStall .B 0,
   .callStart .B 2 2, .callWrite .B 0, .reqDeliver .A 0, .handlerEnter .A 0, .handlerStall .A 0,
   .callStart .A 3 3, .callWrite .A 1,
   .callStart .A 0 3]

/-- … from which the chain of depth 3 completes with value 3 in 38 steps, the stalled handlers
    still stalled, the undelivered request still in flight -/
example : ((run Skeleton.current init stalledPrefix).bind fun s =>
      serve Skeleton.current (fun k => (k, 0)) 3 .A 2 s).map
    (fun r => decide ((r.1.calls .A 2).pc = .returned ∧ (r.1.calls .A 2).result = some (3, 0) ∧
                      (r.1.handlers .B 0).pc = .stalled ∧ (r.1.handlers .A 0).pc = .stalled ∧
                      (r.1.reqs .B).length = 1 ∧ r.2.length = 38 ∧
                      (run Skeleton.current init (stalledPrefix ++ r.2)).isSome = true)) = some true := by
  decide

/-- frames wait in both buffers while a handler is stalled, and both loops can take them -/
example : ∃ acts, (run Skeleton.current init acts).map
    (fun s => decide ((s.handlers .B 0).pc = .stalled ∧ (s.reqs .B).length = 1 ∧ (s.ress .B).length = 1) &&
              (step Skeleton.current s (.reqDeliver .B 0)).isSome &&
              (step Skeleton.current s (.resDeliver .B 0)).isSome) = some true :=
  ⟨[.callStart .A 1 1, .callWrite .A 0, .reqDeliver .B 0, .handlerEnter .B 0, .handlerStall .B 0,
    .callStart .B 2 2, .callWrite .B 0, .reqDeliver .A 0, .handlerEnter .A 0, .handlerReturn .A 0 4 0,
    .respond .A 0, .callStart .A 3 3, .callWrite .A 1], by decide⟩

/-! ### the facts are load-bearing -/

/-- the source with both `go` statements of the request loop removed: the loop runs resolver and
    handler inline -/
def skInline : Skeleton := { Skeleton.current with reqHandlerGoDepth := 0, reqResolveGoDepth := 0 }

/-- A→B, B's handler calls A, A's handler calls B: with inline handlers B's request loop is still
    inside the first handler, which waits for A's handler, which waits for the request that only
    B's request loop could take. -/
def deadlockRun : List Act :=
  [.callStart .A 0 0, .callWrite .A 0, .reqDeliver .B 0, .handlerEnter .B 0,
   .handlerCallPeer .B 0 0 0, .callWrite .B 0, .reqDeliver .A 0, .handlerEnter .A 0,
   .handlerCallPeer .A 0 0 0, .callWrite .A 1]

/-- With the handler inline in the request loop (`reqHandlerGoDepth = 0`) the alternating chain
    A→B→A→B deadlocks: a request is in flight towards B, B's request loop is busy, and no action
    of any thread is enabled (only new top-level calls, which would queue behind the same loop). -/
theorem C02_needs_async_handler :
    (run skInline init deadlockRun).map
      (fun s => decide (s.reqLoopBusy .B = some 0 ∧ (s.reqs .B).length = 1 ∧
                        (s.handlers .B 0).pc = .waitingNested 0 ∧ (s.handlers .A 0).pc = .waitingNested 1) &&
                stuck skInline s) = some true := by
  decide

/-- `stuck` is meant literally for that state: every action other than a new top-level call is
    disabled. -/
theorem C02_inline_deadlock_is_stuck : ∀ s, run skInline init deadlockRun = some s →
    ∀ a, (∀ e fn args, a ≠ .callStart e fn args) → step skInline s a = none := by
  intro s hs a hns
  have hf : Facts skInline := ⟨by decide, by decide, by decide, by decide, by decide, by decide, by decide, by decide, by decide⟩
  have hr : Reach skInline s := reach_of_run skInline deadlockRun Reach.init hs
  have hst : stuck skInline s = true := by
    have := C02_needs_async_handler
    rw [hs] at this
    simp only [Option.map_some, Option.some.injEq, Bool.and_eq_true] at this
    exact this.2
  exact stuck_sound skInline hf hr hst a hns

/-- The threshold is exactly this shape: with inline handlers the shorter chain A→B→A still
    completes (responses travel through the response loops, which are separate goroutines); the
    deadlock needs a request for a loop that is itself inside a handler, i.e. A→B→A→B. -/
example : ((run skInline init [.callStart .A 0 1]).bind fun s => serve skInline (fun k => (k, 0)) 1 .A 0 s).map
    (fun r => decide ((r.1.calls .A 0).pc = .returned ∧ (r.1.calls .A 0).result = some (1, 0))) = some true := by
  decide

example : ((run skInline init [.callStart .A 0 2]).bind fun s => serve skInline (fun k => (k, 0)) 2 .A 0 s) = none := by
  decide

/-- … while the very same schedule is not stuck for the source as it is: B's request loop takes
    the request. -/
example : (run Skeleton.current init deadlockRun).map
    (fun s => (step Skeleton.current s (.reqDeliver .B 0)).isSome && !stuck Skeleton.current s) = some true := by
  decide

/-- the source with something in the request loop's body that can wait between two reads (an admission
    limit on handler goroutines, a lock, a channel): modelled as the strictest such limit -/
def skLimited : Skeleton := { Skeleton.current with reqLoopBlocksOnlyOnRead := false }

/-- With an admission limit in the request loop the same alternating chain deadlocks although every
    handler has a goroutine of its own: B's loop does not take the second request while its first
    handler is still running — and that handler waits for exactly that request's result. -/
theorem C02_needs_nonblocking_loop :
    (run skLimited init deadlockRun).map
      (fun s => decide (s.reqLoopBusy .B = some 0 ∧ (s.reqs .B).length = 1) &&
                (step skLimited s (.reqDeliver .B 0)).isNone && stuck skLimited s) = some true := by
  decide

/-- …and a single stalled handler keeps an INDEPENDENT call from being served. -/
theorem C02_limited_loop_stalled_handler_blocks_others :
    (run skLimited init [.callStart .A 1 1, .callWrite .A 0, .reqDeliver .B 0, .handlerEnter .B 0, .handlerStall .B 0,
                         .callStart .A 2 2, .callWrite .A 1]).map
      (fun s => (step skLimited s (.reqDeliver .B 0)).isNone) = some true ∧
    (run Skeleton.current init [.callStart .A 1 1, .callWrite .A 0, .reqDeliver .B 0, .handlerEnter .B 0, .handlerStall .B 0,
                         .callStart .A 2 2, .callWrite .A 1]).map
      (fun s => (step Skeleton.current s (.reqDeliver .B 0)).isSome) = some true := by
  decide

/-- the source with something in the WRITE wrapper that can wait (a window / semaphore on the requests in flight of
    one side, "back-pressure"): modelled as the strictest such limit, one unanswered request per endpoint -/
def skWindow : Skeleton := { Skeleton.current with ioWrappersNonBlocking := false }

/-- With a caller-side window the alternating chain deadlocks one level later: A's request is unanswered, B's
    handler's nested request is unanswered, and the request A's handler needs to write next — the one whose result
    everything waits for — is held back by A's own window.  Nothing is enabled any more. -/
theorem C02_needs_nonblocking_wrappers :
    (run skWindow init (deadlockRun.take 9)).map
      (fun s => decide ((s.handlers .B 0).pc = .waitingNested 0 ∧ (s.handlers .A 0).pc = .waitingNested 1) &&
                (step skWindow s (.callWrite .A 1)).isNone && stuck skWindow s) = some true ∧
    (run Skeleton.current init (deadlockRun.take 9)).map
      (fun s => (step Skeleton.current s (.callWrite .A 1)).isSome) = some true := by
  decide

/-- …and a single stalled handler keeps an INDEPENDENT call of the same side from even being written. -/
theorem C02_window_stalled_handler_blocks_others :
    (run skWindow init [.callStart .A 1 1, .callWrite .A 0, .reqDeliver .B 0, .handlerEnter .B 0, .handlerStall .B 0,
                        .callStart .A 2 2]).map
      (fun s => (step skWindow s (.callWrite .A 1)).isNone) = some true ∧
    (run Skeleton.current init [.callStart .A 1 1, .callWrite .A 0, .reqDeliver .B 0, .handlerEnter .B 0, .handlerStall .B 0,
                        .callStart .A 2 2]).map
      (fun s => (step Skeleton.current s (.callWrite .A 1)).isSome) = some true := by
  decide

/-- the source with `go` removed from `go responseResolver.Publish(…)` -/
def skSyncPublish : Skeleton := { Skeleton.current with respPublishAsync := false }

/-- A synchronous Publish would make the response loop wait (it IS busy in reachable states) … -/
theorem C02_sync_publish_makes_loop_wait :
    ∃ acts, (run skSyncPublish init acts).map
      (fun s => decide (s.resLoopBusy .A = some 0 ∧ (s.ress .A).length = 1) &&
                (step skSyncPublish s (.resDeliver .A 0)).isNone) = some true :=
  ⟨[.callStart .A 1 1, .callStart .A 2 2, .callWrite .A 0, .callWrite .A 1, .reqDeliver .B 0, .reqDeliver .B 0,
    .handlerEnter .B 0, .handlerEnter .B 1, .handlerReturn .B 0 1 0, .handlerReturn .B 1 2 0,
    .respond .B 0, .respond .B 1, .resDeliver .A 0], by decide⟩

/-- … but it yields no stuck state in this model: the publisher the loop waits for always has an
    enabled step of its own (hand the value to the waiter, or drop it), after which the loop is
    free again.  (In M3 the waiter goroutine of a pending call is always receiving.) -/
theorem C02_sync_publish_only_delays : ∀ s, Reach skSyncPublish s → ∀ e p, s.resLoopBusy e = some p →
    (step skSyncPublish s (.publishDrop e p)).isSome = true ∨
    ∃ t, (step skSyncPublish s (.publish e p t)).isSome = true := by
  intro s hr e p hb
  have hf : Facts skSyncPublish :=
    ⟨by decide, by decide, by decide, by decide, by decide, by decide, by decide, by decide, by decide⟩
  exact pending_pub_can_finish _ (reach_all _ hf hr).c e p (busy_pub_pending _ hr e p hb)

/-- A running closure holds no panrpc lock: `CallClosure` looks the closure up under the closure-table
    mutex, RELEASES it, and only then runs application code; the table lock is a plain mutex taken only
    for the lookup / insert / delete.  So a stalled, slow or re-entrant closure (the handler threads of
    M3 that run `CallClosure`) cannot block closure registration, release or invocation of any other
    call or link — the model's handler steps take no shared lock because the source takes none
    (checked against the regenerated skeleton). -/
theorem C02_no_lock_across_closure :
    Skeleton.current.clInvokeOutsideLock = true ∧ Skeleton.current.clLockIsMutex = true ∧
    Skeleton.current.clLookupUnderLock = true ∧ Skeleton.current.clInsertUnderLock = true ∧
    Skeleton.current.clDeleteUnderLock = true := by decide

/-- M3 has no step by which ONE call's own context ends the link under everybody else: `Receive` fails only on a closed table (a nested call made by a handler whose own deadline has passed is registered and then returns its context's error), and the stub panics only on failures of the link (both checked against the regenerated skeleton; `utils/broadcaster.go` is outside this property's anchors). Otherwise one slow handler's late nested call would take down a stalled chain and every independent call of the link. -/
theorem C02_a_handlers_expired_nested_call_is_not_fatal :
    Skeleton.current.bcReceiveErrorsOnlyClosed = true ∧ Skeleton.current.panicSitesCanonical = true := by decide

/-- M3 lets every handler thread run on its own; an invocation of a passed closure is such a handler (`CallClosure`). The table holds the closure's wrapper itself — no per-closure mutex, semaphore or queue around it — and its mutex is not held while the closure runs (checked against the regenerated skeleton): a stalled invocation blocks no other invocation of the same closure, and a chain that re-enters the closure does not wait for itself. -/
theorem C02_closure_invocations_are_not_serialised :
    Skeleton.current.clStoresCreatedClosure = true ∧ Skeleton.current.clInvokeOutsideLock = true := by decide

end Panrpc.Sys

#print axioms Panrpc.Sys.C02_loops_never_wait
#print axioms Panrpc.Sys.C02_chain_completes
#print axioms Panrpc.Sys.C02_independent_progress
#print axioms Panrpc.Sys.C02_needs_async_handler
#print axioms Panrpc.Sys.C02_inline_deadlock_is_stuck
#print axioms Panrpc.Sys.C02_sync_publish_makes_loop_wait
#print axioms Panrpc.Sys.C02_sync_publish_only_delays
#print axioms Panrpc.Sys.C02_no_lock_across_closure
#print axioms Panrpc.Sys.C02_needs_nonblocking_loop
#print axioms Panrpc.Sys.C02_limited_loop_stalled_handler_blocks_others
#print axioms Panrpc.Sys.C02_needs_nonblocking_wrappers
#print axioms Panrpc.Sys.C02_window_stalled_handler_blocks_others
#print axioms Panrpc.Sys.C02_a_handlers_expired_nested_call_is_not_fatal
#print axioms Panrpc.Sys.C02_closure_invocations_are_not_serialised
