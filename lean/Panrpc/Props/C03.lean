/-
  Props/C03.lean — "When a link ends, every in-flight call errors out; none hang or fake success".

  Model: M2.  Whatever ends the link (a failing read/write/codec operation in a loop or handler,
  an invalid remote definition, the cancelled link context) does so by calling `setErr`: in the
  model a setter thread `setErrEnter t e` with an arbitrary error, at an arbitrary point, or the
  ctx watcher.  `setErr` closes the pending-call table; "the link has ended" = `bc.closed`.
  A call's error result is nil iff its outcome is `.ok r` with `r.err = .none`.
-/
import Panrpc.Lemmas.EndpointCurrent

namespace Panrpc.Ep
open Panrpc

/-- Every `setErr`, by whichever thread and with whichever error, runs to completion by two own
    steps and leaves the pending-call table closed… -/
theorem C03_setErr_closes : ∀ s, Reach Skeleton.current s → ∀ t e, s.setters t = .entered e →
    ∃ s', run Skeleton.current s [.setErrStore t, .setErrClose t] = some s' ∧ s'.bc.closed = true ∧
      s'.setters t = .done :=  by
  intro s h t e ht
  obtain ⟨s', h1, h2, h3, _⟩ := setErr_completes _ cur_live cur_storefirst h t e ht
  exact ⟨s', h1, h2, h3⟩

/-- …`setErrClose` closes it, and a closed table stays closed for ever (and empty: `C15_no_pending_entries`). -/
theorem C03_ended_means_closed : ∀ s s' t, step Skeleton.current s (.setErrClose t) = some s' →
    s'.bc.closed = true := by
  intro s s' t hs
  simp only [step] at hs
  (repeat' split at hs) <;> (try simp at hs) <;> (try subst hs)
  all_goals exact Bc.close_closes Skeleton.current (by decide) (by assumption)

theorem C03_closed_forever : ∀ s s' acts, run Skeleton.current s acts = some s' →
    s.bc.closed = true → s'.bc.closed = true := by
  intro s s' acts
  induction acts generalizing s with
  | nil => intro h hc; simp [run, runFrom] at h; subst h; exact hc
  | cons a as ih =>
    intro h hc
    simp only [run, runFrom] at h
    cases hs : step Skeleton.current s a with
    | none => simp [hs] at h
    | some s1 => simp only [hs] at h; exact ih s1 h (closed_mono _ a hs hc)

/-- Closing wakes every waiter: a waiter inside the receive function of an ended link has its
    closed-signal case enabled (it yields `ErrClosed`, mapped to a `cancelled` response). -/
theorem C03_waiters_woken : ∀ s, Reach Skeleton.current s → s.bc.closed = true →
    ∀ c, s.waiters c = .recv →
    ∃ s', step Skeleton.current s (.waiterGetsDone c) = some s' ∧
      s'.waiters c = .have { fromFrame := none, err := .closed } := by
  intro s h hcl c hw
  have hemp := (reach_wk _ cur_hyg cur_wakes h).closed_empty hcl
  obtain ⟨s', h1, h2, _⟩ := waiterGetsDone_enabled _ cur_live h c hw (fun g _ => by simp [hemp c])
  exact ⟨s', h1, by simp [h2]⟩

/-- A call never returns a nil error unless a genuine response for it was received: a nil
    error result comes from a response frame that a publisher of this very call id handed to
    this call's waiter (M1's delivery log). -/
theorem C03_no_fake_success : ∀ s, Reach Skeleton.current s → ∀ c r,
    (s.calls c).outcome = .ok r → r.err = .none →
    ∃ v, r.fromFrame = some v ∧
      s.bc.deliveries.any (fun d => decide (d.rcv = c ∧ d.val = v ∧ d.pkey = c ∧ d.rkey = c)) = true := by
  intro s h c r ho he
  obtain ⟨g1, g2, _⟩ := (reach_ju _ h).out_ok c r ho
  cases hf : r.fromFrame with
  | none => rcases g2 hf with h' | h' <;> simp [he] at h'
  | some v => exact ⟨v, rfl, g1 v hf⟩

/-- every returned call has a result: built from a response, or `(zero, e)` with e non-nil -/
theorem C03_returned_has_outcome : ∀ s, Reach Skeleton.current s → ∀ c, (s.calls c).pc = .returned →
    (∃ r, (s.calls c).outcome = .ok r) ∨ (∃ e, (s.calls c).outcome = .failed e) :=
  fun _ h => (reach_oi _ h).returned_set

/-- Calls made after the link ended fail immediately: `Receive` is refused, the stub panics with
    `ErrClosed`, recovers and returns `(zero, ErrClosed)` — two own steps, no request is written. -/
theorem C03_later_calls_fail : ∀ s, Reach Skeleton.current s → s.bc.closed = true →
    ∀ c, (s.calls c).pc = .marshalled →
    ∃ s', run Skeleton.current s [.callReceive c, .callRecover c eClosed] = some s' ∧
      (s'.calls c).pc = .returned ∧ (s'.calls c).outcome = .failed eClosed := by
  intro s h hcl c hp
  have h1 := callReceive_refused _ cur_live h c hp hcl
  have hr1 := Reach.step _ h h1
  have h2 := callRecover_enabled _ cur_live hr1 c eClosed (by simp)
  exact ⟨_, run_cons _ h1 (run_cons _ h2 (run_nil _ _)), by simp, by simp⟩

/-- …and there is no other way on: `callReceive` on a closed table leads to the panic path,
    and a panicking stub only ever leaves through its recover, with that error
    (it never reaches `registered`, `spawned` or `written`). -/
theorem C03_later_calls_never_write : ∀ s, Reach Skeleton.current s → s.bc.closed = true →
    ∀ c s', (s.calls c).pc = .marshalled → step Skeleton.current s (.callReceive c) = some s' →
    (s'.calls c).pc = .panicking eClosed := by
  intro s h hcl c s' hp hs
  rw [callReceive_refused _ cur_live h c hp hcl] at hs
  simp at hs; subst hs; simp

theorem C03_panic_only_returns_error : ∀ s s' a, step Skeleton.current s a = some s' → ∀ c e,
    (s.calls c).pc = .panicking e →
    (s'.calls c).pc = .panicking e ∨ ((s'.calls c).pc = .returned ∧ (s'.calls c).outcome = .failed e) :=
  fun _ _ a hs c e hp => panicking_exit _ a hs c e hp

theorem C03_panic_recovers : ∀ s, Reach Skeleton.current s → ∀ c e, (s.calls c).pc = .panicking e →
    ∃ s', step Skeleton.current s (.callRecover c e) = some s' ∧ (s'.calls c).pc = .returned ∧
      (s'.calls c).outcome = .failed e := by
  intro s h c e hp
  exact ⟨_, callRecover_enabled _ cur_live h c e hp, by simp, by simp⟩

/-- A call at its select is never stuck once the link context is done or something is in `res`. -/
theorem C03_caller_never_stuck : ∀ s, Reach Skeleton.current s → ∀ c, (s.calls c).pc = .written →
    (s.linkCtxDone = true → (step Skeleton.current s (.callLinkCtx c)).isSome = true) ∧
    (s.res c ≠ [] → (step Skeleton.current s (.callTakeRes c false)).isSome = true) := by
  intro s h c hp
  constructor
  · intro hl; rw [callLinkCtx_enabled _ cur_live h c hp hl]; rfl
  · intro hres
    cases hrs : s.res c with
    | nil => exact absurd hrs hres
    | cons r rest => rw [callTakeRes_enabled _ cur_live h c false r rest hp hrs (Or.inr rfl)]; rfl

/-- Every call in flight at its select when the link ends returns: at most four steps of its
    waiter and two of its own, none of the peer, the transport or user code. -/
theorem C03_inflight_returns : ∀ s, Reach Skeleton.current s → s.bc.closed = true →
    ∀ c, (s.calls c).pc = .written →
    ∃ acts s', acts.length ≤ 6 ∧ run Skeleton.current s acts = some s' ∧ (s'.calls c).pc = .returned :=
  fun _ h hcl c hp => inflight_returns _ cur_live h c hcl hp

/-- …and so does every call, wherever its stub stands when the link ends (before `Receive`,
    before the spawn, before or after the write, while decoding, while panicking): at most eight
    steps of its own and of its waiter. -/
theorem C03_every_inflight_call_returns : ∀ s, Reach Skeleton.current s → s.bc.closed = true →
    ∀ c, (s.calls c).pc ≠ .absent →
    ∃ acts s', acts.length ≤ 8 ∧ run Skeleton.current s acts = some s' ∧ (s'.calls c).pc = .returned :=
  fun _ h hcl c hp => every_inflight_returns _ cur_live h c hcl hp

/-! ### non-vacuity -/

/-- two calls in flight, the response loop fails to read (ext 7): both calls error out with
    ErrClosed, a later call fails at once; Link returns the read error -/
example : (run Skeleton.current init
    [.callStart 0 5 2 0, .callReceive 0, .callSpawn 0, .callWrite 0, .waiterRecvCall 0,
     .callStart 1 6 1 0, .callReceive 1, .callSpawn 1, .callWrite 1,
     .setErrEnter 10 7, .setErrStore 10, .setErrClose 10,
     .waiterGetsDone 0, .waiterSend 0, .waiterFree 0, .callTakeRes 0 true, .callReturnOk 0,
     .waiterRecvCall 1, .waiterGetsDone 1, .waiterSend 1, .waiterFree 1, .callTakeRes 1 true, .callReturnOk 1,
     .callStart 2 5 2 0, .callReceive 2, .callRecover 2 eClosed]).map
    (fun s => decide ((s.calls 0).outcome = .ok ⟨none, .closed⟩ ∧ (s.calls 1).outcome = .ok ⟨none, .closed⟩ ∧
                      (s.calls 2).outcome = .failed eClosed ∧ (s.calls 0).pc = .returned ∧
                      (s.calls 1).pc = .returned ∧ (s.calls 2).pc = .returned ∧ s.slot = some (eExt 7))) = some true := by
  decide

/-- a response delivered before the end is still returned as a success, justified by the delivery log -/
example : (run Skeleton.current init
    [.callStart 0 5 2 0, .callReceive 0, .callSpawn 0, .callWrite 0, .waiterRecvCall 0,
     .respFrame 0 0 42 false, .pubLookup 0, .waiterGetsValue 0 0,
     .setErrEnter 10 7, .setErrStore 10, .setErrClose 10,
     .waiterSend 0, .waiterFree 0, .callTakeRes 0 false, .callReturnOk 0]).map
    (fun s => decide ((s.calls 0).outcome = .ok ⟨some 42, .none⟩ ∧ s.bc.deliveries = [⟨0, 0, 0, 0, 42⟩])) = some true := by
  decide

/-- A failed transport read reaches `setErr` without waiting for anybody: in both read loops the error
    branch runs `setErr` and leaves (`…ExitsOnReadErr`), and nothing in the loop bodies outside the
    spawned goroutines can wait — no lock, channel operation or `sync` wait, directly or through a
    local closure (checked against the regenerated skeleton).  `setErrEnter` is therefore an
    always-enabled step of M2, as the theorems above assume; a loop that first had to take a lock
    held by application code (e.g. the remote-enumeration callback inside which the in-flight call
    was issued) would never close the pending-call table.  Likewise `setErr` itself takes no lock but
    its own (`seOnlyOwnLock`). -/
theorem C03_read_failure_reaches_setErr :
    Skeleton.current.reqLoopExitsOnReadErr = true ∧ Skeleton.current.respLoopExitsOnReadErr = true ∧
    Skeleton.current.respLoopSetErrOnReadErr = true ∧
    Skeleton.current.reqLoopBlocksOnlyOnRead = true ∧ Skeleton.current.respLoopBlocksOnlyOnRead = true ∧
    Skeleton.current.seOnlyOwnLock = true := by decide

/-- M2's `setErrClose` is a step of EVERY thread inside `setErr`: in the source every path through `setErr`
    closes the pending-call table — the two branches differ only in the cause they pass (checked against
    the regenerated skeleton). -/
theorem C03_setErr_always_closes : Skeleton.current.seClosesOnEveryPath = true := by decide

/-- M2's `callRecover c e` returns `e` as the call's error with a valid result list and enters `setErr e`.
    In the source that is the stub's deferred function: the panic value becomes the error (itself if it is
    one, else ErrPanickedWithNonErrorValue), `setErr` is called unconditionally, and the result list is
    repaired for both arities — `[err]` / `[zero, err]` — so that reflect never sees a wrong count (and panics
    in the CALLER's goroutine); likewise for the closure proxy and the handler goroutine (checked
    against the regenerated skeleton, statement by statement). -/
theorem C03_recover_blocks_canonical : Skeleton.current.recoverBlocksCanonical = true := by decide

/-- M2's `callRecover` / `callReturnOk` release the call's closures in the same step: in the source that needs the deferred release to wait for nobody. The release function `registerClosure` returns runs DEFERRED on every exit path of a closure-carrying call; it only locks, deletes and unlocks — no wait, channel operation or select (checked against the regenerated skeleton) — and the lock it takes is not held while a closure body runs. A release that waited for invocations still running (a `WaitGroup`) would keep a call whose link has ended from returning for as long as the peer's handler keeps the closure busy. -/
theorem C03_closure_release_never_waits :
    Skeleton.current.clFreeNeverWaits = true ∧ Skeleton.current.clInvokeOutsideLock = true ∧ Skeleton.current.stubClosureFreeDeferred = true := by decide

/-- A closure invocation in flight when the link ends is an in-flight call of M2 made by the proxy THROUGH `utils.Call`: the error the stub returns (e.g. `context.DeadlineExceeded` when the link's context ran into its deadline — a zero-valued struct) reaches the handler only if `utils.Call` hands the results back untouched (checked against the regenerated skeleton). -/
theorem C03_nested_call_errors_pass_through_utils_call :
    Skeleton.current.ucResultsUntouched = true ∧ Skeleton.current.ucNoWaiting = true := by decide

/-- M2's response loop reports EVERY frame the codec rejects (`respFrame` with a decode failure → `setErr`): `Response.Unmarshal` hands the codec's error on as it is — it does nothing but call the user's function on the struct (checked against the regenerated skeleton; `utils/messages.go` is outside this property's anchors). A version that swallowed the error for frames with a non-empty `err` would leave the link up and the call the frame was meant for blocked for ever. -/
theorem C03_an_undecodable_response_reaches_setErr :
    Skeleton.current.msgCodecPlain = true ∧ Skeleton.current.errBranchesHandled = true ∧ Skeleton.current.respLoopSetErrOnReadErr = true := by decide

end Panrpc.Ep

#print axioms Panrpc.Ep.C03_read_failure_reaches_setErr
#print axioms Panrpc.Ep.C03_setErr_closes
#print axioms Panrpc.Ep.C03_ended_means_closed
#print axioms Panrpc.Ep.C03_closed_forever
#print axioms Panrpc.Ep.C03_waiters_woken
#print axioms Panrpc.Ep.C03_no_fake_success
#print axioms Panrpc.Ep.C03_returned_has_outcome
#print axioms Panrpc.Ep.C03_later_calls_fail
#print axioms Panrpc.Ep.C03_later_calls_never_write
#print axioms Panrpc.Ep.C03_panic_only_returns_error
#print axioms Panrpc.Ep.C03_panic_recovers
#print axioms Panrpc.Ep.C03_caller_never_stuck
#print axioms Panrpc.Ep.C03_inflight_returns
#print axioms Panrpc.Ep.C03_every_inflight_call_returns
#print axioms Panrpc.Ep.C03_setErr_always_closes
#print axioms Panrpc.Ep.C03_recover_blocks_canonical
#print axioms Panrpc.Ep.C03_closure_release_never_waits
#print axioms Panrpc.Ep.C03_nested_call_errors_pass_through_utils_call
#print axioms Panrpc.Ep.C03_an_undecodable_response_reaches_setErr
