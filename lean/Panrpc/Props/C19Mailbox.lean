/-
  Props/C19Mailbox.lean — C19, stretch goal: M1 (the model of utils/broadcaster.go) refines the
  sequential per-key mailbox specification of Spec/Mailbox.lean.

  `Bc.abs` maps an M1 state to a mailbox state (generations = epochs, table = `live`; channels,
  closed signals, entry contexts, the lock, the crash flag and the `have`/`waiting` distinction
  are forgotten); `Bc.absAct` maps an M1 step to the mailbox operation it implements, or to
  nothing (`rcvCall` of a fresh receive function, `ctxPropagate`, and the crash steps, which are
  unreachable).  All theorems are about `Skeleton.current`: the general lemmas of
  Lemmas/BcMailbox.lean plus the same `by decide` source facts C19 rests on (`cur_hyg`,
  `cur_nochanclose`, `cur_wakes`; the atomicity reading of the model is `C19_model_atomicity`).
-/
import Panrpc.Lemmas.BcMailbox
import Panrpc.Props.C19

namespace Panrpc.Bc
open Panrpc

/-- Forward simulation: every step the implementation model can take from a reachable state is
    invisible (`abs` unchanged) or is exactly the mailbox operation `absAct` names, enabled in the
    specification and with the same effect. -/
theorem C19_refines_mailbox_step : ∀ s, Reach Skeleton.current s → ∀ a s', step Skeleton.current s a = some s' →
    abs s' = abs s ∨ ∃ m, absAct s a = some m ∧ Mb.specStep (abs s) m = some (abs s') :=
  fun _ hr a _ hs => refines_step _ cur_hyg cur_nochanclose cur_wakes hr a hs

/-- Every reachable state of M1 abstracts to a reachable state of the mailbox specification:
    every property of the specification's reachable states holds of `abs s`. -/
theorem C19_refines_mailbox : ∀ s, Reach Skeleton.current s → Mb.Reach (abs s) :=
  fun _ hr => refines_reach _ cur_hyg cur_nochanclose cur_wakes hr

/-! ### the specification's trace properties, transferred -/

/-- (from `Mb.handoff_at_most_once`) a published value is handed to at most one receiver -/
theorem C19_mailbox_at_most_once : ∀ s, Reach Skeleton.current s → (s.deliveries.map Delivery.pub).Nodup := by
  intro s hr
  rw [← abs_handoffs_pub]
  exact Mb.handoff_at_most_once (C19_refines_mailbox s hr)

/-- (from `Mb.handoff_same_key`) …and never to a receiver of another key -/
theorem C19_mailbox_no_cross_key : ∀ s, Reach Skeleton.current s → ∀ d, d ∈ s.deliveries → d.pkey = d.rkey := by
  intro s hr d hd
  have := Mb.handoff_same_key (C19_refines_mailbox s hr) (absDel d)
    (by simp only [abs]; exact List.mem_map_of_mem hd)
  exact this

/-- (from `Mb.handoff_same_epoch`) …nor of another registration of the same key: at every
    rendezvous the publisher and the receiver are bound to the same generation of the same key. -/
theorem C19_mailbox_no_cross_epoch : ∀ s, Reach Skeleton.current s → ∀ t p s',
    step Skeleton.current s (.rcvValue t p) = some s' →
    ∃ k g v x, absPub (s.pubs p) = .pending k v (some g) ∧ absRcv (s.rcvs t) = .bound k g x .none ∧
      absPub (s'.pubs p) = .delivered ∧ absRcv (s'.rcvs t) = .bound k g x (.val v) := by
  intro s hr t p s' hs
  exact Mb.handoff_same_epoch (refines_handoff _ cur_hyg cur_nochanclose cur_wakes hr t p hs)

/-! ### what the refinement needs from `Receive`: it fails only when the mailbox is closed -/

/-- The specification's `register` refuses a receiver only on a closed mailbox.  `C19_refines_mailbox_step`
    therefore rests on the source fact `bcReceiveErrorsOnlyClosed` (part of `cur_wakes`).  On the current
    tree with that ONE fact flipped (`Receive` also refuses a caller context that is done already) the
    simulation fails at the first such `Receive`: the receiver is refused on an OPEN mailbox and no entry is
    created, whereas the specification's `register` binds it to a fresh epoch — the step is neither a
    stutter nor the specification step. -/
theorem C19_refusing_a_done_context_is_no_mailbox_step :
    ((run { Skeleton.current with bcReceiveErrorsOnlyClosed := false } init [.ctxCancel 1]).bind fun s =>
      (step { Skeleton.current with bcReceiveErrorsOnlyClosed := false } s (.receive 0 7 1)).map fun s' =>
        decide (s'.rcvs 0 = .refusedCtx ∧ s'.closed = false ∧ s'.table 7 = none ∧
                (abs s).rcvs 0 = .absent ∧ (abs s').rcvs 0 = .refused ∧
                absAct s (.receive 0 7 1) = some (.register 0 7 1) ∧
                (Mb.specStep (abs s) (.register 0 7 1)).map (fun m => (m.rcvs 0, m.live 7)) =
                  some (.bound 7 0 1 .none, some 0))) = some true := by decide

/-- on the current tree the same `Receive` registers the receiver (the entry is born cancelled) -/
example : (run Skeleton.current init [.ctxCancel 1, .receive 0 7 1]).map
    (fun s => decide (s.rcvs 0 = .have 7 0 1 ∧ s.table 7 = some 0 ∧
                      (s.entries 0).map (·.ctxDone) = some true)) = some true := by decide

/-! ### non-vacuity -/

/-- the specification hands a value over… -/
example : (runFrom Mb.specStep Mb.init [.register 0 7 1, .publish 0 7 42, .lookup 0, .handoff 0 0]).map
    (fun m => decide (m.rcvs 0 = .bound 7 0 1 (.val 42) ∧ m.pubs 0 = .delivered ∧ m.handoffs.length = 1)) = some true := by
  decide

/-- …refuses a hand-off across epochs (the key was freed and registered again in between)… -/
example : (runFrom Mb.specStep Mb.init
    [.register 0 7 1, .publish 0 7 42, .lookup 0, .free 7, .register 1 7 1]).map
    (fun m => (Mb.specStep m (.handoff 0 1)).isNone && (Mb.specStep m (.handoff 0 0)).isSome &&
              (Mb.specStep m (.giveUp 0)).isSome && (Mb.specStep m (.sayClosed 0)).isSome &&
              (Mb.specStep m (.sayClosed 1)).isNone) = some true := by decide

/-- …and an M1 run and the run of its image under `absAct` end in the same abstract state
    (observed at the threads, keys and contexts involved) -/
example :
    let acts : List Act := [.receive 0 7 1, .rcvCall 0, .pubStart 0 7 42, .pubStart 1 7 43, .pubLookup 0,
      .pubLookup 1, .rcvValue 0 0, .free 7, .pubCtx 1, .rcvCall 0, .rcvDone 0]
    let macts : List Mb.MAct := [.register 0 7 1, .publish 0 7 42, .publish 1 7 43, .lookup 0, .lookup 1,
      .handoff 0 0, .free 7, .giveUp 1, .again 0, .sayClosed 0]
    (run Skeleton.current init acts).bind (fun s => (runFrom Mb.specStep Mb.init macts).map (fun m =>
      decide ((abs s).pubs 0 = m.pubs 0 ∧ (abs s).pubs 1 = m.pubs 1 ∧ (abs s).rcvs 0 = m.rcvs 0 ∧
              (abs s).live 7 = m.live 7 ∧ (abs s).handoffs = m.handoffs ∧ (abs s).next = m.next ∧
              m.rcvs 0 = .bound 7 0 1 .closedErr ∧ m.pubs 1 = .dropped))) = some true := by decide

end Panrpc.Bc

#print axioms Panrpc.Bc.C19_refines_mailbox_step
#print axioms Panrpc.Bc.C19_refines_mailbox
#print axioms Panrpc.Bc.C19_mailbox_at_most_once
#print axioms Panrpc.Bc.C19_mailbox_no_cross_key
#print axioms Panrpc.Bc.C19_mailbox_no_cross_epoch
#print axioms Panrpc.Bc.C19_refusing_a_done_context_is_no_mailbox_step
