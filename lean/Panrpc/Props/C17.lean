/-
  Props/C17.lean — "Every frame panrpc emits decodes, with an independent decoder, to the
  documented shape: a request carries a unique non-empty call id, the dotted function name and an
  array with one separately encoded element per non-context argument (an empty array, never null,
  for none); a response carries the call id of the request it answers, a validly encoded value
  (null when there is none) and an error string that is empty exactly when the error is nil; a
  stream envelope carries exactly one of request and response.  Conversely, frames hand-written to
  this specification by a foreign implementation are accepted and answered."

  Model: P3 (Model/Wire.lean).  All theorems are about `Skeleton.current`.  `σ` is any serializer,
  `V` / `P` any value / payload types.

  Carried elsewhere: that the call id is fresh per call and non-empty (`uuid.NewString()`:
  `stubCallIdFresh` + the freshness assumption of the trusted base, M2); that the request parsed from
  a foreign frame is resolved by name and its handler run (P1 Lookup, M2).  Here: the frames.
-/
import Panrpc.Lemmas.WireCurrent

namespace Panrpc.Wire
open Panrpc

/-- The request frame of a call, literally: exactly the three documented members; `call` is the call
    id, `function` the stub's name, `args` an array holding, for the i-th argument after the
    context, the payload `marshal` returned for it (`argValue σ (.val v τ) = v`; for a func
    argument `argValue σ (.func id) = σ.ofStr id`, the closure id as a string).  The stub emits
    this frame whenever its first argument is a context. -/
theorem C17_request_shape {V P : Type} (σ : Codec V P) (callId name : String) (a : Arg V) (rest : List (Arg V)) :
    mkRequest Skeleton.current σ callId name (a :: rest) =
      .obj [ ("call", .str callId), ("function", .str name),
             ("args", .arr (rest.map fun x => .raw (σ.enc (argValue σ x)))) ]
    ∧ stubBuild Skeleton.current σ callId name (.ctx :: rest) =
        .frame (mkRequest Skeleton.current σ callId name (.ctx :: rest)) := by
  refine ⟨?_, stubBuild_ctx _ cur_req.funcReg σ callId name rest⟩
  have h := mkRequest_eq Skeleton.current cur_req σ callId name a rest
  rw [cur_tags.reqCall, cur_tags.reqFunction, cur_tags.reqArgs] at h
  exact h

/-- `args` is an array — never `null`, also for no arguments — of length = number of non-context
    arguments, whose i-th element is the separately encoded i-th argument. -/
theorem C17_request_args {V P : Type} (σ : Codec V P) (callId name : String) (a : Arg V) (rest : List (Arg V)) :
    ∃ xs, (mkRequest Skeleton.current σ callId name (a :: rest)).field "args" = some (.arr xs) ∧
      xs.length = rest.length ∧
      (∀ (i : Nat) x, rest[i]? = some x → xs[i]? = some (Tree.raw (σ.enc (argValue σ x)))) ∧
      (mkRequest Skeleton.current σ callId name (a :: rest)).keys = ["call", "function", "args"] ∧
      (mkRequest Skeleton.current σ callId name (a :: rest)).field "call" = some (.str callId) ∧
      (mkRequest Skeleton.current σ callId name (a :: rest)).field "function" = some (.str name) := by
  refine ⟨rest.map fun x => Tree.raw (σ.enc (argValue σ x)), ?_, ?_, ?_, ?_, ?_, ?_⟩
  all_goals (try rw [(C17_request_shape σ callId name a rest).1])
  · simp [Tree.field, lookupLast]
  · simp
  · intro i x hx; simp [hx]
  · simp [Tree.keys]
  · simp [Tree.field, lookupLast]
  · simp [Tree.field, lookupLast]

/-- The response frame, literally: three members; `call` is the `Call` of the request answered;
    `value` is the payload of the returned value, or of `nil` when the function returns none (or only
    an error); `err` is a string: the error's message, or "" for a nil error. -/
theorem C17_response_shape {V P : Type} (σ : Codec V P) (reqCall : String) (r : Ret V) :
    mkResponse Skeleton.current σ reqCall r =
      .obj [ ("call", .str reqCall), ("value", .raw (respValue σ r)), ("err", .str (respErrStr r)) ]
    ∧ respValue σ r = ((r.val).map σ.enc).getD σ.encNil
    ∧ respErrStr r = (r.err).getD "" := by
  refine ⟨?_, respValue_eq σ r, respErrStr_eq_err r⟩
  have h := mkResponse_eq Skeleton.current cur_res σ reqCall r
  rw [cur_tags.resCall, cur_tags.resValue, cur_tags.resErr] at h
  exact h

/- Full statement ("an error string that is empty exactly when the error is nil"):
     ∀ r, resErrField Skeleton.current (mkResponse Skeleton.current σ reqCall r) = some "" ↔ r.err = none
   It is FALSE for the code as it is (`C17_empty_message_sent_as_nil` below, finding F7).  Proved: the
   same under the hypothesis that a non-nil error's message is not the empty string. -/
theorem C17_err_empty_iff_nil_partial {V P : Type} (σ : Codec V P) (reqCall : String) (r : Ret V)
    (hne : ∀ m, r.err = some m → m ≠ "") :
    resErrField Skeleton.current (mkResponse Skeleton.current σ reqCall r) = some "" ↔ r.err = none := by
  rw [resErrField_mkResponse _ cur_res]
  simpa using respErrStr_empty_iff r hne

/-- F7, for `Skeleton.current`: a handler that returns a non-nil error whose message is "" produces
    the very frame a nil error produces (`err: ""`), and the caller gets a nil error.  The documented
    protocol ("nil errors are represented by the empty string") cannot represent this error. -/
theorem C17_empty_message_sent_as_nil {V P : Type} (σ : Codec V P) (reqCall : String) (v : V)
    (prev : Option String) (τ : Nat) :
    resErrField Skeleton.current (mkResponse Skeleton.current σ reqCall (.oneErr (some "") : Ret V)) = some ""
    ∧ mkResponse Skeleton.current σ reqCall (.oneErr (some "") : Ret V)
        = mkResponse Skeleton.current σ reqCall (.oneErr none)
    ∧ mkResponse Skeleton.current σ reqCall (.two v (some ""))
        = mkResponse Skeleton.current σ reqCall (.two v none)
    ∧ callerResult Skeleton.current σ prev 1 true τ
        (mkResponse Skeleton.current σ reqCall (.oneErr (some "") : Ret V)) = some (.errOnly none) := by
  refine ⟨resErrField_mkResponse _ cur_res σ reqCall _, rfl, rfl, ?_⟩
  rw [callerResult_mkResponse _ cur_res cur_err_value_distinct]
  simp only [respErrStr, respErr_empty _ cur_dec, decodeResult_one_nil _ cur_dec]

/-- A stream envelope has the two documented members and exactly one of them is non-null: the frame
    for a request envelope, the frame for a response envelope (panrpc's frames are objects, never
    `null`); the independent decoder classifies them accordingly. -/
theorem C17_envelope_xor {V P : Type} (σ : Codec V P) (callId name reqCall : String)
    (args : List (Arg V)) (r : Ret V) :
    let rq : Tree P := mkRequest Skeleton.current σ callId name args
    let rs : Tree P := mkResponse Skeleton.current σ reqCall r
    mkEnvelope Skeleton.current true rq = .obj [("request", rq), ("response", .null)] ∧ rq.isNull = false ∧
    mkEnvelope Skeleton.current false rs = .obj [("request", .null), ("response", rs)] ∧ rs.isNull = false ∧
    parseEnvelope (mkEnvelope Skeleton.current true rq) = some (true, rq) ∧
    parseEnvelope (mkEnvelope Skeleton.current false rs) = some (false, rs) := by
  intro rq rs
  have h1 := mkEnvelope_request Skeleton.current cur_env rq
  have h2 := mkEnvelope_response Skeleton.current cur_env rs
  rw [cur_tags.msgRequest, cur_tags.msgResponse] at h1 h2
  exact ⟨h1, rfl, h2, rfl, parseEnvelope_request _ cur_env cur_tags rq rfl,
    parseEnvelope_response _ cur_env cur_tags rs rfl⟩

/-- (a) panrpc's own request and response frames decode with the independent decoder
    (`parseRequest` / `parseResponse`: documented keys, any key order, unknown keys ignored) to
    exactly what was put in.
    (b) Any object with unique keys that has `call` and `function` strings and, as `args`, an array of
    payloads — or, for no arguments, `null` or no such member — in any order and among any other
    members, is accepted by it,
    (c) and whatever it accepts, Go's own decoder (`goDecodeRequest`) reads identically, and every
    response built for that request — whatever the handler returns — carries its call id. -/
theorem C17_foreign_accepted {V P : Type} (σ : Codec V P) :
    (∀ callId name (a : Arg V) rest,
        parseRequest (mkRequest Skeleton.current σ callId name (a :: rest)) =
          some (callId, name, rest.map fun x => σ.enc (argValue σ x))) ∧
    (∀ reqCall (r : Ret V),
        parseResponse (mkResponse Skeleton.current σ reqCall r) = some (reqCall, respValue σ r, respErrStr r)) ∧
    (∀ (kvs : List (String × Tree P)) c f ps, (kvs.map Prod.fst).Nodup →
        ("call", Tree.str c) ∈ kvs → ("function", Tree.str f) ∈ kvs →
        (("args", Tree.arr (ps.map Tree.raw)) ∈ kvs ∨
          (ps = [] ∧ (("args", Tree.null) ∈ kvs ∨ ∀ v, ("args", v) ∉ kvs))) →
        parseRequest (.obj kvs) = some (c, f, ps)) ∧
    (∀ (t : Tree P) c f ps, parseRequest t = some (c, f, ps) →
        goDecodeRequest Skeleton.current t = some (c, f, ps) ∧
        ∀ r : Ret V, parseResponse (mkResponse Skeleton.current σ c r) = some (c, respValue σ r, respErrStr r)) :=
  ⟨fun callId name a rest => parseRequest_mkRequest _ cur_req cur_tags σ callId name a rest,
   fun reqCall r => parseResponse_mkResponse _ cur_res cur_tags σ reqCall r,
   fun kvs c f ps hn hc hf ha => parseRequest_accepts kvs c f ps hn hc hf ha,
   fun t c _ _ hp => ⟨goDecodeRequest_of_parseRequest _ cur_tags t _ hp,
     fun r => parseResponse_mkResponse _ cur_res cur_tags σ c r⟩⟩

/-! ### non-vacuity (V = P = String, `idCodec`) -/

/-- `Ping(ctx, "a", func…, "b")`: three wire arguments, the closure as its id -/
example : mkRequest Skeleton.current idCodec "id-1" "Svc.Ping" [.ctx, .val "a" 0, .func "cl-7", .val "b" 0] =
    .obj [("call", .str "id-1"), ("function", .str "Svc.Ping"), ("args", .arr [.raw "a", .raw "cl-7", .raw "b"])] := rfl

/-- no arguments: an empty array -/
example : (mkRequest Skeleton.current idCodec "id-1" "F" [.ctx]).field "args" = some (.arr []) := rfl

example : stubBuild Skeleton.current idCodec "id-1" "F" [.val "x" 0] = .panic "ErrInvalidArgs" := rfl

example : mkResponse Skeleton.current idCodec "id-1" (.two "v" (some " boom ")) =
    .obj [("call", .str "id-1"), ("value", .raw "v"), ("err", .str " boom ")] := rfl
example : mkResponse Skeleton.current idCodec "id-1" (.none0 : Ret String) =
    .obj [("call", .str "id-1"), ("value", .raw "null"), ("err", .str "")] := rfl

/-- the hypothesis of `C17_err_empty_iff_nil_partial` is met by a real error … -/
example : ∀ m, (Ret.two "v" (some "boom")).err = some m → m ≠ "" := by
  intro m h; cases h; decide
/-- … and F7 on concrete data -/
example : mkResponse Skeleton.current idCodec "id-1" (.oneErr (some "") : Ret String) =
    .obj [("call", .str "id-1"), ("value", .raw "null"), ("err", .str "")] := rfl

/-- a foreign frame: other key order, an unknown member, no `args` member -/
example : parseRequest (P := String) (.obj [("function", .str "F"), ("x-trace", .str "t"), ("call", .str "42")]) =
    some ("42", "F", []) := rfl
example : goDecodeRequest (P := String) Skeleton.current
    (.obj [("args", .null), ("function", .str "F"), ("call", .str "42")]) = some ("42", "F", []) := rfl
example : parseRequest (P := String) (.obj [("args", .arr [.raw "1", .raw "2"]), ("call", .str "42"), ("function", .str "A.B")]) =
    some ("42", "A.B", ["1", "2"]) := rfl

example : parseEnvelope (mkEnvelope Skeleton.current false (mkResponse Skeleton.current idCodec "c" (.oneVal "v"))) =
    some (false, mkResponse Skeleton.current idCodec "c" (.oneVal "v")) := rfl

/-! the source facts are load-bearing: with `Args:` left nil the frame for no arguments has `null` -/
example : (mkRequest { Skeleton.current with stubRequestArgsInitEmpty := false } idCodec "id" "F" [.ctx]).field "args"
    = some .null := rfl
example : (mkRequest { Skeleton.current with stubCtxSkipped := false } idCodec "id" "F" [.ctx]).field "args"
    = some (.arr [.raw "<context>"]) := rfl

/-- `mkResponse` is given "the request's call id": in the source that is `req.Call` read by the handler
    goroutine when it builds the response, long after the read loop may have decoded later frames.  The
    request (and response) structs are declared inside the loop body, so every frame has its own and a
    later frame cannot overwrite the id an earlier handler still needs (checked against the regenerated
    skeleton). -/
theorem C17_frame_struct_per_iteration :
    Skeleton.current.reqFrameFreshPerIteration = true ∧ Skeleton.current.respFrameFreshPerIteration = true := by decide

/-- A closure invocation is an ordinary request (`C17_request_shape` applies to it) for `CallClosure`
    with two arguments: the closure id and the closure's own argument list, the latter handed to `marshal`
    as ONE value.  That value is a slice initialised to the empty, non-nil `[]interface{}{}` inside the
    per-invocation literal and appended to once per non-context argument (checked against the regenerated
    skeleton) — so a closure that takes only the context is invoked with `[]`, never with `null` (which
    is what a nil slice encodes to, and what a foreign implementation that spreads the list chokes on). -/
theorem C17_closure_arglist_is_array : Skeleton.current.pxArgsFreshPerInvocation = true := by decide

/-- `mkRequest` / `mkResponse` / `parseRequest` describe what `marshal` and `unmarshal` are handed: the frame
    structs themselves.  The four `Marshal` / `Unmarshal` methods of utils/messages.go do exactly that and
    nothing else (checked against the regenerated skeleton) — in particular no member (such as the call id
    a response must echo) is rewritten after decoding. -/
theorem C17_codec_methods_are_plain : Skeleton.current.msgCodecPlain = true := by decide

/-- `err` is the empty string exactly when the function's error IS nil: the results reach the responder untouched through `utils.Call`, and a closure whose declared error type is a concrete pointer type yields a nil `error` for its nil pointer — decided by `IsNil()` on the result value itself (both checked against the regenerated skeleton; `rpc/manager.go` and `utils/call.go` are outside this property's anchors). -/
theorem C17_error_member_reflects_the_returned_error :
    Skeleton.current.ucResultsUntouched = true ∧ Skeleton.current.clNilErrorViaIsNil = true := by decide

/-- A `CallClosure` request whose closure PANICS (a runtime error included) is answered with a response frame carrying the panic's message: `utils.Call` recovers every panic and re-raises none — every `panic(…)` of the library hands on a tested error, a sentinel or a context's error (checked against the regenerated skeleton; `utils/call.go` is outside this property's anchors). -/
theorem C17_a_failing_closure_is_answered :
    Skeleton.current.ucRecovers = true ∧ Skeleton.current.ucNonErrorPanicMapped = true ∧ Skeleton.current.panicSitesCanonical = true ∧ Skeleton.current.clCallViaUtilsCall = true := by decide

/-- `Receive` fails only on a closed table — a context that is done already is registered and reported through the receive function, to that one caller — and the stub panics only on failures of the link (both checked against the regenerated skeleton; `utils/broadcaster.go` is outside this property's anchors). Otherwise a handler that invokes a callable (or makes any call) with a context of its own that has expired ends the link and later spec-conformant frames of the peer are neither accepted nor answered. -/
theorem C17_frames_keep_flowing_after_an_expired_call :
    Skeleton.current.bcReceiveErrorsOnlyClosed = true ∧ Skeleton.current.panicSitesCanonical = true := by decide

end Panrpc.Wire

#print axioms Panrpc.Wire.C17_closure_arglist_is_array
#print axioms Panrpc.Wire.C17_request_shape
#print axioms Panrpc.Wire.C17_request_args
#print axioms Panrpc.Wire.C17_response_shape
#print axioms Panrpc.Wire.C17_err_empty_iff_nil_partial
#print axioms Panrpc.Wire.C17_empty_message_sent_as_nil
#print axioms Panrpc.Wire.C17_envelope_xor
#print axioms Panrpc.Wire.C17_foreign_accepted
#print axioms Panrpc.Wire.C17_frame_struct_per_iteration
#print axioms Panrpc.Wire.C17_codec_methods_are_plain
#print axioms Panrpc.Wire.C17_error_member_reflects_the_returned_error
#print axioms Panrpc.Wire.C17_a_failing_closure_is_answered
#print axioms Panrpc.Wire.C17_frames_keep_flowing_after_an_expired_call
