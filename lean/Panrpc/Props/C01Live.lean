/-
  Props/C01Live.lean — the liveness half of C01 at full strength: "… returns exactly the value
  and error that invocation produced" is not vacuously true of a system that never answers.

  Model: M3 (Model/System.lean).  `C01_can_complete` replaces `C01_can_complete_partial`
  (Props/C01.lean, calls that are `registered`): it covers every call thread that is in flight
  — `registered` or `written` — in every reachable state, whatever else is going on in it
  (other calls in both directions, frames in flight, stalled handlers), and handlers that are
  themselves waiting for nested calls, to any depth.

  `Unblocked s n e t` (Lemmas/SystemProgress.lean, decidable) is the one thing user code can
  withhold: the handler thread serving `(e,t)`, if it exists already, is not stalled, and if it
  waits for a nested call then that call is unblocked at depth `n - 1`.  The hypothesis is
  needed: `C01_stalled_handler_blocks`.

  All theorems are about `Skeleton.current`, i.e. the facts regenerated from /repo's source.
-/
import Panrpc.Lemmas.SystemProgress
import Panrpc.Props.C01

namespace Panrpc.Sys
open Panrpc

/-- The progress invariant, in words: in every reachable state, a call thread whose request has
    been written and whose waiter has not been handed a result is in exactly one of these places —
    (i) its request frame is in flight to the peer (and no handler thread exists for it);
    (ii) the peer has spawned the handler thread for it, which has not yet written the response;
    (iii) that handler thread has finished and the response frame is in flight to the caller, or
    (iv) one of the caller's publishers holds the response and the call is still registered in
         the response resolver's table —
    and neither loop is ever busy, so in (i), (iii), (iv) the next step is enabled. -/
theorem C01_progress_invariant : ∀ s, Reach Skeleton.current s → ∀ e t,
    (s.calls e t).pc = .written → (s.calls e t).result = none →
    s.pending e t = true ∧ s.reqLoopBusy (peer e) = none ∧ s.resLoopBusy e = none ∧
    ((s.served (peer e) t = false ∧ t ∈ (s.reqs (peer e)).map ReqFrame.call) ∨
     (s.served (peer e) t = true ∧ (s.handlers (peer e) (s.servedBy (peer e) t)).req.call = t ∧
      (s.handlers (peer e) (s.servedBy (peer e) t)).pc ≠ .absent ∧
      ((s.handlers (peer e) (s.servedBy (peer e) t)).pc ≠ .finished ∨
       t ∈ (s.ress e).map ResFrame.call ∨ ∃ p, (s.pubs e p).holds t))) := by
  intro s hr e t hpc hres
  have hinv := reach_all _ cur_facts hr
  have hp := reach_pinv _ cur_facts cur_recv_before_write hr
  have hl := reach_linv _ cur_async hr
  refine ⟨hinv.c.wait_pend e t (by rw [hpc]; rfl) hres, hl.req_free _, hl.res_free _, ?_⟩
  cases hsv : s.served (peer e) t with
  | false => exact Or.inl ⟨rfl, hp.req_loc e t (by rw [hpc]; rfl) hsv⟩
  | true =>
    obtain ⟨hne, hq⟩ := hinv.r.served_h (peer e) t hsv
    refine Or.inr ⟨rfl, hq, hne, ?_⟩
    by_cases hfin : (s.handlers (peer e) (s.servedBy (peer e) t)).pc = .finished
    · exact Or.inr (hp.res_loc e t hpc hres hsv hfin)
    · exact Or.inl hfin

/-- A handler thread that is inside a nested call waits for a call thread of its own endpoint
    that has been started (and is therefore itself covered by `C01_can_complete`). -/
theorem C01_nested_call_exists : ∀ s, Reach Skeleton.current s → ∀ x h t',
    (s.handlers x h).pc = .waitingNested t' →
    (s.calls x t').pc = .registered ∨ (s.calls x t').pc = .written ∨ (s.calls x t').pc = .returned := by
  intro s hr x h t' hpc
  rcases (reach_pinv _ cur_facts cur_recv_before_write hr).nested x h t' hpc with hw | hret
  · cases hc : (s.calls x t').pc <;> rw [hc] at hw <;> simp [CPc.waiting] at hw
    · exact Or.inl rfl
    · exact Or.inr (Or.inl rfl)
  · exact Or.inr (Or.inr hret)

/-- C01, liveness.  From every reachable state, every call thread that is in flight (`registered`
    or `written`; with or without a result already handed to its waiter) and unblocked at nesting
    depth `n` can still return: there is an explicit continuation of at most `8 + 6·n` steps after
    which it has returned; no step of the continuation belongs to a handler thread that is stalled
    in `s`, and every stalled handler thread is left exactly as it was.  (That the value it returns
    with is its own handler's: `C01_result_is_own`, which holds in the state reached.) -/
theorem C01_can_complete : ∀ s, Reach Skeleton.current s → ∀ e t n,
    ((s.calls e t).pc = .registered ∨ (s.calls e t).pc = .written) → Unblocked s n e t →
    ∃ acts s', run Skeleton.current s acts = some s' ∧ acts.length ≤ 8 + 6 * n ∧
      (s'.calls e t).pc = .returned ∧
      (∀ a, a ∈ acts → ∀ x h, a.handler? = some (x, h) → (s.handlers x h).pc ≠ .stalled) ∧
      (∀ x h, (s.handlers x h).pc = .stalled → s'.handlers x h = s.handlers x h) :=
  fun _ hr e t n hw hu =>
    can_complete _ cur_facts cur_async cur_recv_before_write hr e t n hw hu 0 0

/-- The case without nesting, spelled out: if no handler thread exists yet for the call, or it
    exists and is resolving, running, returned or finished (anything but stalled or inside a
    nested call), the call returns within 8 steps. -/
theorem C01_can_complete_unnested : ∀ s, Reach Skeleton.current s → ∀ e t,
    ((s.calls e t).pc = .registered ∨ (s.calls e t).pc = .written) →
    (s.served (peer e) t = true →
      (s.handlers (peer e) (s.servedBy (peer e) t)).pc ≠ .stalled ∧
      ∀ t', (s.handlers (peer e) (s.servedBy (peer e) t)).pc ≠ .waitingNested t') →
    ∃ acts s', run Skeleton.current s acts = some s' ∧ acts.length ≤ 8 ∧ (s'.calls e t).pc = .returned ∧
      (∀ a, a ∈ acts → ∀ x h, a.handler? = some (x, h) → (s.handlers x h).pc ≠ .stalled) ∧
      (∀ x h, (s.handlers x h).pc = .stalled → s'.handlers x h = s.handlers x h) := by
  intro s hr e t hw hh
  have hu : Unblocked s 0 e t := by
    cases hsv : s.served (peer e) t with
    | false => simp [Unblocked, unblocked, hsv]
    | true =>
      obtain ⟨h1, h2⟩ := hh hsv
      cases hpc : (s.handlers (peer e) (s.servedBy (peer e) t)).pc <;>
        simp [Unblocked, unblocked, hsv, hpc] <;> simp_all
  exact C01_can_complete s hr e t 0 hw hu

/-- The hypothesis of `C01_can_complete` is needed: while the handler thread serving a call is
    stalled, no run that leaves that thread alone (contains no `handlerResume` of it) makes the
    call return. -/
theorem C01_stalled_handler_blocks : ∀ s, Reach Skeleton.current s → ∀ e t h,
    (s.handlers (peer e) h).pc = .stalled → (s.handlers (peer e) h).req.call = t →
    ∀ acts s', Act.handlerResume (peer e) h ∉ acts → run Skeleton.current s acts = some s' →
      (s'.calls e t).pc ≠ .returned ∧ (s'.handlers (peer e) h).pc = .stalled :=
  fun _ hr e t h hst hq acts _ hna hrun => stalled_blocks _ cur_facts e t h acts hr hst hq hna hrun

/-! ### non-vacuity -/

/-- the actions that bring the system into: call 0 of A written, its handler thread on B inside a
    nested call to A (call 0 of B, request in flight) -/
def exNested : List Act :=
  [.callStart .A 1 1, .callWrite .A 0, .reqDeliver .B 0, .handlerEnter .B 0,
   .handlerCallPeer .B 0 2 2, .callWrite .B 0]

/-- call 0 of A is `written`, without result, and unblocked at depth exactly 1 … -/
example : (run Skeleton.current init exNested).map
    (fun s => decide ((s.calls .A 0).pc = .written ∧ (s.calls .A 0).result = none ∧
      (s.handlers .B 0).pc = .waitingNested 0 ∧ (s.calls .B 0).pc = .written ∧
      Unblocked s 1 .A 0 ∧ ¬ Unblocked s 0 .A 0 ∧ Unblocked s 0 .B 0)) = some true := by decide

/-- … and an explicit continuation (14 = 8 + 6·1 steps would be allowed; this one needs 13) -/
example : (run Skeleton.current init (exNested ++
    [.reqDeliver .A 0, .handlerEnter .A 0, .handlerReturn .A 0 7 0, .respond .A 0, .resDeliver .B 0,
     .publish .B 0 0, .callReturn .B 0, .handlerNestedDone .B 0, .handlerReturn .B 0 9 0, .respond .B 0,
     .resDeliver .A 0, .publish .A 0 0, .callReturn .A 0])).map
    (fun s => decide ((s.calls .A 0).pc = .returned ∧ (s.calls .A 0).result = some (9, 0))) = some true := by
  decide

/-- the same state with the inner handler stalled: call 0 of A is unblocked at no depth ≤ 3, call
    0 of B (whose handler it is) neither -/
example : (run Skeleton.current init (exNested ++ [.reqDeliver .A 0, .handlerEnter .A 0, .handlerStall .A 0])).map
    (fun s => decide ((s.handlers .A 0).pc = .stalled ∧
      ¬ Unblocked s 0 .A 0 ∧ ¬ Unblocked s 1 .A 0 ∧ ¬ Unblocked s 2 .A 0 ∧ ¬ Unblocked s 3 .A 0 ∧
      ¬ Unblocked s 0 .B 0 ∧ ¬ Unblocked s 1 .B 0)) = some true := by decide

/-- every stage of the progress invariant occurs: request in flight / handler resolving /
    running / returned / response in flight / publisher holds it -/
example : (run Skeleton.current init [.callStart .A 1 1, .callWrite .A 0]).map
    (fun s => decide (s.served .B 0 = false ∧ 0 ∈ (s.reqs .B).map ReqFrame.call)) = some true := by decide
example : (run Skeleton.current init [.callStart .A 1 1, .callWrite .A 0, .reqDeliver .B 0,
      .handlerEnter .B 0, .handlerReturn .B 0 5 0, .respond .B 0]).map
    (fun s => decide (s.served .B 0 = true ∧ (s.handlers .B 0).pc = .finished ∧
      0 ∈ (s.ress .A).map ResFrame.call)) = some true := by decide
example : (run Skeleton.current init [.callStart .A 1 1, .callWrite .A 0, .reqDeliver .B 0,
      .handlerEnter .B 0, .handlerReturn .B 0 5 0, .respond .B 0, .resDeliver .A 0]).map
    (fun s => decide (s.pubs .A 0 = .pending ⟨0, 5, 0⟩ ∧ s.pending .A 0 = true ∧ s.ress .A = [])) = some true := by
  decide

end Panrpc.Sys

#print axioms Panrpc.Sys.C01_progress_invariant
#print axioms Panrpc.Sys.C01_nested_call_exists
#print axioms Panrpc.Sys.C01_can_complete
#print axioms Panrpc.Sys.C01_can_complete_unnested
#print axioms Panrpc.Sys.C01_stalled_handler_blocks
