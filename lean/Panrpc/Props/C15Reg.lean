/-
  Props/C15Reg.lean — the registry part of C15: "After a link has ended and the application has
  cancelled its context and made its transport reads fail, panrpc retains nothing for it: … the
  remote is no longer enumerated", and the setup goroutine and both loops can exit.
  (The pending-call table, closure table and per-call goroutines are in Props/C15.lean.)

  Model: M4 (Model/Registry.lean).  All theorems are about `Skeleton.current`.
-/
import Panrpc.Lemmas.RegistryCurrent

namespace Panrpc.Rg
open Panrpc

/-- Once the setup goroutine of link `l` has exited, no table entry is owned by `l` — in that
    state and in every state of every continuation (whatever any link, peer or user code does). -/
theorem C15_not_enumerated_after_teardown : ∀ s, Reach Skeleton.current s → ∀ l,
    (s.links l).setup = .unregistered →
    ∀ acts s', run Skeleton.current s acts = some s' →
      (s'.links l).setup = .unregistered ∧ ∀ i, s'.remotes i ≠ some l :=
  not_enumerated_after_teardown cur_facts

/-- From every reachable state of a started link whose context is cancelled and whose transport
    reads fail — whatever ended it, whatever is in flight, whatever the peer keeps sending — the
    explicit run `exitRun` of at most 6 own steps of `l` succeeds and ends with the setup goroutine
    and both loops exited and `l` not enumerated.  No step of another link, of the peer or of user
    code is needed: none of the three goroutines is stuck. -/
theorem C15_setup_and_loops_exit : ∀ s, Reach Skeleton.current s → ∀ l,
    (s.links l).setup ≠ .absent → (s.links l).ctxCancelled = true → (s.links l).readsFail = true →
    (∀ a, a ∈ exitRun (s.links l) l → a.link = l) ∧ (exitRun (s.links l) l).length ≤ 6 ∧
    ∃ s', run Skeleton.current s (exitRun (s.links l) l) = some s' ∧
      (s'.links l).setup = .unregistered ∧ (s'.links l).reqLoop = .exited ∧
      (s'.links l).respLoop = .exited ∧ ∀ i, s'.remotes i ≠ some l :=
  setup_and_loops_exit cur_facts

/-! ### non-vacuity -/

/-- a link ended by a fault with a request still waiting for its handler and a call in flight,
    then cancelled and its reads failed: `exitRun` is the 4-step teardown; after it a late handler
    can still be entered (it reads the same id) and the link stays out of the table -/
example : (run Skeleton.current init
    [⟨0, .linkStart⟩, ⟨0, .setupRegister⟩, ⟨0, .loopsStart⟩, ⟨0, .callOn⟩, ⟨0, .reqRead⟩,
     ⟨0, .faultOn⟩, ⟨0, .cancel⟩, ⟨0, .failReads⟩]).map
    (fun s => decide ((s.links 0).ended = true ∧ (s.links 0).ctxCancelled = true ∧
      (s.links 0).readsFail = true ∧ s.remotes 0 = some 0 ∧
      exitRun (s.links 0) 0 = [⟨0, .reqReadFails⟩, ⟨0, .respReadFails⟩, ⟨0, .setupLoopsDone⟩,
                               ⟨0, .setupUnregister⟩] ∧
      ((run Skeleton.current s (exitRun (s.links 0) 0 ++ [⟨0, .reqHandle⟩, ⟨1, .linkStart⟩,
          ⟨1, .setupRegister⟩])).map
        fun t => decide (t.remotes 0 = none ∧ t.remotes 1 = some 1 ∧
          t.invocations = [⟨0, some 0⟩] ∧ (t.links 0).setup = .unregistered)) = some true)) =
    some true := by decide

end Panrpc.Rg

#print axioms Panrpc.Rg.C15_not_enumerated_after_teardown
#print axioms Panrpc.Rg.C15_setup_and_loops_exit
