/-
  Props/C18.lean — "Linking succeeds for a remote definition exactly when every function-typed
  field, at any nesting depth, takes a context first and returns either an error or a value
  and an error; any other function field makes Link fail with the corresponding signature
  error, and non-function fields are ignored.  For every valid definition, invoking the
  function field at nested path P calls the peer's method at the same path P — caller-side
  naming and callee-side lookup agree for all shapes."

  Model: P2 (Model/RemoteDef.lean), the remote struct type as a tree of fields; quantified
  over ALL trees (depth, order, mixes of valid / invalid / non-func fields, exportedness).
  Specification: Lemmas/RemoteDef.lean (`funcs`, `AllValid`, `firstInvalid`, `Settable`, …).
  All theorems are about `Skeleton.current`, i.e. the facts regenerated from /repo on this run.

  `C18_total` is the LAST theorem of the file: on a tree without the settable-ness guard it
  does not type-check (`by decide` on `rwGuardsUnsettable`), and `C18_panics_on_pinned`
  exhibits the crash.  Everything above it holds with and without the guard.
-/
import Panrpc.Lemmas.RemoteDef
import Panrpc.Generated.Current
import Panrpc.Pinned

namespace Panrpc.Rw
open Panrpc

/-! ### the source facts these theorems rest on (checked against the regenerated skeleton) -/

theorem cur_rwstd : RwStd Skeleton.current :=
  ⟨by decide, by decide, by decide, by decide, by decide, by decide⟩

/-! ### validation -/

/-- Linking succeeds exactly when every func field, at any depth, has a valid signature
    (for remote types whose func fields can all be set: exported, not below an unexported field). -/
theorem C18_validate_iff : ∀ fs : List Field, Settable fs →
    ((∃ stubs, walk Skeleton.current "" false fs = .ok stubs) ↔ AllValid fs) :=
  fun fs hs => walk_ok_iff _ cur_rwstd fs (Or.inr hs)

/-- Which error: if some func field is invalid and the walk gets as far as the first such field
    (every func field before it can be set), Link fails with the error of that FIRST invalid
    field in depth-first declaration order; `firstInvalid` judges the return shape before the
    arguments (`sigErr`). -/
theorem C18_error_kind : ∀ fs : List Field, ¬ AllValid fs → SettableUpToFirstInvalid fs →
    ∃ e, walk Skeleton.current "" false fs = .err e ∧ firstInvalid fs = some e := by
  intro fs hv hs
  obtain ⟨e, he⟩ := (not_allValid_iff fs).mp hv
  exact ⟨e, walk_err_complete _ cur_rwstd fs e he (Or.inr hs), he⟩

/-- Conversely, whenever the walk returns a signature error — no hypothesis on the type — it is
    the error of the first invalid func field in depth-first declaration order. -/
theorem C18_error_sound : ∀ (fs : List Field) (e : WalkErr),
    walk Skeleton.current "" false fs = .err e → firstInvalid fs = some e :=
  fun fs e h => walk_err_sound _ cur_rwstd fs e h

/-- The error kind of a single field: the return shape is tested before the arguments, and a
    field has no error exactly when it is valid. -/
theorem C18_sig_error (s : Sig) :
    (sigErr s = none ↔ ValidSig s) ∧
    (sigErr s = some .invalidReturn ↔ ¬ ((s.numOut = 1 ∨ s.numOut = 2) ∧ s.lastIsError = true)) ∧
    (sigErr s = some .invalidArgs ↔
      ((s.numOut = 1 ∨ s.numOut = 2) ∧ s.lastIsError = true) ∧ ¬ (s.numIn ≥ 1 ∧ s.firstIsCtx = true)) := by
  refine ⟨sigErr_none_iff s, ?_, ?_⟩ <;> unfold sigErr <;> (repeat' split) <;> simp_all

/-- A remote type whose func fields can all be set never makes the setup goroutine panic. -/
theorem C18_total_settable : ∀ fs : List Field, Settable fs →
    walk Skeleton.current "" false fs ≠ .panic :=
  fun fs hs => walk_total_settable _ cur_rwstd fs hs

/-- Non-func (and non-struct) fields are ignored: removing them at every depth leaves the
    outcome — stubs, error or panic — unchanged. -/
theorem C18_ignores_non_func : ∀ (fs : List Field) (pre : String) (ro : Bool),
    walk Skeleton.current pre ro (dropOther fs) = walk Skeleton.current pre ro fs :=
  walk_dropOther _ (by decide)

/-! ### naming -/

/-- The stubs installed are exactly the (settable) func fields, in depth-first declaration
    order; each sends the function string the Go code builds for its path. -/
theorem C18_stub_paths : ∀ (fs : List Field) (stubs : List (List String × String)),
    walk Skeleton.current "" false fs = .ok stubs →
    stubs.map Prod.fst = ((funcs false fs).filter (·.settable)).map (·.path) := by
  intro fs stubs h
  rw [walk_stubs _ cur_rwstd fs stubs h]
  simp [Function.comp_def]

/-- …which, when all func fields can be set, are all func fields of the type. -/
theorem C18_stub_paths_settable : ∀ (fs : List Field) (stubs : List (List String × String)),
    Settable fs → walk Skeleton.current "" false fs = .ok stubs →
    stubs.map Prod.fst = funcPaths fs := by
  intro fs stubs hs h
  rw [C18_stub_paths fs stubs h, funcPaths, List.filter_eq_self.mpr (by simpa [Settable] using hs)]

/-- Caller-side naming: the stub at path `p` sends `Request.Function = p` joined with dots
    (top-level names are non-empty, as Go identifiers are). -/
theorem C18_naming : ∀ (fs : List Field) (stubs : List (List String × String)),
    walk Skeleton.current "" false fs = .ok stubs →
    ∀ p fn, (p, fn) ∈ stubs → p.head? ≠ some "" →
      fn = ".".intercalate p ∧ p ≠ [] ∧ ∀ s ∈ p, s ∈ names fs := by
  intro fs stubs h p fn hm hp
  obtain ⟨h1, h2, h3⟩ := walk_stub_mem _ cur_rwstd fs stubs h p fn hm
  exact ⟨h1.trans (joinPath_root p hp), h2, h3⟩

/-- Callee side of the round trip, in composable form: splitting the dotted path at the dots
    (Go's `strings.Split(functionCallPath, ".")`) returns the field names that were joined. -/
theorem C18_split_join : ∀ path : List String, (∀ s ∈ path, '.' ∉ s.toList) → path ≠ [] →
    splitOnDot (".".intercalate path).toList = path.map String.toList :=
  splitOnDot_intercalate

/-- Caller and callee agree: for a type whose field names are non-empty and dot-free, the
    function string of every installed stub splits back into exactly the stub's path — the
    lookup descends through the same field names and ends at the method of the same name. -/
theorem C18_naming_agrees : ∀ (fs : List Field) (stubs : List (List String × String)),
    (∀ n ∈ names fs, n ≠ "" ∧ '.' ∉ n.toList) →
    walk Skeleton.current "" false fs = .ok stubs →
    ∀ p fn, (p, fn) ∈ stubs →
      fn = ".".intercalate p ∧ splitOnDot fn.toList = p.map String.toList := by
  intro fs stubs hn h p fn hm
  obtain ⟨h1, h2, h3⟩ := walk_stub_mem _ cur_rwstd fs stubs h p fn hm
  have hhead : p.head? ≠ some "" := by
    cases p with
    | nil => simp
    | cons a _ => simpa using (hn a (h3 a (by simp))).1
  have hfn := h1.trans (joinPath_root p hhead)
  exact ⟨hfn, hfn ▸ splitOnDot_intercalate p (fun s hs => (hn s (h3 s hs)).2) h2⟩

/-! ### non-vacuity -/

/-- `func(ctx context.Context) error` -/
def sigCtxErr : Sig := ⟨1, true, 1, true⟩
/-- `func(ctx context.Context, a int, b string) (T, error)` -/
def sigCtxValErr : Sig := ⟨3, true, 2, true⟩
/-- `func(ctx context.Context) int` — wrong return shape -/
def sigBadRet : Sig := ⟨1, true, 1, false⟩
/-- `func(a int) error` — no context -/
def sigBadArgs : Sig := ⟨1, false, 1, true⟩
/-- `func()` — both wrong: the return shape is reported -/
def sigBadBoth : Sig := ⟨0, false, 0, false⟩

/-- depth 3, mixed fields:
    `struct{ Ok func(ctx) error; n int; Inner struct{ s string; Get func(ctx,int,string)(T,error);
             Deep struct{ P *X; Leaf func(ctx) error } }; Last func(ctx) error }` -/
def exDeep : List Field :=
  [ .func "Ok" true sigCtxErr, .other "n" false,
    .struct "Inner" true
      [ .other "s" false, .func "Get" true sigCtxValErr,
        .struct "Deep" true [ .other "P" true, .func "Leaf" true sigCtxErr ] ],
    .func "Last" true sigCtxErr ]

example : Settable exDeep ∧ AllValid exDeep := by decide
example : walk Skeleton.current "" false exDeep =
    .ok [ (["Ok"], "Ok"), (["Inner", "Get"], "Inner.Get"),
          (["Inner", "Deep", "Leaf"], "Inner.Deep.Leaf"), (["Last"], "Last") ] := by decide
example : funcPaths exDeep = [["Ok"], ["Inner", "Get"], ["Inner", "Deep", "Leaf"], ["Last"]] := by decide
example : ∀ n ∈ names exDeep, n ≠ "" ∧ '.' ∉ n.toList := by decide
example : splitOnDot "Inner.Deep.Leaf".toList = ["Inner", "Deep", "Leaf"].map String.toList := by decide
example : dropOther exDeep =
    [ .func "Ok" true sigCtxErr,
      .struct "Inner" true [ .func "Get" true sigCtxValErr, .struct "Deep" true [ .func "Leaf" true sigCtxErr ] ],
      .func "Last" true sigCtxErr ] := rfl

/-- an invalid field at depth 2 after a valid one, and another invalid one (other kind) later -/
def exInvalid : List Field :=
  [ .func "Ok" true sigCtxErr,
    .struct "Inner" true [ .func "Fine" true sigCtxValErr, .func "Bad" true sigBadArgs ],
    .func "Worse" true sigBadRet ]

example : ¬ AllValid exInvalid ∧ SettableUpToFirstInvalid exInvalid := by decide
example : firstInvalid exInvalid = some .invalidArgs := by decide
example : walk Skeleton.current "" false exInvalid = .err .invalidArgs := by decide
example : sigErr sigBadBoth = some .invalidReturn := by decide
example : walk Skeleton.current "" false [.struct "A" true [.struct "B" true [.func "F" true sigBadBoth]]]
    = .err .invalidReturn := by decide
/-- validation precedes `Set`: an unexported func field with an invalid signature yields the error -/
example : walk Skeleton.current "" false [.func "bad" false sigBadRet] = .err .invalidReturn := by decide

/-! ### the defect of the pinned tree (F8) -/

/-- `struct{ Ok func(ctx) error; helper func(ctx) error }` -/
def exUnexported : List Field := [ .func "Ok" true sigCtxErr, .func "helper" false sigCtxErr ]

/-- On the pinned tree an unexported func field with a VALID signature reaches
    `reflect.Value.Set` on a read-only value: panic in the un-recovered setup goroutine. -/
theorem C18_panics_on_pinned : AllValid exUnexported ∧ walk Skeleton.pinned "" false exUnexported = .panic := by
  decide

/-- The same one level down: an exported func field below an unexported struct field. -/
example : walk Skeleton.pinned "" false [.struct "inner" false [.func "F" true sigCtxErr]] = .panic := by decide

/-! ### totality — LAST: needs the settable-ness guard in the source -/

/-- The walk never panics, for any remote struct type. -/
theorem C18_total : ∀ fs : List Field, walk Skeleton.current "" false fs ≠ .panic :=
  fun fs => walk_total _ cur_rwstd (by decide) fs "" false

/-- Caller-side naming and callee-side lookup agree also for names the peer does NOT have: the resolver's fallback sees exactly one method, `CallClosure`, on the closure manager (checked against the regenerated skeleton; `rpc/manager.go` is outside this property's anchors) — a function field called like any further exported method of the manager would be resolved to library code. -/
theorem C18_lookup_resolves_nothing_but_the_exposed_paths :
    Skeleton.current.lkClosureManagerMethods = ["CallClosure"] := by decide

/-- The walker model judges a function field by the FIELD's signature and treats every non-struct-kinded field (pointers to structs included) as `other`. In the source the walk looks at `In(0)` and the results only, has no pointer handling and calls nothing of the closure validation (checked against the regenerated skeleton): a valid field whose callback PARAMETER has an unusual shape links, and a data struct reached through a pointer is ignored whatever it holds. -/
theorem C18_a_field_is_judged_by_its_own_signature :
    Skeleton.current.rwJudgesFieldSignatureOnly = true := by decide

end Panrpc.Rw

#print axioms Panrpc.Rw.C18_validate_iff
#print axioms Panrpc.Rw.C18_error_kind
#print axioms Panrpc.Rw.C18_error_sound
#print axioms Panrpc.Rw.C18_sig_error
#print axioms Panrpc.Rw.C18_total_settable
#print axioms Panrpc.Rw.C18_ignores_non_func
#print axioms Panrpc.Rw.C18_stub_paths
#print axioms Panrpc.Rw.C18_stub_paths_settable
#print axioms Panrpc.Rw.C18_naming
#print axioms Panrpc.Rw.C18_split_join
#print axioms Panrpc.Rw.C18_naming_agrees
#print axioms Panrpc.Rw.C18_panics_on_pinned
#print axioms Panrpc.Rw.C18_total
#print axioms Panrpc.Rw.C18_lookup_resolves_nothing_but_the_exposed_paths
#print axioms Panrpc.Rw.C18_a_field_is_judged_by_its_own_signature
