/-
  Props/C04.lean — "Cancelling one call's context ends only that call, promptly".

  Model: M2; `ctxCancel x` (and M1's `ctxPropagate g`) is enabled at every point; response
  frames (`respFrame`) may arrive before, between and after every step.

  Reading of "before its response arrives" (DESIGN.md, C04): the waiter's receive is a Go
  `select` over the value channel, the closed signal and the call's context.  What is demanded
  strictly is the case the statement is about: the waiter evaluates its select with the context
  done and no publisher standing at the hand-off — then only the context error is possible
  (`C04_cancel_returns`).  If a publisher already stands at the hand-off, both cases are ready,
  Go chooses, and either outcome is admissible.
-/
import Panrpc.Lemmas.EndpointCurrent

namespace Panrpc.Ep
open Panrpc

/-- The call's context is done, its waiter is inside the receive function, the entry is live and
    no publisher holds it: the only enabled continuation of the waiter is the context error
    (neither the value case nor the closed-signal case is enabled, the ctx case is). -/
theorem C04_only_ctx_error : ∀ s, Reach Skeleton.current s → ∀ c g,
    s.waiters c = .recv → s.bc.ctxs (s.calls c).ctx = true →
    s.bc.rcvs c = .waiting c g (s.calls c).ctx → s.bc.table c = some g →
    (∀ p k v, s.bc.pubs p ≠ .holding k v g) →
    step Skeleton.current s (.waiterGetsDone c) = none ∧
    (∀ p, step Skeleton.current s (.waiterGetsValue c p) = none) ∧
    ∃ s', step Skeleton.current s (.waiterGetsCtx c) = some s' ∧
      s'.waiters c = .have { fromFrame := none, err := .ctxErr } := by
  intro s h c g hw hx hrc ht hnp
  obtain ⟨a, b⟩ := only_ctx_ready _ cur_live h c g hw hrc ht hnp
  obtain ⟨s', h1, h2, _⟩ := waiterGetsCtx_enabled _ cur_live h c hw hx
  exact ⟨a, b, s', h1, by simp [h2]⟩

/-- …and from there the call returns `(zero, ctx error)` by five own steps (three of the waiter:
    ctx case, send, free; two of the call thread: take the response — nothing is decoded, whatever
    the codec would do — and return), each enabled in turn without the peer or user code.
    The waiter has exited and the entry is freed (`C04_entry_freed`). -/
theorem C04_cancel_returns : ∀ s, Reach Skeleton.current s → ∀ c (codecFails : Bool),
    s.waiters c = .recv → s.bc.ctxs (s.calls c).ctx = true → (s.calls c).pc = .written →
    ∃ s', run Skeleton.current s
        [.waiterGetsCtx c, .waiterSend c, .waiterFree c, .callTakeRes c codecFails, .callReturnOk c] = some s' ∧
      (s'.calls c).pc = .returned ∧ (s'.calls c).outcome = .ok { fromFrame := none, err := .ctxErr } ∧
      s'.waiters c = .exited ∧ s'.bc.table c = none :=
  fun _ h c f hw hx hp => cancel_run _ cur_live h c f hw hx hp

/-- Cancellation concurrent with arrival: whatever step is taken next (by anybody) while the
    waiter stands in the receive function of its live entry, the waiter either still stands
    there, or holds the context error, or holds a response frame of its own call id that a
    publisher handed to it — nothing else (in particular no error of another call, no `closed`). -/
theorem C04_concurrent_either : ∀ s, Reach Skeleton.current s → ∀ a s' c g,
    step Skeleton.current s a = some s' →
    s.waiters c = .recv → s.bc.rcvs c = .waiting c g (s.calls c).ctx → s.bc.table c = some g →
    s'.waiters c = .recv ∨ s'.waiters c = .have { fromFrame := none, err := .ctxErr } ∨
    ∃ v e, s'.waiters c = .have { fromFrame := some v, err := e } ∧ (e = .none ∨ e = .app) ∧
      s'.bc.deliveries.any (fun d => decide (d.rcv = c ∧ d.val = v ∧ d.pkey = c ∧ d.rkey = c)) = true :=
  fun _ h a _ c g hs hw hrc ht => recv_either _ cur_live h a hs c g hw hrc ht

/-- The link stays healthy: no step of that path enters or advances `setErr` — setter threads,
    the error log and the slot are what they were. (General: only `callRecover`, the watcher and
    `setErr*` steps touch them.) -/
theorem C04_no_setErr : ∀ s s' c (codecFails : Bool), run Skeleton.current s
      [.waiterGetsCtx c, .waiterSend c, .waiterFree c, .callTakeRes c codecFails, .callReturnOk c] = some s' →
    s'.setters = s.setters ∧ s'.fatalLog = s.fatalLog ∧ s'.slot = s.slot :=
  fun _ _ _ _ hrun => fatal_frame_run _ _ (by simp [touchesFatal]) hrun

theorem C04_only_fatal_steps_touch_setErr : ∀ s s' a, step Skeleton.current s a = some s' →
    touchesFatal a = false → s'.setters = s.setters ∧ s'.fatalLog = s.fatalLog ∧ s'.slot = s.slot :=
  fun _ _ a hs ha => fatal_frame _ a hs ha

/-- After the waiter's deferred `Free` the table has no entry for the call id. -/
theorem C04_entry_freed : ∀ s, Reach Skeleton.current s → ∀ c s',
    step Skeleton.current s (.waiterFree c) = some s' → s'.bc.table c = none := by
  intro s h c s' hs
  have hw : s.waiters c = .sent := by
    simp only [step] at hs
    split at hs
    · rename_i hg; exact hg.2
    · simp at hs
  obtain ⟨s1, h1, _, _, _, ht, _⟩ := waiterFree_enabled _ cur_live h c hw
  rw [h1] at hs; simp at hs; subst hs; exact ht

/-- A response that arrives later for the cancelled call is discarded without effect: its
    publisher finds no entry at the lookup and finishes; the state is otherwise unchanged. -/
theorem C04_late_response_inert : ∀ s, Reach Skeleton.current s → ∀ p c frame (hasErr : Bool),
    s.bc.pubs p = .absent → s.bc.table c = none →
    run Skeleton.current s [.respFrame p c frame hasErr, .pubLookup p] =
      some { s with bc := { s.bc with pubs := upd s.bc.pubs p (.done false) }, pubErr := upd s.pubErr p hasErr } :=
  fun _ h p c f e hp ht => late_response_inert _ cur_live h p c f e hp ht

/-- Other calls are unaffected: a step of call `c` or of its waiter changes no component of any
    other call `c'` — its stub thread, its waiter, its `res` channel, its receiver thread in the
    broadcaster, its table entry — and does not change which steps of `c'` and of its waiter are
    enabled (so `c'` proceeds exactly as in the run in which `c` did not take that step). -/
theorem C04_others_unaffected : ∀ s, Reach Skeleton.current s → ∀ s' a c c',
    step Skeleton.current s a = some s' → actCall a = some c → c' ≠ c →
    (s'.calls c' = s.calls c' ∧ s'.waiters c' = s.waiters c' ∧ s'.res c' = s.res c' ∧
     s'.bc.rcvs c' = s.bc.rcvs c' ∧ s'.bc.table c' = s.bc.table c') ∧
    ∀ b, actCall b = some c' → (step Skeleton.current s' b).isSome = (step Skeleton.current s b).isSome :=
  fun _ h _ a c c' hs ha hne =>
    ⟨others_frame _ a hs c c' ha hne, fun b hb => others_enabled _ cur_live h a b hs c c' ha hb hne⟩

/-- …and publisher steps (response frames, late ones included) change none of these for any call,
    nor the closure table, nor the fatal-error machinery. -/
theorem C04_publishers_touch_no_call : ∀ s s' a, step Skeleton.current s a = some s' → isPubAct a = true →
    s'.calls = s.calls ∧ s'.waiters = s.waiters ∧ s'.res = s.res ∧
    s'.bc.rcvs = s.bc.rcvs ∧ s'.bc.table = s.bc.table ∧ s'.bc.entries = s.bc.entries ∧
    s'.closures = s.closures ∧ s'.setters = s.setters ∧ s'.fatalLog = s.fatalLog :=
  fun _ _ a hs ha => pub_frame _ a hs ha

/-! ### non-vacuity -/

/-- the state `C04_only_ctx_error` / `C04_cancel_returns` talk about is reachable, with a bystander call -/
example : (run Skeleton.current init
    [.callStart 0 5 2 0, .callReceive 0, .callSpawn 0, .callWrite 0, .waiterRecvCall 0,
     .callStart 1 6 2 0, .callReceive 1, .callSpawn 1, .callWrite 1, .waiterRecvCall 1,
     .ctxCancel 5, .ctxPropagate 0]).map
    (fun s => decide (s.waiters 0 = .recv ∧ s.bc.ctxs (s.calls 0).ctx = true ∧ (s.calls 0).pc = .written ∧
                      s.bc.rcvs 0 = .waiting 0 0 5 ∧ s.bc.table 0 = some 0 ∧ s.bc.pubs 0 = .absent)) = some true := by
  decide

/-- cancelled call returns the ctx error; a late response for it is inert; the bystander and a
    follow-up call complete normally; nothing was reported to `setErr` -/
example : (run Skeleton.current init
    [.callStart 0 5 2 0, .callReceive 0, .callSpawn 0, .callWrite 0, .waiterRecvCall 0,
     .callStart 1 6 2 0, .callReceive 1, .callSpawn 1, .callWrite 1, .waiterRecvCall 1,
     .ctxCancel 5, .ctxPropagate 0,
     .waiterGetsCtx 0, .waiterSend 0, .waiterFree 0, .callTakeRes 0 true, .callReturnOk 0,
     .respFrame 0 0 41 false, .pubLookup 0,
     .respFrame 1 1 42 false, .pubLookup 1, .waiterGetsValue 1 1, .waiterSend 1, .waiterFree 1,
     .callTakeRes 1 false, .callReturnOk 1,
     .callStart 2 7 2 0, .callReceive 2, .callSpawn 2, .callWrite 2, .waiterRecvCall 2,
     .respFrame 2 2 43 false, .pubLookup 2, .waiterGetsValue 2 2, .waiterSend 2, .waiterFree 2,
     .callTakeRes 2 false, .callReturnOk 2]).map
    (fun s => decide ((s.calls 0).outcome = .ok ⟨none, .ctxErr⟩ ∧ (s.calls 1).outcome = .ok ⟨some 42, .none⟩ ∧
                      (s.calls 2).outcome = .ok ⟨some 43, .none⟩ ∧ s.bc.pubs 0 = .done false ∧
                      s.fatalLog = [] ∧ s.bc.closed = false ∧ s.crashed = false)) = some true := by
  decide

/-- the racing column: a publisher already stands at the hand-off when the context is cancelled —
    both the value case and the ctx case are enabled -/
example : (run Skeleton.current init
    [.callStart 0 5 2 0, .callReceive 0, .callSpawn 0, .callWrite 0, .waiterRecvCall 0,
     .respFrame 0 0 41 false, .pubLookup 0, .ctxCancel 5]).map
    (fun s => (step Skeleton.current s (.waiterGetsValue 0 0)).isSome &&
              (step Skeleton.current s (.waiterGetsCtx 0)).isSome) = some true := by
  decide

/-- The stub treats every `Receive` error as fatal for the link (`panic(err)` → `recover` → `setErr(err)`).
    That is sound only if `Receive` never fails for a reason that belongs to ONE call, such as that call's
    context being done already.  It does not (source facts `bcReceiveErrorsOnlyClosed`,
    `bcReceiveRefusesWhenClosed`, checked against the regenerated skeleton as part of `cur_live`):
    while the table is open, `callReceive` of a marshalled call registers the call — whatever the state of
    its context — and touches nothing of the fatal-error machinery; and whenever `callReceive` does not
    register the call, the table was closed already (`setErr` has run) and the panic value is `ErrClosed`. -/
theorem C04_receive_fails_only_when_closed : ∀ s, Reach Skeleton.current s → ∀ c,
    ((s.calls c).pc = .marshalled → s.bc.closed = false →
      ∃ s', step Skeleton.current s (.callReceive c) = some s' ∧ (s'.calls c).pc = .registered ∧
        (s'.bc.table c).isSome = true ∧ s'.bc.closed = false ∧
        s'.setters = s.setters ∧ s'.fatalLog = s.fatalLog ∧ s'.slot = s.slot ∧ s'.link = s.link) ∧
    (∀ s', step Skeleton.current s (.callReceive c) = some s' → (s'.calls c).pc ≠ .registered →
      s.bc.closed = true ∧ (s'.calls c).pc = .panicking eClosed) :=
  fun _ h c => ⟨fun hp hcl => callReceive_registers _ cur_live h c hp hcl,
               fun _ hs hf => callReceive_fails_closed _ cur_live h c hs hf⟩

/-- What the fact protects against, as a behaviour of the model: on the current tree with that ONE fact
    flipped (`Receive` refuses a context that is done already), call 0 is in flight (registered, written,
    its waiter parked); the context of call 1 is cancelled before call 1 starts; call 1's `Receive` is
    refused with the context's error, the stub panics with it, recovers, and `setErr` stores it and closes
    the table.  One expired call has ended a healthy link: the table is closed, the slot holds call 1's
    context error, no entry was ever created for call 1, call 0's waiter is woken by the close — and call 0
    returns `closed` although nothing was wrong with the link. -/
theorem C04_refusing_a_done_context_ends_the_link :
    (run skRefusesDoneCtx init
      [.callStart 0 5 2 0, .callReceive 0, .callSpawn 0, .callWrite 0, .waiterRecvCall 0,
       .ctxCancel 6,
       .callStart 1 6 2 0, .callReceive 1, .callRecover 1 eCallCtx, .setErrStore 1, .setErrClose 1]).map
      (fun s => decide (s.bc.closed = true ∧ s.slot = some eCallCtx ∧ s.fatalLog = [eCallCtx] ∧
                        s.bc.rcvs 1 = .refusedCtx ∧ s.bc.nextGen = 1 ∧
                        (s.calls 1).outcome = .failed eCallCtx ∧ (s.calls 0).pc = .written ∧
                        (step skRefusesDoneCtx s (.waiterGetsDone 0)).isSome = true)) = some true ∧
    (run skRefusesDoneCtx init
      [.callStart 0 5 2 0, .callReceive 0, .callSpawn 0, .callWrite 0, .waiterRecvCall 0,
       .ctxCancel 6,
       .callStart 1 6 2 0, .callReceive 1, .callRecover 1 eCallCtx, .setErrStore 1, .setErrClose 1,
       .waiterGetsDone 0, .waiterSend 0, .waiterFree 0, .callTakeRes 0 false, .callReturnOk 0]).map
      (fun s => decide ((s.calls 0).pc = .returned ∧ (s.calls 0).outcome = .ok ⟨none, .closed⟩ ∧
                        s.crashed = false)) = some true := by
  constructor <;> decide

/-- The positive counterpart on the current tree: after the very same prefix, `callReceive 1` succeeds
    although call 1's context is done — the call is registered, its entry exists (born cancelled), the
    stub has nothing to recover, the link is untouched; call 1 then learns of its context's end the
    regular way (through its waiter) and returns the context error, with the link still healthy. -/
theorem C04_done_context_call_registers :
    (run Skeleton.current init
      [.callStart 0 5 2 0, .callReceive 0, .callSpawn 0, .callWrite 0, .waiterRecvCall 0,
       .ctxCancel 6,
       .callStart 1 6 2 0, .callReceive 1]).map
      (fun s => decide ((s.calls 1).pc = .registered ∧ s.bc.rcvs 1 = .have 1 1 6 ∧ s.bc.table 1 = some 1 ∧
                        s.bc.closed = false ∧ s.slot = none ∧ s.fatalLog = [] ∧ s.setters 1 = .absent ∧
                        (step Skeleton.current s (.callRecover 1 eCallCtx)).isSome = false ∧
                        (step Skeleton.current s (.waiterGetsDone 0)).isSome = false)) = some true ∧
    (run Skeleton.current init
      [.callStart 0 5 2 0, .callReceive 0, .callSpawn 0, .callWrite 0, .waiterRecvCall 0,
       .ctxCancel 6,
       .callStart 1 6 2 0, .callReceive 1, .callSpawn 1, .callWrite 1, .waiterRecvCall 1,
       .waiterGetsCtx 1, .waiterSend 1, .waiterFree 1, .callTakeRes 1 false, .callReturnOk 1]).map
      (fun s => decide ((s.calls 1).outcome = .ok ⟨none, .ctxErr⟩ ∧ (s.calls 0).pc = .written ∧
                        s.bc.closed = false ∧ s.slot = none ∧ s.fatalLog = [])) = some true := by
  constructor <;> decide

/-- "…and the link stays healthy" rests on a second source fact: the stub panics (→ recover → `setErr`) only on
    failures of the link, never on an OUTCOME of the call (`panicSitesCanonical`, regenerated from the source).  As
    a behaviour of the model: with that ONE fact flipped, a call whose context ends while it is in flight (cancel or
    deadline — the waiter hands over the context's error) still returns that error, but on the way it stores it as
    the link's fatal error and closes the pending-call table under its sibling: `Link` returns the CALL's error. -/
theorem C04_panicking_on_a_call_outcome_ends_the_link :
    (run skPanicsOnOutcome init
      [.linkCheck,
       .callStart 0 5 2 0, .callReceive 0, .callSpawn 0, .callWrite 0, .waiterRecvCall 0,
       .callStart 1 6 2 0, .callReceive 1, .callSpawn 1, .callWrite 1, .waiterRecvCall 1,
       .ctxCancel 6,
       .waiterGetsCtx 1, .waiterSend 1, .waiterFree 1, .callTakeRes 1 false, .callRecover 1 eCallCtx,
       .setErrStore 1, .setErrClose 1, .linkWake, .linkReturn]).map
      (fun s => decide ((s.calls 1).outcome = .failed eCallCtx ∧ s.link = .returned (some eCallCtx) ∧
                        s.bc.closed = true ∧ (s.calls 0).pc = .written ∧ s.linkCtxDone = false)) = some true ∧
    Skeleton.current.panicSitesCanonical = true := by
  constructor <;> decide

/-- The same guarantees hold for a closure invocation made by a handler: it IS a call of M2 (the proxy
    goes through the very stub the theorems above are about) whose context is the one the handler passed
    to the callable — the proxy keeps it in a variable of its own, assigned from the invocation's first
    argument, and hands exactly that to the stub (checked against the regenerated skeleton); a proxy that
    used the link's context instead would ignore a per-invocation deadline.  And cancelling a call whose
    closure is still RUNNING returns promptly as well: releasing the closure takes the table's mutex,
    which `CallClosure` does not hold while the closure runs. -/
theorem C04_closure_invocations_are_cancellable :
    Skeleton.current.pxCtxIsInvocationCtx = true ∧ Skeleton.current.clInvokeOutsideLock = true ∧
    Skeleton.current.clLockIsMutex = true := by decide

/-- A cancelled closure-carrying call returns through its deferred release. The release function `registerClosure` returns runs DEFERRED on every exit path of a closure-carrying call; it only locks, deletes and unlocks — no wait, channel operation or select (checked against the regenerated skeleton) — and the lock it takes is not held while a closure body runs. -/
theorem C04_closure_release_never_waits :
    Skeleton.current.clFreeNeverWaits = true ∧ Skeleton.current.clInvokeOutsideLock = true := by decide

/-- A closure invocation made by a handler with a context that is done ALREADY is an ordinary call of M2 with a cancelled context (`C04_done_context_call_registers`): that needs `utils.Call` — through which the proxy calls the stub — to call it whatever its first argument is, and to hand its results back (checked against the regenerated skeleton). A `utils.Call` that returned the context's error itself would make the proxy panic, i.e. end the link. -/
theorem C04_done_context_reaches_the_stub :
    Skeleton.current.ucResultsUntouched = true ∧ Skeleton.current.panicSitesCanonical = true := by decide

/-- `C04_late_response_inert` is a theorem about M2's response loop, which hands every response to the pending-call
    table and moves on: a publisher that finds no entry, or whose entry's context is done, is a step that touches no
    call and never `setErr`. That is the code's response loop only if the publish is a statement of its own and the
    goroutine around it reports nothing (checked against the regenerated skeleton) — a loop that ends the link when an
    ERROR response finds no taker turns the late answer of a cancelled call into the end of every other call. -/
theorem C04_late_responses_are_dropped_whatever_they_carry :
    Skeleton.current.respPublishFireAndForget = true ∧ Skeleton.current.respPublishAsync = true := by decide

end Panrpc.Ep

#print axioms Panrpc.Ep.C04_closure_invocations_are_cancellable
#print axioms Panrpc.Ep.C04_panicking_on_a_call_outcome_ends_the_link

#print axioms Panrpc.Ep.C04_only_ctx_error
#print axioms Panrpc.Ep.C04_cancel_returns
#print axioms Panrpc.Ep.C04_concurrent_either
#print axioms Panrpc.Ep.C04_no_setErr
#print axioms Panrpc.Ep.C04_only_fatal_steps_touch_setErr
#print axioms Panrpc.Ep.C04_entry_freed
#print axioms Panrpc.Ep.C04_late_response_inert
#print axioms Panrpc.Ep.C04_others_unaffected
#print axioms Panrpc.Ep.C04_publishers_touch_no_call
#print axioms Panrpc.Ep.C04_receive_fails_only_when_closed
#print axioms Panrpc.Ep.C04_refusing_a_done_context_ends_the_link
#print axioms Panrpc.Ep.C04_done_context_call_registers
#print axioms Panrpc.Ep.C04_closure_release_never_waits
#print axioms Panrpc.Ep.C04_done_context_reaches_the_stub
#print axioms Panrpc.Ep.C04_late_responses_are_dropped_whatever_they_carry
