/-
  Props/C06Link.lean — the link-termination half of C06: "…the offending request is answered with an
  error or that one link is terminated with an error from its Link call" — and terminating a link
  must itself never crash the process, whatever calls of ours to that peer are in flight when the
  offending frame arrives.

  Model: M2 (Model/Endpoint.lean) with M1 embedded.  A peer-triggered termination is `setErrEnter`
  at an arbitrary moment (every fatal path of the request/response loops and of the resolver goroutine
  ends in `setErr`), interleaved arbitrarily with the stubs, waiters and publishers of in-flight calls.
  `crashed` is set by M1's close-of-closed-channel / send-on-closed-channel steps, e.g. `Free` after
  `Close` on an entry that `Close` left in the table.
-/
import Panrpc.Lemmas.EndpointCurrent

namespace Panrpc.Ep
open Panrpc

/-- Terminating a link never crashes: no interleaving of `setErr` (entered any number of times, at any
    moment, with any error) with the in-flight calls' register / wait / free steps, the response
    publishers and per-call cancellations reaches a crashed state. -/
theorem C06_link_termination_never_crashes : ∀ s, Reach Skeleton.current s →
    s.crashed = false ∧ s.bc.crashed = false :=
  fun _ h => ⟨reach_no_crash _ cur_recovers cur_hyg cur_nochanclose h,
              (reach_nc _ cur_hyg cur_nochanclose h).nocrash⟩

/-- non-vacuity: a call is registered and waiting when the link is terminated; its waiter is woken by
    the close, frees its entry afterwards (the step that double-closes if `Close` keeps the table), and
    the call returns the link's error -/
example : (run Skeleton.current init
    [.callStart 0 5 2 0, .callReceive 0, .callSpawn 0, .callWrite 0, .waiterRecvCall 0,
     .setErrEnter 10 7, .setErrStore 10, .setErrClose 10,
     .waiterGetsDone 0, .waiterSend 0, .waiterFree 0, .callTakeRes 0 false]).map
    (fun s => decide (s.crashed = false ∧ s.bc.crashed = false ∧ s.bc.closed = true)) = some true := by
  decide

/-- A malformed value in a function-typed argument position is only noticed when the handler INVOKES that
    callable (the closure id is decoded per invocation): the proxy's first statement defers a function that
    recovers every panic of the invocation — possibly on a goroutine the handler spawned, where nothing else
    would — and reports it to the link with an unconditional `setErr` (checked against the regenerated
    skeleton): the link ends with the decode error, the process survives, no bogus request is written. -/
theorem C06_bad_closure_id_is_contained :
    Skeleton.current.pxRecoverReports = true ∧ Skeleton.current.pxClosureIdPerInvocation = true := by decide

end Panrpc.Ep

#print axioms Panrpc.Ep.C06_link_termination_never_crashes
#print axioms Panrpc.Ep.C06_bad_closure_id_is_contained
