/- Skeleton of the PINNED tree (commit a334833, before any fix: commit), produced once by /verif/extract and kept by hand. Used only by the `…_fails_on_pinned` witness theorems. -/
import Panrpc.Skeleton
namespace Panrpc

def Skeleton.pinned : Skeleton where
  bcPublishLooksUpUnderLock := true
  bcPublishChecksClosed := true
  bcPublishSelectOutsideLock := true
  bcPublishSelectsSend := true
  bcPublishSelectsEntryCtx := true
  bcReceiveRefusesWhenClosed := true
  bcReceiveErrorsOnlyClosed := true
  bcReceiveChildCtx := true
  bcReceiveReusesEntry := true
  bcRecvSelectsChan := true
  bcRecvSelectsCallerCtx := true
  bcRecvSelectsDone := false
  bcRecvChecksChanClosed := true
  bcFreeCancels := true
  bcFreeClosesChan := true
  bcFreeClosesDone := false
  bcFreeDeletes := true
  bcFreeUnderLock := true
  bcCloseCancelsAll := true
  bcCloseClosesChans := true
  bcCloseClosesDone := false
  bcCloseClearsTable := true
  bcCloseSetsClosed := true
  bcCloseUnderLock := true
  bcChanCap := 0
  bcReceiveOneSection := true
  bcFreeOneSection := true
  bcCloseOneSection := true
  bcPublishOneLookupSection := true
  stubCallIdFresh := true
  stubRequestCallIsCallId := true
  stubRequestFunctionIsName := true
  stubRequestArgsInitEmpty := true
  stubArgsAppendInOrder := true
  stubCtxSkipped := true
  stubFuncArgsRegistered := true
  stubClosureFreeDeferred := true
  stubReceiveKeyIsCallId := true
  stubReceiveCtxIsCallCtx := true
  stubRecvBeforeWrite := true
  stubWaiterSpawnedBeforeWrite := true
  stubWaiterFreesOnExit := true
  stubWaiterMapsErrToCancelled := true
  stubResChanCap := 0
  stubSelectsRes := true
  stubSelectsLinkCtx := true
  stubRecovers := true
  stubRecoverCallsSetErr := true
  stubFixesArity := true
  stubErrResultFromResponse := true
  stubTwoOutSkipsDecodeWhenCancelled := true
  stubOneOutDecodesValueOnlyIfNotError := true
  respPublishAsync := true
  respPublishFireAndForget := true
  respEveryReturnReports := true
  respPublishKeyIsResCall := true
  respPublishValueIsResValue := true
  respErrIffTrimNonEmpty := true
  respErrFreshPerFrame := true
  respLoopExitsOnReadErr := true
  respLoopSetErrOnReadErr := true
  reqHandlerGoDepth := 2
  reqResolveGoDepth := 1
  reqResolverRecovers := false
  reqResolveErrSetErr := true
  reqCallViaUtilsCall := true
  reqCallErrSetErr := true
  reqHandlerRecovers := false
  reqResponseCallIsReqCall := true
  reqResponseCount := 5
  reqRespShapesOk := true
  reqOneResponsePerBranch := true
  reqCtxCarriesRemoteId := true
  reqLoopExitsOnReadErr := true
  reqFrameFreshPerIteration := true
  respFrameFreshPerIteration := true
  reqLoopBlocksOnlyOnRead := true
  respLoopBlocksOnlyOnRead := true
  lkSplitOnDot := true
  lkEmptyPathRejected := true
  lkWalksAllButLast := true
  lkDerefPtrOnce := true
  lkRejectsNonStruct := true
  lkFieldByName := true
  lkRejectsInvalidField := true
  lkRejectsUnexportedField := false
  lkMethodByNameOnLast := true
  lkRejectsNonFunc := true
  lkRecoversPanics := false
  lkFallbackIsClosureManager := true
  lkFallbackRejectsNonFunc := true
  lkResolvesPerRequest := true
  lkClosureManagerMethods := ["CallClosure"]
  lkArgCountChecked := true
  lkArgCountBeforeDecode := true
  rwRecursesOnStructKind := true
  rwSkipsNonFunc := true
  rwChecks := [.numOutRange, .lastOutIsError, .numInAtLeastOne, .firstInIsCtx]
  rwNameJoinsWithDot := true
  rwSetsStub := true
  rwStubNameIsPath := true
  rwGuardsUnsettable := false
  rwErrSetErr := true
  cvUnwrapsInterfaces := true
  cvHandlesInvalid := false
  cvUsesConvertibleTo := true
  cvSliceElementwise := true
  cvFallbackError := true
  pxResultChecksValid := true
  pxRecoverReports := true
  pxClosureIdPerInvocation := true
  pxCtxIsInvocationCtx := true
  pxArgsFreshPerInvocation := true
  clArgCountChecked := true
  clCallViaUtilsCall := true
  clLookupUnderLock := true
  clMissingIsError := true
  clInvokeOutsideLock := true
  clLockIsMutex := true
  clTableSites := 3
  clDeleteUnderLock := true
  clInsertUnderLock := true
  clIdFresh := true
  ucRecovers := true
  ucNonErrorPanicMapped := true
  seOrder := .closeThenStore
  seFirstOnly := false
  seBroadcasts := true
  seClosesOnEveryPath := true
  seOnlyOwnLock := true
  seStoreUnderLock := true
  linkWaitsOnCond := true
  watcherCallsSetErr := true
  rgPerLinkBroadcaster := true
  rgPerLinkFatalSlot := true
  rgPerLinkRemoteValue := true
  rgPerLinkRemoteId := true
  rgRegistryConnectHook := true
  rgLinkConnectHook := false
  rgRegisterAtomic := true
  rgRegistryDisconnectHook := true
  rgLinkDisconnectHook := false
  rgUnregisterAtomic := true
  rgUnregisterDeferredAfterWait := true
  rgRegisterBeforeLoops := true
  rgWaitsForBothLoops := true
  rgForRemotesUnderLock := true
  stDecoderHandsRequests := true
  stDecoderHandsResponses := true
  stHandoffGuarded := false
  stDecodeErrBeforeClose := true
  stDecoderExitsOnErr := true
  stAbortClosesDone := false
  stDoneClosedOncePerExit := true
  stMsgFreshPerIteration := true
  stReadersSelectDone := true
  stEncodeRequestOnly := true
  stEncodeResponseOnly := true
  stPayloadOpaque := true
  stHandoffChanCap := 0
  tagReqCall := "call"
  tagReqFunction := "function"
  tagReqArgs := "args"
  tagResCall := "call"
  tagResValue := "value"
  tagResErr := "err"
  tagMsgRequest := "request"
  tagMsgResponse := "response"
  locksShared := true
  stateRegistry := ["wrappedChild", "R", "map[string]R", "*sync.Mutex", "*RegistryHooks"]
  stateClosureManager := ["sync.Mutex", "map[string]func(args ...interface{}) (interface{}, error)"]
  stateBroadcaster := ["map[string]channelWithContext[T]", "bool", "*sync.Mutex"]
  stateChannel := ["chan T", "context.Context", "func(cause error)"]
  stateWrappedChild := ["any", "*closureManager"]
  stateGlobals := []
  clNilErrorViaIsNil := true
  msgCodecPlain := true
  linkReturnsOnlyFatalSlot := true
  recoverBlocksCanonical := false
  panicSitesCanonical := true
  ucResultsUntouched := true
  clFreeNeverWaits := true
  clStoresCreatedClosure := true
  clConvertsEveryArg := true
  rwJudgesFieldSignatureOnly := true
  hooksNeverWritten := true
  ioWrappersNonBlocking := true
  errBranchesHandled := true
  locksBalanced := true
  ucNoWaiting := true
  accesses := [
    { var := "Broadcaster.channels", site := "Close", write := false, locks := ["b.lock"], order := "" },
    { var := "Broadcaster.channels", site := "Close", write := true, locks := ["b.lock"], order := "" },
    { var := "Broadcaster.channels", site := "Free", write := false, locks := ["b.lock"], order := "" },
    { var := "Broadcaster.channels", site := "Free", write := true, locks := ["b.lock"], order := "" },
    { var := "Broadcaster.channels", site := "Publish", write := false, locks := ["b.lock"], order := "" },
    { var := "Broadcaster.channels", site := "Receive", write := false, locks := ["b.lock"], order := "" },
    { var := "Broadcaster.channels", site := "Receive", write := true, locks := ["b.lock"], order := "" },
    { var := "Broadcaster.closed", site := "Close", write := true, locks := ["b.lock"], order := "" },
    { var := "Broadcaster.closed", site := "Publish", write := false, locks := ["b.lock"], order := "" },
    { var := "Broadcaster.closed", site := "Receive", write := false, locks := ["b.lock"], order := "" },
    { var := "LinkMessage.fatalErr", site := "LinkMessage", write := false, locks := ["fatalErrLock.L"], order := "" },
    { var := "LinkMessage.fatalErr", site := "LinkMessage", write := false, locks := ["fatalErrLock.L"], order := "" },
    { var := "LinkMessage.fatalErr", site := "LinkMessage.func5", write := true, locks := ["fatalErrLock.L"], order := "" },
    { var := "LinkStream.decodeErr", site := "LinkStream.func1", write := true, locks := [], order := "close:decodeDone" },
    { var := "LinkStream.decodeErr", site := "LinkStream.func4", write := false, locks := [], order := "close:decodeDone" },
    { var := "LinkStream.decodeErr", site := "LinkStream.func5", write := false, locks := [], order := "close:decodeDone" },
    { var := "Registry.hooks", site := "LinkMessage.func7", write := false, locks := ["r.remotesLock"], order := "" },
    { var := "Registry.hooks", site := "LinkMessage.func7", write := false, locks := ["r.remotesLock"], order := "" },
    { var := "Registry.hooks", site := "LinkMessage.func8", write := false, locks := ["r.remotesLock"], order := "" },
    { var := "Registry.hooks", site := "LinkMessage.func8", write := false, locks := ["r.remotesLock"], order := "" },
    { var := "Registry.local", site := "findLocalFunctionToCallRecursively", write := false, locks := [], order := "" },
    { var := "Registry.local", site := "findLocalFunctionToCallRecursively", write := false, locks := [], order := "" },
    { var := "Registry.local", site := "makeRPC.func1", write := false, locks := [], order := "" },
    { var := "Registry.remote", site := "LinkMessage", write := false, locks := [], order := "" },
    { var := "Registry.remotes", site := "ForRemotes", write := false, locks := ["r.remotesLock"], order := "" },
    { var := "Registry.remotes", site := "LinkMessage.func7", write := true, locks := ["r.remotesLock"], order := "" },
    { var := "Registry.remotes", site := "LinkMessage.func8", write := true, locks := ["r.remotesLock"], order := "" },
    { var := "closureManager.closures", site := "CallClosure", write := false, locks := ["m.closuresLock"], order := "" },
    { var := "closureManager.closures", site := "registerClosure", write := true, locks := ["m.closuresLock"], order := "" },
    { var := "closureManager.closures", site := "registerClosure.func2", write := true, locks := ["m.closuresLock"], order := "" }]

end Panrpc
