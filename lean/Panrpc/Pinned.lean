/- Skeleton of the PINNED tree (commit a334833, before any fix: commit), produced once by /verif/extract and kept by hand. Used only by the `…_fails_on_pinned` witness theorems. -/
import Panrpc.Skeleton
namespace Panrpc

def Skeleton.pinned : Skeleton where
  bcPublishLooksUpUnderLock := true  -- broadcaster.go:41
  bcPublishChecksClosed := true  -- broadcaster.go:35
  bcPublishSelectOutsideLock := true  -- broadcaster.go:49
  bcPublishSelectsSend := true  -- broadcaster.go:49
  bcPublishSelectsEntryCtx := true  -- broadcaster.go:49
  bcReceiveRefusesWhenClosed := true  -- broadcaster.go:60
  bcReceiveChildCtx := true  -- broadcaster.go:67
  bcReceiveReusesEntry := true  -- broadcaster.go:67
  bcRecvSelectsChan := true  -- broadcaster.go:80
  bcRecvSelectsCallerCtx := true  -- broadcaster.go:80
  bcRecvSelectsDone := false  -- broadcaster.go:80
  bcRecvChecksChanClosed := true  -- broadcaster.go:80
  bcFreeCancels := true  -- broadcaster.go:97
  bcFreeClosesChan := true  -- broadcaster.go:98
  bcFreeClosesDone := false  -- ?
  bcFreeDeletes := true  -- broadcaster.go:100
  bcFreeUnderLock := true  -- broadcaster.go:93
  bcCloseCancelsAll := true  -- broadcaster.go:107
  bcCloseClosesChans := true  -- broadcaster.go:108
  bcCloseClosesDone := false  -- ?
  bcCloseClearsTable := true  -- broadcaster.go:110
  bcCloseSetsClosed := true  -- broadcaster.go:111
  bcCloseUnderLock := true  -- broadcaster.go:104
  bcChanCap := 0  -- broadcaster.go:70
  stubCallIdFresh := true  -- registry.go:133
  stubRequestCallIsCallId := true  -- registry.go:135
  stubRequestFunctionIsName := true  -- registry.go:135
  stubRequestArgsInitEmpty := true  -- registry.go:135
  stubArgsAppendInOrder := true  -- registry.go:142
  stubCtxSkipped := true  -- registry.go:143
  stubFuncArgsRegistered := true  -- registry.go:155
  stubClosureFreeDeferred := true  -- registry.go:155
  stubReceiveKeyIsCallId := true  -- registry.go:180
  stubReceiveCtxIsCallCtx := true  -- registry.go:180
  stubRecvBeforeWrite := true  -- registry.go:197
  stubWaiterSpawnedBeforeWrite := true  -- registry.go:186
  stubWaiterFreesOnExit := true  -- registry.go:186
  stubWaiterMapsErrToCancelled := true  -- registry.go:186
  stubResChanCap := 0  -- registry.go:185
  stubSelectsRes := true  -- registry.go:202
  stubSelectsLinkCtx := true  -- registry.go:202
  stubRecovers := true  -- registry.go:107
  stubRecoverCallsSetErr := true  -- registry.go:107
  stubFixesArity := true  -- registry.go:107
  stubErrResultFromResponse := true  -- registry.go:203
  stubTwoOutSkipsDecodeWhenCancelled := true  -- registry.go:220
  stubOneOutDecodesValueOnlyIfNotError := true  -- registry.go:203
  respPublishAsync := true  -- registry.go:884
  respPublishKeyIsResCall := true  -- registry.go:884
  respPublishValueIsResValue := true  -- registry.go:884
  respErrIffTrimNonEmpty := true  -- registry.go:884
  respErrFreshPerFrame := true  -- registry.go:865
  respLoopExitsOnReadErr := true  -- registry.go:865
  respLoopSetErrOnReadErr := true  -- registry.go:865
  reqHandlerGoDepth := 2  -- registry.go:720
  reqResolveGoDepth := 1  -- registry.go:698
  reqResolverRecovers := false  -- registry.go:698
  reqResolveErrSetErr := true  -- registry.go:698
  reqCallViaUtilsCall := true  -- registry.go:720
  reqCallErrSetErr := true  -- registry.go:720
  reqResponseCallIsReqCall := true  -- registry.go:736
  reqResponseCount := 5  -- registry.go:736
  reqRespShapesOk := true  -- nil|"" ; nil|res[0].Interface().(error).Error() ; res[0].Interface()|"" ; res[0].Interface()|"" ; res[0].Interface()|res[1].Interface().(error).Error()
  reqOneResponsePerBranch := true  -- registry.go:736
  reqCtxCarriesRemoteId := true  -- registry.go:698
  reqLoopExitsOnReadErr := true  -- registry.go:682
  lkSplitOnDot := true  -- registry.go:486
  lkEmptyPathRejected := true  -- registry.go:487
  lkWalksAllButLast := true  -- registry.go:493
  lkDerefPtrOnce := true  -- registry.go:494
  lkRejectsNonStruct := true  -- registry.go:498
  lkFieldByName := true  -- registry.go:502
  lkRejectsInvalidField := true  -- registry.go:503
  lkMethodByNameOnLast := true  -- registry.go:508
  lkRejectsNonFunc := true  -- registry.go:509
  lkRecoversPanics := false  -- registry.go:485
  lkFallbackIsClosureManager := true  -- registry.go:348
  lkFallbackRejectsNonFunc := true  -- registry.go:352
  lkClosureManagerMethods := ["CallClosure"]  -- exported methods declared on closureManager
  lkArgCountChecked := true  -- registry.go:357
  lkArgCountBeforeDecode := true  -- registry.go:357
  rwRecursesOnStructKind := true  -- registry.go:264
  rwSkipsNonFunc := true  -- registry.go:286
  rwChecks := [.numOutRange, .lastOutIsError, .numInAtLeastOne, .firstInIsCtx]  -- registry.go:290 registry.go:294 registry.go:298 registry.go:302
  rwNameJoinsWithDot := true  -- registry.go:265
  rwSetsStub := true  -- registry.go:306
  rwStubNameIsPath := true  -- registry.go:308
  rwGuardsUnsettable := false  -- registry.go:306
  rwErrSetErr := true  -- registry.go:545
  cvUnwrapsInterfaces := true  -- registry.go:517
  cvHandlesInvalid := false  -- ?
  cvUsesConvertibleTo := true  -- registry.go:521
  cvSliceElementwise := true  -- registry.go:526
  cvFallbackError := true  -- registry.go:516
  clArgCountChecked := true  -- manager.go:42
  clCallViaUtilsCall := true  -- manager.go:56
  clLookupUnderLock := true  -- manager.go:82
  clMissingIsError := true  -- manager.go:82
  clDeleteUnderLock := true  -- manager.go:97
  clInsertUnderLock := true  -- manager.go:97
  clIdFresh := true  -- manager.go:97
  ucRecovers := true  -- call.go:12
  ucNonErrorPanicMapped := true  -- call.go:12
  seOrder := .closeThenStore  -- registry.go:622
  seFirstOnly := false  -- registry.go:622
  seBroadcasts := true  -- registry.go:623
  seStoreUnderLock := true  -- registry.go:622
  linkWaitsOnCond := true  -- registry.go:545
  watcherCallsSetErr := true  -- registry.go:545
  rgPerLinkBroadcaster := true  -- registry.go:603
  rgPerLinkFatalSlot := true  -- registry.go:545
  rgPerLinkRemoteValue := true  -- registry.go:605
  rgPerLinkRemoteId := true  -- registry.go:654
  rgRegistryConnectHook := true  -- registry.go:660
  rgLinkConnectHook := false  -- ?
  rgRegisterAtomic := true  -- registry.go:657
  rgRegistryDisconnectHook := true  -- registry.go:670
  rgLinkDisconnectHook := false  -- ?
  rgUnregisterAtomic := true  -- registry.go:667
  rgUnregisterDeferredAfterWait := true  -- registry.go:665
  rgRegisterBeforeLoops := true  -- registry.go:635
  rgWaitsForBothLoops := true  -- registry.go:888
  rgForRemotesUnderLock := true  -- registry.go:982
  stDecoderHandsRequests := true  -- registry.go:922
  stDecoderHandsResponses := true  -- registry.go:922
  stHandoffGuarded := false  -- registry.go:934
  stDecodeErrBeforeClose := true  -- registry.go:922
  stDecoderExitsOnErr := true  -- registry.go:922
  stReadersSelectDone := true  -- registry.go:943
  stEncodeRequestOnly := true  -- registry.go:943
  stEncodeResponseOnly := true  -- registry.go:943
  stPayloadOpaque := true  -- 
  tagReqCall := "call"  -- messages.go:3
  tagReqFunction := "function"  -- messages.go:3
  tagReqArgs := "args"  -- messages.go:3
  tagResCall := "call"  -- messages.go:17
  tagResValue := "value"  -- messages.go:17
  tagResErr := "err"  -- messages.go:17
  tagMsgRequest := "request"  -- registry.go:34
  tagMsgResponse := "response"  -- registry.go:34
  accesses := [
    { var := "Broadcaster.channels", site := "Free", write := true, locks := ["b.lock"], order := "" },
    { var := "Broadcaster.channels", site := "Close", write := false, locks := ["b.lock"], order := "" },
    { var := "Broadcaster.channels", site := "Close", write := true, locks := ["b.lock"], order := "" },
    { var := "Broadcaster.channels", site := "Publish", write := false, locks := ["b.lock"], order := "" },
    { var := "Broadcaster.channels", site := "Receive", write := false, locks := ["b.lock"], order := "" },
    { var := "Broadcaster.channels", site := "Receive", write := true, locks := ["b.lock"], order := "" },
    { var := "Broadcaster.channels", site := "Free", write := false, locks := ["b.lock"], order := "" },
    { var := "Broadcaster.closed", site := "Close", write := true, locks := ["b.lock"], order := "" },
    { var := "Broadcaster.closed", site := "Publish", write := false, locks := ["b.lock"], order := "" },
    { var := "Broadcaster.closed", site := "Receive", write := false, locks := ["b.lock"], order := "" },
    { var := "LinkMessage.fatalErr", site := "LinkMessage.func@registry.go:614", write := true, locks := ["fatalErrLock.L"], order := "" },
    { var := "LinkMessage.fatalErr", site := "LinkMessage", write := false, locks := ["fatalErrLock.L"], order := "" },
    { var := "LinkMessage.fatalErr", site := "LinkMessage", write := false, locks := ["fatalErrLock.L"], order := "" },
    { var := "LinkStream.decodeErr", site := "LinkStream.func@registry.go:922", write := true, locks := [], order := "close:decodeDone" },
    { var := "LinkStream.decodeErr", site := "LinkStream.func@registry.go:957", write := false, locks := [], order := "close:decodeDone" },
    { var := "LinkStream.decodeErr", site := "LinkStream.func@registry.go:965", write := false, locks := [], order := "close:decodeDone" },
    { var := "Registry.hooks", site := "LinkMessage.func@registry.go:635", write := false, locks := ["r.remotesLock"], order := "" },
    { var := "Registry.hooks", site := "LinkMessage.func@registry.go:635", write := false, locks := ["r.remotesLock"], order := "" },
    { var := "Registry.hooks", site := "LinkMessage.func@registry.go:665", write := false, locks := ["r.remotesLock"], order := "" },
    { var := "Registry.hooks", site := "LinkMessage.func@registry.go:665", write := false, locks := ["r.remotesLock"], order := "" },
    { var := "Registry.local", site := "makeRPC.func@registry.go:106", write := false, locks := [], order := "" },
    { var := "Registry.local", site := "findLocalFunctionToCallRecursively", write := false, locks := [], order := "" },
    { var := "Registry.local", site := "findLocalFunctionToCallRecursively", write := false, locks := [], order := "" },
    { var := "Registry.remote", site := "LinkMessage", write := false, locks := [], order := "" },
    { var := "Registry.remotes", site := "LinkMessage.func@registry.go:635", write := true, locks := ["r.remotesLock"], order := "" },
    { var := "Registry.remotes", site := "LinkMessage.func@registry.go:665", write := true, locks := ["r.remotesLock"], order := "" },
    { var := "Registry.remotes", site := "ForRemotes", write := false, locks := ["r.remotesLock"], order := "" },
    { var := "closureManager.closures", site := "registerClosure", write := true, locks := ["m.closuresLock"], order := "" },
    { var := "closureManager.closures", site := "registerClosure.func@manager.go:109", write := true, locks := ["m.closuresLock"], order := "" },
    { var := "closureManager.closures", site := "CallClosure", write := false, locks := ["m.closuresLock"], order := "" }]  -- 30 accesses

end Panrpc
