/-
  Skeleton.lean — the facts about /repo's source that the models are parametrized by.

  `Skeleton.current` (in `Panrpc/Generated/Current.lean`) is REGENERATED from
  /repo/go/pkg/{rpc,utils} on every run by /verif/extract (Tie 1).  Every model
  is a function of a `Skeleton`; every property theorem is stated for
  `Skeleton.current` and proved as
      general lemma (∀ sk, hypotheses on sk → property)  +  `by decide` that
      `Skeleton.current` meets the hypotheses.
  Change the code so that a hypothesis no longer holds and the theorem no longer
  type-checks.

  `Skeleton.pinned` is the literal for the tree as it was pinned (before any
  `fix:` commit).  It is used only by the witness theorems that record the defects
  of the pinned tree (`…_fails_on_pinned`).
-/
namespace Panrpc

/-- Order of the two effects of `setErr`. -/
inductive SetErrOrder where
  | closeThenStore   -- Broadcaster.Close(err) first, then the fatal slot (pinned tree)
  | storeThenClose   -- fatal slot first, then Broadcaster.Close(err)
  | noClose          -- the pending-call table is never closed
  deriving DecidableEq, Repr, Inhabited

/-- One step of the remote-definition walk's per-field validation, in source order. -/
inductive RwCheck where
  | numOutRange      -- NumOut() <= 0 || NumOut() > 2      → ErrInvalidReturn
  | lastOutIsError   -- !Out(NumOut()-1).Implements(error) → ErrInvalidReturn
  | numInAtLeastOne  -- NumIn() < 1                         → ErrInvalidArgs
  | firstInIsCtx     -- !In(0).Implements(context)          → ErrInvalidArgs
  deriving DecidableEq, Repr, Inhabited

/-- A shared variable access found by the extractor (C20). -/
structure Access where
  var    : String        -- shared variable (field or captured local)
  site   : String        -- function literal / method the access sits in
  write  : Bool
  locks  : List String   -- mutexes lexically held at the access
  /-- ordering edge that makes the access safe without a lock:
      "" none; "init" happens before any goroutine that can see the variable is started;
      "close:<chan>" write happens before close(chan) / read after receive-from-closed -/
  order  : String
  deriving DecidableEq, Repr, Inhabited

structure Skeleton where
  /- ---------------- utils/broadcaster.go ---------------- -/
  bcPublishLooksUpUnderLock  : Bool  -- closed check + map lookup inside lock..unlock
  bcPublishChecksClosed      : Bool
  bcPublishSelectOutsideLock : Bool  -- the select runs after the unlock
  bcPublishSelectsSend       : Bool  -- case c.channel <- v
  bcPublishSelectsEntryCtx   : Bool  -- case <-c.ctx.Done()
  bcReceiveRefusesWhenClosed : Bool
  bcReceiveErrorsOnlyClosed  : Bool  -- the only error Receive ever returns is ErrClosed (for a closed broadcaster): callers treat every Receive error as fatal
  bcReceiveChildCtx          : Bool  -- entry ctx derives from the caller's ctx
  bcReceiveReusesEntry       : Bool  -- existing entry is reused, not replaced
  bcRecvSelectsChan          : Bool
  bcRecvSelectsCallerCtx     : Bool
  bcRecvSelectsDone          : Bool  -- (repaired tree) case <-c.done : separate freed/closed signal
  bcRecvChecksChanClosed     : Bool  -- `v, ok := <-ch; if !ok → ErrClosed`
  bcFreeCancels              : Bool
  bcFreeClosesChan           : Bool
  bcFreeClosesDone           : Bool  -- (repaired tree) close(c.done)
  bcFreeDeletes              : Bool
  bcFreeUnderLock            : Bool
  bcCloseCancelsAll          : Bool
  bcCloseClosesChans         : Bool
  bcCloseClosesDone          : Bool
  bcCloseClearsTable         : Bool
  bcCloseSetsClosed          : Bool
  bcCloseUnderLock           : Bool
  bcChanCap                  : Nat   -- capacity of the per-key value channel
  bcReceiveOneSection        : Bool  -- Receive: closed check, lookup and insert in ONE lock..unlock region
  bcFreeOneSection           : Bool  -- Free: lookup, cancel, close and delete in ONE region
  bcCloseOneSection          : Bool  -- Close: one region
  bcPublishOneLookupSection  : Bool  -- Publish: closed check and lookup in ONE region
  /- ---------------- rpc/registry.go : makeRPC stub ---------------- -/
  stubCallIdFresh            : Bool  -- callID := uuid.NewString() inside the per-call literal
  stubRequestCallIsCallId    : Bool  -- Request{Call: callID,
  stubRequestFunctionIsName  : Bool  --         Function: name,
  stubRequestArgsInitEmpty   : Bool  --         Args: []T{}}  (never nil)
  stubArgsAppendInOrder      : Bool  -- one append(cmd.Args, b) per non-ctx arg inside the range loop, in order
  stubCtxSkipped             : Bool  -- i == 0 → continue (context is never marshalled)
  stubFuncArgsRegistered     : Bool  -- Kind()==Func → registerClosure, marshal(closureID)
  stubClosureFreeDeferred    : Bool  -- defer freeClosure() right after registerClosure
  stubReceiveKeyIsCallId     : Bool
  stubReceiveCtxIsCallCtx    : Bool  -- Receive(callID, ctx) with the call's own context
  stubRecvBeforeWrite        : Bool  -- Receive precedes writeRequest
  stubWaiterSpawnedBeforeWrite : Bool
  stubWaiterFreesOnExit      : Bool  -- defer Free(callID, …) in the waiter goroutine
  stubWaiterMapsErrToCancelled : Bool -- rr() error → callResponse{zero, err, true}
  stubResChanCap             : Nat   -- capacity of `res`
  stubSelectsRes             : Bool
  stubSelectsLinkCtx         : Bool
  stubRecovers               : Bool  -- top-level defer with recover()
  stubRecoverCallsSetErr     : Bool
  stubFixesArity             : Bool  -- len(results) != NumOut() patch
  stubErrResultFromResponse  : Bool  -- err result set iff rawReturnValue.err != nil
  stubTwoOutSkipsDecodeWhenCancelled : Bool
  stubOneOutDecodesValueOnlyIfNotError : Bool
  /- ---------------- response loop ---------------- -/
  respPublishAsync           : Bool  -- `go responseResolver.Publish(…)`
  respEveryReturnReports     : Bool  -- the responder: every `return` directly follows a setErr(…): a request is answered or the link ends
  respPublishFireAndForget   : Bool  -- the publish is a statement of its own; nothing (no setErr) hangs on whether somebody took the value
  respPublishKeyIsResCall    : Bool
  respPublishValueIsResValue : Bool
  respErrIffTrimNonEmpty     : Bool  -- err = errors.New(res.Err) iff TrimSpace(res.Err) != ""
  respErrFreshPerFrame       : Bool  -- the err variable is (re)declared inside the loop body
  respLoopExitsOnReadErr     : Bool
  respLoopSetErrOnReadErr    : Bool
  /- ---------------- request loop / handler ---------------- -/
  reqHandlerGoDepth          : Nat   -- number of `go` around utils.Call(function,args) inside the loop (2)
  reqResolveGoDepth          : Nat   -- number of `go` around findLocalFunctionToCallRecursively (1)
  reqResolverRecovers        : Bool  -- reflect panics during resolution are recovered (goroutine or lookup)
  reqResolveErrSetErr        : Bool
  reqCallViaUtilsCall        : Bool  -- handler invoked through utils.Call (recover)
  reqCallErrSetErr           : Bool
  reqHandlerRecovers         : Bool  -- (repaired tree) the handler goroutine has a deferred recover → setErr, so panics while BUILDING the response (user `Error()` methods, result-shape assertions) end the link, not the process
  reqResponseCallIsReqCall   : Bool  -- every Response literal has Call: req.Call
  reqResponseCount           : Nat   -- number of Response literals (5)
  reqRespShapesOk            : Bool  -- per-branch Value/Err as documented (see extractor)
  reqOneResponsePerBranch    : Bool  -- each branch writes exactly one response
  reqCtxCarriesRemoteId      : Bool  -- context.WithValue(ctx, RemoteIDContextKey, remoteID)
  reqLoopExitsOnReadErr      : Bool
  reqFrameFreshPerIteration  : Bool  -- the Request struct is declared inside the request loop body: the handler goroutines of different frames never share it
  respFrameFreshPerIteration : Bool  -- likewise the Response struct in the response loop
  reqLoopBlocksOnlyOnRead    : Bool  -- outside the goroutines it spawns, the request loop's body has no channel operation, select, lock or wait (directly or through a local closure) besides the read and setErr
  respLoopBlocksOnlyOnRead   : Bool  -- likewise the response loop
  /- ---------------- lookup ---------------- -/
  lkSplitOnDot               : Bool
  lkEmptyPathRejected        : Bool
  lkWalksAllButLast          : Bool
  lkDerefPtrOnce             : Bool
  lkRejectsNonStruct         : Bool
  lkFieldByName              : Bool
  lkRejectsInvalidField      : Bool
  lkRejectsUnexportedField   : Bool  -- (repaired tree) a field reached by an unexported name (`!field.CanInterface()`) is rejected
  lkMethodByNameOnLast       : Bool
  lkRejectsNonFunc           : Bool
  lkRecoversPanics           : Bool  -- (repaired tree) lookup cannot panic out
  lkFallbackIsClosureManager : Bool  -- only fallback: MethodByName on r.local.wrapper
  lkFallbackRejectsNonFunc   : Bool
  lkResolvesPerRequest       : Bool  -- the walk from r.local.wrappee is an unconditional top-level statement of the resolver and, with the fallback, the only source of `function` (no cache: resolution is a function of the object graph held NOW)
  lkClosureManagerMethods    : List String   -- exported methods of *closureManager (go/types)
  lkArgCountChecked          : Bool  -- NumIn() != len(req.Args)+1 → ErrInvalidArgsCount
  lkArgCountBeforeDecode     : Bool
  /- ---------------- remote definition walk ---------------- -/
  rwRecursesOnStructKind     : Bool
  rwSkipsNonFunc             : Bool
  rwChecks                   : List RwCheck
  rwNameJoinsWithDot         : Bool  -- namePrefix + "." + Name (no dot at top level)
  rwSetsStub                 : Bool
  rwStubNameIsPath           : Bool
  rwGuardsUnsettable         : Bool  -- (repaired tree) unexported fields do not reach Set
  rwErrSetErr                : Bool  -- walk error → setErr(err)
  /- ---------------- convertValue / createClosure ---------------- -/
  cvUnwrapsInterfaces        : Bool
  cvHandlesInvalid           : Bool  -- (repaired tree) invalid (nil) source → zero value
  cvUsesConvertibleTo        : Bool
  cvSliceElementwise         : Bool
  cvFallbackError            : Bool
  pxResultChecksValid        : Bool  -- closure proxy: the result is converted iff `rcpRv[0].Elem().IsValid()` (and for no other reason skipped)
  pxRecoverReports           : Bool  -- closure proxy: its first statement defers a function that recovers every panic of the invocation and calls setErr unconditionally
  pxClosureIdPerInvocation   : Bool  -- closure proxy: the closure id is decoded from the proxy's own argument position into a variable of the per-invocation literal, and the CallClosure stub is built there (not shared between parameters, invocations or links)
  pxCtxIsInvocationCtx       : Bool  -- closure proxy: the context of the underlying CallClosure RPC is the proxy's own variable, assigned from the invocation's first argument (not the link context)
  pxArgsFreshPerInvocation   : Bool  -- closure proxy: the []interface{} argument list is built inside the per-invocation literal
  clArgCountChecked          : Bool
  clCallViaUtilsCall         : Bool
  clLookupUnderLock          : Bool
  clDeleteUnderLock          : Bool
  clInsertUnderLock          : Bool
  clIdFresh                  : Bool
  clMissingIsError           : Bool
  clInvokeOutsideLock        : Bool  -- CallClosure runs the closure after releasing closuresLock (no lock is held across user code)
  clLockIsMutex              : Bool  -- closuresLock is a plain sync.Mutex locked with Lock/Unlock
  clTableSites               : Nat   -- number of places in pkg/rpc that touch the closure table (`.closures`): lookup, insert, delete = 3
  /- ---------------- setErr / Link ---------------- -/
  seOrder                    : SetErrOrder
  seFirstOnly                : Bool
  seBroadcasts               : Bool
  seStoreUnderLock           : Bool
  seClosesOnEveryPath        : Bool  -- every path through setErr closes the pending-call table
  seOnlyOwnLock              : Bool  -- setErr takes no lock but its own condition variable's and has no channel operation, select or wait: it waits for nobody (in particular not for a lock that application code may hold)
  linkWaitsOnCond             : Bool  -- Link: lock; read; if nil Wait; read; unlock; return
  watcherCallsSetErr         : Bool
  /- ---------------- registry / hooks ---------------- -/
  rgPerLinkBroadcaster       : Bool
  rgPerLinkFatalSlot         : Bool
  rgPerLinkRemoteId          : Bool  -- remoteID := uuid.NewString() inside LinkMessage
  rgPerLinkRemoteValue       : Bool  -- remote := reflect.New(...) inside LinkMessage
  rgRegisterAtomic           : Bool  -- insert + connect hooks in one remotesLock region
  rgUnregisterAtomic         : Bool
  rgRegistryConnectHook      : Bool
  rgRegistryDisconnectHook   : Bool
  rgLinkConnectHook          : Bool
  rgLinkDisconnectHook       : Bool
  rgUnregisterDeferredAfterWait : Bool
  rgRegisterBeforeLoops      : Bool
  rgForRemotesUnderLock      : Bool
  rgWaitsForBothLoops        : Bool
  /- ---------------- LinkStream ---------------- -/
  stDecoderHandsRequests     : Bool
  stDecoderHandsResponses    : Bool
  stHandoffGuarded           : Bool  -- (repaired tree) hand-off sends also select on the link ctx
  stDecodeErrBeforeClose     : Bool
  stDecoderExitsOnErr        : Bool
  stAbortClosesDone          : Bool  -- (repaired tree) every context-done exit of the decoder records decodeErr and closes decodeDone before returning
  stDoneClosedOncePerExit    : Bool  -- decodeDone is closed exactly once on every way out of the decoder goroutine (one deferred close and no other, or one close in front of each exit), and nowhere else
  stMsgFreshPerIteration     : Bool  -- the Message envelope is declared inside the decode loop (no member survives from one frame into the next)
  stReadersSelectDone        : Bool
  stEncodeRequestOnly        : Bool  -- Message{Request:&b}
  stEncodeResponseOnly       : Bool  -- Message{Response:&b}
  stPayloadOpaque            : Bool
  stHandoffChanCap           : Nat   -- capacity of the decoder's hand-off channels (0: a frame is handed over before the next decode)
  /- ---------------- wire ---------------- -/
  tagReqCall : String
  tagReqFunction : String
  tagReqArgs : String
  tagResCall : String
  tagResValue : String
  tagResErr : String
  tagMsgRequest : String
  tagMsgResponse : String
  /- ---------------- utils.Call ---------------- -/
  ucRecovers                 : Bool
  ucNonErrorPanicMapped      : Bool
  /- ---------------- state: field types of the structs holding panrpc's state, in declaration order ---------------- -/
  stateRegistry              : List String
  stateClosureManager        : List String
  stateBroadcaster           : List String
  stateChannel               : List String
  stateWrappedChild          : List String
  stateGlobals               : List String   -- package-level variables of rpc and utils other than error values and reflect.Type constants (mutable global state: none)
  /- ---------------- added after round 4 ---------------- -/
  clNilErrorViaIsNil         : Bool  -- createClosure's wrapper turns the closure's last result into an `error` only under `!out[i].IsNil()` (a nil pointer of a concrete error type stays "no error")
  msgCodecPlain              : Bool  -- utils.Request/Response Marshal/Unmarshal hand the struct itself to the codec and do nothing else
  linkReturnsOnlyFatalSlot   : Bool  -- the variable Link returns is assigned from the fatal slot only
  recoverBlocksCanonical     : Bool  -- the three deferred recover blocks of registry.go (stub, closure proxy, handler goroutine) turn the panic value into an error (itself, or ErrPanickedWithNonErrorValue), call setErr unconditionally, and the two reflect.MakeFunc bodies repair the result list for both arities
  panicSitesCanonical : Bool  -- every `panic(…)` of the library hands on the error variable its enclosing `if e != nil` tested, an `Err…` sentinel of a failed check, or the `Err()` of the context whose `Done()` case it sits in: no panic on an OUTCOME of a call
  ucResultsUntouched : Bool  -- utils.Call hands back exactly what the function returned (`out = fn.Call(in)` is the only write to its result list)
  clFreeNeverWaits : Bool  -- the release function returned by registerClosure only locks, deletes, unlocks: no wait, channel operation or select
  clStoresCreatedClosure : Bool  -- what registerClosure puts into the table is createClosure's wrapper itself, not a further wrapper (mutex, WaitGroup, cache) around it
  clConvertsEveryArg : Bool  -- the wrapper converts every argument with convertValue; no fast path continues past it
  rwJudgesFieldSignatureOnly : Bool  -- the remote-definition walk judges a function field by its own signature only and descends into struct-kinded fields only
  hooksNeverWritten : Bool  -- the library only reads the hook structs it is handed
  ioWrappersNonBlocking : Bool  -- the context-checking wrappers LinkMessage puts around the transport functions never wait (every select has a default, no send, lock or wait): no window / semaphore couples independent calls
  errBranchesHandled         : Bool  -- every `if err != nil { … }` of the library reports the error with one of its OWN statements (setErr / panic / return of an error / handing `err` on / storing it) and then leaves
  locksBalanced              : Bool  -- every function body releases what it locks on every path (no return while holding, branches agree, loops neutral, or `defer Unlock`)
  ucNoWaiting                : Bool  -- utils.Call contains nothing that can wait (no channel operation, lock, Once, goroutine)
  /- ---------------- C20 ---------------- -/
  accesses                   : List Access
  locksShared                : Bool  -- every mutex guarding shared state is one object for all users: a pointer field, or a value field of a struct only ever used through a pointer (methods with pointer receivers)
  deriving Repr, Inhabited

end Panrpc
