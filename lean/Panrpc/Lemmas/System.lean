/-
  Lemmas/System.lean — M3: source facts the correlation theorems rest on, list helpers, and the
  first invariant layer (call threads / pending table, request frames / handler threads).
  Helper lemmas only; the property theorems are in Props/C01.lean and Props/C02.lean.
-/
import Panrpc.Model.System

namespace Panrpc.Sys

/-- Source facts of the correlation core (all read off rpc/registry.go by the extractor). -/
structure Facts (sk : Skeleton) : Prop where
  fresh    : sk.stubCallIdFresh = true
  recvKey  : sk.stubReceiveKeyIsCallId = true
  reqCall  : sk.stubRequestCallIsCallId = true
  reqFn    : sk.stubRequestFunctionIsName = true
  oneCall  : sk.reqCallViaUtilsCall = true
  resCall  : sk.reqResponseCallIsReqCall = true
  oneResp  : sk.reqOneResponsePerBranch = true
  pubKey   : sk.respPublishKeyIsResCall = true
  pubVal   : sk.respPublishValueIsResValue = true

/-- Source facts: neither loop runs anything that can wait.  Resolver, handler and `Publish` run in
    goroutines of their own, and what is left of the loop bodies (between two reads) holds no channel
    operation, select, lock or wait — which is what lets `reqDeliver` / `resDeliver` be modelled as
    always enabled when a frame is there, for ANY number of handlers in flight (no admission limit). -/
structure Async (sk : Skeleton) : Prop where
  resolveGo : sk.reqResolveGoDepth ≠ 0
  handlerGo : sk.reqHandlerGoDepth ≠ 0
  publishGo : sk.respPublishAsync = true
  reqOnlyRead : sk.reqLoopBlocksOnlyOnRead = true
  resOnlyRead : sk.respLoopBlocksOnlyOnRead = true
  wrappers : sk.ioWrappersNonBlocking = true    -- the write wrapper never waits (no window on requests in flight)

/-- partition of the actions, used only to split the preservation proofs into smaller lemmas -/
def Act.group : Act → Nat
  | .callStart .. | .callWrite .. | .callRegister .. => 0
  | .callReturn .. | .reqDeliver .. | .handlerEnter .. => 1
  | .handlerStall .. | .handlerResume .. | .handlerCallPeer .. => 2
  | .handlerNestedDone .. | .handlerReturn .. | .respond .. => 3
  | .resDeliver .. | .publish .. | .publishDrop .. => 4

/-! ### list helpers -/

theorem mem_of_mem_eraseIdx' {α : Type} {l : List α} {i : Nat} {x : α} (h : x ∈ l.eraseIdx i) : x ∈ l :=
  List.mem_of_mem_eraseIdx h

theorem mem_of_getElem?' {α : Type} {l : List α} {i : Nat} {x : α} (h : l[i]? = some x) : x ∈ l :=
  List.mem_of_getElem? h

/-- in a list without duplicate keys, the element removed by `eraseIdx` shares its key with none
    of the remaining ones -/
theorem key_ne_of_mem_eraseIdx {α : Type} (g : α → Nat) :
    ∀ (l : List α) (i : Nat) (x y : α), (l.map g).Nodup → l[i]? = some x → y ∈ l.eraseIdx i → g y ≠ g x := by
  intro l
  induction l with
  | nil => intro i x y _ h; simp at h
  | cons a l ih =>
    intro i x y hn hx hy
    simp only [List.map_cons, List.nodup_cons, List.mem_map, not_exists, not_and] at hn
    cases i with
    | zero =>
      simp at hx; subst hx
      simp at hy
      intro he
      exact hn.1 y hy he
    | succ i =>
      simp at hx
      simp at hy
      cases hy with
      | inl h =>
        subst h
        intro he
        exact hn.1 x (List.mem_of_getElem? hx) he.symm
      | inr h => exact ih i x y hn.2 hx h

theorem nodup_map_eraseIdx {α : Type} (g : α → Nat) (l : List α) (i : Nat)
    (h : (l.map g).Nodup) : ((l.eraseIdx i).map g).Nodup := by
  have : ((l.eraseIdx i).map g).Sublist (l.map g) := (List.eraseIdx_sublist l i).map g
  exact this.nodup h

theorem nodup_map_append_singleton {α : Type} (g : α → Nat) (l : List α) (x : α)
    (h : (l.map g).Nodup) (hx : ∀ y, y ∈ l → g y ≠ g x) : ((l ++ [x]).map g).Nodup := by
  simp only [List.map_append, List.map_cons, List.map_nil]
  rw [List.nodup_append]
  refine ⟨h, by simp, ?_⟩
  intro a ha b hb
  simp at hb; subst hb
  simp only [List.mem_map] at ha
  obtain ⟨y, hy, rfl⟩ := ha
  exact hx y hy

/-! ### layer 1: call threads and the pending table -/

structure CInv (s : State) : Prop where
  call_lt : ∀ e t, (s.calls e t).pc ≠ .absent → t < s.nextCall e
  call_id : ∀ e t, (s.calls e t).pc ≠ .absent → (s.calls e t).id = t
  pend    : ∀ e k, s.pending e k = true → (s.calls e k).pc.waiting = true ∧ (s.calls e k).result = none
  res_pc  : ∀ e t, (s.calls e t).result ≠ none → (s.calls e t).pc.waiting = true ∨ (s.calls e t).pc = .returned
  ret_res : ∀ e t, (s.calls e t).pc = .returned → (s.calls e t).result ≠ none
  wait_pend : ∀ e t, (s.calls e t).pc.waiting = true → (s.calls e t).result = none → s.pending e t = true

theorem cinv_init : CInv init := by
  constructor <;> simp [init, CPc.waiting]

/-! ### layer 2: request frames, handler threads, the `served` map -/

structure RInv (s : State) : Prop where
  req_prov  : ∀ e f, f ∈ s.reqs e →
    (s.calls (peer e) f.call).pc.wrote = true ∧ (s.calls (peer e) f.call).fn = f.fn ∧
    (s.calls (peer e) f.call).args = f.args
  req_fresh : ∀ e f, f ∈ s.reqs e → s.served e f.call = false
  req_nodup : ∀ e, ((s.reqs e).map ReqFrame.call).Nodup
  h_prov    : ∀ e h, (s.handlers e h).pc ≠ .absent →
    s.served e (s.handlers e h).req.call = true ∧ s.servedBy e (s.handlers e h).req.call = h ∧
    (s.calls (peer e) (s.handlers e h).req.call).pc.wrote = true ∧
    (s.calls (peer e) (s.handlers e h).req.call).fn = (s.handlers e h).req.fn ∧
    (s.calls (peer e) (s.handlers e h).req.call).args = (s.handlers e h).req.args
  h_lt      : ∀ e h, (s.handlers e h).pc ≠ .absent → h < s.nextHandler e
  served_h  : ∀ e k, s.served e k = true →
    (s.handlers e (s.servedBy e k)).pc ≠ .absent ∧ (s.handlers e (s.servedBy e k)).req.call = k

theorem rinv_init : RInv init := by
  constructor <;> simp [init]

/-! ### layer 3: handler returns and the invocation log -/

/-- number of invocation records made by handler thread `h` of `e` -/
def invCount (l : List Invocation) (e : E) (h : Nat) : Nat :=
  l.countP fun r => decide (r.ep = e ∧ r.h = h)

/-- number of invocation records on endpoint `e` for call id `k` -/
def invCountCall (l : List Invocation) (e : E) (k : Nat) : Nat :=
  l.countP fun r => decide (r.ep = e ∧ r.call = k)

theorem invCount_nil (e : E) (h : Nat) : invCount [] e h = 0 := rfl

theorem invCount_append (l l' : List Invocation) (e : E) (h : Nat) :
    invCount (l ++ l') e h = invCount l e h + invCount l' e h := by
  simp [invCount, List.countP_append]

theorem invCount_mkInv (sk : Skeleton) (hf : sk.reqCallViaUtilsCall = true) (e e' : E) (h h' : Nat) (req : ReqFrame) :
    invCount (mkInv sk e h req) e' h' = if e' = e ∧ h' = h then 1 else 0 := by
  simp only [mkInv, hf, if_true, invCount, List.countP_cons, List.countP_nil]
  by_cases hc : e' = e ∧ h' = h
  · obtain ⟨rfl, rfl⟩ := hc; simp
  · simp only [hc, if_false]
    have : ¬ (e = e' ∧ h = h') := fun hh => hc ⟨hh.1.symm, hh.2.symm⟩
    simp [this]

theorem setRet_ep (e : E) (h : Nat) (v : Nat × Nat) (r : Invocation) : (setRet e h v r).ep = r.ep := by
  simp only [setRet]; split <;> rfl
theorem setRet_h (e : E) (h : Nat) (v : Nat × Nat) (r : Invocation) : (setRet e h v r).h = r.h := by
  simp only [setRet]; split <;> rfl
theorem setRet_call (e : E) (h : Nat) (v : Nat × Nat) (r : Invocation) : (setRet e h v r).call = r.call := by
  simp only [setRet]; split <;> rfl
theorem setRet_fn (e : E) (h : Nat) (v : Nat × Nat) (r : Invocation) : (setRet e h v r).fn = r.fn := by
  simp only [setRet]; split <;> rfl
theorem setRet_args (e : E) (h : Nat) (v : Nat × Nat) (r : Invocation) : (setRet e h v r).args = r.args := by
  simp only [setRet]; split <;> rfl
theorem setRet_ret (e : E) (h : Nat) (v : Nat × Nat) (r : Invocation) :
    (setRet e h v r).ret = if r.ep = e ∧ r.h = h then some v else r.ret := by
  simp only [setRet]; split <;> rfl

theorem invCount_map_setRet (l : List Invocation) (e e' : E) (h h' : Nat) (v : Nat × Nat) :
    invCount (l.map (setRet e h v)) e' h' = invCount l e' h' := by
  simp only [invCount, List.countP_map]
  congr 1
  funext r
  simp [setRet_ep, setRet_h]

theorem invCountCall_map_setRet (l : List Invocation) (e e' : E) (h k : Nat) (v : Nat × Nat) :
    invCountCall (l.map (setRet e h v)) e' k = invCountCall l e' k := by
  simp only [invCountCall, List.countP_map]
  congr 1
  funext r
  simp [setRet_ep, setRet_call]

theorem mem_map_setRet {l : List Invocation} {e : E} {h : Nat} {v : Nat × Nat} {r : Invocation}
    (hr : r ∈ l.map (setRet e h v)) : ∃ r0, r0 ∈ l ∧ r = setRet e h v r0 := by
  simp only [List.mem_map] at hr
  obtain ⟨r0, h0, rfl⟩ := hr
  exact ⟨r0, h0, rfl⟩

theorem mem_mkInv {sk : Skeleton} {e : E} {h : Nat} {req : ReqFrame} {r : Invocation}
    (hr : r ∈ mkInv sk e h req) :
    r = { ep := e, h := h, call := req.call, fn := req.fn, args := req.args, ret := none } := by
  simp only [mkInv] at hr
  split at hr <;> simp at hr <;> exact hr

theorem mem_append_mkInv {sk : Skeleton} {l : List Invocation} {e : E} {h : Nat} {req : ReqFrame} {r : Invocation}
    (hr : r ∈ l ++ mkInv sk e h req) :
    r ∈ l ∨ (r.ep = e ∧ r.h = h ∧ r.call = req.call ∧ r.fn = req.fn ∧ r.args = req.args ∧ r.ret = none) := by
  rw [List.mem_append] at hr
  rcases hr with hr | hr
  · exact Or.inl hr
  · have := mem_mkInv hr
    subst this
    exact Or.inr ⟨rfl, rfl, rfl, rfl, rfl, rfl⟩

structure VInv (s : State) : Prop where
  ret_some : ∀ e h, (s.handlers e h).pc = .returned ∨ (s.handlers e h).pc = .finished → (s.handlers e h).ret ≠ none
  ret_none : ∀ e h, (s.handlers e h).pc ≠ .returned → (s.handlers e h).pc ≠ .finished → (s.handlers e h).ret = none
  inv_h    : ∀ r, r ∈ s.invocations →
    (s.handlers r.ep r.h).pc.entered = true ∧ r.call = (s.handlers r.ep r.h).req.call ∧
    r.fn = (s.handlers r.ep r.h).req.fn ∧ r.args = (s.handlers r.ep r.h).req.args ∧
    r.ret = (s.handlers r.ep r.h).ret
  inv_cnt  : ∀ e h, invCount s.invocations e h = if (s.handlers e h).pc.entered = true then 1 else 0

theorem vinv_init : VInv init := by
  constructor <;> simp [init, invCount, HPc.entered]

/-! ### layer 4: response frames, publishers, results, the delivery log -/

/-- the response frame a publisher carries -/
def Pub.frame : Pub → Option ResFrame
  | .absent => none
  | .pending f => some f
  | .done f _ => some f

/-- every response frame in flight was built by the handler thread of the request with that id,
    from that handler's return -/
def ResProv (s : State) : Prop :=
  ∀ e f, f ∈ s.ress e → s.served (peer e) f.call = true ∧
    (s.handlers (peer e) (s.servedBy (peer e) f.call)).pc = .finished ∧
    (s.handlers (peer e) (s.servedBy (peer e) f.call)).ret = some (f.value, f.err)

/-- … and so was every response frame a publisher carries or carried -/
def PubProv (s : State) : Prop :=
  ∀ e p f, (s.pubs e p).frame = some f → s.served (peer e) f.call = true ∧
    (s.handlers (peer e) (s.servedBy (peer e) f.call)).pc = .finished ∧
    (s.handlers (peer e) (s.servedBy (peer e) f.call)).ret = some (f.value, f.err)

def PubLt (s : State) : Prop :=
  ∀ e p, s.pubs e p ≠ .absent → p < s.nextPub e

/-- the result a call's waiter was handed is the return of the handler thread of its request -/
def ResultProv (s : State) : Prop :=
  ∀ e t r, (s.calls e t).result = some r → s.served (peer e) t = true ∧
    (s.handlers (peer e) (s.servedBy (peer e) t)).pc = .finished ∧
    (s.handlers (peer e) (s.servedBy (peer e) t)).ret = some r

def Deliv (s : State) : Prop :=
  ∀ d, d ∈ s.deliveries → d.frameCall = d.waiterId ∧ d.waiterId = d.waiter

structure SInv (s : State) : Prop where
  res_prov    : ResProv s
  pub_prov    : PubProv s
  pub_lt      : PubLt s
  result_prov : ResultProv s
  deliv       : Deliv s

theorem sinv_init : SInv init := by
  constructor <;> simp [init, Pub.frame, ResProv, PubProv, PubLt, ResultProv, Deliv]

/-! ### layer 5: neither loop is ever inside a handler or a Publish -/

structure LInv (s : State) : Prop where
  req_free : ∀ e, s.reqLoopBusy e = none
  res_free : ∀ e, s.resLoopBusy e = none

theorem linv_init : LInv init := by
  constructor <;> simp [init]

end Panrpc.Sys
