/-
  Lemmas/SystemRes.lean — M3: preservation of the response-frame / publisher / result invariant,
  one lemma per clause (each uses only the hypotheses it needs: keeps `grind` fast).
-/
import Panrpc.Lemmas.System

namespace Panrpc.Sys

local macro "step_cases" hs:ident a:ident : tactic => `(tactic| (
  cases $a:ident <;> simp only [step, startCall] at $hs:ident
  all_goals (repeat' split at $hs:ident) <;> (try simp at $hs:ident) <;> (try subst $hs)))

theorem res_prov_step (sk : Skeleton) (hf : Facts sk) {s s' : State} (a : Act)
    (hr : RInv s) (h : SInv s) (hs : step sk s a = some s') : ResProv s' := by
  obtain ⟨-, r1', -, r3, r4, -⟩ := hr
  obtain ⟨h1, -, -, -, -⟩ := h
  obtain ⟨-, -, -, -, -, f5, f6, -, -⟩ := hf
  simp only [ResProv] at h1 ⊢
  step_cases hs a
  all_goals first | assumption | (intros; grind [upd2_apply, updE_apply, mkRes, mem_of_mem_eraseIdx'])

theorem pub_prov_step (sk : Skeleton) (hf : Facts sk) {s s' : State} (a : Act)
    (hr : RInv s) (h : SInv s) (hs : step sk s a = some s') : PubProv s' := by
  obtain ⟨-, r1', -, r3, r4, -⟩ := hr
  obtain ⟨h1, h2, -, -, -⟩ := h
  obtain ⟨-, -, -, -, -, f5, f6, -, -⟩ := hf
  simp only [ResProv, PubProv] at h1 h2 ⊢
  step_cases hs a
  all_goals first | assumption | (intros; grind [upd2_apply, updE_apply, Pub.frame, mem_of_getElem?'])

theorem pub_lt_step (sk : Skeleton) {s s' : State} (a : Act)
    (h : SInv s) (hs : step sk s a = some s') : PubLt s' := by
  obtain ⟨-, -, h3, -, -⟩ := h
  simp only [PubLt] at h3 ⊢
  step_cases hs a
  all_goals first | assumption | (intros; grind [upd2_apply, updE_apply])

theorem result_prov_publish (sk : Skeleton) (hf : Facts sk) {s s' : State} (e : E) (p : Nat) (t : Nat)
    (hc : CInv s) (h : SInv s) (hs : step sk s (.publish e p t) = some s') : ResultProv s' := by
  obtain ⟨-, c2, -, -, -, -⟩ := hc
  obtain ⟨-, h2, -, h4, -⟩ := h
  obtain ⟨-, -, -, -, -, -, -, f7, f8⟩ := hf
  simp only [ResultProv, PubProv] at h2 h4 ⊢
  simp only [step] at hs
  split at hs
  · rename_i f hp
    split at hs
    · rename_i hg
      obtain ⟨-, hid, hw, -⟩ := hg
      simp only [Option.some.injEq] at hs
      subst hs
      intro e1 t1 r hres
      dsimp only at hres ⊢
      by_cases hx : e1 = e ∧ t1 = t
      · obtain ⟨rfl, rfl⟩ := hx
        simp only [upd2_same, Option.some.injEq] at hres
        subst hres
        have hne : (s.calls e1 t1).pc ≠ .absent := by
          intro h0; rw [h0] at hw; simp [CPc.waiting] at hw
        have hid' := c2 e1 t1 hne
        have hk : f.call = t1 := by
          rw [hid'] at hid; simp only [pubKey, f7, if_true] at hid; exact hid.symm
        have := h2 e1 p f (by rw [hp]; rfl)
        simp only [pubVal, f8, if_true]
        rw [← hk]; exact this
      · have hu : upd2 s.calls e t
            { pc := (s.calls e t).pc, id := (s.calls e t).id, fn := (s.calls e t).fn,
              args := (s.calls e t).args, parent := (s.calls e t).parent,
              result := some (pubVal sk f, f.err) } e1 t1 = s.calls e1 t1 := by
          simp only [upd2_apply, hx, if_false]
        rw [hu] at hres
        exact h4 e1 t1 r hres
    · simp at hs
  · simp at hs
theorem result_prov_step (sk : Skeleton) (hf : Facts sk) {s s' : State} (a : Act)
    (hc : CInv s) (hr : RInv s) (h : SInv s) (hs : step sk s a = some s') : ResultProv s' := by
  by_cases hpub : ∃ e p t, a = .publish e p t
  · obtain ⟨e, p, t, rfl⟩ := hpub
    exact result_prov_publish sk hf e p t hc h hs
  obtain ⟨c1, c2, -, c4, -, -⟩ := hc
  obtain ⟨-, r1', -, r3, r4, -⟩ := hr
  obtain ⟨-, h2, -, h4, -⟩ := h
  obtain ⟨f1, -, -, -, -, f5, f6, f7, f8⟩ := hf
  simp only [ResultProv, PubProv] at h2 h4 ⊢
  cases a
  case publish e p t => exact absurd ⟨e, p, t, rfl⟩ hpub
  all_goals clear hpub
  all_goals simp only [step, startCall] at hs
  all_goals (repeat' split at hs) <;> (try simp at hs) <;> (try subst hs)
  all_goals first | assumption | (intros; grind [upd2_apply, updE_apply, CPc.waiting])

theorem deliv_step (sk : Skeleton) (hf : Facts sk) {s s' : State} (a : Act)
    (hc : CInv s) (h : SInv s) (hs : step sk s a = some s') : Deliv s' := by
  obtain ⟨-, c2, -, -, -, -⟩ := hc
  obtain ⟨-, -, -, -, h5⟩ := h
  obtain ⟨-, -, -, -, -, -, -, f7, -⟩ := hf
  simp only [Deliv] at h5 ⊢
  step_cases hs a
  all_goals first | assumption | (intros; grind [pubKey, CPc.waiting])

theorem sinv_step (sk : Skeleton) (hf : Facts sk) {s s' : State} (a : Act)
    (hc : CInv s) (hr : RInv s) (h : SInv s) (hs : step sk s a = some s') : SInv s' :=
  ⟨res_prov_step sk hf a hr h hs, pub_prov_step sk hf a hr h hs, pub_lt_step sk a h hs,
   result_prov_step sk hf a hc hr h hs, deliv_step sk hf a hc h hs⟩

end Panrpc.Sys
