/-
  Lemmas/Endpoint.lean — the projection of M2 onto M1: every M2 step leaves the embedded
  broadcaster alone or is exactly one `Bc.step`; hence every reachable M2 state embeds a
  reachable M1 state and inherits M1's invariants (WF, NC, WK, DL) without redoing them.
-/
import Panrpc.Model.Endpoint
import Panrpc.Lemmas.BcWake
import Panrpc.Lemmas.BcDeliv

namespace Panrpc.Ep
open Panrpc


/-- Source facts that M2 hard-wires into its shape (the order of the stub's program counters,
    which key / context / thread the embedded broadcaster is used with, which critical sections
    are atomic steps).  They are not hypotheses of a proof — no theorem could use them — but the
    model is a model of the source only while they hold: `cur_model_fits` (EndpointCurrent.lean)
    checks them against the regenerated skeleton, and every M2 property file imports it. -/
structure ModelFits (sk : Skeleton) : Prop where
  callIdFresh        : sk.stubCallIdFresh = true              -- call id = thread index
  recvKeyIsCallId    : sk.stubReceiveKeyIsCallId = true       -- `.receive c c x`
  recvCtxIsCallCtx   : sk.stubReceiveCtxIsCallCtx = true      -- … with the call's own context
  recvBeforeWrite    : sk.stubRecvBeforeWrite = true          -- marshalled → registered → … → written
  spawnBeforeWrite   : sk.stubWaiterSpawnedBeforeWrite = true
  errToCancelled     : sk.stubWaiterMapsErrToCancelled = true -- `fromFrame = none` ⇔ cancelled
  errFromResponse    : sk.stubErrResultFromResponse = true    -- error result nil iff `r.err = .none`
  fixesArity         : sk.stubFixesArity = true               -- recover path returns `(zero, e)`
  pubKeyIsResCall    : sk.respPublishKeyIsResCall = true      -- `respFrame p callId …` publishes on callId
  pubValueIsResValue : sk.respPublishValueIsResValue = true
  respErrIffNonBlank : sk.respErrIffTrimNonEmpty = true       -- `hasErr`
  closureIdFresh     : sk.clIdFresh = true
  closureLookupLocked : sk.clLookupUnderLock = true           -- `closureInvoke` is one step
  closureInsertLocked : sk.clInsertUnderLock = true
  closureDeleteLocked : sk.clDeleteUnderLock = true
  closureMissIsError : sk.clMissingIsError = true
  storeLocked        : sk.seStoreUnderLock = true             -- `setErrStore` is one step
  watcher            : sk.watcherCallsSetErr = true
  pubLookupLocked    : sk.bcPublishLooksUpUnderLock = true
  freeLocked         : sk.bcFreeUnderLock = true
  closeLocked        : sk.bcCloseUnderLock = true

/-! ### proof plumbing: the preservation proofs are split by groups of actions (each group is one
    declaration, so that no single declaration gets heavy) -/

inductive Grp where
  | g0 | g1 | g2 | g3 | g4 | g5
  deriving DecidableEq, Repr

def Act.grp : Act → Grp
  | .callStart .. | .callMarshalFail .. | .callSpawn .. | .callWrite .. | .callWriteFail ..
  | .callLinkCtx .. | .callReturnOk .. | .callRecover .. => .g0
  | .callReceive .. | .callTakeRes .. => .g1
  | .waiterRecvCall .. | .waiterGetsValue .. | .waiterSend .. => .g2
  | .waiterGetsDone .. | .waiterGetsCtx .. | .waiterFree .. => .g3
  | .respFrame .. | .pubLookup .. | .pubCtx .. | .pubSendClosed .. | .closureInvoke .. | .closureBodyDone ..
  | .ctxCancel .. | .ctxPropagate .. | .cancelLink => .g4
  | .setErrEnter .. | .setErrStore .. | .setErrClose .. | .watcher .. | .linkCheck | .linkWake | .linkReturn => .g5

theorem by_groups {P : Prop} (a : Act)
    (h0 : a.grp = .g0 → P) (h1 : a.grp = .g1 → P) (h2 : a.grp = .g2 → P)
    (h3 : a.grp = .g3 → P) (h4 : a.grp = .g4 → P) (h5 : a.grp = .g5 → P) : P := by
  cases hg : a.grp
  · exact h0 hg
  · exact h1 hg
  · exact h2 hg
  · exact h3 hg
  · exact h4 hg
  · exact h5 hg

/-- case split over the actions of one group and over the branches of `step` -/
macro "ep_group" a:ident hs:ident hg:ident : tactic => `(tactic| (
  cases $a:ident <;> (try (simp [Act.grp] at $hg:ident; done)) <;> simp only [step] at $hs:ident
  all_goals (repeat' split at $hs:ident) <;> (try simp at $hs:ident) <;> (try subst $hs:ident)))

/-- unfold the embedded M1 step of the current case (if any) into its branches -/
macro "bc_unfold" : tactic => `(tactic| (
  all_goals try (have hb := ‹Bc.step _ _ _ = some _›)
  all_goals try (simp only [Bc.step] at hb)
  all_goals try ((repeat' split at hb) <;> (try simp at hb) <;> (try subst hb))))

/-- Projection lemma. -/
theorem step_bc (sk : Skeleton) {s s' : State} (a : Act) (hs : step sk s a = some s') :
    s'.bc = s.bc ∨ ∃ b, Bc.step sk s.bc b = some s'.bc := by
  cases a <;> simp only [step] at hs
  all_goals (repeat' split at hs) <;> (try simp at hs) <;> (try subst hs)
  all_goals first
    | (left; rfl)
    | (right; exact ⟨_, by assumption⟩)

theorem reach_bc (sk : Skeleton) {s : State} (h : Reach sk s) : Bc.Reach sk s.bc := by
  induction h with
  | init => exact Bc.Reach.init
  | step a _ hs ih =>
    rcases step_bc sk a hs with h | ⟨b, hb⟩
    · rw [h]; exact ih
    · exact Bc.Reach.step b ih hb

/-! ### M1's invariants, for the embedded broadcaster -/

theorem bc_reach_wf (sk : Skeleton) {b : Bc.State} (h : Bc.Reach sk b) : Bc.WF b := by
  induction h with
  | init => exact Bc.wf_init
  | step a _ hs ih => exact Bc.wf_step sk a ih hs

theorem bc_reach_nc (sk : Skeleton) (hy : Bc.Hyg sk) (hn : Bc.NoChanClose sk) {b : Bc.State}
    (h : Bc.Reach sk b) : Bc.NC b := by
  induction h with
  | init => exact Bc.nc_init
  | step a hr hs ih => exact Bc.nc_step sk hy hn a (bc_reach_wf sk hr) ih hs

theorem bc_reach_wk (sk : Skeleton) (hy : Bc.Hyg sk) (hk : Bc.Wakes sk) {b : Bc.State}
    (h : Bc.Reach sk b) : Bc.WK b := by
  induction h with
  | init => exact Bc.wk_init
  | step a hr hs ih => exact Bc.wk_step sk hy hk a (bc_reach_wf sk hr) ih hs

theorem bc_reach_dl (sk : Skeleton) {b : Bc.State} (h : Bc.Reach sk b) : Bc.DL b := by
  induction h with
  | init => exact Bc.dl_init
  | step a hr hs ih => exact Bc.dl_step sk a (bc_reach_wf sk hr) ih hs

/-- the mutex is never held across Publish's select when the select runs after the unlock -/
theorem bc_lock_free (sk : Skeleton) (hsel : sk.bcPublishSelectOutsideLock = true) {b : Bc.State}
    (h : Bc.Reach sk b) : b.lockHolder = none := by
  induction h with
  | init => rfl
  | step a _ hs ih =>
    cases a <;> simp only [Bc.step] at hs
    all_goals (repeat' split at hs) <;> (try simp at hs) <;> (try subst hs) <;> (try simp_all)

theorem reach_wf (sk : Skeleton) {s : State} (h : Reach sk s) : Bc.WF s.bc := bc_reach_wf sk (reach_bc sk h)
theorem reach_nc (sk : Skeleton) (hy : Bc.Hyg sk) (hn : Bc.NoChanClose sk) {s : State} (h : Reach sk s) :
    Bc.NC s.bc := bc_reach_nc sk hy hn (reach_bc sk h)
theorem reach_wk (sk : Skeleton) (hy : Bc.Hyg sk) (hk : Bc.Wakes sk) {s : State} (h : Reach sk s) :
    Bc.WK s.bc := bc_reach_wk sk hy hk (reach_bc sk h)
theorem reach_dl (sk : Skeleton) {s : State} (h : Reach sk s) : Bc.DL s.bc := bc_reach_dl sk (reach_bc sk h)
theorem reach_lock_free (sk : Skeleton) (hsel : sk.bcPublishSelectOutsideLock = true) {s : State}
    (h : Reach sk s) : s.bc.lockHolder = none := bc_lock_free sk hsel (reach_bc sk h)

/-! ### the closure table's mutex -/

/-- `closuresLock` is held (between steps) only by a thread that is inside a closure body: the one
    step that keeps it is a hit of `closureInvoke`, and `closureBodyDone` of that thread releases it. -/
theorem cl_holder_runs_step (sk : Skeleton) {s s' : State} (a : Act) (hs : step sk s a = some s')
    (h : ∀ q, s.clLock = some q → s.running q ≠ none) : ∀ q, s'.clLock = some q → s'.running q ≠ none := by
  cases a <;> simp only [step] at hs
  all_goals (repeat' split at hs) <;> (try simp at hs) <;> (try subst hs)
  all_goals first
    | exact h
    | (intro q; grind [upd_apply])

theorem reach_cl_holder_runs (sk : Skeleton) {s : State} (h : Reach sk s) :
    ∀ q, s.clLock = some q → s.running q ≠ none := by
  induction h with
  | init => intro q hq; simp [init] at hq
  | step a _ hs ih => exact cl_holder_runs_step sk a hs ih

/-- when `CallClosure` unlocks before it calls the closure, the mutex is free between any two steps -/
theorem cl_free_step (sk : Skeleton) (ho : sk.clInvokeOutsideLock = true) {s s' : State} (a : Act)
    (hs : step sk s a = some s') (h : s.clLock = none) : s'.clLock = none := by
  cases a <;> simp only [step] at hs
  all_goals (repeat' split at hs) <;> (try simp at hs) <;> (try subst hs)
  all_goals first
    | exact h
    | simp_all

theorem reach_cl_free (sk : Skeleton) (ho : sk.clInvokeOutsideLock = true) {s : State}
    (h : Reach sk s) : s.clLock = none := by
  induction h with
  | init => rfl
  | step a _ hs ih => exact cl_free_step sk ho a hs ih

/-- M2's crash flag: false as long as the embedded broadcaster has not crashed and the stub recovers. -/
theorem crashed_step (sk : Skeleton) (hrec : sk.stubRecovers = true) {s s' : State} (a : Act)
    (hs : step sk s a = some s') : s'.crashed = false ∨ s'.crashed = s'.bc.crashed := by
  cases a <;> simp only [step] at hs
  all_goals (repeat' split at hs) <;> (try simp at hs) <;> (try subst hs)
  all_goals simp_all [store]

theorem reach_no_crash (sk : Skeleton) (hrec : sk.stubRecovers = true) (hy : Bc.Hyg sk)
    (hn : Bc.NoChanClose sk) {s : State} (h : Reach sk s) : s.crashed = false := by
  cases h with
  | init => rfl
  | step a hr hs =>
    have hnc := (reach_nc sk hy hn (Reach.step a hr hs)).nocrash
    rcases crashed_step sk hrec a hs with h | h
    · exact h
    · rw [h]; exact hnc

end Panrpc.Ep
