/-
  Lemmas/RegistryIso.lean — M4: frame lemmas (an action of one link does not touch another
  link's component, its table entries, or the enabledness / effect of its actions), the
  explicit teardown run of one link, and the finality of `unregistered`.
-/
import Panrpc.Lemmas.RegistryTab

namespace Panrpc.Rg

/-! ### frame -/

theorem isoT_remotes (w : Bool) {s s1 : State} {l l' : Nat} (op : Op) (hne : l' ≠ l)
    (hp : PcInv s) (hi : TabInv s) (hs : stepT w s ⟨l, op⟩ = some s1) (i : Nat) :
    s1.remotes i = some l' ↔ s.remotes i = some l' := by
  obtain ⟨h1, h2, h3, h4, h5⟩ := hi
  have hl := hp l
  cases op <;> simp only [stepT] at hs
  all_goals (repeat' split at hs) <;> (try simp at hs) <;> (try subst hs)
  all_goals (first | rfl | grind [upd_apply, Setup.live, PcOk])

/-- In a state meeting the table invariant, the entries a link owns are a function of that
    link's own component. -/
theorem owned_iff {s : State} (hi : TabInv s) (l i : Nat) :
    s.remotes i = some l ↔ ((s.links l).id = some i ∧ (s.links l).setup.live = true) :=
  ⟨fun h => hi.rem_owner i l h, fun h => hi.owner_rem l i h.1 h.2⟩

/-- Enabledness of an action of link `l'` and its effect on `l'`'s component are determined by
    `l'`'s component (and, for the fresh id only, by the id counter). -/
theorem stepT_local (w : Bool) (s s1 : State) (l' : Nat) (op : Op)
    (hk : s1.links l' = s.links l') (hn : op ≠ .setupRegister ∨ s1.nextId = s.nextId) :
    (stepT w s1 ⟨l', op⟩).map (fun t => t.links l') = (stepT w s ⟨l', op⟩).map (fun t => t.links l') := by
  cases op <;> simp only [stepT, hk]
  all_goals (repeat' split) <;> simp_all

theorem stepT_local_eraseId (w : Bool) (s s1 : State) (l' : Nat) (op : Op)
    (hk : s1.links l' = s.links l') :
    (stepT w s1 ⟨l', op⟩).map (fun t => (t.links l').eraseId) =
    (stepT w s ⟨l', op⟩).map (fun t => (t.links l').eraseId) := by
  cases op <;> simp only [stepT, hk]
  all_goals (repeat' split) <;> simp_all [Link.eraseId]

/-- only the registration step draws from the id counter -/
theorem stepT_nextId (w : Bool) {s s1 : State} {l : Nat} (op : Op) (hop : op ≠ .setupRegister)
    (hs : stepT w s ⟨l, op⟩ = some s1) : s1.nextId = s.nextId := by
  cases op <;> simp only [stepT] at hs
  all_goals (repeat' split at hs) <;> (try simp at hs) <;> (try subst hs)
  all_goals (first | rfl | exact absurd rfl hop)

/-! ### teardown -/

theorem teardownRun_own (k : Link) (l : Nat) : ∀ a, a ∈ teardownRun k l → a.link = l := by
  intro a ha
  simp only [teardownRun, List.mem_append] at ha
  grind

theorem teardownRun_length (k : Link) (l : Nat) : (teardownRun k l).length ≤ 6 := by
  simp only [teardownRun, List.length_append]
  grind

theorem teardownRun_length_registered (k : Link) (l : Nat) (h : k.setup ≠ .started) :
    (teardownRun k l).length ≤ 5 := by
  simp only [teardownRun, List.length_append]
  grind

theorem teardownT (w : Bool) (s : State) (l : Nat) (hp : PcOk (s.links l))
    (hr : (s.links l).readsFail = true)
    (hs : (s.links l).setup = .started ∨ (s.links l).setup = .registered ∨
          (s.links l).setup = .waiting ∨ (s.links l).setup = .loopsDone) :
    (runFrom (stepT w) s (teardownRun (s.links l) l)).map (fun t => (t.links l).pcs) =
      some (.unregistered, .exited, .exited) := by
  obtain ⟨p1, p2, p3, p4, p5, p6⟩ := hp
  rcases hs with hs | hs | hs | hs
  · obtain ⟨e1, e2, e3⟩ := p4 (Or.inr (Or.inl hs))
    simp [teardownRun, runFrom, stepT, hs, e1, e2, hr, Link.pcs, Link.fail]
  · obtain ⟨e1, e2, e3⟩ := p4 (Or.inr (Or.inr hs))
    have hid : (s.links l).id ≠ none := by rw [Ne, p1]; simp [hs]
    cases hid' : (s.links l).id with
    | none => exact absurd hid' hid
    | some i => simp [teardownRun, runFrom, stepT, hs, e1, e2, hr, hid', Link.pcs, Link.fail]
  · obtain ⟨e1, e2⟩ := p6 hs
    have hid : (s.links l).id ≠ none := by rw [Ne, p1]; simp [hs]
    cases hid' : (s.links l).id with
    | none => exact absurd hid' hid
    | some i =>
      cases hq : (s.links l).reqLoop <;> cases hq' : (s.links l).respLoop <;>
        simp_all [teardownRun, runFrom, stepT, Link.pcs, Link.fail]
  · obtain ⟨e1, e2⟩ := p5 (Or.inl hs)
    have hid : (s.links l).id ≠ none := by rw [Ne, p1]; simp [hs]
    cases hid' : (s.links l).id with
    | none => exact absurd hid' hid
    | some i => simp [teardownRun, runFrom, stepT, hs, e1, e2, hid', Link.pcs]

/-! ### `unregistered` is final -/

theorem unregisteredT_final (w : Bool) {s s' : State} (a : Act) (l : Nat)
    (hu : (s.links l).setup = .unregistered) (hs : stepT w s a = some s') :
    (s'.links l).setup = .unregistered := by
  obtain ⟨j, op⟩ := a
  cases op <;> simp only [stepT] at hs
  all_goals (repeat' split at hs) <;> (try simp at hs) <;> (try subst hs)
  all_goals (first | exact hu | grind [upd_apply, Link.fail])

/-! ### the `remoteID` of a link never changes once assigned -/

theorem idT_stable (w : Bool) {s s' : State} (a : Act) (l i : Nat) (hp : PcOk (s.links l))
    (hid : (s.links l).id = some i) (hs : stepT w s a = some s') : (s'.links l).id = some i := by
  obtain ⟨j, op⟩ := a
  obtain ⟨p1, p2, p3, p4, p5, p6⟩ := hp
  cases op <;> simp only [stepT] at hs
  all_goals (repeat' split at hs) <;> (try simp at hs) <;> (try subst hs)
  all_goals (first | exact hid | grind [upd_apply, Link.fail])

end Panrpc.Rg
