/-
  Lemmas/EndpointProgressP.lean — a `Publish` goroutine inside its select (C05):
  when it has no enabled step (`PQuiet`), and which steps can end that wait (`wakesPub`).
-/
import Panrpc.Lemmas.EndpointThreads
namespace Panrpc.Ep
open Panrpc

/-! ### a publisher inside `Publish`'s select without an enabled step -/

structure PQuiet (s : State) (p k v g : Nat) : Prop where
  hold   : s.bc.pubs p = .holding k v g
  ctx    : (s.bc.entries g).map Bc.Entry.ctxDone = some false       -- the entry context is not done
  norcv  : ∀ c k' x, s.waiters c = .recv → s.bc.rcvs c ≠ .waiting k' g x   -- nobody stands at the channel

theorem pq_of_blocked (sk : Skeleton) (hp : Prog sk) {s : State} (hr : Reach sk s) (p k v g : Nat)
    (hpb : s.bc.pubs p = .holding k v g) (hb : ¬ CanStep sk s (.pub p)) : PQuiet s p k v g := by
  obtain ⟨hc, hbc, _⟩ := alive sk hp.lv hr
  have he := (reach_wf sk hr).pub_entry p k v g hpb
  refine ⟨hpb, ?_, ?_⟩
  · cases hent : s.bc.entries g with
    | none => simp [hent] at he
    | some e =>
      cases hd : e.ctxDone with
      | false => simp [hd]
      | true =>
        exact absurd (canStep_of sk (.pubCtx p) (by simp [actThreads])
          (by simp [step, Bc.step, hc, hbc, hpb, hent, hd, hp.selEntry])) hb
  · intro c k' x hw hrc
    have hk' : k' = c := (reach_lk sk hr).key c k' g (by simp [hrc, Bc.Rcv.binding])
    subst hk'
    obtain ⟨s1, h1⟩ := rendezvous_same_gen sk hp hr k' p k v g x hw hrc hpb
    exact hb (canStep_of sk (.waiterGetsValue k' p) (by simp [actThreads]) (by simp [h1]))

theorem pq_blocked (sk : Skeleton) (hp : Prog sk) {s : State} (hr : Reach sk s) (p k v g : Nat)
    (hq : PQuiet s p k v g) : ¬ CanStep sk s (.pub p) := by
  obtain ⟨hpb, hx, hnr⟩ := hq
  have hnc := reach_nc sk hp.lv.hyg hp.lv.nochan hr
  rintro ⟨a, hm, hs⟩
  cases hent : s.bc.entries g with
  | none => simp [hent] at hx
  | some e =>
    simp [hent] at hx
    have hch := hnc.nochan g e hent
    cases a <;> simp [actThreads] at hm <;> subst hm
    · rename_i c
      simp only [step, Bc.step, hpb] at hs
      by_cases hw : s.waiters c = .recv
      · cases hrc : s.bc.rcvs c with
        | waiting k' g' x =>
          by_cases hg : g = g'
          · subst hg; exact hnr c k' x hw hrc
          · cases hent' : s.bc.entries g' <;> simp [hrc, hent', hg] at hs
        | _ => simp [hrc] at hs
      · simp [hw] at hs
    · simp [step, Bc.step, hpb] at hs
    · simp [step, Bc.step, hpb, hent, hx] at hs
    · simp [step, Bc.step, hpb, hent, hch] at hs

/-- the steps that can end the quiet wait of a publisher of call id `k`: call `k`'s waiter enters
    its select or frees the entry, `setErr` closes the table (the link ends), the `context`
    package hands on the cancellation of the call's context -/
def wakesPub (k : Nat) : Act → Bool
  | .waiterRecvCall c => c == k
  | .waiterFree c => c == k
  | .setErrClose _ => true
  | .ctxPropagate _ => true
  | _ => false

macro "pq_tac" a:ident hs:ident hg:ident : tactic => `(tactic| (
  ep_group $a:ident $hs:ident $hg:ident
  bc_unfold
  all_goals first
    | exact ⟨q1, q2, q3⟩
    | (refine ⟨?_, ?_, ?_⟩ <;> intros <;>
        grind [upd_apply, wakesPub, actThreads, Bc.Rcv.binding, Bc.freeEntry])))

section
variable (sk : Skeleton) {s s' : State} (a : Act) (p k v g : Nat) (hl : LK s) (hw : Bc.WF s.bc)
  (hq : PQuiet s p k v g) (hown : Thread.pub p ∉ actThreads a) (hn : wakesPub k a = false)
include hl hw hq hown hn

theorem pq_g0 (hg : a.grp = .g0) (hs : step sk s a = some s') : PQuiet s' p k v g := by
  obtain ⟨l1, l2, l3, l4, l5, l6, l7, l8⟩ := hl; obtain ⟨w1, w2, w3, w4, w5, w6, w7⟩ := hw
  obtain ⟨q1, q2, q3⟩ := hq
  pq_tac a hs hg
theorem pq_g1 (hg : a.grp = .g1) (hs : step sk s a = some s') : PQuiet s' p k v g := by
  obtain ⟨l1, l2, l3, l4, l5, l6, l7, l8⟩ := hl; obtain ⟨w1, w2, w3, w4, w5, w6, w7⟩ := hw
  obtain ⟨q1, q2, q3⟩ := hq
  pq_tac a hs hg
theorem pq_g2 (hg : a.grp = .g2) (hs : step sk s a = some s') : PQuiet s' p k v g := by
  obtain ⟨l1, l2, l3, l4, l5, l6, l7, l8⟩ := hl; obtain ⟨w1, w2, w3, w4, w5, w6, w7⟩ := hw
  obtain ⟨q1, q2, q3⟩ := hq
  pq_tac a hs hg
theorem pq_g3 (hg : a.grp = .g3) (hs : step sk s a = some s') : PQuiet s' p k v g := by
  obtain ⟨l1, l2, l3, l4, l5, l6, l7, l8⟩ := hl; obtain ⟨w1, w2, w3, w4, w5, w6, w7⟩ := hw
  obtain ⟨q1, q2, q3⟩ := hq
  pq_tac a hs hg
theorem pq_g4 (hg : a.grp = .g4) (hs : step sk s a = some s') : PQuiet s' p k v g := by
  obtain ⟨l1, l2, l3, l4, l5, l6, l7, l8⟩ := hl; obtain ⟨w1, w2, w3, w4, w5, w6, w7⟩ := hw
  obtain ⟨q1, q2, q3⟩ := hq
  pq_tac a hs hg
theorem pq_g5 (hg : a.grp = .g5) (hs : step sk s a = some s') : PQuiet s' p k v g := by
  obtain ⟨l1, l2, l3, l4, l5, l6, l7, l8⟩ := hl; obtain ⟨w1, w2, w3, w4, w5, w6, w7⟩ := hw
  obtain ⟨q1, q2, q3⟩ := hq
  pq_tac a hs hg

/-- no other step ends the quiet wait -/
theorem pq_step (hs : step sk s a = some s') : PQuiet s' p k v g :=
  by_groups a (pq_g0 sk a p k v g hl hw hq hown hn · hs) (pq_g1 sk a p k v g hl hw hq hown hn · hs)
    (pq_g2 sk a p k v g hl hw hq hown hn · hs) (pq_g3 sk a p k v g hl hw hq hown hn · hs)
    (pq_g4 sk a p k v g hl hw hq hown hn · hs) (pq_g5 sk a p k v g hl hw hq hown hn · hs)
end

end Panrpc.Ep
