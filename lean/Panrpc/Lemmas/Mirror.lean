/-
  Lemmas/Mirror.lean — the local object that MIRRORS a remote definition, for the composition of
  P2 (Model/RemoteDef.lean: which stubs `Link` installs, and the function string each sends)
  with P0/P1 (Model/Reflect.lean, Model/Lookup.lean: what a function string resolves to).

  `mirror fs : TypeTable × Val` — for a remote struct type with fields `fs`:
    * every nested struct field `N struct{…}` becomes a by-value, non-embedded struct field `N`
      (exported iff the remote one is) whose type is a table row of its own;
    * every func field `F func(ctx, a…) (…, error)` at path `P` becomes a method `F` (exported iff
      the field is, same parameter count) in the method set of the struct at `P`;
    * other fields are dropped (the walk ignores them);
    * struct nodes are numbered in pre-order: node `k` has table row `k` and IS object `k`
      (`mirror_insts`: the identities are `0, 1, …`, pairwise distinct).
  (Every nested struct gets a row of its own even if two are structurally equal; no field is
  embedded, so reflect's promotion rules — the only place where type identity matters in P0 — do
  not come into play.)

  Proved here, for every `fs` whose sibling names are distinct at every level (`WFDef`):
    `mirror_wf`       the mirror is a well-formed shape (`Lk.WFShape`, the hypothesis of C07);
    `mirror_exposed`  a path `P` of exported struct fields ending at the exported func field `F`
                      (`HasFunc`) is an exposed path of the mirror (`Lk.ExposedG true`), bound to
                      the object at `P` (`instAt`);
    `funcs_hasFunc`   the settable func fields of the flattened type (`Rw.funcs`) are such paths;
    `splitOnDot_agree` the two models' `strings.Split(·, ".")` are the same function.
  The property theorem is `Compose.C18_naming_agrees_with_lookup` (Props/Compose.lean).
-/
import Panrpc.Lemmas.RemoteDef
import Panrpc.Lemmas.Lookup

namespace Panrpc.Compose
open Rw (Field Sig)
open Lk (TypeTable TypeDecl FieldDecl MethodDecl Val)

/-- the name of a field of the remote struct type -/
def fname : Field → String
  | .func n _ _ => n
  | .struct n _ _ => n
  | .other n _ => n

mutual
/-- number of struct nodes in (the mirror of) a field / a field list -/
def size : Field → Nat
  | .struct _ _ sub => 1 + sizeL sub
  | _ => 0
def sizeL : List Field → Nat
  | [] => 0
  | f :: fs => size f + sizeL fs
end

/-- a func field `F func(ctx, a…) (…, error)` is mirrored by the method `F(ctx, a…) (…, error)` -/
def methF : Field → List MethodDecl
  | .func n ex sig => [⟨n, ex, sig.numIn⟩]
  | _ => []

def meths (fs : List Field) : List MethodDecl := fs.flatMap methF

/-- a nested struct field is mirrored by a by-value struct field of the same name (not embedded)
    whose type is the table row `b` -/
def declF (b : Nat) : Field → List FieldDecl
  | .struct n ex _ => [⟨n, ex, false, b⟩]
  | _ => []

def decls (b : Nat) : List Field → List FieldDecl
  | [] => []
  | f :: fs => declF b f ++ decls (b + size f) fs

mutual
/-- the table rows of the struct nodes of a field, in pre-order, the first one at index `b` -/
def rowsF (b : Nat) : Field → List TypeDecl
  | .struct _ _ sub => .struct (decls (b + 1) sub) (meths sub) :: rowsL (b + 1) sub
  | .func _ _ _ => []
  | .other _ _ => []
def rowsL (b : Nat) : List Field → List TypeDecl
  | [] => []
  | f :: fs => rowsF b f ++ rowsL (b + size f) fs
end

mutual
/-- the value tree: the struct node whose row is `b` is the object with identity `b` -/
def valsF (b : Nat) : Field → List Val
  | .struct _ _ sub => [.struct b b (valsL (b + 1) sub)]
  | .func _ _ _ => []
  | .other _ _ => []
def valsL (b : Nat) : List Field → List Val
  | [] => []
  | f :: fs => valsF b f ++ valsL (b + size f) fs
end

/-- The local object that mirrors remote definition `fs`: type table and root value. -/
def mirror (fs : List Field) : TypeTable × Val :=
  (.struct (decls 1 fs) (meths fs) :: rowsL 1 fs, .struct 0 0 (valsL 1 fs))

/-- the struct field named `m` of a field list whose first struct node has index `b` -/
def findStruct (b : Nat) : List Field → String → Option (Nat × List Field)
  | [], _ => none
  | .struct n _ sub :: fs, m => if n = m then some (b, sub) else findStruct (b + 1 + sizeL sub) fs m
  | .func _ _ _ :: fs, m => findStruct b fs m
  | .other _ _ :: fs, m => findStruct b fs m

/-- identity of the (sub-)object of the mirror at nested path `P` below the node `c` -/
def instAt (c : Nat) (fs : List Field) : List String → Option Nat
  | [] => some c
  | n :: P =>
    match findStruct (c + 1) fs n with
    | some (c', sub) => instAt c' sub P
    | none => none



/-! ### the table rows lie where the indices say -/

mutual
theorem rowsF_length : ∀ (f : Field) (b : Nat), (rowsF b f).length = size f
  | .struct _ _ sub, b => by simp [rowsF, size, rowsL_length sub (b + 1)]; omega
  | .func _ _ _, _ => by simp [rowsF, size]
  | .other _ _, _ => by simp [rowsF, size]
theorem rowsL_length : ∀ (fs : List Field) (b : Nat), (rowsL b fs).length = sizeL fs
  | [], _ => by simp [rowsL, sizeL]
  | f :: fs, b => by simp [rowsL, sizeL, rowsF_length f b, rowsL_length fs (b + size f)]
end

/-- the rows `rs` occupy the indices `b, b+1, …` of table `tt` -/
def At (tt : TypeTable) (b : Nat) (rs : List TypeDecl) : Prop :=
  ∃ pre post, tt = pre ++ rs ++ post ∧ pre.length = b

theorem At.append {tt : TypeTable} {b : Nat} {r1 r2 : List TypeDecl} (h : At tt b (r1 ++ r2)) :
    At tt b r1 ∧ At tt (b + r1.length) r2 := by
  obtain ⟨pre, post, rfl, hl⟩ := h
  exact ⟨⟨pre, r2 ++ post, by simp, hl⟩, ⟨pre ++ r1, post, by simp, by simp [hl]⟩⟩

theorem At.cons {tt : TypeTable} {b : Nat} {x : TypeDecl} {r : List TypeDecl} (h : At tt b (x :: r)) :
    tt[b]? = some x ∧ At tt (b + 1) r := by
  obtain ⟨pre, post, rfl, hl⟩ := h
  refine ⟨?_, ⟨pre ++ [x], post, by simp, by simp [hl]⟩⟩
  subst hl
  simp

/-- the struct field `n` of a mirrored field list: its declaration, its value, its table row, the
    rows of its own fields — all at the same position / index -/
theorem find_struct (tt : TypeTable) (n : String) (ex : Bool) (sub : List Field) :
    ∀ (fs : List Field) (b : Nat), At tt b (rowsL b fs) → (fs.map fname).Nodup → Field.struct n ex sub ∈ fs →
      ∃ (i c : Nat), (decls b fs)[i]? = some (FieldDecl.mk n ex false c) ∧
        (valsL b fs)[i]? = some (Val.struct c c (valsL (c + 1) sub)) ∧
        tt[c]? = some (.struct (decls (c + 1) sub) (meths sub)) ∧ At tt (c + 1) (rowsL (c + 1) sub) ∧
        findStruct b fs n = some (c, sub) := by
  intro fs
  induction fs with
  | nil => intro b _ _ hm; simp at hm
  | cons f fs ih =>
    intro b hat hnd hm
    simp only [List.map_cons, List.nodup_cons] at hnd
    simp only [rowsL] at hat
    obtain ⟨hat1, hat2⟩ := hat.append
    rw [rowsF_length] at hat2
    rcases List.mem_cons.mp hm with rfl | hm
    · simp only [rowsF] at hat1
      obtain ⟨h1, h2⟩ := hat1.cons
      exact ⟨0, b, by simp [decls, declF], by simp [valsL, valsF], h1, h2, by simp [findStruct]⟩
    · obtain ⟨i, c, h1, h2, h3, h4, h5⟩ := ih (b + size f) hat2 hnd.2 hm
      have hne : fname f ≠ n := by
        intro h0
        apply hnd.1
        rw [h0]
        exact List.mem_map.mpr ⟨_, hm, rfl⟩
      cases f with
      | struct n' ex' sub' =>
        refine ⟨i + 1, c, by simpa [decls, declF] using h1, by simpa [valsL, valsF] using h2, h3, h4, ?_⟩
        have hne' : n' ≠ n := hne
        simp only [findStruct, hne', if_false]
        simp only [size] at h5
        rw [← h5]; congr 1; omega
      | func n' ex' sg =>
        simp only [size, Nat.add_zero] at h1 h2 h5
        exact ⟨i, c, by simpa [decls, declF, size] using h1, by simpa [valsL, valsF, size] using h2, h3, h4,
          by simpa [findStruct] using h5⟩
      | other n' ex' =>
        simp only [size, Nat.add_zero] at h1 h2 h5
        exact ⟨i, c, by simpa [decls, declF, size] using h1, by simpa [valsL, valsF, size] using h2, h3, h4,
          by simpa [findStruct] using h5⟩

/-! ### the mirror is a well-formed shape -/

mutual
def wfDefF : Field → Bool
  | .struct _ _ sub => decide ((sub.map fname).Nodup) && wfDefL sub
  | .func _ _ _ => true
  | .other _ _ => true
def wfDefL : List Field → Bool
  | [] => true
  | f :: fs => wfDefF f && wfDefL fs
end

/-- Sibling field names are distinct, at every nesting level (true of every Go struct type that
    does not have several blank `_` fields; the modelling assumption of Model/RemoteDef.lean). -/
def WFDef (fs : List Field) : Prop := (fs.map fname).Nodup ∧ wfDefL fs = true

instance (fs : List Field) : Decidable (WFDef fs) := by unfold WFDef; infer_instance

theorem wfDef_mem : ∀ (fs : List Field) (n : String) (ex : Bool) (sub : List Field),
    wfDefL fs = true → Field.struct n ex sub ∈ fs → WFDef sub := by
  intro fs
  induction fs with
  | nil => intro n ex sub _ hm; simp at hm
  | cons f fs ih =>
    intro n ex sub hw hm
    simp only [wfDefL, Bool.and_eq_true] at hw
    rcases List.mem_cons.mp hm with rfl | hm
    · simpa [wfDefF, WFDef] using hw.1
    · exact ih n ex sub hw.2 hm

theorem decls_names : ∀ (fs : List Field) (b : Nat), ((decls b fs).map (·.name)).Sublist (fs.map fname) := by
  intro fs
  induction fs with
  | nil => intro b; simp [decls]
  | cons f fs ih =>
    intro b
    cases f with
    | struct n ex sub => simpa [decls, declF, fname] using (ih (b + size (Field.struct n ex sub))).cons_cons n
    | func n ex sg => simpa [decls, declF, fname] using (ih (b + size (Field.func n ex sg))).cons n
    | other n ex => simpa [decls, declF, fname] using (ih (b + size (Field.other n ex))).cons n

theorem meths_names : ∀ (fs : List Field), ((meths fs).map (·.name)).Sublist (fs.map fname) := by
  intro fs
  induction fs with
  | nil => simp [meths]
  | cons f fs ih =>
    simp only [meths, List.flatMap_cons] at ih ⊢
    cases f with
    | struct n ex sub => simpa [methF, fname] using ih.cons n
    | func n ex sg => simpa [methF, fname] using ih.cons_cons n
    | other n ex => simpa [methF, fname] using ih.cons n

/-- what `wfTable` asks of one row -/
def rowOK (d : TypeDecl) : Bool :=
  decide ((Lk.declFields d).map (·.name)).Nodup && decide ((Lk.allMethods d).map (·.name)).Nodup

theorem rowOK_struct (sub : List Field) (b : Nat) (h : (sub.map fname).Nodup) :
    rowOK (.struct (decls b sub) (meths sub)) = true := by
  simp only [rowOK, Lk.declFields, Lk.allMethods, Bool.and_eq_true]
  exact ⟨decide_eq_true ((decls_names sub b).nodup h), decide_eq_true ((meths_names sub).nodup h)⟩

mutual
theorem rowsF_ok : ∀ (f : Field) (b : Nat), wfDefF f = true → ∀ r, r ∈ rowsF b f → rowOK r = true
  | .struct _ _ sub, b, hw, r, hr => by
    simp only [wfDefF, Bool.and_eq_true, decide_eq_true_eq] at hw
    simp only [rowsF, List.mem_cons] at hr
    rcases hr with rfl | hr
    · exact rowOK_struct sub (b + 1) hw.1
    · exact rowsL_ok sub (b + 1) hw.2 r hr
  | .func _ _ _, _, _, r, hr => by simp [rowsF] at hr
  | .other _ _, _, _, r, hr => by simp [rowsF] at hr
theorem rowsL_ok : ∀ (fs : List Field) (b : Nat), wfDefL fs = true → ∀ r, r ∈ rowsL b fs → rowOK r = true
  | [], _, _, r, hr => by simp [rowsL] at hr
  | f :: fs, b, hw, r, hr => by
    simp only [wfDefL, Bool.and_eq_true] at hw
    simp only [rowsL, List.mem_append] at hr
    rcases hr with hr | hr
    · exact rowsF_ok f b hw.1 r hr
    · exact rowsL_ok fs (b + size f) hw.2 r hr
end

mutual
theorem valsF_wf (tt : TypeTable) : ∀ (f : Field) (b : Nat), At tt b (rowsF b f) →
    Lk.wfFields tt (declF b f) (valsF b f) = true
  | .struct _ _ sub, b, h => by
    simp only [rowsF] at h
    obtain ⟨h1, h2⟩ := h.cons
    have := valsL_wf tt sub (b + 1) h2
    simp [declF, valsF, Lk.wfFields, Lk.wfVal, Lk.Val.ty, h1, this]
  | .func _ _ _, _, _ => by simp [declF, valsF, Lk.wfFields]
  | .other _ _, _, _ => by simp [declF, valsF, Lk.wfFields]
theorem valsL_wf (tt : TypeTable) : ∀ (fs : List Field) (b : Nat), At tt b (rowsL b fs) →
    Lk.wfFields tt (decls b fs) (valsL b fs) = true
  | [], _, _ => by simp [decls, valsL, Lk.wfFields]
  | f :: fs, b, h => by
    simp only [rowsL] at h
    obtain ⟨h1, h2⟩ := h.append
    rw [rowsF_length] at h2
    have ih1 := valsF_wf tt f b h1
    have ih2 := valsL_wf tt fs (b + size f) h2
    cases f with
    | struct n ex sub =>
      simp only [declF, valsF, Lk.wfFields, Bool.and_true] at ih1
      simp [decls, valsL, declF, valsF, Lk.wfFields, ih1, ih2]
    | func n ex sg => simpa [decls, valsL, declF, valsF] using ih2
    | other n ex => simpa [decls, valsL, declF, valsF] using ih2
end

theorem mirror_at (fs : List Field) :
    (mirror fs).1[0]? = some (.struct (decls 1 fs) (meths fs)) ∧ At (mirror fs).1 1 (rowsL 1 fs) :=
  ⟨rfl, ⟨[.struct (decls 1 fs) (meths fs)], [], by simp [mirror], rfl⟩⟩

/-- the mirror of a remote definition with distinct sibling names is a well-formed shape -/
theorem mirror_wf (fs : List Field) (h : WFDef fs) : Lk.WFShape (mirror fs).1 (some (mirror fs).2) := by
  simp only [Lk.WFShape, Lk.wfShape, Bool.and_eq_true]
  refine ⟨?_, ?_⟩
  · simp only [Lk.wfTable, List.all_eq_true]
    intro d hd
    simp only [mirror, List.mem_cons] at hd
    rcases hd with rfl | hd
    · exact rowOK_struct fs 1 h.1
    · exact rowsL_ok fs 1 h.2 d hd
  · have := valsL_wf (mirror fs).1 fs 1 (mirror_at fs).2
    simp only [mirror] at this
    simp [mirror, Lk.Val.isIface, Lk.wfVal, this]

/-! ### paths of the remote definition, and where they lead in the mirror -/

/-- `HasFunc fs P F sig`: following the exported struct fields `P` from the remote struct type `fs`
    leads to a struct with the exported func field `F` of signature `sig` — i.e. a stub is
    installed at path `P ++ [F]`. -/
inductive HasFunc : List Field → List String → String → Sig → Prop where
  | here {fs : List Field} {F : String} {sig : Sig} : Field.func F true sig ∈ fs → HasFunc fs [] F sig
  | down {fs : List Field} {n : String} {sub : List Field} {P : List String} {F : String} {sig : Sig} :
      Field.struct n true sub ∈ fs → HasFunc sub P F sig → HasFunc fs (n :: P) F sig

mutual
theorem funcsField_hasFunc (ro : Bool) : ∀ (f : Field) (x : Rw.FuncAt), x ∈ Rw.funcsField ro f →
    x.settable = true → ro = false ∧ ∃ P F, x.path = P ++ [F] ∧ HasFunc [f] P F x.sig
  | .func n e s, x, hx, hs => by
    simp only [Rw.funcsField, List.mem_singleton] at hx
    subst hx
    simp only [Bool.and_eq_true, Bool.not_eq_eq_eq_not, Bool.not_true] at hs
    obtain ⟨h1, rfl⟩ := hs
    exact ⟨h1, [], n, rfl, .here (by simp)⟩
  | .struct n e sub, x, hx, hs => by
    simp only [Rw.funcsField, List.mem_map] at hx
    obtain ⟨y, hy, rfl⟩ := hx
    obtain ⟨h1, P, F, hp, hh⟩ := funcs_hasFunc (ro || !e) sub y hy hs
    simp only [Bool.or_eq_false_iff, Bool.not_eq_eq_eq_not, Bool.not_false] at h1
    obtain ⟨hro, rfl⟩ := h1
    exact ⟨hro, n :: P, F, by simp [hp], .down (by simp) hh⟩
  | .other _ _, x, hx, _ => by simp [Rw.funcsField] at hx
theorem funcs_hasFunc (ro : Bool) : ∀ (fs : List Field) (x : Rw.FuncAt), x ∈ Rw.funcs ro fs →
    x.settable = true → ro = false ∧ ∃ P F, x.path = P ++ [F] ∧ HasFunc fs P F x.sig
  | [], x, hx, _ => by simp [Rw.funcs] at hx
  | f :: fs, x, hx, hs => by
    simp only [Rw.funcs, List.mem_append] at hx
    rcases hx with hx | hx
    · obtain ⟨h1, P, F, hp, hh⟩ := funcsField_hasFunc ro f x hx hs
      refine ⟨h1, P, F, hp, ?_⟩
      cases hh with
      | here hm => exact .here (by simp at hm; simp [hm])
      | down hm hsub => exact .down (by simp at hm; simp [hm]) hsub
    · obtain ⟨h1, P, F, hp, hh⟩ := funcs_hasFunc ro fs x hx hs
      refine ⟨h1, P, F, hp, ?_⟩
      cases hh with
      | here hm => exact .here (List.mem_cons_of_mem _ hm)
      | down hm hsub => exact .down (List.mem_cons_of_mem _ hm) hsub
end

theorem find_withIdx : ∀ (l : List FieldDecl) (n i : Nat) (fd : FieldDecl), (l.map (·.name)).Nodup →
    l[i]? = some fd → (Lk.withIdx l n).find? (fun fi => fi.1.name == fd.name) = some (fd, n + i) := by
  intro l
  induction l with
  | nil => intro n i fd _ h; simp at h
  | cons a l ih =>
    intro n i fd hn h
    simp only [List.map_cons, List.nodup_cons] at hn
    cases i with
    | zero =>
      simp at h; subst h
      simp [Lk.withIdx]
    | succ i =>
      simp at h
      have hne : (a.name == fd.name) = false := by
        rw [beq_eq_false_iff_ne]
        intro h0
        apply hn.1
        rw [h0]
        exact List.mem_map.mpr ⟨fd, List.mem_of_getElem? h, rfl⟩
      simp only [Lk.withIdx, List.find?_cons, hne]
      rw [ih (n + 1) i fd hn.2 h]
      congr 2; omega

/-- a top-level field is what the selector with its name denotes -/
theorem selects_top (tt : TypeTable) (hn : Lk.NamesNodup tt) (T i : Nat) (fd : FieldDecl)
    (h : (Lk.structFields tt T)[i]? = some fd) (hne : fd.name ≠ "") : Lk.Selects tt T fd.name [i] := by
  apply Lk.typeFieldByName_sound tt hn
  have := find_withIdx _ 0 i fd (hn T) h
  simp [Lk.typeFieldByName, hne, Lk.quickScan, this]

/-- the descent: in the mirror, the path `P` leads to the object `instAt … P`, whose method set
    has `F` with the func field's parameter count -/
theorem mirror_exposed (tt : TypeTable) (hn : Lk.NamesNodup tt) :
    ∀ {fs : List Field} {P : List String} {F : String} {sig : Sig}, HasFunc fs P F sig →
    ∀ (c : Nat), tt[c]? = some (.struct (decls (c + 1) fs) (meths fs)) → At tt (c + 1) (rowsL (c + 1) fs) →
      WFDef fs → (∀ n, n ∈ P → n ≠ "") →
      ∃ inst, instAt c fs P = some inst ∧
        Lk.ExposedG true tt (.struct c c (valsL (c + 1) fs)) P F sig.numIn (some inst) := by
  intro fs P F sig h
  induction h with
  | @here fs F sig hm =>
    intro c hrow _ _ _
    refine ⟨c, rfl, .method ⟨rfl, rfl, ⟨F, true, sig.numIn⟩, ?_, rfl, rfl, rfl⟩⟩
    simp only [Lk.declaredMethods, hrow, meths, List.mem_flatMap]
    exact ⟨_, hm, by simp [methF]⟩
  | @down fs n sub P F sig hm _ ih =>
    intro c hrow hat hwf hne
    obtain ⟨i, c', h1, h2, h3, h4, h5⟩ := find_struct tt n true sub fs (c + 1) hat hwf.1 hm
    obtain ⟨inst, hi, hexp⟩ := ih c' h3 h4 (wfDef_mem fs n true sub hwf.2 hm)
      (fun m hm' => hne m (List.mem_cons_of_mem _ hm'))
    refine ⟨inst, by simp only [instAt, h5]; exact hi, ?_⟩
    have hsf : Lk.structFields tt c = decls (c + 1) fs := by simp [Lk.structFields, hrow]
    refine .field (T := c) (inst := c) (fs := valsL (c + 1) fs) (p := [i])
      (fd := ⟨n, true, false, c'⟩) (v' := .struct c' c' (valsL (c' + 1) sub)) rfl ?_ ?_ (Or.inl rfl) hexp
    · exact selects_top tt hn c i ⟨n, true, false, c'⟩ (by rw [hsf]; exact h1) (hne n (by simp))
    · simp [Lk.Val.select, Lk.Val.fieldAt, hsf, h1, h2]

/-- the two models' `strings.Split(·, ".")` are the same function -/
theorem splitOnDot_agree : ∀ cs : List Char, Rw.splitOnDot cs = Lk.splitOnDot cs := by
  intro cs
  induction cs with
  | nil => rfl
  | cons c cs ih =>
    simp only [Rw.splitOnDot, Lk.splitOnDot, ih]
    generalize Lk.splitOnDot cs = l
    cases l <;> rfl

/-! ### every struct node of the mirror is its own object -/

mutual
/-- the object identities in a value tree, in pre-order -/
def instsV : Val → List Nat
  | .struct _ i vs => i :: instsL vs
  | .ptr _ t => instsO t
  | .iface _ d => instsO d
  | .other _ i => [i]
def instsL : List Val → List Nat
  | [] => []
  | v :: vs => instsV v ++ instsL vs
def instsO : Option Val → List Nat
  | none => []
  | some v => instsV v
end

theorem instsL_append : ∀ (a b : List Val), instsL (a ++ b) = instsL a ++ instsL b := by
  intro a
  induction a with
  | nil => intro b; simp [instsL]
  | cons v vs ih => intro b; simp [instsL, ih]

mutual
theorem valsF_insts : ∀ (f : Field) (b : Nat), instsL (valsF b f) = List.range' b (size f)
  | .struct _ _ sub, b => by
    simp only [valsF, instsL, instsV, valsL_insts sub (b + 1), size, List.append_nil]
    rw [Nat.add_comm 1, List.range'_succ]
  | .func _ _ _, _ => by simp [valsF, instsL, size]
  | .other _ _, _ => by simp [valsF, instsL, size]
theorem valsL_insts : ∀ (fs : List Field) (b : Nat), instsL (valsL b fs) = List.range' b (sizeL fs)
  | [], _ => by simp [valsL, instsL, sizeL]
  | f :: fs, b => by
    simp only [valsL, instsL_append, valsF_insts f b, valsL_insts fs (b + size f), sizeL]
    rw [← List.range'_append_1]
end

/-- the objects of the mirror are `0, 1, …` in pre-order: pairwise distinct -/
theorem mirror_insts (fs : List Field) : instsV (mirror fs).2 = List.range (1 + sizeL fs) := by
  simp only [mirror, instsV, valsL_insts fs 1]
  rw [List.range_eq_range', Nat.add_comm 1, List.range'_succ]

theorem mirror_insts_nodup (fs : List Field) : (instsV (mirror fs).2).Nodup := by
  rw [mirror_insts]; exact List.nodup_range

end Panrpc.Compose
