/-
  Lemmas/LookupCurrent.lean — the lookup's statements are all present in the current and in the
  pinned source (`by decide` on the regenerated skeleton); shared by Props/C06.lean and Props/C07.lean.
-/
import Panrpc.Lemmas.Lookup
import Panrpc.Generated.Current
import Panrpc.Pinned

namespace Panrpc.Lk
open Panrpc

theorem cur_faithful : Faithful Skeleton.current :=
  ⟨by decide, by decide, by decide, by decide, by decide, by decide, by decide, by decide, by decide,
   by decide, by decide, by decide, by decide, by decide⟩

theorem pinned_faithful : Faithful Skeleton.pinned :=
  ⟨by decide, by decide, by decide, by decide, by decide, by decide, by decide, by decide, by decide,
   by decide, by decide, by decide, by decide, by decide⟩

theorem cur_call_recovers : Skeleton.current.reqCallViaUtilsCall = true ∧ Skeleton.current.ucRecovers = true :=
  ⟨by decide, by decide⟩

end Panrpc.Lk
