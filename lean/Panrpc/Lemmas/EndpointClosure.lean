/-
  Lemmas/EndpointClosure.lean — the closure table is exactly the set of closure ids registered by
  calls that have not returned yet (C12).  `owner` is the ghost map closure id → registering call.
-/
import Panrpc.Lemmas.Endpoint

namespace Panrpc.Ep
open Panrpc

/-- Source fact: `defer freeClosure()` follows every `registerClosure`. -/
structure ClosureFreed (sk : Skeleton) : Prop where
  deferred : sk.stubClosureFreeDeferred = true
  fresh    : sk.clIdFresh = true      -- a fresh id per registration (not one derived from the table's size)

structure CI (s : State) : Prop where
  own_lt     : ∀ id c, s.owner id = some c → id < s.nextClosure
  tbl_lt     : ∀ id, s.closures id = true → id < s.nextClosure
  own_mem    : ∀ id c, s.owner id = some c → id ∈ (s.calls c).closures
  mem_own    : ∀ id c, id ∈ (s.calls c).closures → s.owner id = some c
  tbl_owned  : ∀ id, s.closures id = true → s.owner id ≠ none
  tbl_live   : ∀ id c, s.closures id = true → s.owner id = some c → (s.calls c).pc ≠ .returned
  live_tbl   : ∀ id c, s.owner id = some c → (s.calls c).pc ≠ .returned → s.closures id = true
  absent_nil : ∀ c, (s.calls c).pc = .absent → (s.calls c).closures = []

theorem ci_init : CI init := by constructor <;> simp [init, Call.none]

theorem ci_step (sk : Skeleton) (hd : ClosureFreed sk) {s s' : State} (a : Act)
    (h : CI s) (hs : step sk s a = some s') : CI s' := by
  obtain ⟨h1, h2, h3, h4, h5, h6, h7, h8⟩ := h
  obtain ⟨d1, d2⟩ := hd
  cases a <;> simp only [step] at hs
  all_goals (repeat' split at hs) <;> (try simp at hs) <;> (try subst hs)
  all_goals first
    | exact ⟨h1, h2, h3, h4, h5, h6, h7, h8⟩
    | (refine ⟨?_, ?_, ?_, ?_, ?_, ?_, ?_, ?_⟩ <;> (try simp only [freeClosures]) <;> intros <;>
        grind [upd_apply, freeClosures, newClosures])

theorem reach_ci (sk : Skeleton) (hd : ClosureFreed sk) {s : State} (h : Reach sk s) : CI s := by
  induction h with
  | init => exact ci_init
  | step a _ hs ih => exact ci_step sk hd a ih hs

/-- a returned call stays returned -/
theorem returned_stable (sk : Skeleton) {s s' : State} (a : Act) (hs : step sk s a = some s')
    (c : Nat) (hc : (s.calls c).pc = .returned) : (s'.calls c).pc = .returned := by
  cases a <;> simp only [step] at hs
  all_goals (repeat' split at hs) <;> (try simp at hs) <;> (try subst hs)
  all_goals first
    | exact hc
    | grind [upd_apply]

end Panrpc.Ep
