/-
  Lemmas/RegistryLog.lean — invariants over M4's ghost histories: per link and hook kind the
  hook log holds exactly the events dictated by the link's pc (exactly-once, with the link's
  id); the per-link hook events mirror the registry-wide ones; invocation records carry the
  link's id; calls and responses never cross links.
-/
import Panrpc.Lemmas.RegistryPc

namespace Panrpc.Rg

@[simp] theorem evs_nil (k : HookKind) (l : Nat) : evs [] k l = [] := rfl

theorem evs_cons (e : HookEv) (log : List HookEv) (k : HookKind) (l : Nat) :
    evs (e :: log) k l = if e.kind = k ∧ e.link = l then e :: evs log k l else evs log k l := by
  simp only [evs, List.filter_cons]; split <;> simp_all

theorem mem_evs (e : HookEv) (log : List HookEv) (k : HookKind) (l : Nat) :
    e ∈ evs log k l ↔ e ∈ log ∧ e.kind = k ∧ e.link = l := by
  simp [evs]

structure LogInv (s : State) : Prop where
  regC  : ∀ l, evs s.hookLog .regConnect l = expect .regConnect l (s.links l).id
  linkC : ∀ l, evs s.hookLog .linkConnect l = expect .linkConnect l (s.links l).id
  regD  : ∀ l, evs s.hookLog .regDisconnect l = expect .regDisconnect l (s.links l).discId
  linkD : ∀ l, evs s.hookLog .linkDisconnect l = expect .linkDisconnect l (s.links l).discId

theorem log_init : LogInv init := by
  constructor <;> simp [init, Link.fresh, expect, Link.discId]

theorem log_frame {s s' : State} (hsame : Same s s') (hi : LogInv s) : LogInv s' := by
  obtain ⟨h1, h2, h3, h4⟩ := hi
  obtain ⟨e1, e2, e3, e4⟩ := hsame
  have hd : ∀ j, (s'.links j).discId = (s.links j).discId := by
    intro j; simp only [Link.discId, (e4 j).1, (e4 j).2]
  refine ⟨?_, ?_, ?_, ?_⟩ <;> intro j
  · rw [e3, (e4 j).1]; exact h1 j
  · rw [e3, (e4 j).1]; exact h2 j
  · rw [e3, hd j]; exact h3 j
  · rw [e3, hd j]; exact h4 j

theorem logT_step (w : Bool) {s s' : State} (a : Act) (hp : PcInv s) (hi : LogInv s)
    (hs : stepT w s a = some s') : LogInv s' := by
  obtain ⟨l, op⟩ := a
  by_cases hop : op.structural = false
  · exact log_frame (sameT w op hop hs) hi
  · obtain ⟨h1, h2, h3, h4⟩ := hi
    have hl := hp l
    cases op <;> (try (simp [Op.structural] at hop; done)) <;> simp only [stepT] at hs
    all_goals (repeat' split at hs) <;> (try simp at hs) <;> (try subst hs)
    all_goals (refine ⟨?_, ?_, ?_, ?_⟩ <;> intro j <;>
      have g1 := h1 j <;> have g2 := h2 j <;> have g3 := h3 j <;> have g4 := h4 j <;>
      grind [upd_apply, Link.fail, evs_cons, expect, Link.discId, PcOk])

theorem log_step {sk : Skeleton} (h : Facts sk) {s s' : State} (a : Act) (hp : PcInv s)
    (hi : LogInv s) (hs : step sk s a = some s') : LogInv s' := by
  rw [step_facts h] at hs; exact logT_step _ a hp hi hs

end Panrpc.Rg
