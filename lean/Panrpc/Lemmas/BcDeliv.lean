/-
  Lemmas/BcDeliv.lean — the ghost delivery log of M1: every hand-off is logged once,
  publisher key = receiver key, and a received value is a logged hand-off.
-/
import Panrpc.Lemmas.Broadcaster

namespace Panrpc.Bc

structure DL (s : State) : Prop where
  pub_done  : ∀ d, d ∈ s.deliveries → s.pubs d.pub = .done true
  same_key  : ∀ d, d ∈ s.deliveries → d.pkey = d.rkey
  got_logged : ∀ t k g x v, s.rcvs t = .gotVal k g x v →
      s.deliveries.any (fun d => decide (d.rcv = t ∧ d.val = v ∧ d.rkey = k)) = true
  nodup     : (s.deliveries.map Delivery.pub).Nodup

theorem dl_init : DL init := by constructor <;> simp [init]

theorem dl_step (sk : Skeleton) {s s' : State} (a : Act)
    (hw : WF s) (h : DL s) (hs : step sk s a = some s') : DL s' := by
  obtain ⟨h1, h2, h3, h4⟩ := h
  obtain ⟨w1, w2, w3, w4, w5, w6, w7⟩ := hw
  cases a <;> simp only [step] at hs
  all_goals (repeat' split at hs) <;> (try simp at hs) <;> (try subst hs)
  all_goals (refine ⟨?_, ?_, ?_, ?_⟩ <;> (try simp only [upd_apply]) <;> intros <;>
    grind [upd_apply, Rcv.binding, List.nodup_cons, List.mem_map, List.any_cons])

end Panrpc.Bc
