/-
  Lemmas/RegistryLife.lean — the general (∀ sk, Facts sk → …) forms of the C14 / C15 life-cycle
  statements of M4; Props/C14.lean and Props/C15Reg.lean instantiate them with `Skeleton.current`.
-/
import Panrpc.Lemmas.RegistryReach

namespace Panrpc.Rg

/-- hook events are only ever appended (for every skeleton): the log of a later state extends
    the log of an earlier one, so "is in the log now" means "happened before now" -/
theorem hookLog_suffix (sk : Skeleton) {s s' : State} (a : Act) (hs : step sk s a = some s') :
    s.hookLog <:+ s'.hookLog := by
  obtain ⟨l, op⟩ := a
  cases op <;> simp only [step] at hs
  all_goals (repeat' split at hs) <;> (try simp at hs) <;> (try subst hs)
  all_goals (first | exact List.suffix_refl _ | exact List.suffix_append _ _)

theorem hookLog_suffix_run (sk : Skeleton) : ∀ (acts : List Act) (s s' : State),
    run sk s acts = some s' → s.hookLog <:+ s'.hookLog := by
  intro acts
  induction acts with
  | nil => intro s s' h; simp [run, runFrom] at h; subst h; exact List.suffix_refl _
  | cons a as ih =>
    intro s s' h
    simp only [run, runFrom] at h
    cases hst : step sk s a with
    | none => simp [hst] at h
    | some s1 =>
      simp only [hst] at h
      exact List.IsSuffix.trans (hookLog_suffix sk a hst) (ih s1 s' h)

/-- In EVERY reachable state — also between the steps of a registration or removal running
    concurrently with the observer — id `i` is enumerated (as link `l`'s remote) iff the connect
    hook was called for it and the disconnect hook was not; for the registry-wide hooks and for
    the link's own hooks. -/
theorem enumeration_eq_live_reach {sk : Skeleton} (hF : Facts sk) : ∀ s, Reach sk s → ∀ i l,
    (s.remotes i = some l ↔
      (⟨.regConnect, l, i⟩ ∈ s.hookLog ∧ ⟨.regDisconnect, l, i⟩ ∉ s.hookLog)) ∧
    (s.remotes i = some l ↔
      (⟨.linkConnect, l, i⟩ ∈ s.hookLog ∧ ⟨.linkDisconnect, l, i⟩ ∉ s.hookLog)) := by
  intro s hr i l
  have hi := reach_inv hF hr
  have h := enumeration_eq_live hi i l
  refine ⟨h, ?_⟩
  rw [h, regConnect_mem hi.log, regDisconnect_mem hi.log, linkConnect_mem hi.log,
    linkDisconnect_mem hi.log]

/-- Per link: the registry-connect events are exactly `[]` before the registration region and
    exactly the one event carrying the link's id afterwards (hence at most one ever, exactly one
    once registered); the same for the link's own connect hook; and whenever the request loop
    has been started, a request is waiting for its handler, or a handler was ever entered, both
    connect events are already in the log. -/
theorem connect_once_first {sk : Skeleton} (hF : Facts sk) : ∀ s, Reach sk s → ∀ l,
    evs s.hookLog .regConnect l = expect .regConnect l (s.links l).id ∧
    evs s.hookLog .linkConnect l = expect .linkConnect l (s.links l).id ∧
    (evs s.hookLog .regConnect l).length ≤ 1 ∧ (evs s.hookLog .linkConnect l).length ≤ 1 ∧
    (∀ i, ⟨.regConnect, l, i⟩ ∈ s.hookLog ↔ ⟨.linkConnect, l, i⟩ ∈ s.hookLog) ∧
    (((s.links l).reqLoop ≠ .notStarted ∨ 0 < (s.links l).pendingReq ∨
        (s.invocations.any fun v => decide (v.link = l)) = true) →
      ∃ i, (s.links l).id = some i ∧ ⟨.regConnect, l, i⟩ ∈ s.hookLog ∧
        ⟨.linkConnect, l, i⟩ ∈ s.hookLog) := by
  intro s hr l
  have hi := reach_inv hF hr
  refine ⟨hi.log.regC l, hi.log.linkC l, ?_, ?_, ?_, ?_⟩
  · rw [hi.log.regC l]; exact expect_length _ _ _
  · rw [hi.log.linkC l]; exact expect_length _ _ _
  · intro i; rw [regConnect_mem hi.log, linkConnect_mem hi.log]
  · intro h
    have hp := hi.pc l
    have hid : (s.links l).id ≠ none := by
      rcases h with h | h | h
      · intro hn; rw [hp.id_none] at hn
        have := hp.early (by rcases hn with hn | hn <;> simp [hn]); exact h this.1
      · intro hn; rw [hp.id_none] at hn
        have := hp.early (by rcases hn with hn | hn <;> simp [hn]); omega
      · simp only [List.any_eq_true, decide_eq_true_eq] at h
        obtain ⟨v, hv, hvl⟩ := h
        have := hi.ghost.inv_id v hv
        rw [← hvl, ← this.1]; exact this.2
    cases hid' : (s.links l).id with
    | none => exact absurd hid' hid
    | some i => exact ⟨i, rfl, (regConnect_mem hi.log l i).mpr hid', (linkConnect_mem hi.log l i).mpr hid'⟩

/-- The steps that read a request or enter a handler are enabled only in states whose log
    already holds both connect events of that link (events are never removed: the connect
    notification precedes every request of the link in time). -/
theorem connect_before_requests {sk : Skeleton} (hF : Facts sk) : ∀ s, Reach sk s → ∀ l s',
    (step sk s ⟨l, .reqRead⟩ = some s' ∨ step sk s ⟨l, .reqHandle⟩ = some s') →
    ∃ i, (s.links l).id = some i ∧ ⟨.regConnect, l, i⟩ ∈ s.hookLog ∧ ⟨.linkConnect, l, i⟩ ∈ s.hookLog := by
  intro s hr l s' h
  apply (connect_once_first hF s hr l).2.2.2.2.2
  rw [step_facts hF, step_facts hF] at h
  rcases h with h | h
  · left; simp only [stepT] at h; split at h
    · rename_i hg; rw [hg.1]; simp
    · simp at h
  · right; left; simp only [stepT] at h; split at h
    · assumption
    · simp at h

/-- Per link: the disconnect events (registry-wide and the link's own) are exactly `[]` until the
    setup goroutine has exited and exactly the one event with the link's id afterwards; a
    disconnect event in the log implies that both loops have exited and that the connect event
    with the SAME id is in the log. -/
theorem disconnect_once_after_loops {sk : Skeleton} (hF : Facts sk) : ∀ s, Reach sk s → ∀ l,
    evs s.hookLog .regDisconnect l = expect .regDisconnect l (s.links l).discId ∧
    evs s.hookLog .linkDisconnect l = expect .linkDisconnect l (s.links l).discId ∧
    (evs s.hookLog .regDisconnect l).length ≤ 1 ∧ (evs s.hookLog .linkDisconnect l).length ≤ 1 ∧
    (∀ i, ⟨.regDisconnect, l, i⟩ ∈ s.hookLog ↔ ⟨.linkDisconnect, l, i⟩ ∈ s.hookLog) ∧
    (∀ i, ⟨.regDisconnect, l, i⟩ ∈ s.hookLog →
      (s.links l).reqLoop = .exited ∧ (s.links l).respLoop = .exited ∧
      ⟨.regConnect, l, i⟩ ∈ s.hookLog ∧ ⟨.linkConnect, l, i⟩ ∈ s.hookLog) := by
  intro s hr l
  have hi := reach_inv hF hr
  refine ⟨hi.log.regD l, hi.log.linkD l, ?_, ?_, ?_, ?_⟩
  · rw [hi.log.regD l]; exact expect_length _ _ _
  · rw [hi.log.linkD l]; exact expect_length _ _ _
  · intro i; rw [regDisconnect_mem hi.log, linkDisconnect_mem hi.log]
  · intro i h
    rw [regDisconnect_mem hi.log, discId_eq] at h
    have hl := (hi.pc l).late (Or.inr h.1)
    exact ⟨hl.1, hl.2, (regConnect_mem hi.log l i).mpr h.2, (linkConnect_mem hi.log l i).mpr h.2⟩

/-- The removal step is enabled only after `wg.Wait()` returned, i.e. when both loops have
    exited, and it is the step that appends both disconnect events (one atomic step: removal and
    notifications cannot be observed apart). -/
theorem disconnect_step {sk : Skeleton} (hF : Facts sk) : ∀ s, Reach sk s → ∀ l s',
    step sk s ⟨l, .setupUnregister⟩ = some s' →
    (s.links l).reqLoop = .exited ∧ (s.links l).respLoop = .exited ∧
    ∃ i, (s.links l).id = some i ∧ s.remotes i = some l ∧ s'.remotes i = none ∧
      s'.hookLog = ⟨.linkDisconnect, l, i⟩ :: ⟨.regDisconnect, l, i⟩ :: s.hookLog := by
  intro s hr l s' h
  have hi := reach_inv hF hr
  rw [step_facts hF] at h
  simp only [stepT] at h
  split at h
  · rename_i hg
    have hl := (hi.pc l).late (Or.inl hg)
    refine ⟨hl.1, hl.2, ?_⟩
    split at h
    · rename_i i hid
      simp at h; subst h
      exact ⟨i, hid, hi.tab.owner_rem l i hid (by simp [hg, Setup.live]), by simp, rfl⟩
    · simp at h
  · simp at h

/-- The events delivered to the hooks of link `l`'s own `Link*` call are exactly the events
    delivered to the registry-wide hooks for `l`, in the same order. -/
theorem link_hooks_mirror_registry_hooks {sk : Skeleton} (hF : Facts sk) : ∀ s, Reach sk s → ∀ l,
    (linkEvs s.hookLog l).map HookEv.toReg = regEvs s.hookLog l :=
  fun _ hr l => (reach_inv hF hr).ghost.mirror l

/-- Identifiers are fresh: distinct links have distinct ids, and the id a registration draws was
    never enumerated, never announced and belongs to no other link. -/
theorem ids_fresh {sk : Skeleton} (hF : Facts sk) : ∀ s, Reach sk s →
    (∀ l l' i, (s.links l).id = some i → (s.links l').id = some i → l = l') ∧
    (∀ l s', step sk s ⟨l, .setupRegister⟩ = some s' →
      (s'.links l).id = some s.nextId ∧ s.remotes s.nextId = none ∧
      (∀ e, e ∈ s.hookLog → e.id ≠ s.nextId) ∧ (∀ l', (s.links l').id ≠ some s.nextId)) := by
  intro s hr
  have hi := reach_inv hF hr
  refine ⟨hi.tab.id_inj, ?_⟩
  intro l s' h
  rw [step_facts hF] at h
  simp only [stepT] at h
  split at h
  · simp at h; subst h
    refine ⟨by simp, ?_, ?_, ?_⟩
    · cases hrm : s.remotes s.nextId with
      | none => rfl
      | some o =>
        have := hi.tab.id_lt o s.nextId (hi.tab.rem_owner _ _ hrm).1
        omega
    · intro e he heq; have := hi.tab.log_lt e he; omega
    · intro l' hl'; have := hi.tab.id_lt l' _ hl'; omega
  · simp at h

/-- From every reachable state in which link `l` has been started and not yet torn down, once
    the application has made its transport reads fail (and cancelled its context), the explicit
    run `teardownRun` — only own steps of `l`: [register, start loops,] the failing read of each
    loop that has not exited, `wg.Wait()` returning, the deferred removal — succeeds and ends
    with all three goroutines exited, `l` no longer enumerated and both disconnect events
    logged.  No step of another link, of the peer or of user code is needed; at most 5 steps
    from a registered link (6 from a link that has not reached its registration yet). -/
theorem disconnect_reachable {sk : Skeleton} (hF : Facts sk) : ∀ s, Reach sk s → ∀ l,
    (s.links l).ctxCancelled = true → (s.links l).readsFail = true →
    ((s.links l).setup = .started ∨ (s.links l).setup = .registered ∨
      (s.links l).setup = .waiting ∨ (s.links l).setup = .loopsDone) →
    (∀ a, a ∈ teardownRun (s.links l) l → a.link = l) ∧
    (teardownRun (s.links l) l).length ≤ 6 ∧
    ((s.links l).setup ≠ .started → (teardownRun (s.links l) l).length ≤ 5) ∧
    ∃ s', run sk s (teardownRun (s.links l) l) = some s' ∧
      (s'.links l).setup = .unregistered ∧ (s'.links l).reqLoop = .exited ∧
      (s'.links l).respLoop = .exited ∧ (∀ i, s'.remotes i ≠ some l) ∧
      ∃ i, (s'.links l).id = some i ∧ ⟨.regDisconnect, l, i⟩ ∈ s'.hookLog ∧
        ⟨.linkDisconnect, l, i⟩ ∈ s'.hookLog := by
  intro s hr l _ hrf hset
  have hi := reach_inv hF hr
  refine ⟨teardownRun_own _ l, teardownRun_length _ l, teardownRun_length_registered _ l, ?_⟩
  have ht := teardownT sk.watcherCallsSetErr s l (hi.pc l) hrf hset
  rw [← step_eq_stepT hF] at ht
  cases hrun : run sk s (teardownRun (s.links l) l) with
  | none => simp [run] at hrun; simp [hrun] at ht
  | some s' =>
    have hrun' := hrun
    simp only [run] at hrun; simp only [hrun, Option.map_some, Link.pcs] at ht
    have ht' : (s'.links l).setup = .unregistered ∧ (s'.links l).reqLoop = .exited ∧
        (s'.links l).respLoop = .exited := by
      simp only [Option.some.injEq, Prod.mk.injEq] at ht; exact ht
    have hi' := reach_inv hF (reach_of_run _ _ hr hrun')
    refine ⟨s', rfl, ht'.1, ht'.2.1, ht'.2.2, ?_, ?_⟩
    · intro i hrm
      have := (hi'.tab.rem_owner i l hrm).2
      simp [ht'.1, Setup.live] at this
    · have hid : (s'.links l).id ≠ none := by
        rw [Ne, (hi'.pc l).id_none]; simp [ht'.1]
      cases hid' : (s'.links l).id with
      | none => exact absurd hid' hid
      | some i =>
        exact ⟨i, rfl, (regDisconnect_mem hi'.log l i).mpr ((discId_eq _ i).mpr ⟨ht'.1, hid'⟩),
          (linkDisconnect_mem hi'.log l i).mpr ((discId_eq _ i).mpr ⟨ht'.1, hid'⟩)⟩

/-- …in particular from every state in which `l` is enumerated. -/
theorem disconnect_reachable_enumerated {sk : Skeleton} (hF : Facts sk) : ∀ s, Reach sk s → ∀ l i,
    s.remotes i = some l → (s.links l).ctxCancelled = true → (s.links l).readsFail = true →
    (teardownRun (s.links l) l).length ≤ 5 ∧
    ∃ s', run sk s (teardownRun (s.links l) l) = some s' ∧
      (∀ j, s'.remotes j ≠ some l) ∧ ⟨.regDisconnect, l, i⟩ ∈ s'.hookLog ∧
      ⟨.linkDisconnect, l, i⟩ ∈ s'.hookLog := by
  intro s hr l i hrm hc hf
  have hi := reach_inv hF hr
  obtain ⟨hid, hlive⟩ := hi.tab.rem_owner i l hrm
  have hset : (s.links l).setup = .started ∨ (s.links l).setup = .registered ∨
      (s.links l).setup = .waiting ∨ (s.links l).setup = .loopsDone := by
    cases hsu : (s.links l).setup <;> simp_all [Setup.live]
  have hns : (s.links l).setup ≠ .started := by
    intro h; simp [h, Setup.live] at hlive
  obtain ⟨_, _, h5, s', hrun, _, _, _, hnot, j, hj, hd1, hd2⟩ :=
    disconnect_reachable hF s hr l hc hf hset
  refine ⟨h5 hns, s', hrun, hnot, ?_⟩
  -- the id of a link never changes once assigned: the disconnect events carry `i`
  have hi' := reach_inv hF (reach_of_run _ _ hr hrun)
  have hc1 : (⟨.regConnect, l, i⟩ : HookEv) ∈ s'.hookLog := by
    exact (regConnect_mem hi'.log l i).mpr (id_stable_run hF l i _ s s' hr hrun hid)
  have hij : j = i := by
    have := (regConnect_mem hi'.log l i).mp hc1
    rw [hj] at this; exact Option.some.inj this
  subst hij; exact ⟨hd1, hd2⟩

end Panrpc.Rg
