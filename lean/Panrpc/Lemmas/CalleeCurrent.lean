/-
  Lemmas/CalleeCurrent.lean — the regenerated skeleton meets the hypotheses of Lemmas/Callee.lean.
  Every line is a `by decide` about `Skeleton.current`: change the source so that one of the facts
  flips and this file (and with it Props/C05Callee, Props/C10Callee) stops compiling.
-/
import Panrpc.Lemmas.Callee
import Panrpc.Generated.Current

namespace Panrpc.Ce
open Panrpc

theorem cur_hyp : Hyp Skeleton.current :=
  ⟨by decide, by decide, by decide, by decide, by decide⟩
theorem cur_resp : RespHyp Skeleton.current := ⟨by decide, by decide, by decide, by decide⟩
theorem cur_mapped : Skeleton.current.ucNonErrorPanicMapped = true := by decide
theorem cur_callErr : Skeleton.current.reqCallErrSetErr = true := by decide
theorem cur_resolveErr : Skeleton.current.reqResolveErrSetErr = true := by decide
theorem cur_clVia : Skeleton.current.clCallViaUtilsCall = true := by decide
theorem cur_contained :
    Skeleton.current.lkRecoversPanics = true ∨ Skeleton.current.reqResolverRecovers = true :=
  Or.inl (by decide)
theorem cur_resolveGo : Skeleton.current.reqResolveGoDepth ≠ 0 := by decide
theorem cur_handlerGo : Skeleton.current.reqHandlerGoDepth ≠ 0 := by decide

end Panrpc.Ce
