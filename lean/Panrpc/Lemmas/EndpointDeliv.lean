/-
  Lemmas/EndpointDeliv.lean — every `callResponse` in the hands of a waiter, in a `res` channel
  or behind a call's results is justified: one that claims to come from a response frame
  (`fromFrame = some v`) was handed over by a publisher of that very call id to that very
  waiter (M1's delivery log), and only those carry a nil or an application error (C03).
-/
import Panrpc.Lemmas.EndpointLink

namespace Panrpc.Ep
open Panrpc

/-- value `v` was handed by a publisher of key `c` to receiver thread `c` -/
def delivered (s : State) (c v : Nat) : Bool :=
  s.bc.deliveries.any (fun d => decide (d.rcv = c ∧ d.val = v ∧ d.pkey = c ∧ d.rkey = c))

def Good (s : State) (c : Nat) (r : Resp) : Prop :=
  (∀ v, r.fromFrame = some v → delivered s c v = true) ∧
  (r.fromFrame = none → r.err = .ctxErr ∨ r.err = .closed) ∧
  (r.fromFrame ≠ none → r.err = .none ∨ r.err = .app)

structure JU (s : State) : Prop where
  w_ok   : ∀ c r, s.waiters c = .have r → Good s c r
  res_ok : ∀ c r, r ∈ s.res c → Good s c r
  out_ok : ∀ c r, (s.calls c).outcome = .ok r → Good s c r

theorem ju_init : JU init := by constructor <;> simp [init, Call.none]

macro "ju_tac" a:ident h:ident hs:ident hg:ident : tactic => `(tactic| (
  obtain ⟨h1, h2, h3⟩ := $h:ident
  ep_group $a:ident $hs:ident $hg:ident
  bc_unfold
  all_goals first
    | exact ⟨h1, h2, h3⟩
    | (refine ⟨?_, ?_, ?_⟩ <;> intros <;> grind [upd_apply, Good, delivered, Bc.Rcv.binding])))

section
variable (sk : Skeleton) {s s' : State} (a : Act) (hl : LK s) (hw : Bc.WF s.bc)
include hl hw

theorem ju_g0 (hg : a.grp = .g0) (h : JU s) (hs : step sk s a = some s') : JU s' := by
  obtain ⟨l1, l2, l3, l4, l5, l6, l7, l8⟩ := hl; obtain ⟨w1, w2, w3, w4, w5, w6, w7⟩ := hw
  ju_tac a h hs hg
theorem ju_g1 (hg : a.grp = .g1) (h : JU s) (hs : step sk s a = some s') : JU s' := by
  obtain ⟨l1, l2, l3, l4, l5, l6, l7, l8⟩ := hl; obtain ⟨w1, w2, w3, w4, w5, w6, w7⟩ := hw
  ju_tac a h hs hg
theorem ju_g2 (hg : a.grp = .g2) (h : JU s) (hs : step sk s a = some s') : JU s' := by
  obtain ⟨l1, l2, l3, l4, l5, l6, l7, l8⟩ := hl; obtain ⟨w1, w2, w3, w4, w5, w6, w7⟩ := hw
  ju_tac a h hs hg
theorem ju_g3 (hg : a.grp = .g3) (h : JU s) (hs : step sk s a = some s') : JU s' := by
  obtain ⟨l1, l2, l3, l4, l5, l6, l7, l8⟩ := hl; obtain ⟨w1, w2, w3, w4, w5, w6, w7⟩ := hw
  ju_tac a h hs hg
theorem ju_g4 (hg : a.grp = .g4) (h : JU s) (hs : step sk s a = some s') : JU s' := by
  obtain ⟨l1, l2, l3, l4, l5, l6, l7, l8⟩ := hl; obtain ⟨w1, w2, w3, w4, w5, w6, w7⟩ := hw
  ju_tac a h hs hg
theorem ju_g5 (hg : a.grp = .g5) (h : JU s) (hs : step sk s a = some s') : JU s' := by
  obtain ⟨l1, l2, l3, l4, l5, l6, l7, l8⟩ := hl; obtain ⟨w1, w2, w3, w4, w5, w6, w7⟩ := hw
  ju_tac a h hs hg

theorem ju_step (h : JU s) (hs : step sk s a = some s') : JU s' :=
  by_groups a (ju_g0 sk a hl hw · h hs) (ju_g1 sk a hl hw · h hs) (ju_g2 sk a hl hw · h hs)
    (ju_g3 sk a hl hw · h hs) (ju_g4 sk a hl hw · h hs) (ju_g5 sk a hl hw · h hs)
end

theorem reach_ju (sk : Skeleton) {s : State} (h : Reach sk s) : JU s := by
  induction h with
  | init => exact ju_init
  | step a hr hs ih => exact ju_step sk a (reach_lk sk hr) (reach_wf sk hr) ih hs

end Panrpc.Ep
