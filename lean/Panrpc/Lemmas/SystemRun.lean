/-
  Lemmas/SystemRun.lean — M3: explicit runs.  `serve n e t` drives call thread `(e,t)` — already
  started (`registered`) — through an alternating chain of depth `n`:
      write the request; the peer's request loop spawns a handler thread; it enters user code;
      [depth > 0: the handler calls back to this side: a nested call served recursively at depth n-1]
      the handler returns `ret n`; responds; this side's response loop spawns a publisher; it hands
      the value to the waiter; the call returns.
  The run is computed from the state it starts in (frame positions, fresh thread indices), and
  is proved to succeed from EVERY reachable state — whatever other threads, stalled handlers
  and frames in flight that state contains — touching none of them.
-/
import Panrpc.Lemmas.SystemLoop

namespace Panrpc.Sys

/-! ### helpers -/

theorem eraseIdx_length_append {α : Type} (l : List α) (x : α) : (l ++ [x]).eraseIdx l.length = l := by
  induction l with
  | nil => rfl
  | cons a l ih => simp [List.eraseIdx_cons_succ, ih]

theorem getElem?_length_append {α : Type} (l : List α) (x : α) : (l ++ [x])[l.length]? = some x := by
  simp

theorem updE_updE {α : Type} (f : E → α) (e : E) (v w : α) : updE (updE f e v) e w = updE f e w := by
  funext x; simp only [updE]; split <;> rfl

theorem updE_eq_self {α : Type} (f : E → α) (e : E) (v : α) (h : f e = v) : updE f e v = f := by
  funext x; simp only [updE]; split
  · rename_i hx; rw [hx, h]
  · rfl

theorem upd2_upd2 {α : Type} (f : E → Nat → α) (e : E) (k : Nat) (v w : α) :
    upd2 (upd2 f e k v) e k w = upd2 f e k w := by
  funext x i; simp only [upd2]; split <;> rfl

/-! ### the phases of one served call -/

/-- `callWrite e t; reqDeliver (peer e) <the frame just written>; handlerEnter (peer e) <new thread>` -/
def preActs (s : State) (e : E) (t : Nat) : List Act :=
  [.callWrite e t, .reqDeliver (peer e) (s.reqs (peer e)).length, .handlerEnter (peer e) (s.nextHandler (peer e))]

def preState (sk : Skeleton) (s : State) (e : E) (t : Nat) : State :=
  let e' := peer e
  let h := s.nextHandler e'
  let c := s.calls e t
  let f := mkReq sk c
  { s with calls := upd2 s.calls e t { c with pc := .written },
           nextHandler := updE s.nextHandler e' (h + 1),
           handlers := upd2 s.handlers e' h { pc := .running, req := f, ret := none },
           served := upd2 s.served e' f.call true,
           servedBy := upd2 s.servedBy e' f.call h,
           invocations := s.invocations ++ mkInv sk e' h f }

theorem pre_run (sk : Skeleton) (ha : Async sk) (s : State) (e : E) (t : Nat)
    (hpc : (s.calls e t).pc = .registered) (hb : s.reqLoopBusy (peer e) = none) :
    run sk s (preActs s e t) = some (preState sk s e t) := by
  obtain ⟨a1, a2, a3, a4, a5, a6⟩ := ha
  simp only [preActs, run, runFrom, step, hpc, updE_same, hb, if_true, getElem?_length_append,
    upd2_same, a1, a2, a4, a5, a6, windowFree, Bool.true_or, Bool.true_eq_false, or_self, or_false, if_false, eraseIdx_length_append, updE_updE, upd2_upd2, release,
    updE_eq_self _ _ _ rfl, updE_eq_self _ _ _ hb, ite_self, preState]

/-- the handler thread calls the peer (a nested call) -/
def callPeerState (sk : Skeleton) (s : State) (e : E) (h : Nat) (fn args : Nat) : State :=
  let s1 := startCall sk s e fn args (some (e, h))
  { s1 with handlers := upd2 s1.handlers e h { s.handlers e h with pc := .waitingNested (s.nextCall e) } }

theorem callPeer_step (sk : Skeleton) (s : State) (e : E) (h fn args : Nat)
    (hpc : (s.handlers e h).pc = .running) :
    step sk s (.handlerCallPeer e h fn args) = some (callPeerState sk s e h fn args) := by
  simp only [step, hpc, callPeerState]

def nestedDoneState (s : State) (e : E) (h : Nat) : State :=
  { s with handlers := upd2 s.handlers e h { s.handlers e h with pc := .running } }

theorem nestedDone_step (sk : Skeleton) (s : State) (e : E) (h t : Nat)
    (hpc : (s.handlers e h).pc = .waitingNested t) (hc : (s.calls e t).pc = .returned) :
    step sk s (.handlerNestedDone e h) = some (nestedDoneState s e h) := by
  simp only [step, hpc, hc, if_true, nestedDoneState]

/-- `handlerReturn; respond; resDeliver e <the frame just written>; publish <new publisher>; callReturn` -/
def postActs (s : State) (e : E) (t h : Nat) (v : Nat × Nat) : List Act :=
  [.handlerReturn (peer e) h v.1 v.2, .respond (peer e) h, .resDeliver e (s.ress e).length,
   .publish e (s.nextPub e) t, .callReturn e t]

def postState (s : State) (e : E) (t h : Nat) (v : Nat × Nat) : State :=
  let e' := peer e
  let hd := s.handlers e' h
  let c := s.calls e t
  { s with handlers := upd2 s.handlers e' h { hd with pc := .finished, ret := some v },
           invocations := s.invocations.map (setRet e' h v),
           nextPub := updE s.nextPub e (s.nextPub e + 1),
           pubs := upd2 s.pubs e (s.nextPub e) (.done ⟨t, v.1, v.2⟩ true),
           calls := upd2 s.calls e t { c with pc := .returned, result := some v },
           pending := upd2 s.pending e t false,
           deliveries := s.deliveries ++
             [{ ep := e, pub := s.nextPub e, waiter := t, waiterId := t, frameCall := t,
                value := v.1, err := v.2 }] }

theorem post_run (sk : Skeleton) (hf : Facts sk) (ha : Async sk) (s : State) (e : E) (t h : Nat) (v : Nat × Nat)
    (hh : (s.handlers (peer e) h).pc = .running) (hreq : (s.handlers (peer e) h).req.call = t)
    (hb1 : s.reqLoopBusy (peer e) = none) (hb2 : s.resLoopBusy e = none)
    (hp : s.pending e t = true) (hpc : (s.calls e t).pc = .written) (hid : (s.calls e t).id = t)
    (hres : (s.calls e t).result = none) :
    run sk s (postActs s e t h v) = some (postState s e t h v) := by
  obtain ⟨f1, f0, f2, f3, f4, f5, f6, f7, f8⟩ := hf
  obtain ⟨a1, a2, a3, a4, a5, a6⟩ := ha
  simp only [postActs, run, runFrom, step, peer_peer, hh, upd2_same, f6, if_true, release, hb1, hb2, a4, a5, and_self,
    updE_eq_self _ _ _ hb1, updE_eq_self _ _ _ hb2, updE_same, getElem?_length_append, eraseIdx_length_append,
    updE_updE, upd2_upd2, updE_eq_self _ _ _ rfl, a3, mkRes, f5, hreq, pubKey, pubVal, f7, f8, hp, hid, hpc,
    hres, CPc.waiting, and_self, Option.isSome_some, ite_self, postState, reduceCtorEq]

/-! ### the recursive run -/

def serve (sk : Skeleton) (ret : Nat → Nat × Nat) : Nat → E → Nat → State → Option (State × List Act)
  | 0, e, t, s =>
    (run sk s (preActs s e t)).bind fun s1 =>
    let post := postActs s1 e t (s.nextHandler (peer e)) (ret 0)
    (run sk s1 post).bind fun s2 => some (s2, preActs s e t ++ post)
  | n + 1, e, t, s =>
    (run sk s (preActs s e t)).bind fun s1 =>
    let cp := Act.handlerCallPeer (peer e) (s.nextHandler (peer e)) 0 n
    (step sk s1 cp).bind fun s2 =>
    (serve sk ret n (peer e) (s1.nextCall (peer e)) s2).bind fun r =>
    let nd := Act.handlerNestedDone (peer e) (s.nextHandler (peer e))
    (step sk r.1 nd).bind fun s4 =>
    let post := postActs s4 e t (s.nextHandler (peer e)) (ret (n + 1))
    (run sk s4 post).bind fun s5 => some (s5, preActs s e t ++ (cp :: (r.2 ++ (nd :: post))))

theorem run_cons_some (sk : Skeleton) {s s1 : State} {a : Act} (as : List Act) (h : step sk s a = some s1) :
    run sk s (a :: as) = run sk s1 as := by
  rw [run_cons, h]; rfl

/-- the action list `serve` returns replays to the state it returns -/
theorem serve_sound (sk : Skeleton) (ret : Nat → Nat × Nat) :
    ∀ n e t s s' acts, serve sk ret n e t s = some (s', acts) → run sk s acts = some s' := by
  intro n
  induction n with
  | zero =>
    intro e t s s' acts h
    simp only [serve] at h
    cases h1 : run sk s (preActs s e t) with
    | none => simp [h1] at h
    | some s1 =>
      simp only [h1, Option.bind_some] at h
      cases h2 : run sk s1 (postActs s1 e t (s.nextHandler (peer e)) (ret 0)) with
      | none => simp [h2] at h
      | some s2 =>
        simp only [h2, Option.bind_some, Option.some.injEq, Prod.mk.injEq] at h
        obtain ⟨rfl, rfl⟩ := h
        rw [run_append, h1]; exact h2
  | succ n ih =>
    intro e t s s' acts h
    simp only [serve] at h
    cases h1 : run sk s (preActs s e t) with
    | none => simp [h1] at h
    | some s1 =>
      simp only [h1, Option.bind_some] at h
      cases h2 : step sk s1 (.handlerCallPeer (peer e) (s.nextHandler (peer e)) 0 n) with
      | none => simp [h2] at h
      | some s2 =>
        simp only [h2, Option.bind_some] at h
        cases h3 : serve sk ret n (peer e) (s1.nextCall (peer e)) s2 with
        | none => simp [h3] at h
        | some r =>
          obtain ⟨s3, mid⟩ := r
          simp only [h3, Option.bind_some] at h
          cases h4 : step sk s3 (.handlerNestedDone (peer e) (s.nextHandler (peer e))) with
          | none => simp [h4] at h
          | some s4 =>
            simp only [h4, Option.bind_some] at h
            cases h5 : run sk s4 (postActs s4 e t (s.nextHandler (peer e)) (ret (n + 1))) with
            | none => simp [h5] at h
            | some s5 =>
              simp only [h5, Option.bind_some, Option.some.injEq, Prod.mk.injEq] at h
              obtain ⟨rfl, rfl⟩ := h
              have h3' := ih _ _ _ _ _ h3
              rw [run_append, h1, Option.bind_some, run_cons_some sk _ h2, run_append, h3',
                Option.bind_some, run_cons_some sk _ h4]
              exact h5

/-! ### what a served call may change -/

/-- the handler thread an action belongs to, if any -/
def Act.handler? : Act → Option (E × Nat)
  | .handlerEnter e h | .handlerStall e h | .handlerResume e h | .handlerCallPeer e h _ _
  | .handlerNestedDone e h | .handlerReturn e h _ _ | .respond e h => some (e, h)
  | _ => none

/-- `s'` agrees with `s` on every thread and frame that existed in `s`, except call thread `(e,t)` -/
structure Agree (s s' : State) (e : E) (t : Nat) : Prop where
  nc       : ∀ x, s.nextCall x ≤ s'.nextCall x
  nh       : ∀ x, s.nextHandler x ≤ s'.nextHandler x
  np       : ∀ x, s.nextPub x ≤ s'.nextPub x
  calls    : ∀ x i, i < s.nextCall x → ¬(x = e ∧ i = t) → s'.calls x i = s.calls x i
  pend     : ∀ x i, i < s.nextCall x → ¬(x = e ∧ i = t) → s'.pending x i = s.pending x i
  handlers : ∀ x i, i < s.nextHandler x → s'.handlers x i = s.handlers x i
  pubs     : ∀ x i, i < s.nextPub x → s'.pubs x i = s.pubs x i
  reqs     : ∀ x, s'.reqs x = s.reqs x
  ress     : ∀ x, s'.ress x = s.ress x

/-- what `serve` needs of the state it starts in -/
structure Pre (sk : Skeleton) (s : State) (e : E) (t : Nat) : Prop where
  reach : Reach sk s
  pc    : (s.calls e t).pc = .registered
  id    : (s.calls e t).id = t
  res   : (s.calls e t).result = none
  pend  : s.pending e t = true
  lt    : t < s.nextCall e

/-- what `serve` establishes -/
structure Post (s s' : State) (e : E) (t : Nat) (v : Nat × Nat) (n : Nat) (acts : List Act) : Prop where
  agree  : Agree s s' e t
  call   : s'.calls e t = { s.calls e t with pc := .returned, result := some v }
  pend   : s'.pending e t = false
  len    : acts.length = 8 + 10 * n
  avoids : ∀ a, a ∈ acts → ∀ x h, a.handler? = some (x, h) → s.nextHandler x ≤ h

/-! ### `serve` succeeds from every reachable state -/

theorem handler?_pre (s : State) (e : E) (t : Nat) :
    ∀ a, a ∈ preActs s e t → ∀ x h, a.handler? = some (x, h) → s.nextHandler x ≤ h := by
  intro a ha x h hh
  simp only [preActs, List.mem_cons, List.mem_nil_iff, or_false] at ha
  rcases ha with rfl | rfl | rfl <;> simp [Act.handler?] at hh
  obtain ⟨rfl, rfl⟩ := hh
  exact Nat.le_refl _

theorem handler?_post (s : State) (e : E) (t h : Nat) (v : Nat × Nat) :
    ∀ a, a ∈ postActs s e t h v → ∀ x h', a.handler? = some (x, h') → x = peer e ∧ h' = h := by
  intro a ha x h' hh
  simp only [postActs, List.mem_cons, List.mem_nil_iff, or_false] at ha
  rcases ha with rfl | rfl | rfl | rfl | rfl <;> simp [Act.handler?] at hh
  all_goals (obtain ⟨rfl, rfl⟩ := hh; exact ⟨rfl, rfl⟩)

theorem serve_spec_zero (sk : Skeleton) (hf : Facts sk) (ha : Async sk) (ret : Nat → Nat × Nat)
    (s : State) (e : E) (t : Nat) (hp : Pre sk s e t) :
    ∃ s' acts, serve sk ret 0 e t s = some (s', acts) ∧ Post s s' e t (ret 0) 0 acts := by
  have hl := reach_linv sk ha hp.reach
  have h1 := pre_run sk ha s e t hp.pc (hl.req_free _)
  have hr1 : Reach sk (preState sk s e t) := reach_of_run sk _ hp.reach h1
  have hl1 := reach_linv sk ha hr1
  have hne : peer e ≠ e := peer_ne e
  have h2 := post_run sk hf ha (preState sk s e t) e t (s.nextHandler (peer e)) (ret 0)
    (by simp [preState]) (by simp [preState, mkReq, hf.reqCall, hp.id]) (hl1.req_free _) (hl1.res_free _)
    (by simp only [preState]; exact hp.pend) (by simp [preState])
    (by simp only [preState, upd2_same]; exact hp.id) (by simp only [preState, upd2_same]; exact hp.res)
  refine ⟨postState (preState sk s e t) e t (s.nextHandler (peer e)) (ret 0),
    preActs s e t ++ postActs (preState sk s e t) e t (s.nextHandler (peer e)) (ret 0),
    by simp only [serve, h1, Option.bind_some, h2], ?_⟩
  refine ⟨⟨?_, ?_, ?_, ?_, ?_, ?_, ?_, ?_, ?_⟩, ?_, ?_, ?_, ?_⟩
  all_goals simp only [postState, preState]
  · intro x; exact Nat.le_refl _
  · intro x; simp only [updE_apply]; split <;> (try subst x) <;> omega
  · intro x; simp only [updE_apply]; split <;> (try subst x) <;> omega
  · intro x i _ hne; simp only [upd2_apply, hne, if_false]
  · intro x i _ hne; simp only [upd2_apply, hne, if_false]
  · intro x i hi; simp only [upd2_apply]; grind
  · intro x i hi; simp only [upd2_apply]; grind
  · intro x; trivial
  · intro x; trivial
  · simp only [upd2_same]
  · simp only [upd2_same]
  · simp [preActs, postActs]
  · intro a ham x h hh
    rcases List.mem_append.mp ham with hm | hm
    · exact handler?_pre s e t a hm x h hh
    · obtain ⟨rfl, rfl⟩ := handler?_post _ e t _ _ a hm x h hh
      exact Nat.le_refl _

/-- state after the pre phase and the handler's call to the peer -/
def midState (sk : Skeleton) (s : State) (e : E) (t n : Nat) : State :=
  callPeerState sk (preState sk s e t) (peer e) (s.nextHandler (peer e)) 0 n

structure MidFacts (sk : Skeleton) (s s2 : State) (e : E) (t n : Nat) : Prop where
  nc : ∀ x, s2.nextCall x = if x = peer e then s.nextCall (peer e) + 1 else s.nextCall x
  nh : ∀ x, s2.nextHandler x = if x = peer e then s.nextHandler (peer e) + 1 else s.nextHandler x
  np : s2.nextPub = s.nextPub
  calls : ∀ x i, s2.calls x i =
    if x = peer e ∧ i = s.nextCall (peer e) then
      { pc := .registered, id := s.nextCall (peer e), fn := 0, args := n,
        parent := some (peer e, s.nextHandler (peer e)), result := none }
    else if x = e ∧ i = t then { s.calls e t with pc := .written } else s.calls x i
  pend : ∀ x i, s2.pending x i = if x = peer e ∧ i = s.nextCall (peer e) then true else s.pending x i
  handlers : ∀ x i, s2.handlers x i =
    if x = peer e ∧ i = s.nextHandler (peer e) then
      { pc := .waitingNested (s.nextCall (peer e)), req := mkReq sk (s.calls e t), ret := none }
    else s.handlers x i
  pubs : s2.pubs = s.pubs
  reqs : s2.reqs = s.reqs
  ress : s2.ress = s.ress

theorem mid_facts (sk : Skeleton) (hf : Facts sk) (hrw : sk.stubRecvBeforeWrite = true)
    (s : State) (e : E) (t n : Nat) : MidFacts sk s (midState sk s e t n) e t n := by
  have hne : e ≠ peer e := ne_peer e
  constructor
  all_goals simp only [midState, callPeerState, startCall, preState, hrw, hf.fresh, recvKey, hf.recvKey, if_true, upd2_same]
  · intro x; simp only [updE_apply]
  · intro x; simp only [updE_apply]
  · intro x i; simp only [upd2_apply]
  · intro x i; simp only [upd2_apply]
  · intro x i; simp only [upd2_apply]; split <;> simp_all

theorem serve_tail (sk : Skeleton) (hf : Facts sk) (ha : Async sk) (s s2 s3 : State) (e : E) (t n : Nat)
    (v v' : Nat × Nat) (mid : List Act)
    (hp : Pre sk s e t) (hm : MidFacts sk s s2 e t n)
    (hpost : Post s2 s3 (peer e) (s.nextCall (peer e)) v' n mid)
    (hr4 : Reach sk (nestedDoneState s3 (peer e) (s.nextHandler (peer e)))) :
    step sk s3 (.handlerNestedDone (peer e) (s.nextHandler (peer e))) =
      some (nestedDoneState s3 (peer e) (s.nextHandler (peer e))) ∧
    run sk (nestedDoneState s3 (peer e) (s.nextHandler (peer e)))
      (postActs (nestedDoneState s3 (peer e) (s.nextHandler (peer e))) e t (s.nextHandler (peer e)) v) =
      some (postState (nestedDoneState s3 (peer e) (s.nextHandler (peer e))) e t (s.nextHandler (peer e)) v) ∧
    Agree s (postState (nestedDoneState s3 (peer e) (s.nextHandler (peer e))) e t (s.nextHandler (peer e)) v) e t ∧
    (postState (nestedDoneState s3 (peer e) (s.nextHandler (peer e))) e t (s.nextHandler (peer e)) v).calls e t =
      { s.calls e t with pc := .returned, result := some v } ∧
    (postState (nestedDoneState s3 (peer e) (s.nextHandler (peer e))) e t (s.nextHandler (peer e)) v).pending e t = false := by
  have hne : e ≠ peer e := ne_peer e
  obtain ⟨m1, m2, m3, m4, m5, m6, m7, m8, m9⟩ := hm
  obtain ⟨⟨g1, g2, g3, g4, g5, g6, g7, g8, g9⟩, pcall, ppend, -, -⟩ := hpost
  obtain ⟨-, ppc, pid, pres, ppd, plt⟩ := hp
  have hl4 := reach_linv sk ha hr4
  -- the handler thread of the outer call, as the nested run left it
  have hh3 : s3.handlers (peer e) (s.nextHandler (peer e)) =
      { pc := .waitingNested (s.nextCall (peer e)), req := mkReq sk (s.calls e t), ret := none } := by
    rw [g6 _ _ (by rw [m2]; simp), m6]; simp
  have hc3' : (s3.calls (peer e) (s.nextCall (peer e))).pc = .returned := by rw [pcall]
  -- the outer call thread, untouched by the nested run
  have hc3 : s3.calls e t = { s.calls e t with pc := .written } := by
    rw [g4 e t (by rw [m1]; simp [hne]; exact plt) (by simp [hne]), m4]; simp [hne]
  have hp3 : s3.pending e t = true := by
    rw [g5 e t (by rw [m1]; simp [hne]; exact plt) (by simp [hne]), m5]; simp [hne]; exact ppd
  have hstep := nestedDone_step sk s3 (peer e) (s.nextHandler (peer e)) (s.nextCall (peer e))
    (by rw [hh3]) hc3'
  have hrun := post_run sk hf ha (nestedDoneState s3 (peer e) (s.nextHandler (peer e))) e t
    (s.nextHandler (peer e)) v
    (by simp [nestedDoneState]) (by simp [nestedDoneState, hh3, mkReq, hf.reqCall, pid])
    (hl4.req_free _) (hl4.res_free _)
    (by simp only [nestedDoneState]; exact hp3) (by simp only [nestedDoneState]; rw [hc3])
    (by simp only [nestedDoneState]; rw [hc3]; exact pid) (by simp only [nestedDoneState]; rw [hc3]; exact pres)
  refine ⟨hstep, hrun, ⟨?_, ?_, ?_, ?_, ?_, ?_, ?_, ?_, ?_⟩, ?_, ?_⟩
  all_goals simp only [postState, nestedDoneState]
  · intro x; have := g1 x; grind
  · intro x; have := g2 x; grind
  · intro x; have := g3 x; rw [m3] at this; simp only [updE_apply]; split <;> (try subst x) <;> omega
  · intro x i hi hx
    simp only [upd2_apply, hx, if_false]
    rw [g4 x i (by grind) (by grind), m4]
    rw [if_neg (by grind), if_neg hx]
  · intro x i hi hx
    simp only [upd2_apply, hx, if_false]
    rw [g5 x i (by grind) (by grind), m5]
    rw [if_neg (by grind)]
  · intro x i hi
    simp only [upd2_apply]
    rw [if_neg (by grind), if_neg (by grind)]
    rw [g6 x i (by grind), m6, if_neg (by grind)]
  · intro x i hi
    simp only [upd2_apply]
    have h3 := g3 e; rw [m3] at h3
    rw [if_neg (by grind)]
    rw [g7 x i (by rw [m3]; exact hi), m7]
  · intro x; rw [g8, m8]
  · intro x; rw [g9, m9]
  · simp only [upd2_same]; rw [hc3]
  · simp only [upd2_same]


theorem serve_spec (sk : Skeleton) (hf : Facts sk) (ha : Async sk) (hrw : sk.stubRecvBeforeWrite = true)
    (ret : Nat → Nat × Nat) :
    ∀ n s e t, Pre sk s e t →
      ∃ s' acts, serve sk ret n e t s = some (s', acts) ∧ Post s s' e t (ret n) n acts := by
  intro n
  induction n with
  | zero => intro s e t hp; exact serve_spec_zero sk hf ha ret s e t hp
  | succ n ih =>
    intro s e t hp
    have hl := reach_linv sk ha hp.reach
    have h1 := pre_run sk ha s e t hp.pc (hl.req_free _)
    have hr1 : Reach sk (preState sk s e t) := reach_of_run sk _ hp.reach h1
    have h2 := callPeer_step sk (preState sk s e t) (peer e) (s.nextHandler (peer e)) 0 n
      (by simp [preState])
    have hr2 : Reach sk (midState sk s e t n) := Reach.step _ hr1 h2
    have hm := mid_facts sk hf hrw s e t n
    have hnc1 : (preState sk s e t).nextCall (peer e) = s.nextCall (peer e) := rfl
    have hpre2 : Pre sk (midState sk s e t n) (peer e) (s.nextCall (peer e)) :=
      ⟨hr2, by rw [hm.calls]; simp, by rw [hm.calls]; simp, by rw [hm.calls]; simp,
       by rw [hm.pend]; simp, by rw [hm.nc]; simp⟩
    obtain ⟨s3, mid, h3, hpost⟩ := ih _ _ _ hpre2
    have hr3 : Reach sk s3 := reach_of_run sk _ hr2 (serve_sound sk ret _ _ _ _ _ _ h3)
    have hstep' : step sk s3 (.handlerNestedDone (peer e) (s.nextHandler (peer e))) =
        some (nestedDoneState s3 (peer e) (s.nextHandler (peer e))) := by
      have hh3 : s3.handlers (peer e) (s.nextHandler (peer e)) =
          { pc := .waitingNested (s.nextCall (peer e)), req := mkReq sk (s.calls e t), ret := none } := by
        rw [hpost.agree.handlers _ _ (by rw [hm.nh]; simp), hm.handlers]; simp
      exact nestedDone_step sk s3 (peer e) (s.nextHandler (peer e)) (s.nextCall (peer e))
        (by rw [hh3]) (by rw [hpost.call])
    have hr4 := Reach.step _ hr3 hstep'
    obtain ⟨h4, h5, hag, hcall, hpend⟩ :=
      serve_tail sk hf ha s _ s3 e t n (ret (n + 1)) (ret n) mid hp hm hpost hr4
    refine ⟨_, preActs s e t ++ (Act.handlerCallPeer (peer e) (s.nextHandler (peer e)) 0 n ::
      (mid ++ (Act.handlerNestedDone (peer e) (s.nextHandler (peer e)) ::
        postActs (nestedDoneState s3 (peer e) (s.nextHandler (peer e))) e t (s.nextHandler (peer e)) (ret (n + 1))))),
      ?_, hag, hcall, hpend, ?_, ?_⟩
    · simp only [serve, h1, Option.bind_some, h2, hnc1]
      rw [show callPeerState sk (preState sk s e t) (peer e) (s.nextHandler (peer e)) 0 n
        = midState sk s e t n from rfl, h3]
      simp only [Option.bind_some, h4, h5]
    · simp only [List.length_append, List.length_cons, hpost.len]
      simp [preActs, postActs]; omega
    · intro a ham x h hh
      rcases List.mem_append.mp ham with hm1 | hm1
      · exact handler?_pre s e t a hm1 x h hh
      · rcases List.mem_cons.mp hm1 with rfl | hm2
        · simp [Act.handler?] at hh; obtain ⟨rfl, rfl⟩ := hh; exact Nat.le_refl _
        · rcases List.mem_append.mp hm2 with hm3 | hm3
          · have := hpost.avoids a hm3 x h hh
            rw [hm.nh] at this; split at this
            · rename_i hx; subst hx; omega
            · exact this
          · rcases List.mem_cons.mp hm3 with rfl | hm4
            · simp [Act.handler?] at hh; obtain ⟨rfl, rfl⟩ := hh; exact Nat.le_refl _
            · obtain ⟨rfl, rfl⟩ := handler?_post _ e t _ _ a hm4 x h hh
              exact Nat.le_refl _

end Panrpc.Sys
