/-
  Lemmas/Lookup.lean — general lemmas relating the lookup model (P0/P1) to Spec/Exposed.

    A  strings.Split / Join                      splitOnDot_joinDot, joinDot_splitOnDot
    B  breadth-first FieldByName = Go's depth rule   bfs_eq_some_iff, typeFieldByName_sound / _complete
       (pigeonhole on embedding chains: MinD.lt_length — the fuel `tt.length + 1` always suffices)
    C  FieldByIndex = selector evaluation        fieldByIndex_sound / _complete (flags included)
    D  MethodByName = method-set membership      methodByName_sound / _complete
    E  the walk                                  walkX_sound / walkX_complete
    F  lookup / resolution                       resolveX_runs_sound, resolveX_closureEntry, resolveX_complete,
                                                 resolveX_no_crash (for any recovering skeleton)
    G  panic classes on well-formed shapes       resolveX_crash_classes
-/
import Panrpc.Model.Lookup
import Panrpc.Spec.Exposed

namespace Panrpc.Lk
open Panrpc

/-! ### A. strings.Split / strings.Join -/

theorem splitOnDot_ne_nil (cs : List Char) : splitOnDot cs ≠ [] := by
  induction cs with
  | nil => simp [splitOnDot]
  | cons c cs ih =>
    simp only [splitOnDot]
    split
    · simp
    · split <;> simp

theorem joinDot_cons_cons (s t : List Char) (rest : List (List Char)) :
    joinDot (s :: t :: rest) = s ++ '.' :: joinDot (t :: rest) := rfl

theorem joinDot_nil_cons (segs : List (List Char)) (h : segs ≠ []) :
    joinDot ([] :: segs) = '.' :: joinDot segs := by
  cases segs with
  | nil => exact absurd rfl h
  | cons t rest => simp [joinDot]

theorem joinDot_consChar (c : Char) (seg : List Char) (segs : List (List Char)) :
    joinDot ((c :: seg) :: segs) = c :: joinDot (seg :: segs) := by
  cases segs with
  | nil => simp [joinDot]
  | cons t rest => simp [joinDot]

/-- `strings.Join(strings.Split(s, "."), ".") == s` -/
theorem joinDot_splitOnDot (cs : List Char) : joinDot (splitOnDot cs) = cs := by
  induction cs with
  | nil => simp [splitOnDot, joinDot]
  | cons c cs ih =>
    simp only [splitOnDot]
    split
    · next h => rw [joinDot_nil_cons _ (splitOnDot_ne_nil cs), ih, h]
    · split
      · next h => exact absurd h (splitOnDot_ne_nil cs)
      · next seg segs h => rw [joinDot_consChar, ← h, ih]

theorem splitOnDot_dotfree (s : List Char) (h : '.' ∉ s) : splitOnDot s = [s] := by
  induction s with
  | nil => simp [splitOnDot]
  | cons c cs ih =>
    have hc : c ≠ '.' := fun e => h (by simp [e])
    have hcs : '.' ∉ cs := fun e => h (by simp [e])
    simp [splitOnDot, hc, ih hcs]

theorem splitOnDot_append_dot (s rest : List Char) (h : '.' ∉ s) :
    splitOnDot (s ++ '.' :: rest) = s :: splitOnDot rest := by
  induction s with
  | nil => simp [splitOnDot]
  | cons c cs ih =>
    have hc : c ≠ '.' := fun e => h (by simp [e])
    have hcs : '.' ∉ cs := fun e => h (by simp [e])
    simp [splitOnDot, hc, ih hcs]

/-- `strings.Split` gives back the segments of a dot-join of dot-free segments. -/
theorem splitOnDot_joinDot (segs : List (List Char)) (hne : segs ≠ [])
    (hd : ∀ s ∈ segs, '.' ∉ s) : splitOnDot (joinDot segs) = segs := by
  induction segs with
  | nil => exact absurd rfl hne
  | cons s rest ih =>
    cases rest with
    | nil => simpa [joinDot] using splitOnDot_dotfree s (hd s (by simp))
    | cons t rest' =>
      rw [joinDot_cons_cons, splitOnDot_append_dot _ _ (hd s (by simp))]
      rw [ih (by simp) (fun x hx => hd x (by simp [hx]))]


theorem joinPath_pathParts (cs : String) :
    joinPath ((splitOnDot cs.toList).map String.ofList) = cs := by
  simp [joinPath, List.map_map, Function.comp_def, String.toList_ofList, joinDot_splitOnDot, String.ofList_toList]

theorem joinDot_eq_intercalate (xs : List (List Char)) : joinDot xs = ['.'].intercalate xs := by
  induction xs with
  | nil => simp [joinDot, List.intercalate]
  | cons s rest ih =>
    cases rest with
    | nil => simp [joinDot, List.intercalate]
    | cons t rest' =>
      rw [joinDot_cons_cons, ih]
      simp [List.intercalate, List.intersperse]

/-- `joinPath` is the standard library's `String.intercalate "."` (Go: `strings.Join(segs, ".")`) -/
theorem joinPath_eq_intercalate (l : List String) : joinPath l = ".".intercalate l := by
  rw [← String.toList_inj, String.toList_intercalate, joinPath, String.toList_ofList, joinDot_eq_intercalate]
  rfl

theorem dropLast_append_getLastD {α : Type} (l : List α) (h : l ≠ []) (x : α) :
    l.dropLast ++ [l.getLast?.getD x] = l := by
  have := List.dropLast_concat_getLast h
  rw [List.getLast?_eq_some_getLast h]
  simpa using this

/-! ### B. breadth-first search = the Go specification's depth rule -/

/-- what level `d` below a frontier contains -/
def levelOf (tt : TypeTable) (f : String) (d : Nat) (fr : List Scan) : List (List Nat) :=
  fr.flatMap fun sc => (fieldsAtDepth tt f d sc.1).map (sc.2 ++ ·)

theorem levelOf_zero (tt : TypeTable) (f : String) (fr : List Scan) :
    levelOf tt f 0 fr = fr.flatMap (scanMatches tt f) := by
  unfold levelOf
  congr 1
  funext sc
  simp only [fieldsAtDepth, scanMatches, List.map_flatMap]
  congr 1
  funext fi
  split <;> simp

theorem levelOf_succ (tt : TypeTable) (f : String) (d : Nat) (fr : List Scan) :
    levelOf tt f (d + 1) fr = levelOf tt f d (fr.flatMap (scanNext tt)) := by
  unfold levelOf
  rw [List.flatMap_assoc]
  congr 1
  funext sc
  simp only [fieldsAtDepth, scanNext, List.map_flatMap, List.flatMap_assoc]
  congr 1
  funext fi
  cases h : embTarget tt fi.1 <;> simp [List.map_map, Function.comp_def]

theorem levelOf_root (tt : TypeTable) (f : String) (d T : Nat) :
    levelOf tt f d [(T, [])] = fieldsAtDepth tt f d T := by
  simp [levelOf]

theorem bfs_eq_some_iff (tt : TypeTable) (f : String) (fuel : Nat) (fr : List Scan) (p : List Nat) :
    bfs tt f fuel fr = some p ↔
      ∃ d, d < fuel ∧ levelOf tt f d fr = [p] ∧ ∀ d', d' < d → levelOf tt f d' fr = [] := by
  induction fuel generalizing fr with
  | zero => simp [bfs]
  | succ fuel ih =>
    simp only [bfs]
    rw [← levelOf_zero]
    split
    · next q h0 =>
      constructor
      · intro h
        cases h
        exact ⟨0, by omega, h0, by intro d' hd; omega⟩
      · rintro ⟨d, _, hd, hlt⟩
        cases d with
        | zero => rw [h0] at hd; simpa using hd
        | succ k => have := hlt 0 (by omega); rw [h0] at this; simp at this
    · next a b rest h0 =>
      constructor
      · intro h; cases h
      · rintro ⟨d, _, hd, hlt⟩
        cases d with
        | zero => rw [h0] at hd; simp at hd
        | succ k => have := hlt 0 (by omega); rw [h0] at this; simp at this
    · next h0 =>
      rw [ih]
      constructor
      · rintro ⟨d, hdf, hd, hlt⟩
        refine ⟨d + 1, by omega, by rw [levelOf_succ]; exact hd, ?_⟩
        intro d' hd'
        cases d' with
        | zero => exact h0
        | succ k => rw [levelOf_succ]; exact hlt k (by omega)
      · rintro ⟨d, hdf, hd, hlt⟩
        cases d with
        | zero => rw [h0] at hd; simp at hd
        | succ k =>
          refine ⟨k, by omega, by rw [← levelOf_succ]; exact hd, ?_⟩
          intro d' hd'
          rw [← levelOf_succ]; exact hlt (d' + 1) (by omega)


/-! ### Type.FieldByName = `Selects` -/

theorem withIdx_map_fst {α : Type} (l : List α) (n : Nat) : (withIdx l n).map (·.1) = l := by
  induction l generalizing n with
  | nil => rfl
  | cons a as ih => simp [withIdx, ih]

/-- within every struct type the field names are pairwise distinct -/
def NamesNodup (tt : TypeTable) : Prop := ∀ T, ((structFields tt T).map (·.name)).Nodup

section quick
variable (f : String)

theorem quick_none (l : List (FieldDecl × Nat)) (h : l.find? (fun fi => fi.1.name == f) = none) :
    l.flatMap (fun fi => if fi.1.name == f then [[fi.2]] else []) = [] := by
  rw [List.flatMap_eq_nil_iff]
  intro x hx
  have := (List.find?_eq_none.mp h) x hx
  simp [this]

theorem quick_some (l : List (FieldDecl × Nat)) (x : FieldDecl × Nat)
    (hn : (l.map (·.1.name)).Nodup) (h : l.find? (fun fi => fi.1.name == f) = some x) :
    l.flatMap (fun fi => if fi.1.name == f then [[fi.2]] else []) = [[x.2]] := by
  induction l with
  | nil => simp at h
  | cons a as ih =>
    simp only [List.map_cons, List.nodup_cons] at hn
    simp only [List.find?_cons] at h
    rw [List.flatMap_cons]
    by_cases ha : (a.1.name == f) = true
    · rw [ha] at h
      have hax : a = x := by simpa using h
      have : as.flatMap (fun fi => if fi.1.name == f then [[fi.2]] else []) = [] := by
        rw [List.flatMap_eq_nil_iff]
        intro y hy
        have hne : ¬ (y.1.name == f) = true := by
          intro hy'
          apply hn.1
          have e1 : y.1.name = f := by simpa using hy'
          have e2 : a.1.name = f := by simpa using ha
          rw [e2, ← e1]
          exact List.mem_map_of_mem (f := fun z : FieldDecl × Nat => z.1.name) hy
        rw [if_neg hne]
      rw [if_pos ha, this, hax]; rfl
    · have ha' : (a.1.name == f) = false := by simpa using ha
      rw [ha'] at h
      rw [if_neg ha, ih hn.2 h]; rfl

theorem quick_of_singleton (l : List (FieldDecl × Nat)) (i : Nat)
    (h : l.flatMap (fun fi => if fi.1.name == f then [[fi.2]] else []) = [[i]]) :
    (l.find? (fun fi => fi.1.name == f)).map (·.2) = some i := by
  induction l with
  | nil => simp at h
  | cons a as ih =>
    rw [List.flatMap_cons] at h
    simp only [List.find?_cons]
    by_cases ha : (a.1.name == f) = true
    · simp only [ha, if_true, List.singleton_append, List.cons.injEq] at h
      simp [ha, h.1]
    · simp only [ha, Bool.false_eq_true, if_false, List.nil_append] at h
      simp [ha, ih h]

theorem quick_of_nil (l : List (FieldDecl × Nat))
    (h : l.flatMap (fun fi => if fi.1.name == f then [[fi.2]] else []) = []) :
    l.find? (fun fi => fi.1.name == f) = none := by
  rw [List.find?_eq_none]
  intro x hx hp
  have := (List.flatMap_eq_nil_iff.mp h) x hx
  simp [hp] at this

end quick

theorem typeFieldByName_sound (tt : TypeTable) (hn : NamesNodup tt) (T : Nat) (f : String) (p : List Nat)
    (h : typeFieldByName tt T f = some p) : Selects tt T f p := by
  unfold typeFieldByName at h
  split at h
  · cases h
  · next hf =>
    refine ⟨hf, ?_⟩
    split at h
    · next i hq =>
      cases h
      unfold quickScan at hq
      cases hfind : (withIdx (structFields tt T) 0).find? (fun fi => fi.1.name == f) with
      | none => simp [hfind] at hq
      | some x =>
        simp only [hfind, Option.map_some, Option.some.injEq] at hq
        refine ⟨0, ?_, by intro d' hd'; omega⟩
        have hnd : ((withIdx (structFields tt T) 0).map (·.1.name)).Nodup := by
          have : (withIdx (structFields tt T) 0).map (·.1.name)
              = ((withIdx (structFields tt T) 0).map (·.1)).map (·.name) := by simp [List.map_map]
          rw [this, withIdx_map_fst]; exact hn T
        have := quick_some f _ x hnd hfind
        simp only [fieldsAtDepth]
        rw [this, hq]
    · next hq =>
      rw [bfs_eq_some_iff] at h
      obtain ⟨d, _, hd, hlt⟩ := h
      refine ⟨d, by simpa [levelOf_root] using hd, ?_⟩
      intro d' hd'
      simpa [levelOf_root] using hlt d' hd'

/-! ### the shallowest depth of a name is smaller than the table (pigeonhole on embedding chains) -/

theorem getElem?_withIdx {α : Type} (l : List α) (n : Nat) (a : α) (i : Nat)
    (h : (a, i) ∈ withIdx l n) : n ≤ i ∧ l[i - n]? = some a := by
  induction l generalizing n with
  | nil => simp [withIdx] at h
  | cons b bs ih =>
    simp only [withIdx, List.mem_cons, Prod.mk.injEq] at h
    rcases h with ⟨rfl, rfl⟩ | h
    · simp
    · obtain ⟨h1, h2⟩ := ih (n + 1) h
      refine ⟨by omega, ?_⟩
      have : i - n = (i - (n + 1)) + 1 := by omega
      rw [this]; simpa using h2

theorem mem_withIdx_of_mem {α : Type} (l : List α) (n : Nat) (a : α) (h : a ∈ l) : ∃ i, (a, i) ∈ withIdx l n := by
  induction l generalizing n with
  | nil => simp at h
  | cons b bs ih =>
    rcases List.mem_cons.mp h with rfl | h'
    · exact ⟨n, by simp [withIdx]⟩
    · obtain ⟨i, hi⟩ := ih (n + 1) h'
      exact ⟨i, by simp [withIdx, hi]⟩

theorem hasAt_succ (tt : TypeTable) (f : String) (d T : Nat) (h : fieldsAtDepth tt f (d + 1) T ≠ []) :
    ∃ fd, fd ∈ structFields tt T ∧ ∃ T', embTarget tt fd = some T' ∧ fieldsAtDepth tt f d T' ≠ [] := by
  obtain ⟨q, hq⟩ := List.exists_mem_of_ne_nil _ h
  simp only [fieldsAtDepth, List.mem_flatMap] at hq
  obtain ⟨fi, hmem, hne⟩ := hq
  refine ⟨fi.1, List.mem_of_getElem? (getElem?_withIdx _ 0 fi.1 fi.2 hmem).2, ?_⟩
  split at hne
  · next T' he =>
    refine ⟨T', he, ?_⟩
    intro e
    rw [e] at hne
    simp at hne
  · simp at hne

theorem hasAt_of_child (tt : TypeTable) (f : String) (d T T' : Nat) (fd : FieldDecl)
    (hm : fd ∈ structFields tt T) (he : embTarget tt fd = some T') (h : fieldsAtDepth tt f d T' ≠ []) :
    fieldsAtDepth tt f (d + 1) T ≠ [] := by
  obtain ⟨i, hi⟩ := mem_withIdx_of_mem _ 0 fd hm
  obtain ⟨q, hq⟩ := List.exists_mem_of_ne_nil _ h
  intro e
  have : (i :: q) ∈ fieldsAtDepth tt f (d + 1) T := by
    simp only [fieldsAtDepth, List.mem_flatMap]
    exact ⟨(fd, i), hi, by simp [he, hq]⟩
  rw [e] at this
  simp at this

theorem hasAt_lt (tt : TypeTable) (f : String) (d T : Nat) (h : fieldsAtDepth tt f d T ≠ []) : T < tt.length := by
  have hs : structFields tt T ≠ [] := by
    intro e
    apply h
    cases d <;> simp [fieldsAtDepth, e, withIdx]
  by_cases hT : T < tt.length
  · exact hT
  · exfalso
    apply hs
    simp [structFields, List.getElem?_eq_none (Nat.le_of_not_lt hT)]

/-- `d` is the shallowest depth at which `f` occurs in `T` -/
def MinD (tt : TypeTable) (f : String) (T d : Nat) : Prop :=
  fieldsAtDepth tt f d T ≠ [] ∧ ∀ d', d' < d → fieldsAtDepth tt f d' T = []

theorem MinD.unique {tt : TypeTable} {f : String} {T a b : Nat} (ha : MinD tt f T a) (hb : MinD tt f T b) : a = b := by
  rcases Nat.lt_trichotomy a b with h | h | h
  · exact absurd (hb.2 a h) ha.1
  · exact h
  · exact absurd (ha.2 b h) hb.1

theorem MinD.child {tt : TypeTable} {f : String} {T d : Nat} (h : MinD tt f T (d + 1)) : ∃ T', MinD tt f T' d := by
  obtain ⟨fd, hm, T', he, hc⟩ := hasAt_succ tt f d T h.1
  refine ⟨T', hc, ?_⟩
  intro d' hd'
  apply Classical.byContradiction
  intro hne
  exact hasAt_of_child tt f d' T T' fd hm he hne (h.2 (d' + 1) (by omega))

theorem MinD.chain (tt : TypeTable) (f : String) (d : Nat) :
    ∀ T, MinD tt f T d → ∃ l : List Nat, l.length = d + 1 ∧ l.Nodup ∧
      ∀ x ∈ l, x < tt.length ∧ ∃ k, k ≤ d ∧ MinD tt f x k := by
  induction d with
  | zero =>
    intro T h
    exact ⟨[T], rfl, by simp, by
      intro x hx
      simp only [List.mem_singleton] at hx
      subst hx
      exact ⟨hasAt_lt tt f 0 x h.1, 0, Nat.le_refl 0, h⟩⟩
  | succ d ih =>
    intro T h
    obtain ⟨T', hc⟩ := h.child
    obtain ⟨l, hlen, hnd, hall⟩ := ih T' hc
    refine ⟨T :: l, by simp [hlen], ?_, ?_⟩
    · rw [List.nodup_cons]
      refine ⟨?_, hnd⟩
      intro hmem
      obtain ⟨_, k, hk, hmk⟩ := hall T hmem
      have := h.unique hmk
      omega
    · intro x hx
      rcases List.mem_cons.mp hx with rfl | hx'
      · exact ⟨hasAt_lt tt f (d + 1) x h.1, d + 1, Nat.le_refl _, h⟩
      · obtain ⟨h1, k, hk, hmk⟩ := hall x hx'
        exact ⟨h1, k, by omega, hmk⟩

/-- pigeonhole: the shallowest depth at which a name occurs is smaller than the number of types -/
theorem MinD.lt_length {tt : TypeTable} {f : String} {T d : Nat} (h : MinD tt f T d) : d < tt.length := by
  obtain ⟨l, hlen, hnd, hall⟩ := MinD.chain tt f d T h
  have hsub : l ⊆ List.range tt.length := by
    intro x hx
    exact List.mem_range.mpr (hall x hx).1
  have := List.Nodup.length_le_of_subset hnd hsub
  rw [List.length_range, hlen] at this
  omega

theorem typeFieldByName_complete (tt : TypeTable) (T : Nat) (f : String) (p : List Nat)
    (h : Selects tt T f p) : typeFieldByName tt T f = some p := by
  obtain ⟨hf, d, hd, hlt⟩ := h
  unfold typeFieldByName
  simp only [hf, if_false]
  cases d with
  | zero =>
    simp only [fieldsAtDepth] at hd
    -- the only level-0 match is a one-element path
    have hp : ∃ i, p = [i] := by
      have hmem : p ∈ (withIdx (structFields tt T) 0).flatMap
          (fun fi => if fi.1.name == f then [[fi.2]] else []) := by rw [hd]; simp
      rw [List.mem_flatMap] at hmem
      obtain ⟨fi, _, hfi⟩ := hmem
      split at hfi
      · exact ⟨fi.2, by simpa using hfi⟩
      · simp at hfi
    obtain ⟨i, rfl⟩ := hp
    have := quick_of_singleton f _ i hd
    unfold quickScan
    rw [this]
  | succ k =>
    have h0 := hlt 0 (by omega)
    simp only [fieldsAtDepth] at h0
    have hq := quick_of_nil f _ h0
    unfold quickScan
    rw [hq]
    simp only [Option.map_none]
    rw [bfs_eq_some_iff]
    have hk : k + 1 < tt.length := MinD.lt_length (f := f) (T := T) ⟨by rw [hd]; simp, hlt⟩
    refine ⟨k + 1, by omega, by simpa [levelOf_root] using hd, ?_⟩
    intro d' hd'
    simpa [levelOf_root] using hlt d' hd'


/-! ### C. Value.Field / FieldByIndex = `Val.select` -/

theorem field_found (tt : TypeTable) (x y : RV) (i : Nat) (h : x.field tt i = .found y) :
    ∃ fd, x.v.fieldAt tt i = some (y.v, fd) ∧
      y.sticky = (x.sticky || (!fd.exported && !fd.embedded)) ∧
      y.embed = (!fd.exported && fd.embedded) := by
  unfold RV.field at h
  split at h
  · next ty inst fs hv =>
    split at h
    · next fd fv h1 h2 =>
      cases h
      exact ⟨fd, by simp [hv, Val.fieldAt, h1, h2], rfl, rfl⟩
    · cases h
  · cases h

theorem field_of_fieldAt (tt : TypeTable) (x : RV) (i : Nat) (v' : Val) (fd : FieldDecl)
    (h : x.v.fieldAt tt i = some (v', fd)) :
    x.field tt i = .found { v := v', sticky := x.sticky || (!fd.exported && !fd.embedded),
                            embed := !fd.exported && fd.embedded } := by
  unfold RV.field
  cases hv : x.v with
  | struct ty inst fs =>
    rw [hv] at h
    simp only [Val.fieldAt] at h
    split at h
    · next fd' fv h1 h2 =>
      simp only [Option.some.injEq, Prod.mk.injEq] at h
      simp [h1, h2, h.1, h.2]
    · cases h
  | ptr _ _ => rw [hv] at h; simp [Val.fieldAt] at h
  | iface _ _ => rw [hv] at h; simp [Val.fieldAt] at h
  | other _ _ => rw [hv] at h; simp [Val.fieldAt] at h

theorem derefEmb_some (y y' : RV) (h : y.derefEmb = some y') :
    y.v.autoDeref = some y'.v ∧ y'.sticky = y.sticky ∧ y'.embed = y.embed := by
  unfold RV.derefEmb at h
  split at h
  · cases h
  · next ty t hv => cases h; simp [hv, Val.autoDeref]
  · next hn1 hn2 =>
    cases h
    refine ⟨?_, rfl, rfl⟩
    cases hv : y.v with
    | ptr ty t =>
      cases t with
      | none => exact absurd hv (hn1 ty)
      | some w => exact absurd hv (hn2 ty w)
    | _ => simp [Val.autoDeref]

theorem derefEmb_of_autoDeref (y : RV) (w' : Val) (h : y.v.autoDeref = some w') :
    y.derefEmb = some { y with v := w' } := by
  unfold RV.derefEmb
  cases hv : y.v with
  | ptr ty t =>
    rw [hv] at h
    simp only [Val.autoDeref] at h
    subst h
    rfl
  | struct a b c => rw [hv] at h; simp only [Val.autoDeref, Option.some.injEq] at h; subst h; simp [← hv]
  | iface a b => rw [hv] at h; simp only [Val.autoDeref, Option.some.injEq] at h; subst h; simp [← hv]
  | other a b => rw [hv] at h; simp only [Val.autoDeref, Option.some.injEq] at h; subst h; simp [← hv]

/-- What FieldByIndex returns is what the selector denotes; the flags it carries. -/
theorem fieldByIndex_sound (tt : TypeTable) (p : List Nat) (hp : p ≠ []) (x z : RV)
    (h : x.fieldByIndex tt p = .found z) :
    ∃ fd, x.v.select tt p = some (z.v, fd) ∧ z.embed = (!fd.exported && fd.embedded) ∧
      (z.sticky = false → x.sticky = false ∧ (fd.exported = true ∨ fd.embedded = true)) := by
  induction p generalizing x with
  | nil => exact absurd rfl hp
  | cons i rest ih =>
    cases rest with
    | nil =>
      simp only [RV.fieldByIndex] at h
      obtain ⟨fd, h1, h2, h3⟩ := field_found tt x z i h
      refine ⟨fd, by simpa [Val.select] using h1, h3, ?_⟩
      intro hz
      rw [hz] at h2
      revert h2
      cases x.sticky <;> cases fd.exported <;> cases fd.embedded <;> simp
    | cons j rest' =>
      simp only [RV.fieldByIndex] at h
      split at h
      · next y hy =>
        split at h
        · cases h
        · next y' hy' =>
          obtain ⟨fd0, h1, h2, _⟩ := field_found tt x y i hy
          obtain ⟨g1, g2, _⟩ := derefEmb_some y y' hy'
          obtain ⟨fd, k1, k2, k3⟩ := ih (by simp) y' h
          refine ⟨fd, by simp [Val.select, h1, g1, k1], k2, ?_⟩
          intro hz
          obtain ⟨k4, k5⟩ := k3 hz
          rw [g2, h2] at k4
          refine ⟨?_, k5⟩
          revert k4
          cases x.sticky <;> simp
      · next r hr => exact absurd h (hr z)

theorem fieldsAtDepth_ne_nil (tt : TypeTable) (f : String) (d T : Nat) : [] ∉ fieldsAtDepth tt f d T := by
  cases d with
  | zero =>
    simp only [fieldsAtDepth, List.mem_flatMap, not_exists, not_and]
    intro fi _; split <;> simp
  | succ d =>
    simp only [fieldsAtDepth, List.mem_flatMap, not_exists, not_and]
    intro fi _; split <;> simp

theorem wfFields_get (tt : TypeTable) (fds : List FieldDecl) (fs : List Val) (i : Nat) (fd : FieldDecl) (v : Val)
    (h : wfFields tt fds fs = true) (h1 : fds[i]? = some fd) (h2 : fs[i]? = some v) :
    v.ty = fd.ty ∧ wfVal tt v = true := by
  induction fds generalizing fs i with
  | nil => simp at h1
  | cons a as ih =>
    cases fs with
    | nil => simp at h2
    | cons b bs =>
      simp only [wfFields, Bool.and_eq_true, beq_iff_eq] at h
      cases i with
      | zero => simp at h1 h2; subst h1 h2; exact ⟨h.1.1, h.1.2⟩
      | succ k => simp at h1 h2; exact ih bs k h.2 h1 h2

theorem wf_fieldAt (tt : TypeTable) (v v' : Val) (i : Nat) (fd : FieldDecl)
    (hw : wfVal tt v = true) (h : v.fieldAt tt i = some (v', fd)) :
    v'.ty = fd.ty ∧ wfVal tt v' = true := by
  cases v with
  | struct ty inst fs =>
    simp only [Val.fieldAt] at h
    split at h
    · next fd' fv h1 h2 =>
      simp only [Option.some.injEq, Prod.mk.injEq] at h
      obtain ⟨rfl, rfl⟩ := h
      simp only [wfVal] at hw
      split at hw
      · next fds ms htt =>
        have : structFields tt ty = fds := by simp [structFields, htt]
        rw [this] at h1
        exact wfFields_get tt fds fs i _ _ hw h1 h2
      · cases hw
    · cases h
  | ptr _ _ => simp [Val.fieldAt] at h
  | iface _ _ => simp [Val.fieldAt] at h
  | other _ _ => simp [Val.fieldAt] at h

theorem wf_autoDeref (tt : TypeTable) (v w : Val) (hw : wfVal tt v = true) (h : v.autoDeref = some w) :
    wfVal tt w = true := by
  cases v with
  | ptr ty t =>
    simp only [Val.autoDeref] at h
    subst h
    simp only [wfVal] at hw
    split at hw
    · simp only [wfTarget, Bool.and_eq_true] at hw; exact hw.2
    · cases hw
  | struct a b c => simp only [Val.autoDeref, Option.some.injEq] at h; subst h; exact hw
  | iface a b => simp only [Val.autoDeref, Option.some.injEq] at h; subst h; exact hw
  | other a b => simp only [Val.autoDeref, Option.some.injEq] at h; subst h; exact hw

theorem wf_select (tt : TypeTable) (p : List Nat) (v v' : Val) (fd : FieldDecl)
    (hw : wfVal tt v = true) (h : v.select tt p = some (v', fd)) : wfVal tt v' = true := by
  induction p generalizing v with
  | nil => simp [Val.select] at h
  | cons i rest ih =>
    cases rest with
    | nil => simp only [Val.select] at h; exact (wf_fieldAt tt v v' i fd hw h).2
    | cons j rest' =>
      simp only [Val.select] at h
      split at h
      · cases h
      · next w fd0 h1 =>
        split at h
        · cases h
        · next w' h2 =>
          exact ih w' (wf_autoDeref tt w w' (wf_fieldAt tt v w i fd0 hw h1).2 h2) h

theorem wf_asStruct (tt : TypeTable) (v sv : Val) (hw : wfVal tt v = true) (h : v.asStruct = some sv) :
    wfVal tt sv = true := by
  unfold Val.asStruct at h
  split at h
  · cases h; exact hw
  · cases h
    simp only [wfVal] at hw
    split at hw
    · simp only [wfTarget, Bool.and_eq_true] at hw; exact hw.2
    · cases hw
  · cases h

/-- the value stored in an embedded field whose promoted struct type is `T'` is, after the
    automatic dereference, a struct value of type `T'` -/
theorem wf_embedded_struct (tt : TypeTable) (fd : FieldDecl) (T' : Nat) (w w' : Val)
    (he : embTarget tt fd = some T') (hty : w.ty = fd.ty) (hw : wfVal tt w = true)
    (hd : w.autoDeref = some w') : ∃ inst fs, w' = .struct T' inst fs := by
  unfold embTarget at he
  split at he
  · split at he
    · next a b htt =>
      cases he
      cases w with
      | struct ty inst fs =>
        simp only [Val.autoDeref, Option.some.injEq] at hd
        subst hd
        simp only [Val.ty] at hty
        exact ⟨inst, fs, by rw [hty]⟩
      | ptr ty t => simp only [Val.ty] at hty; simp [wfVal, hty, htt] at hw
      | iface ty t => simp only [Val.ty] at hty; simp [wfVal, hty, htt] at hw
      | other ty t => simp only [Val.ty] at hty; simp [wfVal, hty, htt] at hw
    · next e ms htt =>
      split at he
      · next a b hte =>
        cases he
        cases w with
        | ptr ty t =>
          simp only [Val.ty] at hty
          simp only [Val.autoDeref] at hd
          subst hd
          simp only [wfVal, hty, htt, wfTarget, Bool.and_eq_true, beq_iff_eq] at hw
          obtain ⟨hty', hw'⟩ := hw
          cases w' with
          | struct ty' inst fs => simp only [Val.ty] at hty'; exact ⟨inst, fs, by rw [hty']⟩
          | ptr ty' t => simp only [Val.ty] at hty'; simp [wfVal, hty', hte] at hw'
          | iface ty' t => simp only [Val.ty] at hty'; simp [wfVal, hty', hte] at hw'
          | other ty' t => simp only [Val.ty] at hty'; simp [wfVal, hty', hte] at hw'
        | struct ty inst fs => simp only [Val.ty] at hty; simp [wfVal, hty, htt] at hw
        | iface ty t => simp only [Val.ty] at hty; simp [wfVal, hty, htt] at hw
        | other ty t => simp only [Val.ty] at hty; simp [wfVal, hty, htt] at hw
      · cases he
    · cases he
  · cases he

theorem embTarget_embedded (tt : TypeTable) (fd : FieldDecl) (T' : Nat) (h : embTarget tt fd = some T') :
    fd.embedded = true := by
  unfold embTarget at h
  split at h
  · assumption
  · cases h

/-- On a well-formed value, FieldByIndex along a path the type-level search can produce returns
    the selected field; only the selected field's own declaration decides the flags. -/
theorem fieldByIndex_complete (tt : TypeTable) (f : String) (d : Nat) :
    ∀ (x : RV) (T inst : Nat) (fs : List Val) (p : List Nat) (v' : Val) (fd : FieldDecl),
      x.v = .struct T inst fs → wfVal tt x.v = true → p ∈ fieldsAtDepth tt f d T →
      x.v.select tt p = some (v', fd) →
      x.fieldByIndex tt p = .found { v := v', sticky := x.sticky || (!fd.exported && !fd.embedded),
                                      embed := !fd.exported && fd.embedded } := by
  induction d with
  | zero =>
    intro x T inst fs p v' fd hv hw hp hs
    simp only [fieldsAtDepth, List.mem_flatMap] at hp
    obtain ⟨fi, _, hfi⟩ := hp
    split at hfi
    · simp only [List.mem_singleton] at hfi
      subst hfi
      simp only [Val.select] at hs
      simp only [RV.fieldByIndex]
      exact field_of_fieldAt tt x _ v' fd hs
    · simp at hfi
  | succ d ih =>
    intro x T inst fs p v' fd hv hw hp hs
    simp only [fieldsAtDepth, List.mem_flatMap] at hp
    obtain ⟨fi, hmem, hfi⟩ := hp
    split at hfi
    · next T' hemb =>
      simp only [List.mem_map] at hfi
      obtain ⟨q, hq, rfl⟩ := hfi
      cases q with
      | nil => exact absurd hq (fieldsAtDepth_ne_nil tt f d T')
      | cons j rest =>
        simp only [Val.select] at hs
        split at hs
        · cases hs
        · next w fd0 h1 =>
          split at hs
          · cases hs
          · next w' h2 =>
            -- the declaration read through the value is the one the type-level search used
            have hfd0 : fd0 = fi.1 := by
              have hg := (getElem?_withIdx _ 0 fi.1 fi.2 hmem).2
              rw [hv] at h1
              simp only [Val.fieldAt] at h1
              split at h1
              · next fd' fv g1 g2 =>
                simp only [Option.some.injEq, Prod.mk.injEq] at h1
                simp only [Nat.sub_zero] at hg
                rw [hg] at g1
                cases g1
                exact h1.2.symm
              · cases h1
            subst hfd0
            have hwf := wf_fieldAt tt x.v w fi.2 fi.1 hw h1
            obtain ⟨inst', fs', hw'⟩ := wf_embedded_struct tt fi.1 T' w w' hemb hwf.1 hwf.2 h2
            have hemb' := embTarget_embedded tt fi.1 T' hemb
            have hfield := field_of_fieldAt tt x fi.2 w fi.1 h1
            simp only [RV.fieldByIndex, hfield]
            rw [derefEmb_of_autoDeref _ w' h2]
            simp only
            have := ih { v := w', sticky := x.sticky || (!fi.1.exported && !fi.1.embedded),
                         embed := !fi.1.exported && fi.1.embedded } T' inst' fs' (j :: rest) v' fd
                      hw' (wf_autoDeref tt w w' hwf.2 h2) hq hs
            rw [this]
            simp [hemb']
    · simp at hfi


/-! ### D. Value.MethodByName = `HasMethod` -/

theorem recvOf_eq_boundObject (v : Val) : v.recvOf = v.boundObject := by
  cases v with
  | struct a b c => rfl
  | other a b => rfl
  | ptr a t =>
    cases t with
    | none => rfl
    | some w => cases w <;> rfl
  | iface a d =>
    cases d with
    | none => rfl
    | some w =>
      cases w with
      | struct a b c => rfl
      | other a b => rfl
      | iface a b => rfl
      | ptr a t =>
        cases t with
        | none => rfl
        | some u => cases u <;> rfl

theorem methodsOf_sub (tt : TypeTable) (v : Val) (md : MethodDecl) (h : md ∈ methodsOf tt v) :
    md ∈ declaredMethods tt v ∧ (v.isIface = false → md.exported = true) := by
  cases v with
  | struct ty a b =>
    simp only [methodsOf, declaredMethods] at *
    split at h <;> simp_all [Val.isIface]
  | ptr ty a =>
    simp only [methodsOf, declaredMethods] at *
    split at h <;> simp_all [Val.isIface]
  | other ty a =>
    simp only [methodsOf, declaredMethods] at *
    split at h <;> simp_all [Val.isIface]
  | iface ty a =>
    simp only [methodsOf, declaredMethods] at *
    split at h <;> simp_all [Val.isIface]

theorem methodByName_sound (tt : TypeTable) (x : RV) (name : String) (mv : MethodVal)
    (h : methodByName tt (some x) name = .found mv) (hu : mv.unexpIface = false) :
    mv.name = name ∧ mv.ro = (x.sticky || x.embed) ∧ HasMethod tt x.v name mv.numIn mv.recv := by
  simp only [methodByName] at h
  split at h
  · cases h
  · next md hfind =>
    have hname : md.name = name := by simpa using List.find?_some hfind
    obtain ⟨hmem, hexp⟩ := methodsOf_sub tt x.v md (List.mem_of_find?_eq_some hfind)
    split at h
    · cases h
    · next v hnil =>
      simp only [MethRes.found.injEq] at h
      subst h
      simp only at hu
      refine ⟨hname, rfl, ?_, (recvOf_eq_boundObject _), md, hmem, hname, ?_, rfl⟩
      · cases hv : x.v with
        | iface ty d =>
          cases d with
          | none => exact absurd hv (hnil ty)
          | some w => rfl
        | _ => rfl
      · cases hi : x.v.isIface with
        | false => exact hexp hi
        | true => simpa [hi] using hu

/-- within every method set the method names are pairwise distinct -/
def MethodsNodup (tt : TypeTable) : Prop := ∀ v, ((declaredMethods tt v).map (·.name)).Nodup

theorem find_of_nodup (l : List MethodDecl) (md : MethodDecl) (hn : (l.map (·.name)).Nodup) (hm : md ∈ l) :
    l.find? (fun x => x.name == md.name) = some md := by
  induction l with
  | nil => simp at hm
  | cons a as ih =>
    simp only [List.map_cons, List.nodup_cons] at hn
    simp only [List.find?_cons]
    rcases List.mem_cons.mp hm with rfl | hm'
    · simp
    · have hne : (a.name == md.name) = false := by
        simp only [beq_eq_false_iff_ne, ne_eq]
        intro e
        apply hn.1
        rw [e]
        exact List.mem_map_of_mem (f := fun z : MethodDecl => z.name) hm'
      rw [hne]
      exact ih hn.2 hm'

theorem filter_names_nodup (l : List MethodDecl) (p : MethodDecl → Bool) (hn : (l.map (·.name)).Nodup) :
    ((l.filter p).map (·.name)).Nodup := by
  induction l with
  | nil => simp
  | cons a as ih =>
    simp only [List.map_cons, List.nodup_cons] at hn
    simp only [List.filter_cons]
    split
    · simp only [List.map_cons, List.nodup_cons]
      refine ⟨?_, ih hn.2⟩
      intro hmem
      apply hn.1
      simp only [List.mem_map, List.mem_filter] at hmem ⊢
      obtain ⟨y, ⟨hy, _⟩, e⟩ := hmem
      exact ⟨y, hy, e⟩
    · exact ih hn.2

theorem methodsOf_find (tt : TypeTable) (hm : MethodsNodup tt) (v : Val) (md : MethodDecl)
    (hmem : md ∈ declaredMethods tt v) (hexp : md.exported = true) :
    (methodsOf tt v).find? (fun x => x.name == md.name) = some md := by
  have hn := hm v
  cases v with
  | struct ty a b =>
    cases htt : tt[ty]? with
    | none => simp [declaredMethods, htt] at hmem
    | some d =>
      cases d with
      | struct fs ms =>
        simp only [declaredMethods, htt] at hmem hn
        simp only [methodsOf, htt]
        exact find_of_nodup _ md (filter_names_nodup ms (·.exported) hn) (List.mem_filter.mpr ⟨hmem, hexp⟩)
      | _ => simp [declaredMethods, htt] at hmem
  | ptr ty a =>
    cases htt : tt[ty]? with
    | none => simp [declaredMethods, htt] at hmem
    | some d =>
      cases d with
      | ptr e ms =>
        simp only [declaredMethods, htt] at hmem hn
        simp only [methodsOf, htt]
        exact find_of_nodup _ md (filter_names_nodup ms (·.exported) hn) (List.mem_filter.mpr ⟨hmem, hexp⟩)
      | _ => simp [declaredMethods, htt] at hmem
  | other ty a =>
    cases htt : tt[ty]? with
    | none => simp [declaredMethods, htt] at hmem
    | some d =>
      cases d with
      | other e ms =>
        simp only [declaredMethods, htt] at hmem hn
        simp only [methodsOf, htt]
        exact find_of_nodup _ md (filter_names_nodup ms (·.exported) hn) (List.mem_filter.mpr ⟨hmem, hexp⟩)
      | _ => simp [declaredMethods, htt] at hmem
  | iface ty a =>
    cases htt : tt[ty]? with
    | none => simp [declaredMethods, htt] at hmem
    | some d =>
      cases d with
      | iface ms =>
        simp only [declaredMethods, htt] at hmem hn
        simp only [methodsOf, htt]
        exact find_of_nodup _ md hn hmem
      | _ => simp [declaredMethods, htt] at hmem

theorem methodByName_complete (tt : TypeTable) (hm : MethodsNodup tt) (x : RV) (m : String) (n : Nat)
    (recv : Option Nat) (h : HasMethod tt x.v m n recv) :
    methodByName tt (some x) m =
      .found { recv := recv, name := m, numIn := n, ro := x.sticky || x.embed, unexpIface := false } := by
  obtain ⟨hnil, hrecv, md, hmem, hname, hexp, hnum⟩ := h
  have hfind := methodsOf_find tt hm x.v md hmem hexp
  rw [hname] at hfind
  simp only [methodByName, hfind]
  split
  · next ty hv => simp [hv, Val.isNilIface] at hnil
  · simp [hrecv, recvOf_eq_boundObject, hname, hnum, hexp]


/-! ### E. the walk -/

/-- The statements of the lookup, as modelled, are all present in the source. -/
structure Faithful (sk : Skeleton) : Prop where
  split : sk.lkSplitOnDot = true
  empty : sk.lkEmptyPathRejected = true
  walks : sk.lkWalksAllButLast = true
  deref : sk.lkDerefPtrOnce = true
  nonStruct : sk.lkRejectsNonStruct = true
  fbn : sk.lkFieldByName = true
  invalidField : sk.lkRejectsInvalidField = true
  mbn : sk.lkMethodByNameOnLast = true
  nonFunc : sk.lkRejectsNonFunc = true
  fallback : sk.lkFallbackIsClosureManager = true
  fallbackNonFunc : sk.lkFallbackRejectsNonFunc = true
  argCount : sk.lkArgCountChecked = true
  perRequest : sk.lkResolvesPerRequest = true   -- `resolve` is a function of the CURRENT root: nothing resolved earlier is reused
  argCountFirst : sk.lkArgCountBeforeDecode = true   -- the count check precedes every access to the parameter list (`Type().In(i)`), to `req.Args[i]` and every `MakeFunc`: `argCheck` is the first thing that looks at the arity

theorem walkX_cons (sk : Skeleton) (hf : Faithful sk) (chk : Bool) (tt : TypeTable) (cur : Option RV)
    (name : String) (rest : List String) :
    walkX sk chk tt cur (name :: rest) =
      if kindOf tt (elemIfPtr cur) != .struct then .err errNonStruct
      else match fieldByName tt (elemIfPtr cur) name with
        | .panic p => .panic p
        | .invalid => .err errInvalidField
        | .found y => if chk && (y.sticky || y.embed) then .err errUnexported
                      else walkX sk chk tt (some y) rest := by
  simp [walkX, hf.deref, hf.nonStruct, hf.fbn, hf.invalidField]
  rfl

theorem elemIfPtr_struct (tt : TypeTable) (x : RV) (h : kindOf tt (elemIfPtr (some x)) = .struct) :
    ∃ T inst fs, elemIfPtr (some x) = some { v := .struct T inst fs, sticky := x.sticky, embed := x.embed } ∧
      x.v.asStruct = some (.struct T inst fs) := by
  obtain ⟨v, s, e⟩ := x
  cases v with
  | struct T inst fs => exact ⟨T, inst, fs, rfl, rfl⟩
  | ptr ty t =>
    cases t with
    | none => simp [elemIfPtr, kindOf] at h
    | some w =>
      cases w with
      | struct T inst fs => exact ⟨T, inst, fs, rfl, rfl⟩
      | ptr a b => simp [elemIfPtr, kindOf, kindOfVal] at h
      | iface a b => simp [elemIfPtr, kindOf, kindOfVal] at h
      | other a b =>
        simp only [elemIfPtr, Option.map_some, kindOf, kindOfVal] at h
        split at h <;> cases h
  | iface a b => simp [elemIfPtr, kindOf, kindOfVal] at h
  | other a b =>
    simp only [elemIfPtr, kindOf, kindOfVal] at h
    split at h <;> cases h

theorem elemIfPtr_of_asStruct (x : RV) (sv : Val) (h : x.v.asStruct = some sv) :
    elemIfPtr (some x) = some { v := sv, sticky := x.sticky, embed := x.embed } ∧
      ∃ T inst fs, sv = .struct T inst fs := by
  obtain ⟨v, s, e⟩ := x
  cases v with
  | struct T inst fs =>
    simp only [Val.asStruct, Option.some.injEq] at h
    subst h
    exact ⟨rfl, T, inst, fs, rfl⟩
  | ptr ty t =>
    cases t with
    | none => simp [Val.asStruct] at h
    | some w =>
      cases w with
      | struct T inst fs =>
        simp only [Val.asStruct, Option.some.injEq] at h
        subst h
        exact ⟨rfl, T, inst, fs, rfl⟩
      | ptr a b => simp [Val.asStruct] at h
      | iface a b => simp [Val.asStruct] at h
      | other a b => simp [Val.asStruct] at h
  | iface a b => simp [Val.asStruct] at h
  | other a b => simp [Val.asStruct] at h

theorem selects_ne_nil (tt : TypeTable) (T : Nat) (f : String) (p : List Nat) (h : Selects tt T f p) : p ≠ [] := by
  obtain ⟨_, d, hd, _⟩ := h
  intro e
  subst e
  exact fieldsAtDepth_ne_nil tt f d T (by rw [hd]; simp)

/-- Soundness of the walk: if it arrives somewhere and a callable method is found there, the
    path is exposed — in the strict sense when the walk rejects unexported names (`chk`),
    otherwise in the lax sense. -/
theorem walkX_sound (sk : Skeleton) (hf : Faithful sk) (chk : Bool) (tt : TypeTable) (hn : NamesNodup tt)
    (m : String) (mv : MethodVal) (hro : mv.ro = false) (hu : mv.unexpIface = false) :
    ∀ (segs : List String) (x : RV) (cur : Option RV),
      walkX sk chk tt (some x) segs = .at cur → methodByName tt cur m = .found mv →
      x.sticky = false ∧ (segs = [] → x.embed = false) ∧ ExposedG chk tt x.v segs m mv.numIn mv.recv := by
  intro segs
  induction segs with
  | nil =>
    intro x cur hw hm
    simp only [walkX, Walk.at.injEq] at hw
    subst hw
    obtain ⟨_, h2, h3⟩ := methodByName_sound tt x m mv hm hu
    rw [hro] at h2
    have hs : x.sticky = false := by revert h2; cases x.sticky <;> simp
    have he : x.embed = false := by revert h2; cases x.embed <;> cases x.sticky <;> simp
    exact ⟨hs, fun _ => he, .method h3⟩
  | cons name rest ih =>
    intro x cur hw hm
    rw [walkX_cons sk hf] at hw
    split at hw
    · cases hw
    · next hk =>
      have hk' : kindOf tt (elemIfPtr (some x)) = .struct := by simpa using hk
      obtain ⟨T, inst, fs, hel, has⟩ := elemIfPtr_struct tt x hk'
      rw [hel] at hw
      split at hw
      · cases hw
      · cases hw
      · next y hy =>
        simp only [fieldByName] at hy
        split at hy
        · cases hy
        · next p htf =>
          have hsel := typeFieldByName_sound tt hn T name p htf
          split at hw
          · cases hw
          · next hchk =>
            obtain ⟨ih1, ih2, ih3⟩ := ih y cur hw hm
            obtain ⟨fd, k1, k2, k3⟩ := fieldByIndex_sound tt p (selects_ne_nil tt T name p hsel) _ y hy
            obtain ⟨k4, k5⟩ := k3 ih1
            refine ⟨k4, by simp, .field has hsel k1 ?_ ih3⟩
            cases hc : chk with
            | true =>
              left
              rw [hc, ih1] at hchk
              have : y.embed = false := by simpa using hchk
              rw [this] at k2
              revert k2; rcases k5 with h | h <;> simp [h]
            | false =>
              by_cases hexp : fd.exported = true
              · exact .inl hexp
              · right
                have hemb : fd.embedded = true := by rcases k5 with h | h; exact absurd h hexp; exact h
                refine ⟨rfl, hemb, ?_⟩
                intro hr
                have := ih2 hr
                have hexp' : fd.exported = false := by simpa using hexp
                rw [this, hemb, hexp'] at k2
                simp at k2


/-- Completeness of the walk: a strictly exposed path is walked without error and the method is
    found, bound to the right object, callable. -/
theorem walkX_complete (sk : Skeleton) (hf : Faithful sk) (chk : Bool) (tt : TypeTable)
    (hmn : MethodsNodup tt)
    {v : Val} {segs : List String} {m : String} {n : Nat} {recv : Option Nat}
    (h : ExposedG true tt v segs m n recv) :
    ∀ (x : RV), x.v = v → wfVal tt v = true → x.sticky = false → x.embed = false →
      ∃ cur, walkX sk chk tt (some x) segs = .at cur ∧
        methodByName tt cur m = .found { recv := recv, name := m, numIn := n, ro := false, unexpIface := false } := by
  induction h with
  | method hm =>
    intro x hv hw hs he
    refine ⟨some x, by simp [walkX], ?_⟩
    subst hv
    have := methodByName_complete tt hmn x _ _ _ hm
    simpa [hs, he] using this
  | @field v T inst fs f p v' fd segs m n recv has hsel hselect hexp _ ih =>
    intro x hv hw hs he
    subst hv
    obtain ⟨hel, _⟩ := elemIfPtr_of_asStruct x _ has
    have hwS := wf_asStruct tt x.v _ hw has
    have hfe : fd.exported = true := by
      rcases hexp with h | h
      · exact h
      · exact absurd h.1 (by simp)
    have htf := typeFieldByName_complete tt T f p hsel
    have hmem : ∃ d, p ∈ fieldsAtDepth tt f d T := by
      obtain ⟨_, d, hd, _⟩ := hsel
      exact ⟨d, by rw [hd]; simp⟩
    obtain ⟨d, hmem⟩ := hmem
    have hfbi := fieldByIndex_complete tt f d
      { v := .struct T inst fs, sticky := x.sticky, embed := x.embed } T inst fs p v' fd rfl hwS hmem hselect
    obtain ⟨cur, hc1, hc2⟩ := ih
      { v := v', sticky := x.sticky || (!fd.exported && !fd.embedded), embed := !fd.exported && fd.embedded }
      rfl (wf_select tt p _ v' fd hwS hselect) (by simp [hs, hfe]) (by simp [hfe])
    refine ⟨cur, ?_, hc2⟩
    rw [walkX_cons sk hf, hel]
    simp only [kindOf, kindOfVal, fieldByName, htf, hfbi]
    simp [hs, hfe]
    simpa [hs, hfe] using hc1

/-! ### well-formed tables give the three table hypotheses -/

theorem namesNodup_of_wfTable (tt : TypeTable) (h : wfTable tt = true) : NamesNodup tt := by
  intro T
  simp only [wfTable, Bool.and_eq_true, List.all_eq_true, decide_eq_true_eq] at h
  unfold structFields
  split
  · next fs ms htt =>
    have := (h _ (List.mem_of_getElem? htt)).1
    simpa [declFields] using this
  · simp

theorem methodsNodup_of_wfTable (tt : TypeTable) (h : wfTable tt = true) : MethodsNodup tt := by
  intro v
  simp only [wfTable, Bool.and_eq_true, List.all_eq_true, decide_eq_true_eq] at h
  cases v with
  | struct ty a b =>
    simp only [declaredMethods]
    split
    · next fs ms htt => simpa [allMethods] using (h _ (List.mem_of_getElem? htt)).2
    · simp
  | ptr ty a =>
    simp only [declaredMethods]
    split
    · next fs ms htt => simpa [allMethods] using (h _ (List.mem_of_getElem? htt)).2
    · simp
  | iface ty a =>
    simp only [declaredMethods]
    split
    · next ms htt => simpa [allMethods] using (h _ (List.mem_of_getElem? htt)).2
    · simp
  | other ty a =>
    simp only [declaredMethods]
    split
    · next fs ms htt => simpa [allMethods] using (h _ (List.mem_of_getElem? htt)).2
    · simp


/-! ### F. lookup and resolution -/

theorem pathParts_eq (sk : Skeleton) (hf : Faithful sk) (path : String) :
    pathParts sk path = (splitOnDot path.toList).map String.ofList := by
  simp [pathParts, hf.split]

theorem pathParts_ne_nil (sk : Skeleton) (hf : Faithful sk) (path : String) : pathParts sk path ≠ [] := by
  rw [pathParts_eq sk hf]
  simp [splitOnDot_ne_nil]

theorem pathParts_joinPath (sk : Skeleton) (hf : Faithful sk) (l : List String) (hne : l ≠ [])
    (hd : ∀ s ∈ l, '.' ∉ s.toList) : pathParts sk (joinPath l) = l := by
  rw [pathParts_eq sk hf, joinPath, String.toList_ofList, splitOnDot_joinDot]
  · simp [List.map_map, Function.comp_def, String.ofList_toList]
  · simpa using hne
  · intro s hs
    simp only [List.mem_map] at hs
    obtain ⟨a, ha, rfl⟩ := hs
    exact hd a ha

/-- A method value returned by the lookup that `Call` accepts comes from an exposed path. -/
theorem lookupX_func (sk : Skeleton) (hf : Faithful sk) (chk : Bool) (tt : TypeTable) (hn : NamesNodup tt)
    (root : Option Val) (path : String) (mv : MethodVal)
    (h : lookupX sk chk tt root path = .func mv) (hro : mv.ro = false) (hu : mv.unexpIface = false) :
    ∃ segs, path = joinPath (segs ++ [mv.name]) ∧ ExposedN chk tt root segs mv.name mv.numIn mv.recv := by
  have hb : lookupBody sk chk tt root path = .func mv := by
    unfold lookupX at h
    split at h
    · split at h <;> cases h
    · exact h
  unfold lookupBody at hb
  simp only [hf.empty, hf.walks, hf.mbn, hf.nonFunc, Bool.true_and, if_true] at hb
  split at hb
  · cases hb
  · split at hb
    · cases hb
    · cases hb
    · next cur hwalk =>
      split at hb
      · cases hb
      · cases hb
      · next m' hm =>
        cases hb
        have hparts := dropLast_append_getLastD (pathParts sk path) (pathParts_ne_nil sk hf path) ""
        have hpath : path = joinPath (pathParts sk path) := by
          rw [pathParts_eq sk hf, joinPath_pathParts]
        cases root with
        | none =>
          exfalso
          simp only [rootValue, Option.map_none] at hwalk
          cases hseg : (pathParts sk path).dropLast with
          | nil =>
            rw [hseg] at hwalk
            simp only [walkX, Walk.at.injEq] at hwalk
            subst hwalk
            simp [methodByName] at hm
          | cons a b =>
            rw [hseg, walkX_cons sk hf] at hwalk
            simp [elemIfPtr, kindOf] at hwalk
        | some v =>
          simp only [rootValue, Option.map_some] at hwalk
          cases cur with
          | none => simp [methodByName] at hm
          | some c =>
            obtain ⟨hname, _, _⟩ := methodByName_sound tt c _ mv hm hu
            obtain ⟨_, _, hexp⟩ := walkX_sound sk hf chk tt hn _ mv hro hu _ _ _ hwalk hm
            refine ⟨(pathParts sk path).dropLast, ?_, v, rfl, ?_⟩
            · rw [hname, hparts]; exact hpath
            · rw [hname]; exact hexp

theorem argCheck_eq (sk : Skeleton) (hf : Faithful sk) (n nargs : Nat) (k : Resolution) :
    argCheck sk n nargs k = if n != nargs + 1 then .rejected errArgCount else k := by
  simp [argCheck, hf.argCount]

theorem callMethod_runs (sk : Skeleton) (mv : MethodVal) (inst : Nat) (m : String)
    (h : callMethod sk mv = .runs inst m) :
    mv.ro = false ∧ mv.unexpIface = false ∧ mv.recv = some inst ∧ mv.name = m := by
  unfold callMethod callPanic at h
  split at h
  · split at h <;> cases h
  · split at h
    · split at h <;> cases h
    · split at h
      · next i hr =>
        simp only [Resolution.runs.injEq] at h
        simp_all
      · cases h

theorem callMethod_runsNil (sk : Skeleton) (mv : MethodVal) (m : String)
    (h : callMethod sk mv = .runsNil m) :
    mv.ro = false ∧ mv.unexpIface = false ∧ mv.recv = none ∧ mv.name = m := by
  unfold callMethod callPanic at h
  split at h
  · split at h <;> cases h
  · split at h
    · split at h <;> cases h
    · split at h
      · cases h
      · next hr =>
        simp only [Resolution.runsNil.injEq] at h
        simp_all

/-- what `resolveX` can be when it ends in a call of a method value `mv` -/
theorem resolveX_call (sk : Skeleton) (hf : Faithful sk) (chk : Bool) (tt : TypeTable) (root : Option Val)
    (path : String) (nargs : Nat) (r : Resolution)
    (h : resolveX sk chk tt root path nargs = r)
    (hr : (∃ i m, r = .runs i m) ∨ (∃ m, r = .runsNil m)) :
    ∃ mv, lookupX sk chk tt root path = .func mv ∧ mv.numIn = nargs + 1 ∧ callMethod sk mv = r := by
  unfold resolveX at h
  split at h
  · unfold resolverPanic at h
    split at h <;> subst h <;> rcases hr with ⟨_, _, hr⟩ | ⟨_, hr⟩ <;> cases hr
  · next mv hl =>
    rw [argCheck_eq sk hf] at h
    split at h
    · subst h; rcases hr with ⟨_, _, hr⟩ | ⟨_, hr⟩ <;> cases hr
    · next hne => exact ⟨mv, hl, by simpa using hne, h⟩
  · unfold resolverPanic at h
    split at h <;> subst h <;> rcases hr with ⟨_, _, hr⟩ | ⟨_, hr⟩ <;> cases hr
  · simp only [hf.fallback, hf.fallbackNonFunc, if_true] at h
    rw [argCheck_eq sk hf] at h
    split at h
    · split at h <;> subst h <;> rcases hr with ⟨_, _, hr⟩ | ⟨_, hr⟩ <;> cases hr
    · subst h; rcases hr with ⟨_, _, hr⟩ | ⟨_, hr⟩ <;> cases hr

/-- SOUNDNESS (general form).  If a request runs application code then its name is an exposed path
    ending in an exported method of the value held there, the argument count fits, and exactly
    that method of exactly that object runs.  `chk = true`: strict exposure; `chk = false`: lax. -/
theorem resolveX_runs_sound (sk : Skeleton) (hf : Faithful sk) (chk : Bool) (tt : TypeTable)
    (hn : NamesNodup tt) (root : Option Val) (path : String) (nargs inst : Nat) (m : String)
    (h : resolveX sk chk tt root path nargs = .runs inst m) :
    ∃ segs n, path = joinPath (segs ++ [m]) ∧ ExposedN chk tt root segs m n (some inst) ∧ nargs + 1 = n := by
  obtain ⟨mv, hl, hnum, hc⟩ := resolveX_call sk hf chk tt root path nargs _ h (.inl ⟨_, _, rfl⟩)
  obtain ⟨h1, h2, h3, h4⟩ := callMethod_runs sk mv inst m hc
  obtain ⟨segs, hp, he⟩ := lookupX_func sk hf chk tt hn root path mv hl h1 h2
  rw [h3, h4] at he
  rw [h4] at hp
  exact ⟨segs, mv.numIn, hp, he, hnum.symm⟩

/-- the same for a method value bound to a nil pointer -/
theorem resolveX_runsNil_sound (sk : Skeleton) (hf : Faithful sk) (chk : Bool) (tt : TypeTable)
    (hn : NamesNodup tt) (root : Option Val) (path : String) (nargs : Nat) (m : String)
    (h : resolveX sk chk tt root path nargs = .runsNil m) :
    ∃ segs n, path = joinPath (segs ++ [m]) ∧ ExposedN chk tt root segs m n none ∧ nargs + 1 = n := by
  obtain ⟨mv, hl, hnum, hc⟩ := resolveX_call sk hf chk tt root path nargs _ h (.inr ⟨_, rfl⟩)
  obtain ⟨h1, h2, h3, h4⟩ := callMethod_runsNil sk mv m hc
  obtain ⟨segs, hp, he⟩ := lookupX_func sk hf chk tt hn root path mv hl h1 h2
  rw [h3, h4] at he
  rw [h4] at hp
  exact ⟨segs, mv.numIn, hp, he, hnum.symm⟩

theorem callMethod_ne_closureEntry (sk : Skeleton) (mv : MethodVal) : callMethod sk mv ≠ .closureEntry := by
  unfold callMethod callPanic
  intro h
  split at h
  · split at h <;> cases h
  · split at h
    · split at h <;> cases h
    · split at h <;> cases h

/-- The only callable that is not a method of the exposed object graph: the closure entry point,
    reached only when the lookup on the object failed, by its exact name, with two arguments. -/
theorem resolveX_closureEntry (sk : Skeleton) (hf : Faithful sk) (chk : Bool) (tt : TypeTable)
    (root : Option Val) (path : String) (nargs : Nat)
    (h : resolveX sk chk tt root path nargs = .closureEntry) :
    (∃ e, lookupX sk chk tt root path = .err e) ∧ path ∈ sk.lkClosureManagerMethods ∧ nargs = 2 := by
  unfold resolveX at h
  split at h
  · unfold resolverPanic at h; split at h <;> cases h
  · next mv hl =>
    rw [argCheck_eq sk hf] at h
    split at h
    · cases h
    · exact absurd h (callMethod_ne_closureEntry sk mv)
  · unfold resolverPanic at h; split at h <;> cases h
  · next e hl =>
    simp only [hf.fallback, hf.fallbackNonFunc, if_true] at h
    rw [argCheck_eq sk hf] at h
    split at h
    · next hc =>
      split at h
      · cases h
      · next hne =>
        refine ⟨⟨e, hl⟩, by simpa using hc, ?_⟩
        simp only [closureEntryNumIn, bne_iff_ne, ne_eq, Decidable.not_not] at hne
        omega
    · cases h

/-- COMPLETENESS of the lookup (general form). -/
theorem lookupX_complete (sk : Skeleton) (hf : Faithful sk) (chk : Bool) (tt : TypeTable)
    (root : Option Val) (hwf : WFShape tt root) (segs : List String) (m : String) (n : Nat) (recv : Option Nat)
    (he : ExposedN true tt root segs m n recv)
    (hd : ∀ s ∈ segs ++ [m], '.' ∉ s.toList) (hm : m ≠ "") :
    lookupX sk chk tt root (joinPath (segs ++ [m])) =
      .func { recv := recv, name := m, numIn := n, ro := false, unexpIface := false } := by
  obtain ⟨v, rfl, hexp⟩ := he
  simp only [WFShape, wfShape, Bool.and_eq_true] at hwf
  obtain ⟨hwt, _, hwv⟩ := hwf
  obtain ⟨cur, hw, hmeth⟩ := walkX_complete sk hf chk tt
    (methodsNodup_of_wfTable tt hwt) hexp { v := v, sticky := false, embed := false } rfl hwv rfl rfl
  have hparts := pathParts_joinPath sk hf (segs ++ [m]) (by simp) hd
  have hbody : lookupBody sk chk tt (some v) (joinPath (segs ++ [m])) =
      .func { recv := recv, name := m, numIn := n, ro := false, unexpIface := false } := by
    unfold lookupBody
    simp only [hparts, hf.empty, hf.walks, hf.mbn, Bool.true_and, if_true, List.dropLast_concat,
      List.getLast?_concat, Option.getD_some, rootValue, Option.map_some, hw, hmeth]
    have hne : (segs ++ [m] == [""]) = false := by
      cases segs with
      | nil => simpa using hm
      | cons a b => cases b <;> simp
    simp [hne]
  simp only [lookupX, hbody]

/-- COMPLETENESS (general form). -/
theorem resolveX_complete (sk : Skeleton) (hf : Faithful sk) (chk : Bool) (tt : TypeTable)
    (root : Option Val) (hwf : WFShape tt root) (segs : List String) (m : String) (n nargs inst : Nat)
    (he : ExposedN true tt root segs m n (some inst)) (hargs : nargs + 1 = n)
    (hd : ∀ s ∈ segs ++ [m], '.' ∉ s.toList) (hm : m ≠ "") :
    resolveX sk chk tt root (joinPath (segs ++ [m])) nargs = .runs inst m := by
  simp only [resolveX, lookupX_complete sk hf chk tt root hwf segs m n _ he hd hm]
  rw [argCheck_eq sk hf]
  simp [← hargs, callMethod]

/-- strict exposure implies lax exposure -/
theorem ExposedG.weaken {b : Bool} {tt : TypeTable} {v : Val} {segs : List String} {m : String} {n : Nat}
    {recv : Option Nat} (h : ExposedG b tt v segs m n recv) : ExposedG false tt v segs m n recv := by
  induction h with
  | method hm => exact .method hm
  | field h1 h2 h3 h4 _ ih =>
    refine .field h1 h2 h3 ?_ ih
    rcases h4 with h | ⟨_, h5, h6⟩
    · exact .inl h
    · exact .inr ⟨rfl, h5, h6⟩

theorem ExposedN.weaken {b : Bool} {tt : TypeTable} {root : Option Val} {segs : List String} {m : String}
    {n : Nat} {recv : Option Nat} (h : ExposedN b tt root segs m n recv) : ExposedN false tt root segs m n recv := by
  obtain ⟨v, hv, he⟩ := h
  exact ⟨v, hv, he.weaken⟩

/-- the facts under which no request can take the process down during resolution -/
structure Recovering (sk : Skeleton) : Prop where
  call : sk.reqCallViaUtilsCall = true ∧ sk.ucRecovers = true
  resolver : sk.reqResolverRecovers = true ∨
    (sk.lkRecoversPanics = true ∧ sk.lkRejectsNonFunc = true ∧ sk.lkArgCountChecked = true ∧
      (sk.lkFallbackIsClosureManager = true → sk.lkFallbackRejectsNonFunc = true))

theorem lookupX_ne_panic (sk : Skeleton) (h : sk.lkRecoversPanics = true) (chk : Bool) (tt : TypeTable)
    (root : Option Val) (path : String) (w : String) : lookupX sk chk tt root path ≠ .panic w := by
  unfold lookupX
  intro hc
  split at hc
  · simp [h] at hc
  · next hnp => exact hnp w hc

theorem lookupX_ne_zero (sk : Skeleton) (h : sk.lkRejectsNonFunc = true) (chk : Bool) (tt : TypeTable)
    (root : Option Val) (path : String) : lookupX sk chk tt root path ≠ .zero := by
  unfold lookupX
  intro hc
  split at hc
  · split at hc <;> cases hc
  · unfold lookupBody at hc
    simp only [h, if_true] at hc
    split at hc
    · cases hc
    · split at hc
      · cases hc
      · cases hc
      · split at hc
        · split at hc <;> cases hc
        · cases hc

theorem callMethod_ne_crash (sk : Skeleton) (h : sk.reqCallViaUtilsCall = true ∧ sk.ucRecovers = true)
    (mv : MethodVal) (w : String) : callMethod sk mv ≠ .crash w := by
  unfold callMethod callPanic
  simp only [h.1, h.2, Bool.and_self, if_true]
  intro hc
  split at hc
  · cases hc
  · split at hc
    · cases hc
    · split at hc <;> cases hc

/-- C06 (resolution part), general form: with a recovering resolver no request crashes the process. -/
theorem resolveX_no_crash (sk : Skeleton) (hr : Recovering sk) (chk : Bool) (tt : TypeTable)
    (root : Option Val) (path : String) (nargs : Nat) (w : String) :
    resolveX sk chk tt root path nargs ≠ .crash w := by
  intro hc
  rcases hr.resolver with h | ⟨h1, h2, h3, h4⟩
  · unfold resolveX resolverPanic argCheck resolverPanic at hc
    simp only [h, if_true] at hc
    split at hc
    · cases hc
    · next mv _ =>
      split at hc
      · split at hc
        · cases hc
        · exact callMethod_ne_crash sk hr.call mv w hc
      · split at hc
        · cases hc
        · exact callMethod_ne_crash sk hr.call mv w hc
    · cases hc
    · repeat' split at hc
      all_goals cases hc
  · unfold resolveX at hc
    split at hc
    · next p hl => exact lookupX_ne_panic sk h1 chk tt root path p hl
    · next mv _ =>
      simp only [argCheck, h3, if_true] at hc
      split at hc
      · cases hc
      · exact callMethod_ne_crash sk hr.call mv w hc
    · next hl => exact lookupX_ne_zero sk h2 chk tt root path hl
    · simp only [argCheck, h3, if_true] at hc
      split at hc
      · next hfb =>
        simp only [h4 hfb, if_true] at hc
        repeat' split at hc
        all_goals cases hc
      · cases hc


/-! ### G. the panics of the lookup on a well-formed shape: exactly three classes -/

theorem wfFields_len (tt : TypeTable) (fds : List FieldDecl) (fs : List Val) (i : Nat) (fd : FieldDecl)
    (h : wfFields tt fds fs = true) (h1 : fds[i]? = some fd) : ∃ v, fs[i]? = some v := by
  induction fds generalizing fs i with
  | nil => simp at h1
  | cons a as ih =>
    cases fs with
    | nil => simp [wfFields] at h
    | cons b bs =>
      simp only [wfFields, Bool.and_eq_true] at h
      cases i with
      | zero => exact ⟨b, by simp⟩
      | succ k => simp at h1; simpa using ih bs k h.2 h1

/-- `Field(i)` of a well-formed struct value at a declared index does not panic -/
theorem field_wf_found (tt : TypeTable) (x : RV) (T inst : Nat) (fs : List Val) (i : Nat) (fd : FieldDecl)
    (hv : x.v = .struct T inst fs) (hw : wfVal tt x.v = true) (hfd : (structFields tt T)[i]? = some fd) :
    ∃ w, x.v.fieldAt tt i = some (w, fd) := by
  rw [hv] at hw ⊢
  simp only [wfVal] at hw
  split at hw
  · next fds ms htt =>
    have hs : structFields tt T = fds := by simp [structFields, htt]
    rw [hs] at hfd
    obtain ⟨w, hw'⟩ := wfFields_len tt fds fs i fd hw hfd
    exact ⟨w, by simp [Val.fieldAt, hs, hfd, hw']⟩
  · cases hw

theorem derefEmb_none (y : RV) (h : y.derefEmb = none) : y.v.autoDeref = none := by
  unfold RV.derefEmb at h
  split at h
  · next ty hv => simp [hv, Val.autoDeref]
  · cases h
  · cases h

/-- On a well-formed value FieldByIndex along a path of the type-level search can only panic
    with "indirection through nil pointer to embedded struct". -/
theorem fieldByIndex_wf_panic (tt : TypeTable) (f : String) (d : Nat) :
    ∀ (x : RV) (T inst : Nat) (fs : List Val) (p : List Nat) (w : String),
      x.v = .struct T inst fs → wfVal tt x.v = true → p ∈ fieldsAtDepth tt f d T →
      x.fieldByIndex tt p = .panic w → w = msgNilEmb := by
  induction d with
  | zero =>
    intro x T inst fs p w hv hw hp hpan
    simp only [fieldsAtDepth, List.mem_flatMap] at hp
    obtain ⟨fi, hmem, hfi⟩ := hp
    split at hfi
    · simp only [List.mem_singleton] at hfi
      subst hfi
      have hg := (getElem?_withIdx _ 0 fi.1 fi.2 hmem).2
      simp only [Nat.sub_zero] at hg
      obtain ⟨v', hv'⟩ := field_wf_found tt x T inst fs fi.2 fi.1 hv hw hg
      simp only [RV.fieldByIndex, field_of_fieldAt tt x _ v' fi.1 hv'] at hpan
      cases hpan
    · simp at hfi
  | succ d ih =>
    intro x T inst fs p w hv hw hp hpan
    simp only [fieldsAtDepth, List.mem_flatMap] at hp
    obtain ⟨fi, hmem, hfi⟩ := hp
    split at hfi
    · next T' hemb =>
      simp only [List.mem_map] at hfi
      obtain ⟨q, hq, rfl⟩ := hfi
      cases q with
      | nil => exact absurd hq (fieldsAtDepth_ne_nil tt f d T')
      | cons j rest =>
        have hg := (getElem?_withIdx _ 0 fi.1 fi.2 hmem).2
        simp only [Nat.sub_zero] at hg
        obtain ⟨v', hv'⟩ := field_wf_found tt x T inst fs fi.2 fi.1 hv hw hg
        simp only [RV.fieldByIndex, field_of_fieldAt tt x _ v' fi.1 hv'] at hpan
        split at hpan
        · simp only [FieldRes.panic.injEq] at hpan; exact hpan.symm
        · next y' hy' =>
          obtain ⟨g1, _, _⟩ := derefEmb_some _ y' hy'
          simp only at g1
          have hwf := wf_fieldAt tt x.v v' fi.2 fi.1 hw hv'
          obtain ⟨inst', fs', hs'⟩ := wf_embedded_struct tt fi.1 T' v' y'.v hemb hwf.1 hwf.2 g1
          exact ih y' T' inst' fs' (j :: rest) w hs' (wf_autoDeref tt v' y'.v hwf.2 g1) hq hpan
    · simp at hfi

theorem selects_mem (tt : TypeTable) (T : Nat) (f : String) (p : List Nat) (h : Selects tt T f p) :
    ∃ d, p ∈ fieldsAtDepth tt f d T := by
  obtain ⟨_, d, hd, _⟩ := h
  exact ⟨d, by rw [hd]; simp⟩

/-- the walk over a well-formed value: it can only panic on a nil embedded pointer, and where it
    arrives is a well-formed (valid) value -/
theorem walkX_wf (sk : Skeleton) (hf : Faithful sk) (chk : Bool) (tt : TypeTable) (hn : NamesNodup tt) :
    ∀ (segs : List String) (x : RV), wfVal tt x.v = true →
      (∀ w, walkX sk chk tt (some x) segs = .panic w → w = msgNilEmb) ∧
      (∀ cur, walkX sk chk tt (some x) segs = .at cur → ∃ c, cur = some c ∧ wfVal tt c.v = true) := by
  intro segs
  induction segs with
  | nil =>
    intro x hw
    constructor
    · intro w h; simp [walkX] at h
    · intro cur h
      simp only [walkX, Walk.at.injEq] at h
      exact ⟨x, h.symm, hw⟩
  | cons name rest ih =>
    intro x hw
    rw [walkX_cons sk hf]
    by_cases hk : kindOf tt (elemIfPtr (some x)) = .struct
    · obtain ⟨T, inst, fs, hel, has⟩ := elemIfPtr_struct tt x hk
      have hwS := wf_asStruct tt x.v _ hw has
      simp only [hk, bne_self_eq_false, Bool.false_eq_true, if_false]
      rw [hel]
      simp only [fieldByName]
      cases htf : typeFieldByName tt T name with
      | none => simp
      | some p =>
        have hsel := typeFieldByName_sound tt hn T name p htf
        obtain ⟨d, hmem⟩ := selects_mem tt T name p hsel
        simp only
        cases hfbi : RV.fieldByIndex tt { v := .struct T inst fs, sticky := x.sticky, embed := x.embed } p with
        | panic w' =>
          have := fieldByIndex_wf_panic tt name d _ T inst fs p w' rfl hwS hmem hfbi
          simp [this]
        | invalid => simp
        | found y =>
          obtain ⟨fd, k1, _, _⟩ := fieldByIndex_sound tt p (selects_ne_nil tt T name p hsel) _ y hfbi
          have hwy := wf_select tt p _ y.v fd hwS k1
          simp only
          split
          · simp
          · exact ih y hwy
    · have : (kindOf tt (elemIfPtr (some x)) != Kind.struct) = true := by simpa using hk
      simp [this]

theorem methodByName_panic (tt : TypeTable) (c : RV) (name w : String)
    (h : methodByName tt (some c) name = .panic w) : w = msgNilIface := by
  simp only [methodByName] at h
  split at h
  · cases h
  · split at h
    · simp only [MethRes.panic.injEq] at h; exact h.symm
    · cases h

/-- Every panic of the lookup on a well-formed shape is one of three: `MethodByName` on the zero
    Value (exactly when the registry's local object is nil), `Method` on a nil interface value,
    indirection through a nil embedded pointer. -/
theorem lookupBody_panic_classes (sk : Skeleton) (hf : Faithful sk) (chk : Bool) (tt : TypeTable)
    (root : Option Val) (hwf : WFShape tt root) (path w : String)
    (h : lookupBody sk chk tt root path = .panic w) :
    (root = none ∧ w = msgZeroMeth) ∨ (root ≠ none ∧ (w = msgNilIface ∨ w = msgNilEmb)) := by
  simp only [WFShape, wfShape, Bool.and_eq_true] at hwf
  have hn := namesNodup_of_wfTable tt hwf.1
  unfold lookupBody at h
  simp only [hf.empty, hf.walks, hf.mbn, hf.nonFunc, Bool.true_and, if_true] at h
  split at h
  · cases h
  · cases root with
    | none =>
      left
      refine ⟨rfl, ?_⟩
      simp only [rootValue, Option.map_none] at h
      cases hseg : (pathParts sk path).dropLast with
      | nil =>
        rw [hseg] at h
        simp only [walkX, methodByName, LkRes.panic.injEq] at h
        exact h.symm
      | cons a b =>
        rw [hseg, walkX_cons sk hf] at h
        simp [elemIfPtr, kindOf] at h
    | some v =>
      right
      refine ⟨by simp, ?_⟩
      simp only [rootValue, Option.map_some] at h
      have hwv : wfVal tt v = true := by
        have := hwf.2
        simp only [Bool.and_eq_true] at this
        exact this.2
      obtain ⟨hp, hat⟩ := walkX_wf sk hf chk tt hn (pathParts sk path).dropLast
        { v := v, sticky := false, embed := false } hwv
      split at h
      · cases h
      · next p hwalk =>
        simp only [LkRes.panic.injEq] at h
        subst h
        exact .inr (hp _ hwalk)
      · next cur hwalk =>
        obtain ⟨c, rfl, _⟩ := hat cur hwalk
        split at h
        · next p hm =>
          simp only [LkRes.panic.injEq] at h
          subst h
          exact .inl (methodByName_panic tt c _ _ hm)
        · cases h
        · cases h

/-- The crashes of the resolution (un-recovered resolver, recovering `utils.Call`) on a
    well-formed shape are exactly the three panic classes of the lookup. -/
theorem resolveX_crash_classes (sk : Skeleton) (hf : Faithful sk)
    (hcall : sk.reqCallViaUtilsCall = true ∧ sk.ucRecovers = true) (chk : Bool) (tt : TypeTable)
    (root : Option Val) (hwf : WFShape tt root) (path : String) (nargs : Nat) (w : String)
    (h : resolveX sk chk tt root path nargs = .crash w) :
    (root = none ∧ w = msgZeroMeth) ∨ (root ≠ none ∧ (w = msgNilIface ∨ w = msgNilEmb)) := by
  unfold resolveX at h
  split at h
  · next p hl =>
    unfold resolverPanic at h
    split at h
    · cases h
    · simp only [Resolution.crash.injEq] at h
      subst h
      unfold lookupX at hl
      split at hl
      · next p' hb =>
        split at hl
        · cases hl
        · simp only [LkRes.panic.injEq] at hl
          subst hl
          exact lookupBody_panic_classes sk hf chk tt root hwf path _ hb
      · next hnp => exact absurd hl (hnp p)
  · next mv _ =>
    rw [argCheck_eq sk hf] at h
    split at h
    · cases h
    · exact absurd h (callMethod_ne_crash sk hcall mv w)
  · next hl => exact absurd hl (lookupX_ne_zero sk hf.nonFunc chk tt root path)
  · simp only [hf.fallback, hf.fallbackNonFunc, if_true] at h
    rw [argCheck_eq sk hf] at h
    repeat' split at h
    all_goals cases h

end Panrpc.Lk
