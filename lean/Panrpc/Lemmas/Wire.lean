/-
  Lemmas/Wire.lean — general lemmas about P3 (Model/Wire.lean), for every skeleton that has the
  facts named in the hypothesis bundles below.
-/
import Panrpc.Model.Wire

namespace Panrpc.Wire
open Panrpc

/-! ### the source facts, bundled -/

/-- the stub builds `Request{Call: callID, Function: name, Args: []T{}}`, skips the context and
    appends one encoding per further argument, in order; funcs travel as their closure id -/
structure ReqFacts (sk : Skeleton) : Prop where
  call       : sk.stubRequestCallIsCallId = true
  fn         : sk.stubRequestFunctionIsName = true
  initEmpty  : sk.stubRequestArgsInitEmpty = true
  ctxSkipped : sk.stubCtxSkipped = true
  inOrder    : sk.stubArgsAppendInOrder = true
  funcReg    : sk.stubFuncArgsRegistered = true

/-- every `Response` literal has `Call: req.Call` and the documented `Value` / `Err` -/
structure ResFacts (sk : Skeleton) : Prop where
  call   : sk.reqResponseCallIsReqCall = true
  shapes : sk.reqRespShapesOk = true

/-- the struct tags are the documented member names -/
structure DocTags (sk : Skeleton) : Prop where
  reqCall     : sk.tagReqCall = "call"
  reqFunction : sk.tagReqFunction = "function"
  reqArgs     : sk.tagReqArgs = "args"
  resCall     : sk.tagResCall = "call"
  resValue    : sk.tagResValue = "value"
  resErr      : sk.tagResErr = "err"
  msgRequest  : sk.tagMsgRequest = "request"
  msgResponse : sk.tagMsgResponse = "response"

/-- response loop and result decoding of the stub -/
structure DecFacts (sk : Skeleton) : Prop where
  trim    : sk.respErrIffTrimNonEmpty = true
  fresh   : sk.respErrFreshPerFrame = true
  errFrom : sk.stubErrResultFromResponse = true
  oneOut  : sk.stubOneOutDecodesValueOnlyIfNotError = true
  twoOut  : sk.stubTwoOutSkipsDecodeWhenCancelled = true

structure EnvFacts (sk : Skeleton) : Prop where
  reqOnly : sk.stEncodeRequestOnly = true
  resOnly : sk.stEncodeResponseOnly = true

/-! ### TrimSpace -/

theorem all_dropWhile {α : Type} (p : α → Bool) (l : List α) :
    (∀ x ∈ l.dropWhile p, p x = true) ↔ (∀ x ∈ l, p x = true) := by
  induction l with
  | nil => simp
  | cons a t ih =>
    by_cases h : p a = true
    · simp [h, ih]
    · simp [h]

theorem dropWhile_eq_nil {α : Type} (p : α → Bool) (l : List α) :
    l.dropWhile p = [] ↔ ∀ x ∈ l, p x = true := by
  induction l with
  | nil => simp
  | cons a t ih =>
    by_cases h : p a = true
    · simp [h, ih]
    · simp [h]

theorem trimSpace_eq_nil_iff (s : List Char) :
    trimSpace s = [] ↔ ∀ c ∈ s, isGoSpace c = true := by
  unfold trimSpace
  rw [List.reverse_eq_nil_iff, dropWhile_eq_nil]
  simp only [List.mem_reverse]
  exact all_dropWhile isGoSpace s

/-- `strings.TrimSpace(s) != ""` exactly when `s` contains a non-blank character. -/
theorem trimSpace_ne_nil_iff (s : List Char) :
    trimSpace s ≠ [] ↔ ∃ c ∈ s, isGoSpace c = false := by
  rw [Ne, trimSpace_eq_nil_iff]
  constructor
  · intro h
    apply Classical.byContradiction
    intro hn
    apply h
    intro c hc
    cases hb : isGoSpace c with
    | true => rfl
    | false => exact absurd ⟨c, hc, hb⟩ hn
  · intro ⟨c, hc, hb⟩ h
    rw [h c hc] at hb
    cases hb

theorem nonBlank_iff (m : String) : nonBlank m = true ↔ ∃ c ∈ m.toList, isGoSpace c = false := by
  rw [← trimSpace_ne_nil_iff]
  simp [nonBlank]

theorem nonBlank_false_iff (m : String) : nonBlank m = false ↔ ∀ c ∈ m.toList, isGoSpace c = true := by
  rw [← trimSpace_eq_nil_iff]
  simp [nonBlank]

/-! ### lookup -/

theorem lookupLast_none {α : Type} (k : String) (kvs : List (String × α))
    (h : ∀ v, (k, v) ∉ kvs) : lookupLast k kvs = none := by
  induction kvs with
  | nil => rfl
  | cons kv r ih =>
    obtain ⟨k', v'⟩ := kv
    have hr : ∀ v, (k, v) ∉ r := fun v hv => h v (List.mem_cons_of_mem _ hv)
    have hk : k' ≠ k := by
      intro e; subst e; exact h v' (List.mem_cons_self ..)
    simp [lookupLast, ih hr, hk]

/-- With unique keys, the member is found wherever it stands. -/
theorem lookupLast_of_mem_nodup {α : Type} (k : String) (v : α) (kvs : List (String × α))
    (hn : (kvs.map Prod.fst).Nodup) (hm : (k, v) ∈ kvs) : lookupLast k kvs = some v := by
  induction kvs with
  | nil => cases hm
  | cons kv r ih =>
    obtain ⟨k', v'⟩ := kv
    simp only [List.map_cons, List.nodup_cons] at hn
    obtain ⟨hk', hn'⟩ := hn
    rcases List.mem_cons.mp hm with e | hm'
    · cases e
      have : lookupLast k r = none := by
        apply lookupLast_none
        intro w hw
        exact hk' (List.mem_map.mpr ⟨(k, w), hw, rfl⟩)
      simp [lookupLast, this]
    · simp [lookupLast, ih hn' hm']

theorem payloads_map_raw {α P : Type} (f : α → P) (l : List α) :
    payloads (l.map fun a => Tree.raw (f a)) = some (l.map f) := by
  induction l with
  | nil => rfl
  | cons a t ih => simp [payloads, ih]

/-! ### request -/

theorem argElem_eq {V P : Type} (sk : Skeleton) (σ : Codec V P) (h : sk.stubFuncArgsRegistered = true)
    (a : Arg V) : argElem sk σ a = .raw (σ.enc (argValue σ a)) := by
  cases a <;> simp [argElem, argValue, h]

/-- The request frame, literally. `a` is the first argument (the context), `rest` the others. -/
theorem mkRequest_eq {V P : Type} (sk : Skeleton) (h : ReqFacts sk) (σ : Codec V P)
    (callId name : String) (a : Arg V) (rest : List (Arg V)) :
    mkRequest sk σ callId name (a :: rest) =
      .obj [ (sk.tagReqCall, .str callId), (sk.tagReqFunction, .str name),
             (sk.tagReqArgs, .arr (rest.map fun x => .raw (σ.enc (argValue σ x)))) ] := by
  obtain ⟨h1, h2, h3, h4, h5, h6⟩ := h
  have he : argElem sk σ = fun x => Tree.raw (σ.enc (argValue σ x)) := funext (argElem_eq sk σ h6)
  cases rest with
  | nil => simp [mkRequest, argsTree, wireArgs, h1, h2, h3, h4, h5]
  | cons b t => simp [mkRequest, argsTree, wireArgs, h1, h2, h4, h5, he]

/-- The frame does not depend on the first argument. -/
theorem mkRequest_first_irrelevant {V P : Type} (sk : Skeleton) (h : sk.stubCtxSkipped = true)
    (σ : Codec V P) (callId name : String) (a b : Arg V) (rest : List (Arg V)) :
    mkRequest sk σ callId name (a :: rest) = mkRequest sk σ callId name (b :: rest) := by
  simp [mkRequest, argsTree, wireArgs, h]

theorem lookupLast_last {α : Type} (k : String) (v : α) (l : List (String × α)) :
    lookupLast k (l ++ [(k, v)]) = some v := by
  induction l with
  | nil => simp [lookupLast]
  | cons kv r ih => obtain ⟨k', v'⟩ := kv; simp [lookupLast, ih]

/-- What Go's decoder on the callee side reads as `req.Args`. -/
theorem reqArgsField_mkRequest {V P : Type} (sk : Skeleton) (h : ReqFacts sk) (σ : Codec V P)
    (callId name : String) (a : Arg V) (rest : List (Arg V)) :
    reqArgsField sk (mkRequest sk σ callId name (a :: rest)) =
      some (rest.map fun x => σ.enc (argValue σ x)) := by
  rw [mkRequest_eq sk h]
  have hl := lookupLast_last sk.tagReqArgs
    (Tree.arr (rest.map fun x => Tree.raw (σ.enc (argValue σ x))))
    [(sk.tagReqCall, Tree.str callId), (sk.tagReqFunction, Tree.str name)]
  simp only [List.cons_append, List.nil_append] at hl
  simp only [reqArgsField, Tree.field, hl]
  exact payloads_map_raw (fun x => σ.enc (argValue σ x)) rest

/-- Position by position, the handler's values are the caller's after one round trip. -/
theorem handlerArgs_mkRequest {V P : Type} (sk : Skeleton) (h : ReqFacts sk) (σ : Codec V P)
    (callId name : String) (a : Arg V) (rest : List (Arg V)) (tys : List Nat) :
    (reqArgsField sk (mkRequest sk σ callId name (a :: rest))).map (fun ps => handlerArgs σ ps tys) =
      some (List.zipWith (fun x τ => rt σ τ (argValue σ x)) rest tys) := by
  rw [reqArgsField_mkRequest sk h]
  simp [handlerArgs, rt, List.zipWith_map_left]

theorem stubBuild_ctx {V P : Type} (sk : Skeleton) (h : sk.stubFuncArgsRegistered = true) (σ : Codec V P)
    (callId name : String) (rest : List (Arg V)) :
    stubBuild sk σ callId name (.ctx :: rest) = .frame (mkRequest sk σ callId name (.ctx :: rest)) := by
  simp [stubBuild, h]

/-- Go's own decoder reads back what the stub put in. -/
theorem goDecodeRequest_mkRequest {V P : Type} (sk : Skeleton) (h : ReqFacts sk) (ht : DocTags sk)
    (σ : Codec V P) (callId name : String) (a : Arg V) (rest : List (Arg V)) :
    goDecodeRequest sk (mkRequest sk σ callId name (a :: rest)) =
      some (callId, name, rest.map fun x => σ.enc (argValue σ x)) := by
  have ha := reqArgsField_mkRequest sk h σ callId name a rest
  rw [mkRequest_eq sk h] at ha ⊢
  simp only [goDecodeRequest, ha]
  rw [ht.reqCall, ht.reqFunction, ht.reqArgs]
  simp [strField, Tree.field, lookupLast]

/-! ### response -/

theorem mkResponse_eq {V P : Type} (sk : Skeleton) (h : ResFacts sk) (σ : Codec V P)
    (reqCall : String) (r : Ret V) :
    mkResponse sk σ reqCall r =
      .obj [ (sk.tagResCall, .str reqCall), (sk.tagResValue, .raw (respValue σ r)),
             (sk.tagResErr, .str (respErrStr r)) ] := by
  simp [mkResponse, h.call, h.shapes]

theorem respValue_eq {V P : Type} (σ : Codec V P) (r : Ret V) :
    respValue σ r = ((r.val).map σ.enc).getD σ.encNil := by
  cases r <;> rfl

theorem respErrStr_eq_err {V : Type} (r : Ret V) : respErrStr r = (r.err).getD "" := by
  cases r with
  | none0 => rfl
  | oneErr e => cases e <;> rfl
  | oneVal v => rfl
  | two v e => cases e <;> rfl

/-- `err` is empty exactly when the error is nil — provided no non-nil error has the message "". -/
theorem respErrStr_empty_iff {V : Type} (r : Ret V) (hne : ∀ m, r.err = some m → m ≠ "") :
    respErrStr r = "" ↔ r.err = none := by
  rw [respErrStr_eq_err]
  cases he : r.err with
  | none => simp
  | some m => simpa using hne m he

theorem resErrField_mkResponse {V P : Type} (sk : Skeleton) (h : ResFacts sk) (σ : Codec V P)
    (reqCall : String) (r : Ret V) :
    resErrField sk (mkResponse sk σ reqCall r) = some (respErrStr r) := by
  rw [mkResponse_eq sk h]
  have hl := lookupLast_last sk.tagResErr (Tree.str (P := P) (respErrStr r))
    [(sk.tagResCall, Tree.str reqCall), (sk.tagResValue, Tree.raw (respValue σ r))]
  simp only [List.cons_append, List.nil_append] at hl
  simp only [resErrField, Tree.field, hl]

/-- What the caller makes of the response frame the callee built. -/
theorem callerResult_mkResponse {V P : Type} (sk : Skeleton) (h : ResFacts sk)
    (hd : sk.tagResErr ≠ sk.tagResValue) (σ : Codec V P) (prev : Option String) (numOut : Nat)
    (outIsErr : Bool) (ty : Nat) (reqCall : String) (r : Ret V) :
    callerResult sk σ prev numOut outIsErr ty (mkResponse sk σ reqCall r) =
      some (decodeResult sk σ numOut outIsErr false (respValue σ r) (respErr sk prev (respErrStr r)) ty) := by
  rw [mkResponse_eq sk h]
  have hl := lookupLast_last sk.tagResErr (Tree.str (P := P) (respErrStr r))
    [(sk.tagResCall, Tree.str reqCall), (sk.tagResValue, Tree.raw (respValue σ r))]
  simp only [List.cons_append, List.nil_append] at hl
  have hv : lookupLast sk.tagResValue
      [(sk.tagResCall, Tree.str reqCall), (sk.tagResValue, Tree.raw (respValue σ r)),
       (sk.tagResErr, Tree.str (respErrStr r))] = some (Tree.raw (respValue σ r)) := by
    simp [lookupLast, hd]
  simp only [callerResult, Tree.field, hl, hv]

theorem respErr_nonblank (sk : Skeleton) (h : DecFacts sk) (prev : Option String) (m : String)
    (hm : ∃ c ∈ m.toList, isGoSpace c = false) : respErr sk prev m = some m := by
  have : nonBlank m = true := (nonBlank_iff m).mpr hm
  simp [respErr, h.trim, this]

theorem respErr_blank (sk : Skeleton) (h : DecFacts sk) (prev : Option String) (m : String)
    (hm : ∀ c ∈ m.toList, isGoSpace c = true) : respErr sk prev m = none := by
  have : nonBlank m = false := (nonBlank_false_iff m).mpr hm
  simp [respErr, h.fresh, this]

theorem respErr_empty (sk : Skeleton) (h : DecFacts sk) (prev : Option String) :
    respErr sk prev "" = none :=
  respErr_blank sk h prev "" (by simp)

theorem decodeResult_one_err {V P : Type} (sk : Skeleton) (h : DecFacts sk) (σ : Codec V P)
    (c : Bool) (p : P) (m : String) (τ : Nat) :
    decodeResult sk σ 1 true c p (some m) τ = .errOnly (some m) := by
  simp [decodeResult, h.errFrom]

theorem decodeResult_one_nil {V P : Type} (sk : Skeleton) (h : DecFacts sk) (σ : Codec V P)
    (c : Bool) (p : P) (τ : Nat) :
    decodeResult sk σ 1 true c p none τ = .errOnly none := by
  simp [decodeResult, h.oneOut]

theorem decodeResult_one_val {V P : Type} (sk : Skeleton) (σ : Codec V P)
    (c : Bool) (p : P) (τ : Nat) :
    decodeResult sk σ 1 false c p none τ =
      .ofDec1 (σ.dec p τ) := by
  simp [decodeResult]

theorem decodeResult_two {V P : Type} (sk : Skeleton) (h : DecFacts sk) (σ : Codec V P)
    (o : Bool) (p : P) (e : Option String) (τ : Nat) :
    decodeResult sk σ 2 o false p e τ =
      .ofDec2 e (σ.dec p τ) := by
  simp [decodeResult, h.errFrom]

/-! ### envelope -/

theorem mkEnvelope_request {P : Type} (sk : Skeleton) (h : EnvFacts sk) (f : Tree P) :
    mkEnvelope sk true f = .obj [(sk.tagMsgRequest, f), (sk.tagMsgResponse, .null)] := by
  simp [mkEnvelope, h.reqOnly]

theorem mkEnvelope_response {P : Type} (sk : Skeleton) (h : EnvFacts sk) (f : Tree P) :
    mkEnvelope sk false f = .obj [(sk.tagMsgRequest, .null), (sk.tagMsgResponse, f)] := by
  simp [mkEnvelope, h.resOnly]

/-! ### the independent decoder -/

/-- Any object with unique keys that has the documented members — in any order, among any other
    members, `args` possibly absent or `null` when there are no arguments — is accepted. -/
theorem parseRequest_accepts {P : Type} (kvs : List (String × Tree P)) (c f : String) (ps : List P)
    (hn : (kvs.map Prod.fst).Nodup)
    (hc : ("call", Tree.str c) ∈ kvs) (hf : ("function", Tree.str f) ∈ kvs)
    (ha : ("args", Tree.arr (ps.map Tree.raw)) ∈ kvs ∨
          (ps = [] ∧ (("args", Tree.null) ∈ kvs ∨ ∀ v, ("args", v) ∉ kvs))) :
    parseRequest (.obj kvs) = some (c, f, ps) := by
  have h1 := lookupLast_of_mem_nodup _ _ kvs hn hc
  have h2 := lookupLast_of_mem_nodup _ _ kvs hn hf
  rcases ha with ha | ⟨hp, ha | ha⟩
  · have h3 := lookupLast_of_mem_nodup _ _ kvs hn ha
    have := payloads_map_raw (fun p : P => p) ps
    simp only [List.map_id'] at this
    simp [parseRequest, h1, h2, h3, this]
  · have h3 := lookupLast_of_mem_nodup _ _ kvs hn ha
    simp [parseRequest, h1, h2, h3, hp]
  · have h3 := lookupLast_none "args" kvs ha
    simp [parseRequest, h1, h2, h3, hp]

/-- panrpc's own request frames decode with the independent decoder to what was sent. -/
theorem parseRequest_mkRequest {V P : Type} (sk : Skeleton) (h : ReqFacts sk) (ht : DocTags sk)
    (σ : Codec V P) (callId name : String) (a : Arg V) (rest : List (Arg V)) :
    parseRequest (mkRequest sk σ callId name (a :: rest)) =
      some (callId, name, rest.map fun x => σ.enc (argValue σ x)) := by
  rw [mkRequest_eq sk h, ht.reqCall, ht.reqFunction, ht.reqArgs]
  have := payloads_map_raw (fun x => σ.enc (argValue σ x)) rest
  simp [parseRequest, lookupLast, this]

/-- Whatever the independent decoder accepts, Go's decoder reads identically. -/
theorem goDecodeRequest_of_parseRequest {P : Type} (sk : Skeleton) (ht : DocTags sk) (t : Tree P)
    (x : String × String × List P) (hp : parseRequest t = some x) : goDecodeRequest sk t = some x := by
  cases t with
  | obj kvs =>
    simp only [parseRequest] at hp
    split at hp
    · rename_i c f hc hf
      split at hp
      · rename_i ha
        cases hp
        simp [goDecodeRequest, strField, reqArgsField, Tree.field, ht.reqCall, ht.reqFunction, ht.reqArgs, hc, hf, ha]
      · rename_i ha
        cases hp
        simp [goDecodeRequest, strField, reqArgsField, Tree.field, ht.reqCall, ht.reqFunction, ht.reqArgs, hc, hf, ha]
      · rename_i xs ha
        cases hps : payloads xs with
        | none => simp [hps] at hp
        | some ps =>
          simp [hps] at hp
          subst hp
          simp [goDecodeRequest, strField, reqArgsField, Tree.field, ht.reqCall, ht.reqFunction, ht.reqArgs, hc, hf, ha, hps]
      · cases hp
    · cases hp
  | _ => simp [parseRequest] at hp

theorem parseResponse_mkResponse {V P : Type} (sk : Skeleton) (h : ResFacts sk) (ht : DocTags sk)
    (σ : Codec V P) (reqCall : String) (r : Ret V) :
    parseResponse (mkResponse sk σ reqCall r) = some (reqCall, respValue σ r, respErrStr r) := by
  rw [mkResponse_eq sk h, ht.resCall, ht.resValue, ht.resErr]
  simp [parseResponse, lookupLast]

theorem parseEnvelope_request {P : Type} (sk : Skeleton) (h : EnvFacts sk) (ht : DocTags sk)
    (f : Tree P) (hf : f.isNull = false) : parseEnvelope (mkEnvelope sk true f) = some (true, f) := by
  rw [mkEnvelope_request sk h, ht.msgRequest, ht.msgResponse]
  cases f <;> simp_all [parseEnvelope, lookupLast, Tree.isNull]

theorem parseEnvelope_response {P : Type} (sk : Skeleton) (h : EnvFacts sk) (ht : DocTags sk)
    (f : Tree P) (hf : f.isNull = false) : parseEnvelope (mkEnvelope sk false f) = some (false, f) := by
  rw [mkEnvelope_response sk h, ht.msgRequest, ht.msgResponse]
  cases f <;> simp_all [parseEnvelope, lookupLast, Tree.isNull]

end Panrpc.Wire
