/-
  Lemmas/RemoteDef.lean — specification of the remote-definition walk, independent of the
  loop, and the general lemmas (∀ sk, hypotheses on sk → …) relating `Rw.walk` to it.

  The specification flattens a remote struct type into the list of its func-typed fields in
  depth-first declaration order (`funcs`); everything C18 talks about is a statement over
  that list:

    AllValid fs        every func field, at any depth, has a valid signature
    firstInvalid fs    error kind of the first invalid one (return shape before arguments)
    Settable fs        no func field is unexported or lies below an unexported struct field
    funcPaths fs       the paths of the func fields, in order

  The bridge is `walk_eq_verdict`: under the source facts `RwStd sk`, the loop's outcome is
  a simple left-to-right scan (`verdict`) of that list.
-/
import Panrpc.Model.RemoteDef

namespace Panrpc.Rw
open Panrpc

/-! ## Specification -/

/-- "takes a context first and returns either an error or a value and an error" -/
def ValidSig (s : Sig) : Prop :=
  (s.numOut = 1 ∨ s.numOut = 2) ∧ s.lastIsError = true ∧ s.numIn ≥ 1 ∧ s.firstIsCtx = true

instance : DecidablePred ValidSig := fun s => by unfold ValidSig; infer_instance

/-- The signature error of one func field: the return shape is judged first. -/
def sigErr (s : Sig) : Option WalkErr :=
  if ¬ ((s.numOut = 1 ∨ s.numOut = 2) ∧ s.lastIsError = true) then some .invalidReturn
  else if ¬ (s.numIn ≥ 1 ∧ s.firstIsCtx = true) then some .invalidArgs
  else none

theorem sigErr_none_iff (s : Sig) : sigErr s = none ↔ ValidSig s := by
  unfold sigErr ValidSig
  constructor
  · intro h; split at h
    · simp at h
    · split at h
      · simp at h
      · grind
  · intro h; grind

/-- A func-typed field somewhere in the remote struct type. -/
structure FuncAt where
  path : List String     -- field names from the root down to the func field
  settable : Bool        -- exported, and not below an unexported (non-embedded) struct field
  sig : Sig
  deriving DecidableEq, Repr

mutual
def funcsField (ro : Bool) : Field → List FuncAt
  | .func n e s => [⟨[n], !ro && e, s⟩]
  | .struct n e fs => (funcs (ro || !e) fs).map fun f => { f with path := n :: f.path }
  | .other _ _ => []
/-- The func fields at any depth, depth-first in declaration order (`ro`: the enclosing value is read-only). -/
def funcs (ro : Bool) : List Field → List FuncAt
  | [] => []
  | f :: fs => funcsField ro f ++ funcs ro fs
end

def AllValid (fs : List Field) : Prop := ∀ f ∈ funcs false fs, ValidSig f.sig
def Settable (fs : List Field) : Prop := ∀ f ∈ funcs false fs, f.settable = true
def firstInvalid (fs : List Field) : Option WalkErr := (funcs false fs).findSome? fun f => sigErr f.sig
def funcPaths (fs : List Field) : List (List String) := (funcs false fs).map (·.path)
/-- Every func field that precedes the first invalid one (all of them if there is none) can be set. -/
def SettableUpToFirstInvalid (fs : List Field) : Prop :=
  ∀ f ∈ (funcs false fs).takeWhile (fun f => (sigErr f.sig).isNone), f.settable = true

instance (fs : List Field) : Decidable (AllValid fs) := by unfold AllValid; infer_instance
instance (fs : List Field) : Decidable (Settable fs) := by unfold Settable; infer_instance
instance (fs : List Field) : Decidable (SettableUpToFirstInvalid fs) := by
  unfold SettableUpToFirstInvalid; infer_instance

mutual
def namesField : Field → List String
  | .func n _ _ => [n]
  | .struct n _ fs => n :: names fs
  | .other n _ => [n]
/-- All field names occurring in the type, at any depth. -/
def names : List Field → List String
  | [] => []
  | f :: fs => namesField f ++ names fs
end

mutual
def dropOtherField : Field → List Field
  | .func n e s => [.func n e s]
  | .struct n e inner => [.struct n e (dropOther inner)]
  | .other _ _ => []
/-- The same type without its non-func, non-struct fields (at every depth). -/
def dropOther : List Field → List Field
  | [] => []
  | f :: fs => dropOtherField f ++ dropOther fs
end

/-- The function string for relative path `p` below name prefix `pre`, as the Go code builds it. -/
def joinPath (pre : String) : List String → String
  | [] => pre
  | n :: p => joinPath (if pre = "" then n else pre ++ "." ++ n) p

/-- Left-to-right scan of the flattened func fields. -/
def verdict (guard : Bool) (pre : String) : List FuncAt → Outcome
  | [] => .ok []
  | f :: rest =>
    match sigErr f.sig with
    | some e => .err e
    | none =>
      if f.settable then
        match verdict guard pre rest with
        | .ok st => .ok ((f.path, joinPath pre f.path) :: st)
        | o => o
      else if guard then verdict guard pre rest
      else .panic

/-- Go's `strings.Split(s, ".")` on the characters of `s` (never returns the empty list). -/
def splitOnDot : List Char → List (List Char)
  | [] => [[]]
  | c :: cs =>
    if c = '.' then [] :: splitOnDot cs
    else
      match splitOnDot cs with
      | [] => [[c]]
      | seg :: rest => (c :: seg) :: rest

/-! ## Source facts the lemmas rest on -/

structure RwStd (sk : Skeleton) : Prop where
  recurse  : sk.rwRecursesOnStructKind = true
  skips    : sk.rwSkipsNonFunc = true
  checks   : sk.rwChecks = [.numOutRange, .lastOutIsError, .numInAtLeastOne, .firstInIsCtx]
  dot      : sk.rwNameJoinsWithDot = true
  sets     : sk.rwSetsStub = true
  namePath : sk.rwStubNameIsPath = true

/-! ## The checks in source order compute `sigErr` -/

theorem runChecks_std (s : Sig) :
    runChecks [.numOutRange, .lastOutIsError, .numInAtLeastOne, .firstInIsCtx] s =
      match sigErr s with
      | some e => .fail e
      | none => .pass := by
  rcases s with ⟨ni, c, no, e⟩
  simp only [runChecks, runCheck, sigErr]
  by_cases h0 : no = 0
  · subst h0; simp
  by_cases h1 : no = 1
  · subst h1; cases e <;> cases c <;> simp <;> (by_cases hn : ni = 0 <;> simp [hn] <;> omega)
  by_cases h2 : no = 2
  · subst h2; cases e <;> cases c <;> simp <;> (by_cases hn : ni = 0 <;> simp [hn] <;> omega)
  have : no > 2 := by omega
  simp [h0, h1, h2, this]

/-! ## `verdict` over concatenation and path prefixing -/

theorem verdict_append (g : Bool) (pre : String) (a b : List FuncAt) :
    verdict g pre (a ++ b) =
      match verdict g pre a with
      | .ok s₁ =>
        match verdict g pre b with
        | .ok s₂ => .ok (s₁ ++ s₂)
        | o => o
      | o => o := by
  induction a with
  | nil => simp only [List.nil_append, verdict]; cases verdict g pre b <;> simp
  | cons f rest ih =>
    simp only [List.cons_append, verdict]
    cases hs : sigErr f.sig with
    | some e => simp
    | none =>
      simp only []
      cases hset : f.settable
      · cases g
        · simp
        · simpa using ih
      · simp only [if_true, ih]
        cases verdict g pre rest <;> simp
        cases verdict g pre b <;> simp

theorem verdict_map_cons (g : Bool) (pre n : String) (l : List FuncAt) :
    verdict g pre (l.map fun f => { f with path := n :: f.path }) =
      match verdict g (if pre = "" then n else pre ++ "." ++ n) l with
      | .ok st => .ok (st.map fun x => (n :: x.1, x.2))
      | o => o := by
  induction l with
  | nil => simp [verdict]
  | cons f rest ih =>
    simp only [List.map_cons, verdict]
    cases hs : sigErr f.sig with
    | some e => simp
    | none =>
      simp only []
      cases hset : f.settable
      · cases g
        · simp
        · simpa using ih
      · simp only [if_true, ih, joinPath]
        cases verdict g (if pre = "" then n else pre ++ "." ++ n) rest <;> simp

/-! ## The bridge: the loop is the scan of the flattened type -/

mutual
theorem walkField_eq_verdict (sk : Skeleton) (h : RwStd sk) :
    ∀ (f : Field) (pre : String) (ro : Bool),
      walkField sk pre ro f = verdict sk.rwGuardsUnsettable pre (funcsField ro f)
  | .func n e s, pre, ro => by
    simp only [walkField, funcsField, verdict, h.checks, runChecks_std, h.sets, h.namePath,
      joinName, h.dot, joinPath]
    cases sigErr s with
    | some e => simp
    | none =>
      cases ro <;> cases e <;> cases sk.rwGuardsUnsettable <;> simp
  | .struct n e fs, pre, ro => by
    have ih := walk_eq_verdict sk h fs (joinName sk pre n) (ro || !e)
    simp only [walkField, funcsField, h.recurse, if_true, ih, verdict_map_cons]
    simp only [joinName, h.dot, if_true]
    cases verdict sk.rwGuardsUnsettable (if pre = "" then n else pre ++ "." ++ n) (funcs (ro || !e) fs) <;> simp
  | .other n e, pre, ro => by
    simp [walkField, funcsField, verdict, nonFunc, h.skips]
theorem walk_eq_verdict (sk : Skeleton) (h : RwStd sk) :
    ∀ (fs : List Field) (pre : String) (ro : Bool),
      walk sk pre ro fs = verdict sk.rwGuardsUnsettable pre (funcs ro fs)
  | [], pre, ro => by simp [walk, funcs, verdict]
  | f :: rest, pre, ro => by
    have h1 := walkField_eq_verdict sk h f pre ro
    have h2 := walk_eq_verdict sk h rest pre ro
    simp only [walk, funcs, verdict_append, h1, h2]
    cases verdict sk.rwGuardsUnsettable pre (funcsField ro f) <;> simp only []
    cases verdict sk.rwGuardsUnsettable pre (funcs ro rest) <;> simp only []
end

/-! ## Facts about the scan -/

theorem verdict_ok_iff (g : Bool) (pre : String) (l : List FuncAt)
    (hs : g = true ∨ ∀ f ∈ l, f.settable = true) :
    (∃ st, verdict g pre l = .ok st) ↔ ∀ f ∈ l, ValidSig f.sig := by
  induction l with
  | nil => simp [verdict]
  | cons f rest ih =>
    have hs' : g = true ∨ ∀ f ∈ rest, f.settable = true := by
      rcases hs with hg | hs
      · exact Or.inl hg
      · exact Or.inr fun x hx => hs x (List.mem_cons_of_mem _ hx)
    have ih := ih hs'
    simp only [verdict, List.forall_mem_cons, ← sigErr_none_iff]
    cases hse : sigErr f.sig with
    | some e => simp
    | none =>
      simp only [true_and]
      rw [← (by simpa [← sigErr_none_iff] using ih :
        (∃ st, verdict g pre rest = .ok st) ↔ ∀ a ∈ rest, sigErr a.sig = none)]
      cases hset : f.settable
      · rcases hs with hg | hs
        · simp [hg]
        · have := hs f (List.mem_cons_self ..); simp [hset] at this
      · simp only [if_true]
        cases verdict g pre rest <;> simp

theorem verdict_err (g : Bool) (pre : String) (l : List FuncAt) (e : WalkErr)
    (h : verdict g pre l = .err e) : l.findSome? (fun f => sigErr f.sig) = some e := by
  induction l with
  | nil => simp [verdict] at h
  | cons f rest ih =>
    simp only [verdict] at h
    simp only [List.findSome?_cons]
    cases hse : sigErr f.sig with
    | some e' => simp only [hse] at h; simp at h; simp [h]
    | none =>
      simp only [hse] at h
      cases hset : f.settable
      · simp only [hset] at h
        cases g
        · simp at h
        · simp at h; exact ih h
      · simp only [hset, if_true] at h
        cases hv : verdict g pre rest with
        | ok st => simp [hv] at h
        | panic => simp [hv] at h
        | err e' => simp only [hv] at h; exact ih (hv.trans h)

theorem verdict_err_of (g : Bool) (pre : String) (l : List FuncAt) (e : WalkErr)
    (h : l.findSome? (fun f => sigErr f.sig) = some e)
    (hs : g = true ∨ ∀ f ∈ l.takeWhile (fun f => (sigErr f.sig).isNone), f.settable = true) :
    verdict g pre l = .err e := by
  induction l with
  | nil => simp at h
  | cons f rest ih =>
    simp only [List.findSome?_cons] at h
    simp only [verdict]
    cases hse : sigErr f.sig with
    | some e' => simp only [hse] at h; simp at h; simp [h]
    | none =>
      simp only [hse] at h
      have hs' : g = true ∨ ∀ f ∈ rest.takeWhile (fun f => (sigErr f.sig).isNone), f.settable = true := by
        rcases hs with hg | hs
        · exact Or.inl hg
        · refine Or.inr fun x hx => hs x ?_
          simp [hse, hx]
      have ih := ih h hs'
      cases hset : f.settable
      · rcases hs with hg | hs
        · subst hg; simp [ih]
        · have := hs f (by simp [hse]); simp [hset] at this
      · simp [ih]

theorem verdict_no_panic (pre : String) (l : List FuncAt) : verdict true pre l ≠ .panic := by
  induction l with
  | nil => simp [verdict]
  | cons f rest ih =>
    simp only [verdict]
    cases sigErr f.sig with
    | some e => simp
    | none =>
      cases f.settable
      · simpa using ih
      · simp only [if_true]
        cases hv : verdict true pre rest with
        | ok st => simp
        | err e => simp
        | panic => exact absurd hv ih

theorem verdict_panic_settable (g : Bool) (pre : String) (l : List FuncAt)
    (hs : ∀ f ∈ l, f.settable = true) : verdict g pre l ≠ .panic := by
  induction l with
  | nil => simp [verdict]
  | cons f rest ih =>
    have ih := ih fun x hx => hs x (List.mem_cons_of_mem _ hx)
    have hf := hs f (List.mem_cons_self ..)
    simp only [verdict, hf, if_true]
    cases sigErr f.sig with
    | some e => simp
    | none =>
      cases hv : verdict g pre rest with
      | ok st => simp
      | err e => simp
      | panic => exact absurd hv ih

theorem verdict_stubs (g : Bool) (pre : String) (l : List FuncAt) (st : List (List String × String))
    (h : verdict g pre l = .ok st) :
    st = (l.filter (·.settable)).map fun f => (f.path, joinPath pre f.path) := by
  induction l generalizing st with
  | nil => simp [verdict] at h; simp [h]
  | cons f rest ih =>
    simp only [verdict] at h
    cases hse : sigErr f.sig with
    | some e => simp [hse] at h
    | none =>
      simp only [hse] at h
      cases hset : f.settable
      · simp only [hset] at h
        cases g
        · simp at h
        · simp only [if_true] at h
          simp [hset, ih st (by simpa using h)]
      · simp only [hset, if_true] at h
        cases hv : verdict g pre rest with
        | ok st' =>
          simp only [hv, Outcome.ok.injEq] at h
          simp [hset, ← h, ← ih st' hv]
        | err e => simp [hv] at h
        | panic => simp [hv] at h

/-- Without the guard, success means every func field could be set. -/
theorem verdict_ok_settable (pre : String) (l : List FuncAt) (st : List (List String × String))
    (h : verdict false pre l = .ok st) : ∀ f ∈ l, f.settable = true := by
  induction l generalizing st with
  | nil => simp
  | cons f rest ih =>
    simp only [verdict] at h
    cases hse : sigErr f.sig with
    | some e => simp [hse] at h
    | none =>
      simp only [hse] at h
      cases hset : f.settable
      · simp [hset] at h
      · simp only [hset, if_true] at h
        cases hv : verdict false pre rest with
        | ok st' => intro x hx; rcases List.mem_cons.mp hx with rfl | hx
                    · exact hset
                    · exact ih st' hv x hx
        | err e => simp [hv] at h
        | panic => simp [hv] at h

/-! ## Naming: the joined name is the dotted path, and splitting it gives the path back -/

theorem joinPath_ne (pre : String) (hp : pre ≠ "") (p : List String) :
    joinPath pre p = ".".intercalate (pre :: p) := by
  induction p generalizing pre with
  | nil => simp [joinPath]
  | cons n p ih =>
    have hne : pre ++ "." ++ n ≠ "" := by
      intro h
      have := congrArg String.length h
      simp at this
    simp only [joinPath, hp, if_false]
    rw [ih _ hne, String.append_assoc, String.intercalate_cons_append, String.intercalate_cons_append,
      String.intercalate_cons_cons, String.append_assoc]

/-- At the root (`namePrefix = ""`) the function string of the field at path `p` is `p` joined
    with dots, provided the top-level field name is not empty (Go identifiers never are). -/
theorem joinPath_root (p : List String) (h : p.head? ≠ some "") :
    joinPath "" p = ".".intercalate p := by
  cases p with
  | nil => simp [joinPath]
  | cons n p =>
    have hn : n ≠ "" := by simpa using h
    simp only [joinPath, if_true]
    exact joinPath_ne n hn p

theorem splitOnDot_ne_nil (cs : List Char) : splitOnDot cs ≠ [] := by
  induction cs with
  | nil => simp [splitOnDot]
  | cons c cs ih =>
    simp only [splitOnDot]
    split
    · simp
    · split <;> simp

theorem splitOnDot_seg (seg : List Char) (h : '.' ∉ seg) : splitOnDot seg = [seg] := by
  induction seg with
  | nil => simp [splitOnDot]
  | cons c cs ih =>
    have hc : c ≠ '.' := fun hc => h (by simp [hc])
    have := ih (fun hm => h (List.mem_cons_of_mem _ hm))
    simp [splitOnDot, hc, this]

theorem splitOnDot_seg_dot (seg rest : List Char) (h : '.' ∉ seg) :
    splitOnDot (seg ++ '.' :: rest) = seg :: splitOnDot rest := by
  induction seg with
  | nil => simp [splitOnDot]
  | cons c cs ih =>
    have hc : c ≠ '.' := fun hc => h (by simp [hc])
    have := ih (fun hm => h (List.mem_cons_of_mem _ hm))
    simp [splitOnDot, hc, this]

/-- Round trip caller → callee: splitting the dotted path at the dots (what
    `findMethodByFunctionCallPathRecursively` does with `strings.Split`) yields exactly the
    field names the caller joined, when no name contains a dot. -/
theorem splitOnDot_intercalate (path : List String)
    (hd : ∀ s ∈ path, '.' ∉ s.toList) (hne : path ≠ []) :
    splitOnDot (".".intercalate path).toList = path.map String.toList := by
  induction path with
  | nil => exact absurd rfl hne
  | cons a rest ih =>
    cases rest with
    | nil =>
      simp only [String.intercalate_singleton, List.map_cons, List.map_nil]
      exact splitOnDot_seg _ (hd a (by simp))
    | cons b rest =>
      have ih := ih (fun s hs => hd s (List.mem_cons_of_mem _ hs)) (by simp)
      rw [String.intercalate_cons_cons]
      simp only [String.toList_append, List.map_cons]
      have hdot : ".".toList = ['.'] := by decide
      rw [hdot, List.append_assoc, List.singleton_append, splitOnDot_seg_dot _ _ (hd a (by simp)), ih]
      simp

/-! ## Paths of the flattened type -/

mutual
theorem funcsField_path (ro : Bool) : ∀ (f : Field), ∀ x ∈ funcsField ro f,
    x.path ≠ [] ∧ ∀ s ∈ x.path, s ∈ namesField f
  | .func n e s => by simp [funcsField, namesField]
  | .struct n e fs => by
    intro x hx
    simp only [funcsField, List.mem_map] at hx
    obtain ⟨y, hy, rfl⟩ := hx
    have := (funcs_path (ro || !e) fs y hy).2
    refine ⟨by simp, ?_⟩
    intro s hs
    simp only [List.mem_cons] at hs
    rcases hs with rfl | hs
    · simp [namesField]
    · simp [namesField, this s hs]
  | .other n e => by simp [funcsField]
theorem funcs_path (ro : Bool) : ∀ (fs : List Field), ∀ x ∈ funcs ro fs,
    x.path ≠ [] ∧ ∀ s ∈ x.path, s ∈ names fs
  | [] => by simp [funcs]
  | f :: rest => by
    intro x hx
    simp only [funcs, List.mem_append] at hx
    rcases hx with hx | hx
    · have := funcsField_path ro f x hx
      exact ⟨this.1, fun s hs => by simp [names, this.2 s hs]⟩
    · have := funcs_path ro rest x hx
      exact ⟨this.1, fun s hs => by simp [names, this.2 s hs]⟩
end

/-- `other` fields contribute nothing to the flattened type. -/
theorem funcs_dropOther (ro : Bool) : ∀ fs : List Field, funcs ro (dropOther fs) = funcs ro fs
  | [] => by simp [dropOther]
  | .other _ _ :: fs => by simp [dropOther, dropOtherField, funcs, funcsField, funcs_dropOther ro fs]
  | .func n e s :: fs => by simp [dropOther, dropOtherField, funcs, funcsField, funcs_dropOther ro fs]
  | .struct n e inner :: fs => by
    simp [dropOther, dropOtherField, funcs, funcsField, funcs_dropOther ro fs,
      funcs_dropOther (ro || !e) inner]

/-! ## General lemmas about the loop -/

/-- `other` fields never influence the outcome.  Needs only that non-func fields are skipped. -/
theorem walk_dropOther (sk : Skeleton) (hsk : sk.rwSkipsNonFunc = true) :
    ∀ (fs : List Field) (pre : String) (ro : Bool), walk sk pre ro (dropOther fs) = walk sk pre ro fs
  | [], _, _ => by simp [dropOther]
  | .other _ _ :: fs, pre, ro => by
    have ih := walk_dropOther sk hsk fs pre ro
    simp only [dropOther, dropOtherField, List.nil_append, walk, walkField, nonFunc, hsk, if_true, ih]
    cases walk sk pre ro fs <;> simp
  | .func n e s :: fs, pre, ro => by
    have ih := walk_dropOther sk hsk fs pre ro
    simp only [dropOther, dropOtherField, List.cons_append, List.nil_append, walk, ih]
  | .struct n e inner :: fs, pre, ro => by
    have ih := walk_dropOther sk hsk fs pre ro
    have ih' := walk_dropOther sk hsk inner (joinName sk pre n) (ro || !e)
    simp only [dropOther, dropOtherField, List.cons_append, List.nil_append, walk, walkField, ih, ih']

theorem walk_ok_iff (sk : Skeleton) (h : RwStd sk) (fs : List Field)
    (hs : sk.rwGuardsUnsettable = true ∨ Settable fs) :
    (∃ stubs, walk sk "" false fs = .ok stubs) ↔ AllValid fs := by
  rw [walk_eq_verdict sk h]
  exact verdict_ok_iff _ _ _ hs

theorem walk_err_sound (sk : Skeleton) (h : RwStd sk) (fs : List Field) (e : WalkErr)
    (he : walk sk "" false fs = .err e) : firstInvalid fs = some e := by
  rw [walk_eq_verdict sk h] at he
  exact verdict_err _ _ _ _ he

theorem walk_err_complete (sk : Skeleton) (h : RwStd sk) (fs : List Field) (e : WalkErr)
    (he : firstInvalid fs = some e)
    (hs : sk.rwGuardsUnsettable = true ∨ SettableUpToFirstInvalid fs) :
    walk sk "" false fs = .err e := by
  rw [walk_eq_verdict sk h]
  exact verdict_err_of _ _ _ _ he hs

theorem not_allValid_iff (fs : List Field) : ¬ AllValid fs ↔ ∃ e, firstInvalid fs = some e := by
  unfold AllValid firstInvalid
  constructor
  · intro h
    cases hf : (funcs false fs).findSome? (fun f => sigErr f.sig) with
    | some e => exact ⟨e, rfl⟩
    | none =>
      exfalso; apply h
      intro f hf'
      rw [List.findSome?_eq_none_iff] at hf
      exact (sigErr_none_iff _).mp (hf f hf')
  · rintro ⟨e, he⟩ hall
    obtain ⟨f, hf, hfe⟩ := List.exists_of_findSome?_eq_some he
    have := (sigErr_none_iff _).mpr (hall f hf)
    simp [this] at hfe

/-- With the guard in place the walk cannot panic, whatever the type. -/
theorem walk_total (sk : Skeleton) (h : RwStd sk) (hg : sk.rwGuardsUnsettable = true)
    (fs : List Field) (pre : String) (ro : Bool) : walk sk pre ro fs ≠ .panic := by
  rw [walk_eq_verdict sk h, hg]
  exact verdict_no_panic _ _

/-- Guard or no guard: a type all of whose func fields are settable cannot make the walk panic. -/
theorem walk_total_settable (sk : Skeleton) (h : RwStd sk) (fs : List Field) (hs : Settable fs) :
    walk sk "" false fs ≠ .panic := by
  rw [walk_eq_verdict sk h]
  exact verdict_panic_settable _ _ _ hs

theorem walk_stubs (sk : Skeleton) (h : RwStd sk) (fs : List Field) (stubs : List (List String × String))
    (hw : walk sk "" false fs = .ok stubs) :
    stubs = ((funcs false fs).filter (·.settable)).map fun f => (f.path, joinPath "" f.path) := by
  rw [walk_eq_verdict sk h] at hw
  exact verdict_stubs _ _ _ _ hw

theorem walk_stub_mem (sk : Skeleton) (h : RwStd sk) (fs : List Field) (stubs : List (List String × String))
    (hw : walk sk "" false fs = .ok stubs) (p : List String) (fn : String) (hm : (p, fn) ∈ stubs) :
    fn = joinPath "" p ∧ p ≠ [] ∧ ∀ s ∈ p, s ∈ names fs := by
  rw [walk_stubs sk h fs stubs hw] at hm
  simp only [List.mem_map, List.mem_filter, Prod.mk.injEq] at hm
  obtain ⟨f, ⟨hf, _⟩, rfl, rfl⟩ := hm
  exact ⟨rfl, funcs_path false fs f hf⟩

end Panrpc.Rw
