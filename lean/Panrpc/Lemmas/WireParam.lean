/-
  Lemmas/WireParam.lean — C08, payload parametricity of P3 (Model/Wire.lean) as a functoriality
  theorem.

  The wire model is polymorphic in the application value type `V` and the wire payload type `P`
  (Go's type parameter `T`) and touches payloads only through the serializer record `σ : Codec V P`.
  Here that becomes a theorem: for a payload translation `f : P₁ → P₂` that is a *codec
  homomorphism* from `σ₁` to `σ₂` (`CodecHom f σ₁ σ₂`), every frame constructor commutes with the
  functorial action `Tree.map f` on frames, every frame decoder commutes with it, and every
  decoding of a payload into an application value gives the *same* value on both sides.  Hence the
  composite "stub builds the request → callee decodes it → handler → callee builds the response →
  caller decodes it" (`callObservables`) has EQUAL observables under `σ₁` and `σ₂`.

  No lemma in this file has a hypothesis on the skeleton: parametricity holds for every source
  tree the skeleton can describe (also for the deliberately wrong branches of the model).

  (The stream model's payload blindness is in Lemmas/StreamParam.lean.)
-/
import Panrpc.Lemmas.Wire

namespace Panrpc.Wire
open Panrpc

/-! ### the functorial action of a payload translation on frames -/

mutual
  /-- apply `f` to every payload position of a frame -/
  def Tree.map {P₁ P₂ : Type} (f : P₁ → P₂) : Tree P₁ → Tree P₂
    | .null => .null
    | .str s => .str s
    | .arr xs => .arr (Tree.mapList f xs)
    | .obj kvs => .obj (Tree.mapKvs f kvs)
    | .raw p => .raw (f p)
  def Tree.mapList {P₁ P₂ : Type} (f : P₁ → P₂) : List (Tree P₁) → List (Tree P₂)
    | [] => []
    | t :: r => Tree.map f t :: Tree.mapList f r
  def Tree.mapKvs {P₁ P₂ : Type} (f : P₁ → P₂) : List (String × Tree P₁) → List (String × Tree P₂)
    | [] => []
    | (k, t) :: r => (k, Tree.map f t) :: Tree.mapKvs f r
end

theorem Tree.mapList_eq {P₁ P₂ : Type} (f : P₁ → P₂) (xs : List (Tree P₁)) :
    Tree.mapList f xs = xs.map (Tree.map f) := by
  induction xs with
  | nil => rfl
  | cons t r ih => simp [Tree.mapList, ih]

theorem Tree.mapKvs_eq {P₁ P₂ : Type} (f : P₁ → P₂) (kvs : List (String × Tree P₁)) :
    Tree.mapKvs f kvs = kvs.map (fun kv => (kv.1, Tree.map f kv.2)) := by
  induction kvs with
  | nil => rfl
  | cons kv r ih => obtain ⟨k, t⟩ := kv; simp [Tree.mapKvs, ih]

/-! functor laws -/

mutual
  theorem Tree.map_id {P : Type} : ∀ t : Tree P, Tree.map (fun p => p) t = t
    | .null => rfl
    | .str _ => rfl
    | .arr xs => by simp only [Tree.map, Tree.mapList_id xs]
    | .obj kvs => by simp only [Tree.map, Tree.mapKvs_id kvs]
    | .raw _ => rfl
  theorem Tree.mapList_id {P : Type} : ∀ xs : List (Tree P), Tree.mapList (fun p => p) xs = xs
    | [] => rfl
    | t :: r => by simp only [Tree.mapList, Tree.map_id t, Tree.mapList_id r]
  theorem Tree.mapKvs_id {P : Type} : ∀ kvs : List (String × Tree P), Tree.mapKvs (fun p => p) kvs = kvs
    | [] => rfl
    | (k, t) :: r => by simp only [Tree.mapKvs, Tree.map_id t, Tree.mapKvs_id r]
end

mutual
  theorem Tree.map_comp {P₁ P₂ P₃ : Type} (f : P₁ → P₂) (g : P₂ → P₃) :
      ∀ t : Tree P₁, Tree.map (fun p => g (f p)) t = Tree.map g (Tree.map f t)
    | .null => rfl
    | .str _ => rfl
    | .arr xs => by simp only [Tree.map, Tree.mapList_comp f g xs]
    | .obj kvs => by simp only [Tree.map, Tree.mapKvs_comp f g kvs]
    | .raw _ => rfl
  theorem Tree.mapList_comp {P₁ P₂ P₃ : Type} (f : P₁ → P₂) (g : P₂ → P₃) :
      ∀ xs : List (Tree P₁), Tree.mapList (fun p => g (f p)) xs = Tree.mapList g (Tree.mapList f xs)
    | [] => rfl
    | t :: r => by simp only [Tree.mapList, Tree.map_comp f g t, Tree.mapList_comp f g r]
  theorem Tree.mapKvs_comp {P₁ P₂ P₃ : Type} (f : P₁ → P₂) (g : P₂ → P₃) :
      ∀ kvs : List (String × Tree P₁), Tree.mapKvs (fun p => g (f p)) kvs = Tree.mapKvs g (Tree.mapKvs f kvs)
    | [] => rfl
    | (k, t) :: r => by simp only [Tree.mapKvs, Tree.map_comp f g t, Tree.mapKvs_comp f g r]
end

/-- the outcome of the stub's frame building, translated -/
def Built.map {P₁ P₂ : Type} (f : P₁ → P₂) : Built P₁ → Built P₂
  | .frame t => .frame (t.map f)
  | .panic why => .panic why

/-! ### codec homomorphisms -/

/-- `f` translates the payloads of `σ₁` into those of `σ₂`: encoding with `σ₂` is encoding with
    `σ₁` followed by `f`, and decoding an `f`-image with `σ₂` is decoding the original with `σ₁`.
    The three `V`-side members (how the library presents a closure id, the type tag of `string`,
    a context) do not involve payloads and are equal. -/
structure CodecHom {V P₁ P₂ : Type} (f : P₁ → P₂) (σ₁ : Codec V P₁) (σ₂ : Codec V P₂) : Prop where
  enc    : ∀ v, σ₂.enc v = f (σ₁.enc v)
  encNil : σ₂.encNil = f σ₁.encNil
  dec    : ∀ p τ, σ₂.dec (f p) τ = σ₁.dec p τ
  ofStr  : ∀ s, σ₂.ofStr s = σ₁.ofStr s
  strTy  : σ₂.strTy = σ₁.strTy
  ctxVal : σ₂.ctxVal = σ₁.ctxVal

theorem CodecHom.refl {V P : Type} (σ : Codec V P) : CodecHom (fun p => p) σ σ :=
  ⟨fun _ => rfl, rfl, fun _ _ => rfl, fun _ => rfl, rfl, rfl⟩

theorem CodecHom.comp {V P₁ P₂ P₃ : Type} {f : P₁ → P₂} {g : P₂ → P₃}
    {σ₁ : Codec V P₁} {σ₂ : Codec V P₂} {σ₃ : Codec V P₃}
    (h : CodecHom f σ₁ σ₂) (k : CodecHom g σ₂ σ₃) : CodecHom (fun p => g (f p)) σ₁ σ₃ :=
  ⟨fun v => by rw [k.enc, h.enc], by rw [k.encNil, h.encNil], fun p τ => by rw [k.dec, h.dec],
   fun s => by rw [k.ofStr, h.ofStr], by rw [k.strTy, h.strTy], by rw [k.ctxVal, h.ctxVal]⟩

/-- Pushing a codec forward along a translation that has a left inverse: `σ.pushforward f g` encodes
    with `σ` then `f`, decodes after `g`.  Every serializer obtained from another by an injective
    re-encoding of its output (text ↦ bytes, bytes ↦ base64, …) is of this form. -/
def Codec.pushforward {V P₁ P₂ : Type} (σ : Codec V P₁) (f : P₁ → P₂) (g : P₂ → P₁) : Codec V P₂ where
  enc := fun v => f (σ.enc v)
  encNil := f σ.encNil
  dec := fun q τ => σ.dec (g q) τ
  ofStr := σ.ofStr
  strTy := σ.strTy
  ctxVal := σ.ctxVal

theorem CodecHom.pushforward {V P₁ P₂ : Type} (σ : Codec V P₁) (f : P₁ → P₂) (g : P₂ → P₁)
    (hgf : ∀ p, g (f p) = p) : CodecHom f σ (σ.pushforward f g) :=
  ⟨fun _ => rfl, rfl, fun p τ => by simp [Codec.pushforward, hgf], fun _ => rfl, rfl, rfl⟩

/-! ### frame accessors commute with `map` -/

section Access
variable {P₁ P₂ : Type} (f : P₁ → P₂)

theorem lookupLast_mapKvs (k : String) (kvs : List (String × Tree P₁)) :
    lookupLast k (Tree.mapKvs f kvs) = (lookupLast k kvs).map (Tree.map f) := by
  induction kvs with
  | nil => rfl
  | cons kv r ih =>
    obtain ⟨k', v⟩ := kv
    simp only [Tree.mapKvs, lookupLast, ih]
    cases lookupLast k r with
    | some w => rfl
    | none => by_cases e : k' = k <;> simp [e]

theorem Tree.field_map (k : String) (t : Tree P₁) :
    (t.map f).field k = (t.field k).map (Tree.map f) := by
  cases t <;> simp [Tree.map, Tree.field, lookupLast_mapKvs]

theorem Tree.isNull_map (t : Tree P₁) : (t.map f).isNull = t.isNull := by
  cases t <;> rfl

theorem Tree.keys_map (t : Tree P₁) : (t.map f).keys = t.keys := by
  cases t <;> simp [Tree.map, Tree.keys, Tree.mapKvs_eq, Function.comp_def]

theorem payloads_mapList (xs : List (Tree P₁)) :
    payloads (Tree.mapList f xs) = (payloads xs).map (List.map f) := by
  induction xs with
  | nil => rfl
  | cons t r ih =>
    cases t <;> simp only [Tree.mapList, Tree.map, payloads, Option.map_none]
    rw [ih]
    cases payloads r <;> rfl

theorem strField_map (k : String) (t : Tree P₁) : strField k (t.map f) = strField k t := by
  simp only [strField, Tree.field_map]
  cases t.field k with
  | none => rfl
  | some v => cases v <;> rfl

theorem reqArgsField_map (sk : Skeleton) (t : Tree P₁) :
    reqArgsField sk (t.map f) = (reqArgsField sk t).map (List.map f) := by
  simp only [reqArgsField, Tree.field_map]
  cases t.field sk.tagReqArgs with
  | none => rfl
  | some v =>
    cases v with
    | arr xs => simp only [Option.map_some, Tree.map]; exact payloads_mapList f xs
    | _ => rfl

theorem resErrField_map (sk : Skeleton) (t : Tree P₁) :
    resErrField sk (t.map f) = resErrField sk t := by
  simp only [resErrField, Tree.field_map]
  cases t.field sk.tagResErr with
  | none => rfl
  | some v => cases v <;> rfl

/-- Go's decoding of a request frame: same call id and function name, payloads translated. -/
theorem goDecodeRequest_map (sk : Skeleton) (t : Tree P₁) :
    goDecodeRequest sk (t.map f) =
      (goDecodeRequest sk t).map (fun x => (x.1, x.2.1, x.2.2.map f)) := by
  cases t with
  | obj kvs =>
    have e : Tree.obj (Tree.mapKvs f kvs) = (Tree.obj kvs).map f := rfl
    show goDecodeRequest sk (Tree.obj (Tree.mapKvs f kvs)) = _
    simp only [goDecodeRequest]
    rw [e, strField_map, strField_map, reqArgsField_map]
    cases strField sk.tagReqCall (Tree.obj kvs) <;>
      cases strField sk.tagReqFunction (Tree.obj kvs) <;>
      cases reqArgsField sk (Tree.obj kvs) <;> rfl
  | _ => rfl

/-- the independent request decoder likewise -/
theorem parseRequest_map (t : Tree P₁) :
    parseRequest (t.map f) = (parseRequest t).map (fun x => (x.1, x.2.1, x.2.2.map f)) := by
  cases t with
  | obj kvs =>
    simp only [Tree.map, parseRequest, lookupLast_mapKvs]
    cases lookupLast "call" kvs with
    | none => rfl
    | some c =>
      cases c <;> try rfl
      cases lookupLast "function" kvs with
      | none => rfl
      | some g =>
        cases g <;> try rfl
        cases lookupLast "args" kvs with
        | none => rfl
        | some a =>
          cases a <;> try rfl
          simp only [Option.map_some, Tree.map, payloads_mapList]
          cases payloads _ <;> rfl
  | _ => rfl

theorem parseResponse_map (t : Tree P₁) :
    parseResponse (t.map f) = (parseResponse t).map (fun x => (x.1, f x.2.1, x.2.2)) := by
  cases t with
  | obj kvs =>
    simp only [Tree.map, parseResponse, lookupLast_mapKvs]
    cases lookupLast "call" kvs with
    | none => rfl
    | some c =>
      cases c <;> try rfl
      cases lookupLast "value" kvs with
      | none => rfl
      | some v =>
        cases v <;> try rfl
        cases lookupLast "err" kvs with
        | none => rfl
        | some e => cases e <;> rfl
  | _ => rfl

theorem parseEnvelope_map (t : Tree P₁) :
    parseEnvelope (t.map f) = (parseEnvelope t).map (fun x => (x.1, x.2.map f)) := by
  cases t with
  | obj kvs =>
    simp only [Tree.map, parseEnvelope, lookupLast_mapKvs]
    cases lookupLast "request" kvs with
    | none =>
      cases lookupLast "response" kvs with
      | none => rfl
      | some b => cases b <;> rfl
    | some a =>
      cases lookupLast "response" kvs with
      | none => cases a <;> rfl
      | some b => cases a <;> cases b <;> rfl
  | _ => rfl

/-- the stream envelope does not look into the frame it wraps -/
theorem mkEnvelope_map (sk : Skeleton) (isRequest : Bool) (t : Tree P₁) :
    mkEnvelope sk isRequest (t.map f) = (mkEnvelope sk isRequest t).map f := by
  unfold mkEnvelope
  cases isRequest <;> cases sk.stEncodeRequestOnly <;> cases sk.stEncodeResponseOnly <;> rfl

end Access

/-! ### frame construction commutes with `map`; decoding into values is invariant -/

section Hom
variable {V P₁ P₂ : Type} {f : P₁ → P₂} {σ₁ : Codec V P₁} {σ₂ : Codec V P₂}

theorem rt_hom (h : CodecHom f σ₁ σ₂) (τ : Nat) (v : V) : rt σ₂ τ v = rt σ₁ τ v := by
  simp [rt, h.enc, h.dec]

theorem argValue_hom (h : CodecHom f σ₁ σ₂) (a : Arg V) : argValue σ₂ a = argValue σ₁ a := by
  cases a <;> simp [argValue, h.ctxVal, h.ofStr]

theorem argElem_map (h : CodecHom f σ₁ σ₂) (sk : Skeleton) (a : Arg V) :
    argElem sk σ₂ a = (argElem sk σ₁ a).map f := by
  cases a with
  | func id =>
    simp only [argElem, h.enc, h.ofStr]
    cases sk.stubFuncArgsRegistered <;> rfl
  | ctx => simp [argElem, argValue, Tree.map, h.enc, h.ctxVal]
  | val v ty => simp [argElem, argValue, Tree.map, h.enc]

theorem argsTree_map (h : CodecHom f σ₁ σ₂) (sk : Skeleton) (args : List (Arg V)) :
    argsTree sk σ₂ args = (argsTree sk σ₁ args).map f := by
  unfold argsTree
  cases wireArgs sk args with
  | nil => cases sk.stubRequestArgsInitEmpty <;> rfl
  | cons a as =>
    simp only [Tree.map, Tree.mapList_eq, List.map_map]
    congr 1
    apply List.map_congr_left
    intro x _
    exact argElem_map h sk x

/-- the request frame under `σ₂` is the `f`-image of the request frame under `σ₁` -/
theorem mkRequest_map (h : CodecHom f σ₁ σ₂) (sk : Skeleton) (callId name : String) (args : List (Arg V)) :
    mkRequest sk σ₂ callId name args = (mkRequest sk σ₁ callId name args).map f := by
  simp only [mkRequest, Tree.map, Tree.mapKvs, argsTree_map h]

/-- the stub panics on the same inputs with the same message, otherwise its frames are `f`-images -/
theorem stubBuild_map (h : CodecHom f σ₁ σ₂) (sk : Skeleton) (callId name : String) (args : List (Arg V)) :
    stubBuild sk σ₂ callId name args = (stubBuild sk σ₁ callId name args).map f := by
  cases args with
  | nil => rfl
  | cons a r =>
    cases a with
    | ctx =>
      simp only [stubBuild, mkRequest_map h]
      split <;> rfl
    | val v ty => rfl
    | func id => rfl

theorem respValue_map (h : CodecHom f σ₁ σ₂) (r : Ret V) : respValue σ₂ r = f (respValue σ₁ r) := by
  cases r <;> simp [respValue, h.enc, h.encNil]

/-- the response frame likewise -/
theorem mkResponse_map (h : CodecHom f σ₁ σ₂) (sk : Skeleton) (reqCall : String) (r : Ret V) :
    mkResponse sk σ₂ reqCall r = (mkResponse sk σ₁ reqCall r).map f := by
  simp only [mkResponse, Tree.map, Tree.mapKvs, respValue_map h, h.encNil]
  cases sk.reqRespShapesOk <;> rfl

/-- the callee decodes the same argument values from translated payloads -/
theorem handlerArgs_hom (h : CodecHom f σ₁ σ₂) (ps : List P₁) (tys : List Nat) :
    handlerArgs σ₂ (ps.map f) tys = handlerArgs σ₁ ps tys := by
  simp [handlerArgs, List.zipWith_map_left, h.dec]

/-- the stub decodes the same result from a translated payload -/
theorem decodeResult_hom (h : CodecHom f σ₁ σ₂) (sk : Skeleton) (numOut : Nat) (outIsErr cancelled : Bool)
    (p : P₁) (err : Option String) (ty : Nat) :
    decodeResult sk σ₂ numOut outIsErr cancelled (f p) err ty =
      decodeResult sk σ₁ numOut outIsErr cancelled p err ty := by
  simp only [decodeResult, h.dec]

/-- response loop + stub on a translated response frame: the same `CallResult` -/
theorem callerResult_hom (h : CodecHom f σ₁ σ₂) (sk : Skeleton) (prev : Option String) (numOut : Nat)
    (outIsErr : Bool) (ty : Nat) (t : Tree P₁) :
    callerResult sk σ₂ prev numOut outIsErr ty (t.map f) = callerResult sk σ₁ prev numOut outIsErr ty t := by
  simp only [callerResult, Tree.field_map]
  cases t.field sk.tagResValue with
  | none => rfl
  | some v =>
    cases v <;> try rfl
    cases t.field sk.tagResErr with
    | none => rfl
    | some e =>
      cases e <;> try rfl
      simp only [Option.map_some, Tree.map, decodeResult_hom h]

end Hom

/-! ### one call, end to end -/

/-- What the two applications can observe of one call. -/
inductive CallObs (V : Type) where
  /-- the stub panicked before anything was sent (recovered → `setErr`) -/
  | stubPanic (why : String)
  /-- the callee could not decode the request frame -/
  | reqUndecodable
  /-- the handler ran (on `args`, for the function named `fn`, under call id `reqCall`), but the
      caller could not decode the response frame -/
  | resUndecodable (reqCall fn : String) (args : List (Option V))
  /-- the handler ran on `args`; the response carried call id `resCall` (`none`: not a string) and
      the stub returned `result` -/
  | done (reqCall fn : String) (args : List (Option V)) (resCall : Option String) (result : CallResult V)
  deriving Repr

/-- What arrives at the other end of the link for a frame written at this end.  Message link: the
    frame.  Stream link: the frame is wrapped by the write adapter (`mkEnvelope`), the decoder
    goroutine takes the envelope apart (`parseEnvelope`) and hands the member to the request loop
    (`isRequest`) resp. the response loop; a member of the wrong kind never reaches this loop. -/
def viaLink {P : Type} (sk : Skeleton) (stream isRequest : Bool) (frame : Tree P) : Option (Tree P) :=
  if stream then
    match parseEnvelope (mkEnvelope sk isRequest frame) with
    | some (b, t) => if b = isRequest then some t else none
    | none => none
  else some frame

/-- The composite: the caller's stub builds the request for `name(args)` under `callId`; it travels
    over the link; the callee decodes it (Go's `req.Unmarshal`), decodes the arguments into
    `paramTys`, the handler `hdl` (given the function name and the decoded arguments) returns
    `r : Ret V`; the callee builds the response; it travels back; the caller's response loop and
    stub (`callerResult`, for a function with `numOut` results, `Out(0)` of type `ty`) decode it. -/
def callObservables {V P : Type} (sk : Skeleton) (σ : Codec V P) (stream : Bool) (callId name : String)
    (args : List (Arg V)) (paramTys : List Nat) (hdl : String → List (Option V) → Ret V)
    (prev : Option String) (numOut : Nat) (outIsErr : Bool) (ty : Nat) : CallObs V :=
  match stubBuild sk σ callId name args with
  | .panic why => .stubPanic why
  | .frame rq =>
    match (viaLink sk stream true rq).bind (goDecodeRequest sk) with
    | none => .reqUndecodable
    | some (c, fn, ps) =>
      let as := handlerArgs σ ps paramTys
      match viaLink sk stream false (mkResponse sk σ c (hdl fn as)) with
      | none => .resUndecodable c fn as
      | some rs =>
        match callerResult sk σ prev numOut outIsErr ty rs with
        | none => .resUndecodable c fn as
        | some res => .done c fn as (strField sk.tagResCall rs) res

theorem viaLink_map {P₁ P₂ : Type} (f : P₁ → P₂) (sk : Skeleton) (stream isRequest : Bool) (t : Tree P₁) :
    viaLink sk stream isRequest (t.map f) = (viaLink sk stream isRequest t).map (Tree.map f) := by
  unfold viaLink
  cases stream with
  | false => rfl
  | true =>
    simp only [if_true, mkEnvelope_map, parseEnvelope_map]
    cases parseEnvelope (mkEnvelope sk isRequest t) with
    | none => rfl
    | some x =>
      obtain ⟨b, u⟩ := x
      simp only [Option.map_some]
      by_cases e : b = isRequest <;> simp [e]

/-- **Payload parametricity, end to end.**  For every skeleton, every workload item and both link
    kinds: if `f` is a codec homomorphism from `σ₁` to `σ₂`, one call has the same observables under
    both serializers — same panic, same decoded handler arguments, same function, same call ids, same
    `CallResult`. -/
theorem roundtrip_param {V P₁ P₂ : Type} {f : P₁ → P₂} {σ₁ : Codec V P₁} {σ₂ : Codec V P₂}
    (h : CodecHom f σ₁ σ₂) (sk : Skeleton) (stream : Bool) (callId name : String) (args : List (Arg V))
    (paramTys : List Nat) (hdl : String → List (Option V) → Ret V) (prev : Option String) (numOut : Nat)
    (outIsErr : Bool) (ty : Nat) :
    callObservables sk σ₂ stream callId name args paramTys hdl prev numOut outIsErr ty =
      callObservables sk σ₁ stream callId name args paramTys hdl prev numOut outIsErr ty := by
  unfold callObservables
  rw [stubBuild_map h]
  cases stubBuild sk σ₁ callId name args with
  | panic why => rfl
  | frame rq =>
    simp only [Built.map, viaLink_map]
    cases viaLink sk stream true rq with
    | none => rfl
    | some rq' =>
      simp only [Option.map_some, Option.bind_some, goDecodeRequest_map]
      cases goDecodeRequest sk rq' with
      | none => rfl
      | some x =>
        obtain ⟨c, fn, ps⟩ := x
        simp only [Option.map_some, handlerArgs_hom h, mkResponse_map h, viaLink_map]
        cases viaLink sk stream false (mkResponse sk σ₁ c (hdl fn (handlerArgs σ₁ ps paramTys))) with
        | none => rfl
        | some rs =>
          simp only [Option.map_some, callerResult_hom h, strField_map]

/-! ### the link kind does not matter either -/

/-- On a tree whose write adapters set exactly one member and whose tags are the documented ones, a
    non-null frame comes out of the stream link as it went in. -/
theorem viaLink_stream {P : Type} (sk : Skeleton) (he : EnvFacts sk) (ht : DocTags sk) (isRequest : Bool)
    (t : Tree P) (hn : t.isNull = false) : viaLink sk true isRequest t = some t := by
  cases isRequest with
  | true => simp [viaLink, parseEnvelope_request sk he ht t hn]
  | false => simp [viaLink, parseEnvelope_response sk he ht t hn]

/-- …so one call has the same observables over a stream link as over a message link. -/
theorem callObservables_stream_eq_message {V P : Type} (sk : Skeleton) (he : EnvFacts sk) (ht : DocTags sk)
    (σ : Codec V P) (callId name : String) (args : List (Arg V)) (paramTys : List Nat)
    (hdl : String → List (Option V) → Ret V) (prev : Option String) (numOut : Nat) (outIsErr : Bool) (ty : Nat) :
    callObservables sk σ true callId name args paramTys hdl prev numOut outIsErr ty =
      callObservables sk σ false callId name args paramTys hdl prev numOut outIsErr ty := by
  have hl : ∀ (b : Bool) (t : Tree P), t.isNull = false → viaLink sk true b t = viaLink sk false b t :=
    fun b t hn => by rw [viaLink_stream sk he ht b t hn]; rfl
  unfold callObservables
  cases hb : stubBuild sk σ callId name args with
  | panic why => rfl
  | frame rq =>
    have hrq : rq.isNull = false := by
      cases args with
      | nil => simp [stubBuild] at hb
      | cons a r =>
        cases a with
        | ctx =>
          simp only [stubBuild] at hb
          split at hb
          · cases hb
          · cases hb; rfl
        | val v ty => simp [stubBuild] at hb
        | func id => simp [stubBuild] at hb
    simp only [hl true rq hrq]
    cases (viaLink sk false true rq).bind (goDecodeRequest sk) with
    | none => rfl
    | some x =>
      obtain ⟨c, fn, ps⟩ := x
      simp only [hl false (mkResponse sk σ c _) rfl]

/-! ### a concrete pair of serializers related by a translation

  Application values: numbers and strings.  `textCodec` has payload type `String` ("JSON with raw
  payloads": a payload is a piece of text), `bytesCodec` has payload type `List Nat` ("byte-string
  payloads": a payload is a sequence of code units; one number per code point keeps the example
  short).  The translation is `bytesOf`.  The two encoders are written independently; the decoders
  share the scanner `decodeCP`, which reads code points. -/

inductive Val where
  | num (n : Nat)
  | str (s : String)
  deriving DecidableEq, Repr

/-- the translation: a text as its sequence of code points -/
def bytesOf (s : String) : List Nat := s.toList.map Char.toNat

/-- a left inverse -/
def textOf (q : List Nat) : String := String.ofList (q.map Char.ofNat)

theorem textOf_bytesOf (s : String) : textOf (bytesOf s) = s := by
  simp [textOf, bytesOf, List.map_map, Function.comp_def, Char.ofNat_toNat, String.ofList_toList]

/-- decimal digits, most significant first → the number (`none`: empty or not all digits) -/
def digitsVal : List Nat → Option Nat → Option Nat
  | [], acc => acc
  | d :: r, acc => if 48 ≤ d ∧ d ≤ 57 then digitsVal r (some (acc.getD 0 * 10 + (d - 48))) else none

/-- `unmarshal` on code points: type 0 = number (decimal digits), type 1 = string (in quotes) -/
def decodeCP (q : List Nat) (τ : Nat) : Option Val :=
  match τ with
  | 0 => (digitsVal q none).map .num
  | 1 =>
    match q with
    | 34 :: r => if r.getLast? = some 34 then some (.str (textOf r.dropLast)) else none
    | _ => none
  | _ => none

def textCodec : Codec Val String where
  enc := fun
    | .num n => String.ofList (Nat.toDigits 10 n)
    | .str s => String.ofList ('"' :: (s.toList ++ ['"']))
  encNil := "null"
  dec := fun p τ => decodeCP (bytesOf p) τ
  ofStr := .str
  strTy := 1
  ctxVal := .str "<context>"

def bytesCodec : Codec Val (List Nat) where
  enc := fun
    | .num n => (Nat.toDigits 10 n).map Char.toNat
    | .str s => 34 :: (s.toList.map Char.toNat ++ [34])
  encNil := [110, 117, 108, 108]
  dec := decodeCP
  ofStr := .str
  strTy := 1
  ctxVal := .str "<context>"

theorem text_bytes_hom : CodecHom bytesOf textCodec bytesCodec where
  enc := fun v => by cases v <;> simp [textCodec, bytesCodec, bytesOf, String.toList_ofList]
  encNil := by decide
  dec := fun _ _ => rfl
  ofStr := fun _ => rfl
  strTy := rfl
  ctxVal := rfl

/-- the generic construction gives another bytes codec for free -/
theorem text_pushforward_hom : CodecHom bytesOf textCodec (textCodec.pushforward bytesOf textOf) :=
  CodecHom.pushforward textCodec bytesOf textOf textOf_bytesOf

end Panrpc.Wire
