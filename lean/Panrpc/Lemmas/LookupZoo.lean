/-
  Lemmas/LookupZoo.lean — one concrete object shape used by the examples and witness theorems of
  C06/C07.  It is the serialisation of this Go program (the resolutions claimed in the Props files
  for it were compared with real `reflect`, Go 1.23):

      type Sub struct{ id int }
      func (s Sub)  Val(ctx context.Context) error
      func (s *Sub) Ptr(ctx context.Context) error
      type inner  struct{ Sub Sub; PSub *Sub }      func (inner) InnerM(ctx context.Context) error
      type pinner struct{ Deep Sub }
      type Iface interface{ Val(ctx context.Context) error; hidden(ctx context.Context) error }
      type impl struct{}                             (implements Iface)
      type MyInt int                                 func (MyInt) Get(ctx context.Context) error
      type E2 struct{ X Sub };  type A struct{ E2 };  type B struct{ E2 }
      type Root struct {
          inner; *pinner
          NilP *Sub; I Iface; NI Iface; priv Sub; N MyInt; PN *MyInt
          A; B
          _ int; F func(context.Context) error; PP **Sub
      }
      root := &Root{inner: inner{Sub{1}, &Sub{2}}, pinner: &pinner{Sub{3}} | nil, I: impl{}, priv: Sub{4}, N: 9, PN: &five, PP: &&Sub{7}}

  type indices: 0 Root, 1 inner, 2 pinner, 3 *pinner, 4 Sub, 5 *Sub, 6 Iface, 7 MyInt, 8 *MyInt, 9 E2,
                10 A, 11 B, 12 int, 13 func, 14 **Sub, 15 *Root, 16 impl
-/
import Panrpc.Model.Lookup
import Panrpc.Spec.Exposed

namespace Panrpc.Lk.Zoo
open Panrpc.Lk

def fd (n : String) (e : Bool) (emb : Bool) (t : Nat) : FieldDecl := ⟨n, e, emb, t⟩
def md (n : String) (e : Bool := true) (k : Nat := 1) : MethodDecl := ⟨n, e, k⟩

def tt : TypeTable := [
  .struct [fd "inner" false true 1, fd "pinner" false true 3, fd "NilP" true false 5, fd "I" true false 6,
           fd "NI" true false 6, fd "priv" false false 4, fd "N" true false 7, fd "PN" true false 8,
           fd "A" true true 10, fd "B" true true 11, fd "_" false false 12, fd "F" true false 13,
           fd "PP" true false 14] [md "InnerM"],
  .struct [fd "Sub" true false 4, fd "PSub" true false 5] [md "InnerM"],
  .struct [fd "Deep" true false 4] [],
  .ptr 2 [],
  .struct [fd "id" false false 12] [md "Val"],
  .ptr 4 [md "Ptr", md "Val"],
  .iface [md "Val", md "hidden" false],
  .other false [md "Get"],
  .ptr 7 [md "Get"],
  .struct [fd "X" true false 4] [],
  .struct [fd "E2" true true 9] [],
  .struct [fd "E2" true true 9] [],
  .other false [],
  .other true [],
  .ptr 5 [],
  .ptr 0 [md "InnerM"],
  .struct [] [md "Val"]]

def sub (i : Nat) : Val := .struct 4 i [.other 12 (100 + i)]

/-- the Root struct value; `pin` = target of the embedded `*pinner` -/
def rootS (pin : Option Val) : Val := .struct 0 0 [
  .struct 1 10 [sub 1, .ptr 5 (some (sub 2))],
  .ptr 3 pin,
  .ptr 5 none, .iface 6 (some (.struct 16 20 [])), .iface 6 none, sub 4, .other 7 9, .ptr 8 (some (.other 7 5)),
  .struct 10 30 [.struct 9 31 [sub 32]], .struct 11 40 [.struct 9 41 [sub 42]],
  .other 12 50, .other 13 51, .ptr 14 (some (.ptr 5 (some (sub 7))))]

/-- `&Root{…, pinner: &pinner{Sub{3}}, …}` -/
def root : Option Val := some (.ptr 15 (some (rootS (some (.struct 2 11 [sub 3])))))
/-- the same with `pinner: nil` -/
def rootNilEmb : Option Val := some (.ptr 15 (some (rootS none)))

/-! A shape with mutually recursive embedding (also compared with real `reflect`):

      type L1 struct{ *L2; W Sub };  type L2 struct{ *L1; U Sub }
      recRoot    := &L1{&L2{&L1{nil, Sub{3}}, Sub{2}}, Sub{1}}
      recRootNil := &L1{nil, Sub{1}}
   type indices: 0 L1, 1 *L2, 2 L2, 3 *L1, 4 Sub, 5 int -/

def recTT : TypeTable := [
  .struct [fd "L2" true true 1, fd "W" true false 4] [],
  .ptr 2 [],
  .struct [fd "L1" true true 3, fd "U" true false 4] [],
  .ptr 0 [],
  .struct [fd "id" false false 5] [md "Val"],
  .other false []]

def rsub (i : Nat) : Val := .struct 4 i [.other 5 (100 + i)]

def recRoot : Option Val :=
  some (.ptr 3 (some (.struct 0 10 [
    .ptr 1 (some (.struct 2 20 [.ptr 3 (some (.struct 0 30 [.ptr 1 none, rsub 3])), rsub 2])),
    rsub 1])))

def recRootNil : Option Val := some (.ptr 3 (some (.struct 0 10 [.ptr 1 none, rsub 1])))

end Panrpc.Lk.Zoo
