/-
  Lemmas/SystemInv.lean — M3: preservation of the handler-return / invocation-log invariant.
  (Split by action group only to keep each declaration small.)
-/
import Panrpc.Lemmas.System

namespace Panrpc.Sys

local macro "vinv_tac" hg:ident hr:ident h:ident hf:ident hs:ident a:ident : tactic => `(tactic| (
  obtain ⟨r1, r1', r2, r3, r4, r5⟩ := $hr
  obtain ⟨h1, h2, h3, h4⟩ := $h
  obtain ⟨f1, f0, f2, f3, f4, f5, f6, f7, f8⟩ := $hf
  clear f1 f2 f3 f5 f7 f8 r1 r1' r2
  cases $a:ident <;> simp only [Act.group] at $hg:ident <;> (try omega)
  all_goals clear $hg
  all_goals simp only [step, startCall] at $hs:ident
  all_goals (repeat' split at $hs:ident) <;> (try simp at $hs:ident) <;> (try subst $hs)
  all_goals refine ⟨?_, ?_, ?_, ?_⟩
  all_goals first | assumption | (intros; grind [upd2_apply, updE_apply, HPc.entered, invCount_append,
    invCount_mkInv, invCount_map_setRet, mem_map_setRet, mem_append_mkInv, setRet_ep, setRet_h, setRet_call,
    setRet_fn, setRet_args, setRet_ret])))

theorem vinv_step_g0 (sk : Skeleton) (hf : Facts sk) {s s' : State} (a : Act) (hg : a.group = 0)
    (hr : RInv s) (h : VInv s) (hs : step sk s a = some s') : VInv s' := by
  vinv_tac hg hr h hf hs a

theorem vinv_step_g1 (sk : Skeleton) (hf : Facts sk) {s s' : State} (a : Act) (hg : a.group = 1)
    (hr : RInv s) (h : VInv s) (hs : step sk s a = some s') : VInv s' := by
  vinv_tac hg hr h hf hs a

theorem vinv_step_g2 (sk : Skeleton) (hf : Facts sk) {s s' : State} (a : Act) (hg : a.group = 2)
    (hr : RInv s) (h : VInv s) (hs : step sk s a = some s') : VInv s' := by
  vinv_tac hg hr h hf hs a

theorem vinv_step_g3 (sk : Skeleton) (hf : Facts sk) {s s' : State} (a : Act) (hg : a.group = 3)
    (hr : RInv s) (h : VInv s) (hs : step sk s a = some s') : VInv s' := by
  vinv_tac hg hr h hf hs a

theorem vinv_step_g4 (sk : Skeleton) (hf : Facts sk) {s s' : State} (a : Act) (hg : a.group = 4)
    (hr : RInv s) (h : VInv s) (hs : step sk s a = some s') : VInv s' := by
  vinv_tac hg hr h hf hs a

theorem vinv_step (sk : Skeleton) (hf : Facts sk) {s s' : State} (a : Act)
    (hr : RInv s) (h : VInv s) (hs : step sk s a = some s') : VInv s' := by
  cases a <;> first
    | exact vinv_step_g0 sk hf _ rfl hr h hs
    | exact vinv_step_g1 sk hf _ rfl hr h hs
    | exact vinv_step_g2 sk hf _ rfl hr h hs
    | exact vinv_step_g3 sk hf _ rfl hr h hs
    | exact vinv_step_g4 sk hf _ rfl hr h hs

end Panrpc.Sys
