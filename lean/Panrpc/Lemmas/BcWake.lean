/-
  Lemmas/BcWake.lean — whoever leaves the table is woken; outcomes of the receive
  function are justified; the closed flag empties the table for good.
-/
import Panrpc.Lemmas.BcSafe

namespace Panrpc.Bc

def Entry.signalled (e : Entry) : Bool := e.chanClosed || e.doneClosed

structure WK (s : State) : Prop where
  removed_ctx  : ∀ g e, s.entries g = some e → s.table e.key ≠ some g → e.ctxDone = true
  removed_sig  : ∀ g e, s.entries g = some e → s.table e.key ≠ some g → e.signalled = true
  sig_removed  : ∀ g e, s.entries g = some e → e.signalled = true → s.table e.key ≠ some g
  closed_empty : s.closed = true → ∀ k, s.table k = none
  got_ctx      : ∀ t k g x, s.rcvs t = .gotCtx k g x → s.ctxs x = true
  got_closed   : ∀ t k g x, s.rcvs t = .gotClosed k g x → (s.entries g).map Entry.signalled = some true

theorem wk_init : WK init := by constructor <;> simp [init]

theorem wk_step (sk : Skeleton) (hy : Hyg sk) (hk : Wakes sk) {s s' : State} (a : Act)
    (hw : WF s) (h : WK s) (hs : step sk s a = some s') : WK s' := by
  obtain ⟨h1, h2, h3, h4, h5, h6⟩ := h
  obtain ⟨w1, w2, w3, w4, w5, w6, w7⟩ := hw
  obtain ⟨y1, y2⟩ := hy
  obtain ⟨k1, k2, k3, k4, k5, k6⟩ := hk
  cases a <;> simp only [step] at hs
  all_goals (repeat' split at hs) <;> (try simp at hs) <;> (try subst hs)
  all_goals (refine ⟨?_, ?_, ?_, ?_, ?_, ?_⟩ <;> (try simp only [upd_apply]) <;> intros <;>
    grind [upd_apply, freeEntry, closeEntry, Entry.signalled, Rcv.binding])

end Panrpc.Bc
