/-
  Lemmas/RegistryReach.lean — M4: every reachable state meets the four invariants; the general
  (∀ sk, Facts sk → …) forms of the C13 / C14 / C15 statements.
-/
import Panrpc.Lemmas.RegistryIso
import Panrpc.Lemmas.RegistryLog
import Panrpc.Lemmas.RegistryGhost

namespace Panrpc.Rg

structure AllInv (s : State) : Prop where
  pc    : PcInv s
  tab   : TabInv s
  log   : LogInv s
  ghost : GhostInv s

theorem reach_inv {sk : Skeleton} (h : Facts sk) {s : State} (hr : Reach sk s) : AllInv s := by
  induction hr with
  | init => exact ⟨pc_init, tab_init, log_init, ghost_init⟩
  | step a _ hs ih =>
    exact ⟨pc_step h a ih.pc hs, tab_step h a ih.pc ih.tab hs, log_step h a ih.pc ih.log hs,
           ghost_step h a ih.pc ih.ghost hs⟩

theorem step_eq_stepT {sk : Skeleton} (h : Facts sk) : step sk = stepT sk.watcherCallsSetErr := by
  funext s a; exact step_facts h s a

theorem id_stable_run {sk : Skeleton} (h : Facts sk) (l i : Nat) : ∀ (acts : List Act) (s s' : State),
    Reach sk s → run sk s acts = some s' → (s.links l).id = some i → (s'.links l).id = some i := by
  intro acts
  induction acts with
  | nil => intro s s' _ hrun hid; simp [run, runFrom] at hrun; subst hrun; exact hid
  | cons a as ih =>
    intro s s' hr hrun hid
    simp only [run, runFrom] at hrun
    cases hst : step sk s a with
    | none => simp [hst] at hrun
    | some s1 =>
      simp only [hst] at hrun
      refine ih s1 s' (Reach.step a hr hst) hrun ?_
      have hp := (reach_inv h hr).pc l
      rw [step_facts h] at hst
      exact idT_stable _ a l i hp hid hst

/-! ### consequences of the invariants, in the vocabulary of the properties -/

theorem mem_expect (k : HookKind) (l : Nat) (o : Option Nat) (e : HookEv) :
    e ∈ expect k l o ↔ ∃ i, o = some i ∧ e = ⟨k, l, i⟩ := by
  cases o <;> simp [expect]

theorem expect_length (k : HookKind) (l : Nat) (o : Option Nat) : (expect k l o).length ≤ 1 := by
  cases o <;> simp [expect]

/-- a connect event of link `l` is in the log iff it carries the id of `l` -/
theorem regConnect_mem {s : State} (hi : LogInv s) (l i : Nat) :
    ⟨.regConnect, l, i⟩ ∈ s.hookLog ↔ (s.links l).id = some i := by
  have h := hi.regC l
  have hm := mem_evs ⟨.regConnect, l, i⟩ s.hookLog .regConnect l
  rw [h, mem_expect] at hm
  constructor
  · intro hin
    obtain ⟨j, hj, he⟩ := hm.mpr ⟨hin, rfl, rfl⟩
    simp at he; subst he; exact hj
  · intro hid
    exact (hm.mp ⟨i, hid, rfl⟩).1

theorem linkConnect_mem {s : State} (hi : LogInv s) (l i : Nat) :
    ⟨.linkConnect, l, i⟩ ∈ s.hookLog ↔ (s.links l).id = some i := by
  have h := hi.linkC l
  have hm := mem_evs ⟨.linkConnect, l, i⟩ s.hookLog .linkConnect l
  rw [h, mem_expect] at hm
  constructor
  · intro hin
    obtain ⟨j, hj, he⟩ := hm.mpr ⟨hin, rfl, rfl⟩
    simp at he; subst he; exact hj
  · intro hid
    exact (hm.mp ⟨i, hid, rfl⟩).1

theorem regDisconnect_mem {s : State} (hi : LogInv s) (l i : Nat) :
    ⟨.regDisconnect, l, i⟩ ∈ s.hookLog ↔ (s.links l).discId = some i := by
  have h := hi.regD l
  have hm := mem_evs ⟨.regDisconnect, l, i⟩ s.hookLog .regDisconnect l
  rw [h, mem_expect] at hm
  constructor
  · intro hin
    obtain ⟨j, hj, he⟩ := hm.mpr ⟨hin, rfl, rfl⟩
    simp at he; subst he; exact hj
  · intro hid
    exact (hm.mp ⟨i, hid, rfl⟩).1

theorem linkDisconnect_mem {s : State} (hi : LogInv s) (l i : Nat) :
    ⟨.linkDisconnect, l, i⟩ ∈ s.hookLog ↔ (s.links l).discId = some i := by
  have h := hi.linkD l
  have hm := mem_evs ⟨.linkDisconnect, l, i⟩ s.hookLog .linkDisconnect l
  rw [h, mem_expect] at hm
  constructor
  · intro hin
    obtain ⟨j, hj, he⟩ := hm.mpr ⟨hin, rfl, rfl⟩
    simp at he; subst he; exact hj
  · intro hid
    exact (hm.mp ⟨i, hid, rfl⟩).1

theorem discId_eq (k : Link) (i : Nat) :
    k.discId = some i ↔ (k.setup = .unregistered ∧ k.id = some i) := by
  simp only [Link.discId]; split <;> simp_all

/-- enumeration = announced as connected and not yet as disconnected -/
theorem enumeration_eq_live {s : State} (hi : AllInv s) (i l : Nat) :
    s.remotes i = some l ↔
      (⟨.regConnect, l, i⟩ ∈ s.hookLog ∧ ⟨.regDisconnect, l, i⟩ ∉ s.hookLog) := by
  rw [owned_iff hi.tab, regConnect_mem hi.log, regDisconnect_mem hi.log, discId_eq]
  have hp := hi.pc l
  obtain ⟨p1, p2, p3, p4, p5, p6⟩ := hp
  constructor
  · rintro ⟨h1, h2⟩
    refine ⟨h1, ?_⟩
    rintro ⟨h3, _⟩
    simp [h3, Setup.live] at h2
  · rintro ⟨h1, h2⟩
    refine ⟨h1, ?_⟩
    have hn : (s.links l).id ≠ none := by simp [h1]
    rw [Ne, p1] at hn
    cases hset : (s.links l).setup <;> simp_all [Setup.live]

end Panrpc.Rg
