/-
  Lemmas/EndpointBc.lean — what single M1 steps do to the components M2's invariants talk
  about (closed flag, the binding of a receiver thread, the delivery log, the table at other
  keys).  Proved once here by unfolding `Bc.step`; the M2 preservation proofs use these instead
  of unfolding M1 again.
-/
import Panrpc.Lemmas.Broadcaster

namespace Panrpc.Bc
open Panrpc

/-- only `Close` changes the closed flag -/
theorem step_closed (sk : Skeleton) {b b' : State} {a : Act} (hs : step sk b a = some b')
    (ha : a ≠ .close) : b'.closed = b.closed := by
  cases a <;> simp only [step] at hs
  all_goals (repeat' split at hs) <;> (try simp at hs) <;> (try subst hs) <;> (try rfl)
  all_goals simp_all

/-- the same, without a side condition (for `grind`) -/
theorem step_closed' (sk : Skeleton) {b b' : State} {a : Act} (hs : step sk b a = some b') :
    a = .close ∨ b'.closed = b.closed := by
  by_cases ha : a = .close
  · exact Or.inl ha
  · exact Or.inr (step_closed sk hs ha)

/-- the closed flag is never reset -/
theorem step_closed_mono (sk : Skeleton) {b b' : State} {a : Act} (hs : step sk b a = some b')
    (hc : b.closed = true) : b'.closed = true := by
  cases a <;> simp only [step] at hs
  all_goals (repeat' split at hs) <;> (try simp at hs) <;> (try subst hs) <;> (try exact hc)
  all_goals simp_all

theorem close_closes (sk : Skeleton) (hk : sk.bcCloseSetsClosed = true) {b b' : State}
    (hs : step sk b .close = some b') : b'.closed = true := by
  simp only [step] at hs
  split at hs <;> simp at hs
  subst hs; simp [hk]

/-- `Receive` refuses only on a closed broadcaster -/
theorem refused_closed (sk : Skeleton) {b b' : State} {t k x : Nat}
    (hs : step sk b (.receive t k x) = some b') (hr : b'.rcvs t = .refused) : b.closed = true := by
  simp only [step] at hs
  (repeat' split at hs) <;> (try simp at hs) <;> (try subst hs) <;> simp_all

/-- and always on a closed broadcaster -/
theorem closed_refuses (sk : Skeleton) (hr : sk.bcReceiveRefusesWhenClosed = true) {b b' : State} {t k x : Nat}
    (hs : step sk b (.receive t k x) = some b') (hc : b.closed = true) : b'.rcvs t = .refused := by
  simp only [step] at hs
  (repeat' split at hs) <;> (try simp at hs) <;> (try subst hs) <;> simp_all

/-- under the source fact that `Receive` fails only when closed, no receiver is ever refused for its context -/
theorem receive_not_refusedCtx (sk : Skeleton) (ho : sk.bcReceiveErrorsOnlyClosed = true) {b b' : State} {t k x : Nat}
    (hs : step sk b (.receive t k x) = some b') : b'.rcvs t ≠ .refusedCtx := by
  simp only [step] at hs
  (repeat' split at hs) <;> (try simp at hs) <;> (try subst hs) <;> simp_all

/-- without it, a caller context that is done already is refused on an open broadcaster -/
theorem done_ctx_refused (sk : Skeleton) (ho : sk.bcReceiveErrorsOnlyClosed = false) {b b' : State} {t k x : Nat}
    (hs : step sk b (.receive t k x) = some b') (hc : b.closed = false) (hx : b.ctxs x = true) :
    b'.rcvs t = .refusedCtx := by
  simp only [step] at hs
  (repeat' split at hs) <;> (try simp at hs) <;> (try subst hs) <;> simp_all

/-- when `Receive` can run at all (whatever it answers) -/
theorem receive_isSome (sk : Skeleton) (b : State) (t k x : Nat) :
    (step sk b (.receive t k x)).isSome = decide (b.crashed = false ∧ b.lockHolder = none ∧ b.rcvs t = .absent) := by
  simp only [step]
  (repeat' split) <;> simp_all

end Panrpc.Bc
