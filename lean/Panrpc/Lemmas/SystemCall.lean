/-
  Lemmas/SystemCall.lean — M3: preservation of the call-thread / pending-table invariant.
  (Split by action group only to keep each declaration small.)
-/
import Panrpc.Lemmas.System

namespace Panrpc.Sys

local macro "cinv_tac" hg:ident h:ident hf:ident hs:ident a:ident : tactic => `(tactic| (
  obtain ⟨h1, h2, h3, h4, h5, h6⟩ := $h
  obtain ⟨f1, f0, f2, f3, f4, f5, f6, f7, f8⟩ := $hf
  clear f2 f3 f4 f5 f6
  cases $a:ident <;> simp only [Act.group] at $hg:ident <;> (try omega)
  all_goals clear $hg
  all_goals simp only [step, startCall] at $hs:ident
  all_goals (repeat' split at $hs:ident) <;> (try simp at $hs:ident) <;> (try subst $hs)
  all_goals refine ⟨?_, ?_, ?_, ?_, ?_, ?_⟩
  all_goals first | assumption | (intros; grind [upd2_apply, updE_apply, CPc.waiting, pubKey, recvKey])))

theorem cinv_step_g0 (sk : Skeleton) (hf : Facts sk) {s s' : State} (a : Act) (hg : a.group = 0)
    (h : CInv s) (hs : step sk s a = some s') : CInv s' := by
  cinv_tac hg h hf hs a

theorem cinv_step_g1 (sk : Skeleton) (hf : Facts sk) {s s' : State} (a : Act) (hg : a.group = 1)
    (h : CInv s) (hs : step sk s a = some s') : CInv s' := by
  cinv_tac hg h hf hs a

theorem cinv_step_g2 (sk : Skeleton) (hf : Facts sk) {s s' : State} (a : Act) (hg : a.group = 2)
    (h : CInv s) (hs : step sk s a = some s') : CInv s' := by
  cinv_tac hg h hf hs a

theorem cinv_step_g3 (sk : Skeleton) (hf : Facts sk) {s s' : State} (a : Act) (hg : a.group = 3)
    (h : CInv s) (hs : step sk s a = some s') : CInv s' := by
  cinv_tac hg h hf hs a

theorem cinv_step_g4 (sk : Skeleton) (hf : Facts sk) {s s' : State} (a : Act) (hg : a.group = 4)
    (h : CInv s) (hs : step sk s a = some s') : CInv s' := by
  cinv_tac hg h hf hs a

theorem cinv_step (sk : Skeleton) (hf : Facts sk) {s s' : State} (a : Act)
    (h : CInv s) (hs : step sk s a = some s') : CInv s' := by
  cases a <;> first
    | exact cinv_step_g0 sk hf _ rfl h hs
    | exact cinv_step_g1 sk hf _ rfl h hs
    | exact cinv_step_g2 sk hf _ rfl h hs
    | exact cinv_step_g3 sk hf _ rfl h hs
    | exact cinv_step_g4 sk hf _ rfl h hs

end Panrpc.Sys
